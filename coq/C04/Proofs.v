(* C04 proofs: percent-encoding and decimal round trips, converter round trips
   to_python (unquote (to_url v)) = v on each converter's canonical domain. *)
From Coq Require Import ZArith Lia ZifyBool ZifyN DecimalFacts DecimalPos DecimalN.
From Wz Require Import lib.Bytes lib.BytesFacts lib.Utf8 lib.Utf8Facts C03.Gen C03.Trie C03.TrieFacts C03.Model C03.Proofs C04.Model.
Open Scope N_scope.
Ltac Zify.zify_post_hook ::= Z.to_euclidean_division_equations.

(* ------------------------------------------------------------------ percent-encoding *)
Lemma hex_digit_sweep :
  forallb (fun n => is_hex (hex_digit n) && (hex_val (hex_digit n) =? n) && (hex_digit n <? 128)
                    && negb (hex_digit n =? PERCENT)) (nat_range 16) = true.
Proof. vm_compute. reflexivity. Qed.

Lemma hex_digit_ok n : n < 16 ->
  is_hex (hex_digit n) = true /\ hex_val (hex_digit n) = n /\ hex_digit n < 128 /\ hex_digit n <> PERCENT.
Proof.
  intro H. pose proof (sweep _ 16 hex_digit_sweep n H) as S. cbv beta in S.
  repeat (apply andb_prop in S; let X := fresh "S" in destruct S as [S X]).
  repeat split; try assumption; lia.
Qed.

Lemma always_safe_not_percent : always_safe PERCENT = false.
Proof. vm_compute. reflexivity. Qed.

Lemma unquote_bytes_literal b r : b <> PERCENT -> unquote_bytes (b :: r) = b :: unquote_bytes r.
Proof. intro H. cbn [unquote_bytes]. destruct (b =? PERCENT) eqn:E; [lia|reflexivity]. Qed.

Lemma unquote_quote_byte safe b rest :
  mem PERCENT safe = false -> b < 256 ->
  unquote_bytes (quote_byte safe b ++ rest) = b :: unquote_bytes rest.
Proof.
  intros Hs Hb. unfold quote_byte.
  destruct ((b <? 128) && (always_safe b || mem b safe)) eqn:E.
  - cbn [app]. apply unquote_bytes_literal. intro Hp. subst b.
    rewrite always_safe_not_percent, Hs in E. rewrite andb_false_r in E. discriminate.
  - assert (H1 : b / 16 < 16) by lia. assert (H2 : b mod 16 < 16) by lia.
    destruct (hex_digit_ok _ H1) as (A1 & A2 & _ & _). destruct (hex_digit_ok _ H2) as (B1 & B2 & _ & _).
    cbn [app unquote_bytes]. rewrite N.eqb_refl, A1, B1, A2, B2. cbn [andb]. f_equal. lia.
Qed.

Lemma unquote_quote_bytes safe bs rest :
  mem PERCENT safe = false -> Forall (fun b => b < 256) bs ->
  unquote_bytes (flat_map (quote_byte safe) bs ++ rest) = bs ++ unquote_bytes rest.
Proof.
  intros Hs H. induction H as [|b bs Hb _ IH]; [reflexivity|].
  cbn [flat_map]. rewrite <- app_assoc, unquote_quote_byte by assumption. rewrite IH. reflexivity.
Qed.

Lemma quote_byte_ascii safe b c : b < 256 -> In c (quote_byte safe b) -> c < 128.
Proof.
  intros Hb. unfold quote_byte. destruct ((b <? 128) && (always_safe b || mem b safe)) eqn:E.
  - intros [<-|[]]. lia.
  - assert (H1 : b / 16 < 16) by lia. assert (H2 : b mod 16 < 16) by lia.
    destruct (hex_digit_ok _ H1) as (_ & _ & A & _). destruct (hex_digit_ok _ H2) as (_ & _ & B & _).
    intros [<-|[<-|[<-|[]]]]; [unfold PERCENT; lia|exact A|exact B].
Qed.

Lemma utf8_bytes_forall s : valid_text s = true -> Forall (fun b => b < 256) (utf8_encode s).
Proof. intro H. apply Forall_forall. intros b Hb. exact (utf8_encode_bytes _ _ H Hb). Qed.

Lemma quote_ascii safe s : valid_text s = true -> forallb (fun c => c <? 128) (quote safe s) = true.
Proof.
  intro H. apply forallb_forall. intros c Hc. unfold quote in Hc. apply in_flat_map in Hc.
  destruct Hc as (b & Hb & Hc). apply N.ltb_lt. eapply quote_byte_ascii; [|exact Hc].
  exact (utf8_encode_bytes _ _ H Hb).
Qed.

Lemma unq_runs_ascii s acc :
  forallb (fun c => c <? 128) s = true -> unq_runs s acc = flush_run (rev s ++ acc).
Proof.
  revert acc. induction s as [|c s IH]; intros acc H; [reflexivity|].
  cbn [forallb] in H. apply andb_prop in H. destruct H as [Hc Hs].
  cbn [unq_runs]. rewrite Hc. rewrite IH by exact Hs. cbn [rev]. rewrite <- app_assoc. reflexivity.
Qed.

Lemma unquote_bytes_no_percent s : mem PERCENT s = false -> unquote_bytes s = s.
Proof.
  induction s as [|c s IH]; [reflexivity|]. unfold mem in *. cbn [existsb]. intro H.
  apply orb_false_elim in H. destruct H as [Hc Hs]. cbn [unquote_bytes].
  rewrite N.eqb_sym in Hc. rewrite Hc. f_equal. exact (IH Hs).
Qed.

Lemma ascii_valid_text s : forallb (fun c => c <? 128) s = true -> valid_text s = true.
Proof.
  unfold valid_text. apply forallb_impl. intros c Hc. unfold valid_cp. lia.
Qed.

Lemma decode_replace_ascii s : forallb (fun c => c <? 128) s = true -> utf8_decode_replace s = s.
Proof.
  intro H. rewrite <- (utf8_encode_ascii s H) at 1. apply utf8_decode_replace_encode. apply ascii_valid_text. exact H.
Qed.

(* on ASCII text (every URL this library builds) unquote is: percent-decode, then UTF-8 decode *)
Lemma unquote_ascii s :
  forallb (fun c => c <? 128) s = true -> unquote s = utf8_decode_replace (unquote_bytes s).
Proof.
  intro H. unfold unquote. destruct (mem PERCENT s) eqn:E.
  - rewrite unq_runs_ascii by exact H. unfold flush_run. rewrite app_nil_r, rev_involutive. reflexivity.
  - rewrite unquote_bytes_no_percent by exact E. symmetry. apply decode_replace_ascii. exact H.
Qed.

Theorem unquote_quote safe s :
  mem PERCENT safe = false -> valid_text s = true -> unquote (quote safe s) = s.
Proof.
  intros Hs Hv. rewrite unquote_ascii by (apply quote_ascii; exact Hv).
  unfold quote. rewrite <- (app_nil_r (flat_map _ _)).
  rewrite unquote_quote_bytes; [|exact Hs|apply utf8_bytes_forall; exact Hv].
  cbn [unquote_bytes]. rewrite app_nil_r. apply utf8_decode_replace_encode. exact Hv.
Qed.

Lemma safe_no_percent :
  mem PERCENT safe_to_url = false /\ mem PERCENT safe_literal = false /\ mem PERCENT safe_redirect = false.
Proof. repeat split; vm_compute; reflexivity. Qed.

(* ------------------------------------------------------------------ decimal text *)
Lemma ascii_digit_sweep :
  forallb (fun d => match udigit_val (48 + d) with Some v => v =? d | None => false end) (nat_range 10) = true.
Proof. vm_compute. reflexivity. Qed.

Lemma dval_ascii d : d < 10 -> is_udigit (48 + d) = true /\ dval (48 + d) = d.
Proof.
  intro H. pose proof (sweep _ 10 ascii_digit_sweep d H) as S. cbv beta in S.
  unfold is_udigit, dval. destruct (udigit_val (48 + d)) as [v|]; [|discriminate].
  apply N.eqb_eq in S. subst v. split; reflexivity.
Qed.

Lemma parse_digits_acc_pos d acc :
  parse_digits (uint_digits d) (N.pos acc) = N.pos (Pos.of_uint_acc d acc).
Proof.
  revert acc. induction d; intro acc; cbn [uint_digits parse_digits Pos.of_uint_acc]; [reflexivity| ..];
    match goal with |- context [dval ?c] =>
      let k := eval vm_compute in (c - 48) in
      replace (dval c) with k by (symmetry; exact (proj2 (dval_ascii k ltac:(reflexivity)))) end;
    match goal with |- parse_digits _ ?a = _ => match type of IHd with forall acc, _ = N.pos (Pos.of_uint_acc _ acc) => idtac end end;
    rewrite <- IHd; f_equal; lia.
Qed.

Lemma parse_digits_uint d : parse_digits (uint_digits d) 0 = Pos.of_uint d.
Proof.
  induction d; cbn [uint_digits parse_digits Pos.of_uint]; [reflexivity| ..];
    match goal with |- context [dval ?c] =>
      let k := eval vm_compute in (c - 48) in
      replace (dval c) with k by (symmetry; exact (proj2 (dval_ascii k ltac:(reflexivity)))) end.
  - exact IHd.
  - change (0 * 10 + 1) with (N.pos 1). apply parse_digits_acc_pos.
  - change (0 * 10 + 2) with (N.pos 2). apply parse_digits_acc_pos.
  - change (0 * 10 + 3) with (N.pos 3). apply parse_digits_acc_pos.
  - change (0 * 10 + 4) with (N.pos 4). apply parse_digits_acc_pos.
  - change (0 * 10 + 5) with (N.pos 5). apply parse_digits_acc_pos.
  - change (0 * 10 + 6) with (N.pos 6). apply parse_digits_acc_pos.
  - change (0 * 10 + 7) with (N.pos 7). apply parse_digits_acc_pos.
  - change (0 * 10 + 8) with (N.pos 8). apply parse_digits_acc_pos.
  - change (0 * 10 + 9) with (N.pos 9). apply parse_digits_acc_pos.
Qed.

(* int(str(n)) = n *)
Theorem parse_dec n : parse_digits (dec_of_N n) 0 = n.
Proof. unfold dec_of_N. rewrite parse_digits_uint. apply DecimalN.Unsigned.of_to. Qed.

Definition is_ascii_digit (c : N) : bool := (48 <=? c) && (c <=? 57).

Lemma uint_digits_ascii d : forallb is_ascii_digit (uint_digits d) = true.
Proof. induction d; cbn [uint_digits forallb]; try rewrite IHd; reflexivity. Qed.

Lemma ascii_digit_udigit c : is_ascii_digit c = true -> is_udigit c = true.
Proof.
  unfold is_ascii_digit. intro H. replace c with (48 + (c - 48)) by lia.
  apply dval_ascii. lia.
Qed.

Lemma dec_nonempty n : dec_of_N n <> [].
Proof.
  unfold dec_of_N. destruct n as [|p]; [discriminate|]. cbn [N.to_uint].
  pose proof (DecimalPos.Unsigned.to_uint_nonnil p) as H.
  destruct (Pos.to_uint p); [contradiction| ..]; discriminate.
Qed.

Lemma dec_all_udigits n : all_udigits (dec_of_N n) = true.
Proof.
  unfold all_udigits. pose proof (dec_nonempty n) as Hn.
  destruct (dec_of_N n) as [|c r] eqn:E; [contradiction|]. cbn [is_nil negb andb]. rewrite <- E.
  unfold dec_of_N. apply forallb_forall. intros x Hx.
  apply ascii_digit_udigit. pose proof (uint_digits_ascii (N.to_uint n)) as Ha.
  rewrite forallb_forall in Ha. exact (Ha x Hx).
Qed.

(* ------------------------------------------------------------------ converter round trips *)
(* building a value and reading the delivered (percent-decoded) text back: the text is in the
   converter's language and converts to the value *)
Definition roundtrip (c : conv) (v : value) : Prop :=
  exists u, to_url c v = BOk u /\ in_lang (lang_of c) (unquote u) = true /\ to_python c (unquote u) = Some v.

Definition is_text_conv (c : conv) : bool :=
  match c with CStr _ _ _ | CPath => true | _ => false end.

(* string (any length options) and path: every text of the converter's language *)
Theorem text_roundtrip c v :
  is_text_conv c = true -> valid_text v = true -> in_lang (lang_of c) v = true -> roundtrip c (VStr v).
Proof.
  intros Hc Hv Hl. destruct safe_no_percent as (Hs & _ & _).
  destruct c; try discriminate; (eexists; split; [reflexivity|]); cbn [value_str];
    rewrite (unquote_quote _ _ Hs Hv); (split; [exact Hl|reflexivity]).
Qed.

Lemma unquote_plain s : mem PERCENT s = false -> unquote s = s.
Proof. intro H. unfold unquote. rewrite H. reflexivity. Qed.

(* any: every listed item that has no percent sign (items are not quoted by to_url) *)
Theorem any_roundtrip items s :
  has s items = true -> mem PERCENT s = false -> roundtrip (CAny items) (VStr s).
Proof.
  intros Hi Hp. exists s. unfold to_url. cbn [is_raw_float]. rewrite Hi. split; [reflexivity|].
  rewrite (unquote_plain _ Hp). split; [exact Hi|reflexivity].
Qed.

(* --- int *)
Lemma print_int_nonneg z : (0 <= z)%Z -> print_int z = dec_of_N (Z.to_N z).
Proof. destruct z; [reflexivity|reflexivity|lia]. Qed.

Lemma dec_head n : exists c r, dec_of_N n = c :: r /\ is_ascii_digit c = true.
Proof.
  pose proof (dec_nonempty n) as Hn. destruct (dec_of_N n) as [|c r] eqn:E; [contradiction|].
  exists c, r. split; [reflexivity|]. pose proof (uint_digits_ascii (N.to_uint n)) as Ha.
  unfold dec_of_N in E. rewrite E in Ha. cbn [forallb] in Ha. apply andb_prop in Ha. exact (proj1 Ha).
Qed.

Lemma digit_not_sign c : is_ascii_digit c = true -> (c =? MINUS) = false /\ (c =? 43) = false /\ (c =? PERCENT) = false.
Proof. unfold is_ascii_digit, MINUS, PERCENT. intro H. repeat split; lia. Qed.

Lemma parse_digits_zeros k s : parse_digits (repeat 48 k ++ s) 0 = parse_digits s 0.
Proof.
  induction k as [|k IH]; [reflexivity|]. cbn [repeat app parse_digits].
  replace (dval 48) with 0 by (symmetry; exact (proj2 (dval_ascii 0 ltac:(reflexivity)))). exact IH.
Qed.

Lemma repeat_zero_udigits k : forallb is_udigit (repeat 48 k) = true.
Proof. induction k as [|k IH]; [reflexivity|]. cbn [repeat forallb]. rewrite IH. reflexivity. Qed.

Lemma all_udigits_pad k s : all_udigits s = true -> all_udigits (repeat 48 k ++ s) = true.
Proof.
  unfold all_udigits. intro H. apply andb_prop in H. destruct H as [Hn Hs].
  rewrite forallb_app, repeat_zero_udigits, Hs. destruct k; [cbn [repeat app]; rewrite Hn; reflexivity|reflexivity].
Qed.

Lemma is_udigit_percent : is_udigit PERCENT = false /\ is_udigit MINUS = false /\ is_udigit DOT = false.
Proof. repeat split; vm_compute; reflexivity. Qed.

Lemma udigits_no_percent s : forallb is_udigit s = true -> mem PERCENT s = false.
Proof.
  induction s as [|c s IH]; [reflexivity|]. cbn [forallb]. intro H. apply andb_prop in H. destruct H as [Hc Hs].
  unfold mem. cbn [existsb]. fold (mem PERCENT s). rewrite (IH Hs).
  destruct (PERCENT =? c) eqn:E; [|reflexivity]. apply N.eqb_eq in E. subst c.
  rewrite (proj1 is_udigit_percent) in Hc. discriminate.
Qed.

Definition int_domain (fixed : N) (mn mx : option Z) (sg : bool) (z : Z) : bool :=
  ((0 <=? z)%Z || sg) && ((fixed =? 0) || (nlen (print_int z) <=? fixed))
  && negb (num_rejects_range z mn mx).

(* the text an int converter builds: sign, zero padding, digits *)
Lemma int_text_shape fixed z :
  (fixed =? 0) || (nlen (print_int z) <=? fixed) = true ->
  let u := if fixed =? 0 then print_int z else zfill (print_int z) fixed in
  exists pad d,
    d = dec_of_N (Z.abs_N z) /\ u = (if (z <? 0)%Z then [MINUS] else []) ++ repeat 48 pad ++ d
    /\ (fixed =? 0 = false -> nlen u = fixed).
Proof.
  intro Hlen. destruct (fixed =? 0) eqn:Ef; cbn zeta.
  - exists O, (dec_of_N (Z.abs_N z)). split; [reflexivity|]. split; [|discriminate].
    destruct z as [|p|p]; reflexivity.
  - cbn [orb] in Hlen. apply N.leb_le in Hlen.
    destruct z as [|p|p].
    + destruct (dec_head 0) as (c & r & E & Hd). destruct (digit_not_sign _ Hd) as (H1 & H2 & _).
      exists (N.to_nat fixed - length (print_int 0))%nat, (dec_of_N 0). split; [reflexivity|].
      unfold zfill. change (print_int 0) with (dec_of_N 0) in *. rewrite E. rewrite H1, H2. cbn [orb].
      split; [reflexivity|]. intros _. rewrite <- E. unfold nlen in *. cbn [app]. rewrite ?app_length, ?repeat_length. lia.
    + destruct (dec_head (N.pos p)) as (c & r & E & Hd). destruct (digit_not_sign _ Hd) as (H1 & H2 & _).
      exists (N.to_nat fixed - length (print_int (Z.pos p)))%nat, (dec_of_N (N.pos p)). split; [reflexivity|].
      unfold zfill. change (print_int (Z.pos p)) with (dec_of_N (N.pos p)) in *. rewrite E. rewrite H1, H2. cbn [orb].
      split; [reflexivity|]. intros _. rewrite <- E. unfold nlen in *. cbn [app]. rewrite ?app_length, ?repeat_length. lia.
    + exists (N.to_nat fixed - length (print_int (Z.neg p)))%nat, (dec_of_N (N.pos p)). split; [reflexivity|].
      unfold zfill. cbn [print_int]. rewrite N.eqb_refl. cbn [orb].
      split; [reflexivity|]. intros _. unfold nlen in *. cbn [print_int] in Hlen. cbn [app length] in *.
      rewrite ?app_length, ?repeat_length. lia.
Qed.

Theorem int_roundtrip fixed mn mx sg z :
  int_domain fixed mn mx sg z = true -> roundtrip (CInt fixed mn mx sg) (VInt z).
Proof.
  unfold int_domain. intro H. apply andb_prop in H. destruct H as [H Hr]. apply andb_prop in H. destruct H as [Hsg Hlen].
  destruct (int_text_shape fixed z Hlen) as (pad & d & Hd & Hu & Hl). cbv zeta in Hu, Hl.
  eexists. split; [reflexivity|]. set (u := if fixed =? 0 then print_int z else zfill (print_int z) fixed) in *.
  assert (Hdig : all_udigits (repeat 48 pad ++ d) = true) by (apply all_udigits_pad; subst d; apply dec_all_udigits).
  assert (Hnp : mem PERCENT u = false).
  { rewrite Hu. destruct (z <? 0)%Z; cbn [app].
    - unfold mem. cbn [existsb]. fold (mem PERCENT (repeat 48 pad ++ d)).
      unfold all_udigits in Hdig. apply andb_prop in Hdig. rewrite (udigits_no_percent _ (proj2 Hdig)). reflexivity.
    - unfold all_udigits in Hdig. apply andb_prop in Hdig. exact (udigits_no_percent _ (proj2 Hdig)). }
  rewrite (unquote_plain _ Hnp).
  assert (Hhead : exists c r, repeat 48 pad ++ d = c :: r /\ (c =? MINUS) = false).
  { destruct pad as [|pad].
    - subst d. destruct (dec_head (Z.abs_N z)) as (c & r & E & Hc). exists c, r. cbn [repeat app]. split; [exact E|].
      exact (proj1 (digit_not_sign _ Hc)).
    - exists 48, (repeat 48 pad ++ d). split; reflexivity. }
  destruct Hhead as (c & r & Ecr & Hc).
  assert (Hparse : parse_int u = z).
  { rewrite Hu. destruct (z <? 0)%Z eqn:Ez; cbn [app].
    - unfold parse_int. rewrite N.eqb_refl. rewrite parse_digits_zeros. subst d. rewrite parse_dec. lia.
    - unfold parse_int. rewrite Ecr, Hc. rewrite <- Ecr. rewrite parse_digits_zeros. subst d. rewrite parse_dec. lia. }
  split.
  - cbn [lang_of in_lang]. rewrite Hu. destruct (z <? 0)%Z eqn:Ez; cbn [app].
    + assert (sg = true) by (destruct sg; [reflexivity|]; cbn [orb] in Hsg; lia). subst sg.
      unfold strip_sign. rewrite N.eqb_refl. cbn [andb]. exact Hdig.
    + unfold strip_sign. rewrite Ecr, Hc, andb_false_r. rewrite <- Ecr. exact Hdig.
  - cbn [to_python]. destruct (num_rejects_spec fixed (nlen u) (parse_int u) mn mx) as [R1 R2]. rewrite R1.
    destruct (fixed =? 0) eqn:Ef; cbn [negb andb].
    + rewrite Hparse. apply negb_true_iff in Hr. rewrite Hr. reflexivity.
    + rewrite (Hl eq_refl), N.eqb_refl. cbn [negb]. rewrite Hparse. apply negb_true_iff in Hr. rewrite Hr. reflexivity.
Qed.

(* --- uuid: the value is carried as its 32 lower-case hex digits (uuid.UUID.hex) *)
Definition is_lower_hex (c : N) : bool := is_digit c || ((97 <=? c) && (c <=? 102)).
Definition uuid_hex (h : str) : bool := (length h =? 32)%nat && forallb is_lower_hex h.

Lemma lower_hex_facts c : is_lower_hex c = true ->
  is_hex c = true /\ (c =? MINUS) = false /\ (PERCENT =? c) = false /\ ascii_lower c = c.
Proof.
  unfold is_lower_hex, is_hex, is_digit, MINUS, PERCENT, ascii_lower, is_upper. intro H. repeat split; try lia.
  destruct ((65 <=? c) && (c <=? 90)) eqn:E; [lia|reflexivity].
Qed.

Lemma take_hex_app a rest : forallb is_lower_hex a = true -> take_hex (length a) (a ++ rest) = Some rest.
Proof.
  induction a as [|c a IH]; [reflexivity|]. cbn [forallb length app take_hex]. intro H.
  apply andb_prop in H. destruct H as [Hc Ha]. unfold is_hex_ascii.
  rewrite (proj1 (lower_hex_facts _ Hc)). exact (IH Ha).
Qed.

Lemma take_hex_len n a rest : length a = n -> forallb is_lower_hex a = true -> take_hex n (a ++ rest) = Some rest.
Proof. intros <- H. apply take_hex_app. exact H. Qed.

Lemma filter_nodash a : forallb is_lower_hex a = true -> filter (fun c => negb (c =? MINUS)) a = a.
Proof.
  induction a as [|c a IH]; [reflexivity|]. cbn [forallb filter]. intro H. apply andb_prop in H. destruct H as [Hc Ha].
  destruct (lower_hex_facts _ Hc) as (_ & H2 & _ & _). rewrite H2. cbn [negb]. rewrite (IH Ha). reflexivity.
Qed.

Lemma map_lower_id a : forallb is_lower_hex a = true -> map ascii_lower a = a.
Proof.
  induction a as [|c a IH]; [reflexivity|]. cbn [forallb map]. intro H. apply andb_prop in H. destruct H as [Hc Ha].
  destruct (lower_hex_facts _ Hc) as (_ & _ & _ & H4). rewrite H4, (IH Ha). reflexivity.
Qed.

Lemma lower_hex_no_percent a : forallb is_lower_hex a = true -> mem PERCENT a = false.
Proof.
  induction a as [|c a IH]; [reflexivity|]. cbn [forallb]. intro H. apply andb_prop in H. destruct H as [Hc Ha].
  unfold mem. cbn [existsb]. fold (mem PERCENT a). rewrite (IH Ha).
  destruct (lower_hex_facts _ Hc) as (_ & _ & H3 & _). rewrite H3. reflexivity.
Qed.

Lemma forallb_firstn {A} (p : A -> bool) n l : forallb p l = true -> forallb p (firstn n l) = true.
Proof.
  revert l. induction n as [|n IH]; intros [|x l]; cbn [firstn forallb]; try reflexivity.
  intro H. apply andb_prop in H. destruct H as [Hx Hl]. rewrite Hx, (IH _ Hl). reflexivity.
Qed.
Lemma forallb_skipn {A} (p : A -> bool) n l : forallb p l = true -> forallb p (skipn n l) = true.
Proof.
  revert l. induction n as [|n IH]; intros [|x l]; cbn [skipn forallb]; try reflexivity; try (intro H; exact H).
  intro H. apply andb_prop in H. exact (IH _ (proj2 H)).
Qed.

Lemma skipn_add {A} n k (l : list A) : skipn n (skipn k l) = skipn (k + n) l.
Proof.
  revert l. induction k as [|k IH]; intro l; [reflexivity|].
  destruct l as [|x l]; [destruct n; reflexivity|]. cbn [skipn Nat.add]. apply IH.
Qed.

Lemma mem_cons x c l : mem x (c :: l) = (x =? c) || mem x l.
Proof. reflexivity. Qed.

Lemma mem_app x a b : mem x (a ++ b) = mem x a || mem x b.
Proof. unfold mem. apply existsb_app. Qed.

Theorem uuid_roundtrip h : uuid_hex h = true -> roundtrip CUuid (VUuid h).
Proof.
  unfold uuid_hex. intro H. apply andb_prop in H. destruct H as [Hlen Hhex]. apply Nat.eqb_eq in Hlen.
  set (a := firstn 8 h). set (b := firstn 4 (skipn 8 h)). set (c := firstn 4 (skipn 12 h)).
  set (d := firstn 4 (skipn 16 h)). set (e := skipn 20 h).
  assert (Ha : forallb is_lower_hex a = true) by (apply forallb_firstn; exact Hhex).
  assert (Hb : forallb is_lower_hex b = true) by (apply forallb_firstn, forallb_skipn; exact Hhex).
  assert (Hc : forallb is_lower_hex c = true) by (apply forallb_firstn, forallb_skipn; exact Hhex).
  assert (Hd : forallb is_lower_hex d = true) by (apply forallb_firstn, forallb_skipn; exact Hhex).
  assert (He : forallb is_lower_hex e = true) by (apply forallb_skipn; exact Hhex).
  assert (La : length a = 8%nat) by (unfold a; rewrite firstn_length; lia).
  assert (Lb : length b = 4%nat) by (unfold b; rewrite firstn_length, skipn_length; lia).
  assert (Lc : length c = 4%nat) by (unfold c; rewrite firstn_length, skipn_length; lia).
  assert (Ld : length d = 4%nat) by (unfold d; rewrite firstn_length, skipn_length; lia).
  assert (Le : length e = 12%nat) by (unfold e; rewrite skipn_length; lia).
  assert (Hjoin : a ++ b ++ c ++ d ++ e = h).
  { unfold a, b, c, d, e.
    replace (skipn 12 h) with (skipn 4 (skipn 8 h)) by (rewrite skipn_add; reflexivity).
    replace (skipn 16 h) with (skipn 4 (skipn 4 (skipn 8 h))) by (rewrite !skipn_add; reflexivity).
    replace (skipn 20 h) with (skipn 4 (skipn 4 (skipn 4 (skipn 8 h)))) by (rewrite !skipn_add; reflexivity).
    rewrite !firstn_skipn. reflexivity. }
  exists (dashed h). split; [reflexivity|].
  assert (Hu : dashed h = a ++ MINUS :: b ++ MINUS :: c ++ MINUS :: d ++ MINUS :: e) by reflexivity.
  assert (Hnp : mem PERCENT (dashed h) = false).
  { rewrite Hu. repeat (rewrite mem_app, mem_cons). rewrite !lower_hex_no_percent by assumption. reflexivity. }
  rewrite (unquote_plain _ Hnp). split.
  - cbn [lang_of in_lang]. unfold uuid_shape. rewrite Hu.
    rewrite (take_hex_len 8 a _ La Ha). cbn [obind take_dash]. rewrite N.eqb_refl. cbn [obind].
    rewrite (take_hex_len 4 b _ Lb Hb). cbn [obind take_dash]. rewrite N.eqb_refl. cbn [obind].
    rewrite (take_hex_len 4 c _ Lc Hc). cbn [obind take_dash]. rewrite N.eqb_refl. cbn [obind].
    rewrite (take_hex_len 4 d _ Ld Hd). cbn [obind take_dash]. rewrite N.eqb_refl. cbn [obind].
    rewrite <- (app_nil_r e). rewrite (take_hex_len 12 e _ Le He). reflexivity.
  - cbn [to_python]. rewrite Hu. f_equal. f_equal.
    repeat (rewrite filter_app; cbn [filter]; rewrite ?N.eqb_refl; cbn [negb]).
    rewrite !filter_nodash by assumption. rewrite Hjoin. apply map_lower_id. exact Hhex.
Qed.

(* --- float: float() / str(float) are CPython's; the round trip is stated over their contract *)
Lemma take_drop_while (p : N -> bool) t : t = take_while p t ++ drop_while p t.
Proof.
  induction t as [|c t IH]; [reflexivity|]. cbn [take_while drop_while].
  destruct (p c); [cbn [app]; f_equal; exact IH|reflexivity].
Qed.
Lemma take_while_all (p : N -> bool) t : forallb p (take_while p t) = true.
Proof.
  induction t as [|c t IH]; [reflexivity|]. cbn [take_while].
  destruct (p c) eqn:E; [cbn [forallb]; rewrite E; exact IH|reflexivity].
Qed.

Lemma float_lang_no_percent sg s : in_lang (LFloat sg) s = true -> mem PERCENT s = false.
Proof.
  cbn [in_lang]. set (t := strip_sign sg s).
  assert (Hs : s = t \/ s = MINUS :: t).
  { unfold t, strip_sign. destruct s as [|c r]; [left; reflexivity|].
    destruct (sg && (c =? MINUS)) eqn:E; [|left; reflexivity].
    apply andb_prop in E. destruct E as [_ E]. apply N.eqb_eq in E. subst c. right. reflexivity. }
  clearbody t.
  pose proof (take_drop_while is_udigit t) as Htd.
  pose proof (take_while_all is_udigit t) as Htw.
  destruct (drop_while is_udigit t) as [|c b] eqn:Ed; [discriminate|]. intro H.
  apply andb_prop in H. destruct H as [H Hb]. apply andb_prop in H. destruct H as [_ Hc]. apply N.eqb_eq in Hc. subst c.
  unfold all_udigits in Hb. apply andb_prop in Hb. destruct Hb as [_ Hb].
  assert (Ht : mem PERCENT t = false).
  { rewrite Htd, mem_app, (udigits_no_percent _ Htw). unfold mem at 1. cbn [existsb]. fold (mem PERCENT b).
    rewrite (udigits_no_percent _ Hb). reflexivity. }
  destruct Hs as [->| ->]; [exact Ht|]. unfold mem. cbn [existsb]. fold (mem PERCENT t). rewrite Ht. reflexivity.
Qed.

Section FloatContract.
  Variable F : Type.
  Variable fstr : F -> str.            (* str(x) *)
  Variable fparse : str -> F.          (* float(text) *)
  Variable canonical : F -> Prop.      (* floats whose str() is positional *)
  Variable signed : bool.
  Hypothesis fparse_fstr : forall x, canonical x -> fparse (fstr x) = x.
  Hypothesis fstr_shape : forall x, canonical x -> in_lang (LFloat signed) (fstr x) = true.

  (* the model carries a float as its text: to_url of the text str(x) is delivered unchanged, is in
     the converter's language, and float() of it is x *)
  Theorem float_roundtrip x : canonical x ->
    exists u, to_url (CFloat signed) (VFloat (fstr x)) = BOk u
      /\ in_lang (lang_of (CFloat signed)) (unquote u) = true
      /\ exists t, to_python (CFloat signed) (unquote u) = Some (VFloatRaw t) /\ fparse t = x.
  Proof.
    intro Hx. exists (fstr x). split; [reflexivity|].
    rewrite (unquote_plain _ (float_lang_no_percent _ _ (fstr_shape x Hx))).
    split; [exact (fstr_shape x Hx)|]. exists (fstr x). split; [reflexivity|exact (fparse_fstr x Hx)].
  Qed.
End FloatContract.
