(* C04: build-then-match through the rule factories, and the query string of the extra values. *)
From Coq Require Import ZArith Lia Permutation.
From Wz Require Import lib.Bytes lib.BytesFacts lib.Utf8 C03.Gen C03.Trie C03.TrieFacts C03.Model C03.Proofs
  C04.Model C04.Proofs C04.MapProofs C04.SubdomainProofs C04.Factories.
From Wz Require C02.Model C02.Proofs.
Open Scope N_scope.

(* ------------------------------------------------------------------ the map-level theorem, without a shape
   requirement on the other rules: the rule that built the URL is the only rule of the map admitting it *)
Lemma sole_admitter_match m r dt P meth ws V :
  In r (m_rules m) -> admits m r (dt :: split_slash P) = ADirect rres V ->
  (forall r', In r' (m_rules m) -> admits m r' (dt :: split_slash P) <> ANo rres -> r' = r) ->
  rmethod_ok r meth = true -> r_websocket r = ws ->
  matcher_run m (trie_of m) dt P meth ws = MOk rule rres r V.
Proof.
  intros Hin Hadm Hother Hm Hw.
  assert (Hserves : serves m meth ws r (dt :: split_slash P)).
  { split; [rewrite Hadm; discriminate|split; assumption]. }
  destruct (matcher_first_pass m dt P meth ws r Hin Hserves) as [(r1 & v1 & E)|(E & r2 & Hin2 & Ha2)].
  - rewrite E. destruct (matcher_ok_sound _ _ _ _ _ _ _ E) as (Hin1 & Ha1 & _ & _).
    assert (r1 = r) by (apply Hother; [exact Hin1|intro Hc; pose proof (eq_trans (eq_sym Hc) Ha1) as Hd; discriminate Hd]). subst r1.
    pose proof (eq_trans (eq_sym Hadm) Ha1) as Hd. injection Hd as <-. reflexivity.
  - assert (r2 = r) by (apply Hother; [exact Hin2|intro Hc; pose proof (eq_trans (eq_sym Hc) Ha2) as Hd; discriminate Hd]). subst r2.
    pose proof (eq_trans (eq_sym Hadm) Ha2) as Hd. discriminate Hd.
Qed.

Definition sole_admitter (m : rmap) (r : rule) (parts : list str) : Prop :=
  forall r', In r' (m_rules m) -> admits m r' parts <> ANo rres -> r' = r.

Theorem build_then_match_sole m r vals dt dcaps dvs ts caps vs tts restP tcaps tvs k rest meth ws :
  In r (m_rules m) ->
  dom_built (r_defaults r) vals (r_dom r) dt dcaps dvs -> r_segs r = SLit k :: rest ->
  segs_built (r_defaults r) vals (r_segs r) ts caps vs ->
  tail_built (r_defaults r) vals (is_branch r) (r_tail r) tts restP tcaps tvs ->
  sole_admitter m r (dt :: [] :: ts ++ restP) ->
  rmethod_ok r meth = true -> r_websocket r = ws ->
  exists path, build_rule r vals = BOk (dt, path)
    /\ matcher_run m (trie_of m) dt (path_part (unquote path)) meth ws = MOk rule rres r (dvs ++ vs ++ tvs).
Proof.
  intros Hin Hdb Hsegs Hsb Htb Hsole Hm Hw.
  destruct (rule_build_walk_dom r vals dt dcaps dvs ts caps vs tts restP tcaps tvs k rest Hdb Hsegs Hsb Htb)
    as ((path & Hb & Hu) & Hparts & (wcaps & Hwalk & Hconv)).
  exists path. split; [exact Hb|]. rewrite Hu. apply sole_admitter_match; try assumption.
  - rewrite Hparts. unfold admits, Trie.admits, Trie.convert_adm. rewrite Hwalk, Hconv. reflexivity.
  - rewrite Hparts. exact Hsole.
Qed.

(* ================================================================== Submount *)
Definition good_lit (k : str) : Prop := lit_ok k /\ k <> [].

Lemma segs_built_lits defs vals ks : Forall good_lit ks -> segs_built defs vals (map SLit ks) ks [] [].
Proof.
  induction 1 as [|k ks [Hk Hne] _ IH]; [constructor|].
  change (segs_built defs vals (SLit k :: map SLit ks) (k :: ks) ([] ++ []) ([] ++ [])).
  constructor; [constructor; assumption|exact IH].
Qed.

Lemma segs_built_app defs vals l1 ts1 c1 v1 l2 ts2 c2 v2 :
  segs_built defs vals l1 ts1 c1 v1 -> segs_built defs vals l2 ts2 c2 v2 ->
  segs_built defs vals (l1 ++ l2) (ts1 ++ ts2) (c1 ++ c2) (v1 ++ v2).
Proof.
  intros H1 H2. induction H1 as [|s t c v l ts cl vl Hs Hl IH]; [exact H2|].
  cbn [app]. rewrite <- !app_assoc. constructor; assumption.
Qed.

Lemma is_branch_submount k ks r : is_branch (submount (map SLit (k :: ks)) r) = is_branch r.
Proof. unfold is_branch at 1. cbn [submount r_branch r_segs map app is_nil]. apply orb_false_r. Qed.

(* Submount('/k1/../kn', [r]): the rule builds the prefix in front of what r builds, and the request for the
   built URL is answered by the submounted rule *)
Theorem submount_build_then_match m' r vals k ks dt dcaps dvs ts caps vs tts restP tcaps tvs meth ws :
  let r' := submount (map SLit (k :: ks)) r in
  In r' (m_rules m') -> Forall good_lit (k :: ks) ->
  dom_built (r_defaults r) vals (r_dom r) dt dcaps dvs ->
  segs_built (r_defaults r) vals (r_segs r) ts caps vs ->
  tail_built (r_defaults r) vals (is_branch r) (r_tail r) tts restP tcaps tvs ->
  sole_admitter m' r' (dt :: [] :: ((k :: ks) ++ ts) ++ restP) ->
  rmethod_ok r meth = true -> r_websocket r = ws ->
  exists path, build_rule r' vals = BOk (dt, path)
    /\ matcher_run m' (trie_of m') dt (path_part (unquote path)) meth ws = MOk rule rres r' (dvs ++ vs ++ tvs).
Proof.
  intros r' Hin Hlits Hdb Hsb Htb Hsole Hm Hw.
  apply (build_then_match_sole m' r' vals dt dcaps dvs ((k :: ks) ++ ts) ([] ++ caps) ([] ++ vs) tts restP tcaps tvs k
           (map SLit ks ++ r_segs r) meth ws); try assumption.
  - reflexivity.
  - change (r_segs r') with (map SLit (k :: ks) ++ r_segs r). change (r_defaults r') with (r_defaults r).
    apply segs_built_app; [apply segs_built_lits; exact Hlits|exact Hsb].
  - unfold r'. rewrite is_branch_submount. exact Htb.
Qed.

(* the prefix is transparent for what a rule admits: a rule under Submount admits prefix ++ P exactly as the
   inner rule admits P (rules with a literal host part) *)
Lemma strip_last_empty_cons2 (c : cpart dpart) cs :
  cs <> [] -> Trie.strip_last_empty dpart (c :: cs) = option_map (cons c) (Trie.strip_last_empty dpart cs).
Proof. destruct cs as [|c2 cs]; [contradiction|]. intros _. destruct c as [[|x k]|d]; reflexivity. Qed.

Lemma walk_statics ks cs P : cwalk (map (PStatic dpart) ks ++ cs) (ks ++ P) = cwalk cs P.
Proof. induction ks as [|k ks IH]; [reflexivity|]. cbn [map app Trie.walk]. rewrite list_eqb_refl. exact IH. Qed.

Lemma strip_statics ks cs :
  cs <> [] -> Trie.strip_last_empty dpart (map (PStatic dpart) ks ++ cs)
              = option_map (app (map (PStatic dpart) ks)) (Trie.strip_last_empty dpart cs).
Proof.
  intro Hne. induction ks as [|k ks IH]; cbn [map app].
  - destruct (Trie.strip_last_empty dpart cs); reflexivity.
  - rewrite strip_last_empty_cons2 by (destruct ks; [exact Hne|discriminate]). rewrite IH.
    destruct (Trie.strip_last_empty dpart cs); reflexivity.
Qed.

Lemma rule_tail_nonempty r : tl (tl (rparts r)) <> [].
Proof.
  unfold rparts, rule_parts. cbn [map tl]. unfold is_branch.
  destruct (r_segs r) as [|s l]; cbn [map app is_nil andb orb].
  - destruct (r_tail r); [unfold tail_parts; destruct (r_branch r || false); discriminate|].
    rewrite orb_true_r. discriminate.
  - discriminate.
Qed.

Lemma lits_parts l : map to_cpart (map seg_part (map SLit l)) = map (PStatic dpart) l.
Proof. induction l as [|x l IH]; [reflexivity|]. cbn [map seg_part to_cpart]. rewrite IH. reflexivity. Qed.

Lemma rparts_submount k ks r :
  rparts (submount (map SLit (k :: ks)) r)
  = to_cpart (seg_part (r_dom r)) :: PStatic dpart [] :: map (PStatic dpart) (k :: ks) ++ tl (tl (rparts r)).
Proof.
  unfold rparts at 1, rule_parts. rewrite is_branch_submount.
  change (r_dom (submount (map SLit (k :: ks)) r)) with (r_dom r).
  change (r_tail (submount (map SLit (k :: ks)) r)) with (r_tail r).
  change (r_segs (submount (map SLit (k :: ks)) r)) with (map SLit (k :: ks) ++ r_segs r).
  generalize (k :: ks). intro L. unfold rparts, rule_parts. cbn [map tl to_cpart]. f_equal. f_equal.
  rewrite (map_app seg_part), <- app_assoc, (map_app to_cpart), lits_parts. reflexivity.
Qed.

Lemma walk_prefix2 dk ks Y d e P :
  cwalk (PStatic dpart dk :: PStatic dpart [] :: map (PStatic dpart) ks ++ Y) (d :: e :: ks ++ P)
  = cwalk (PStatic dpart dk :: PStatic dpart [] :: Y) (d :: e :: P).
Proof.
  cbn [Trie.walk]. destruct (list_eqb dk d); [|reflexivity]. destruct (list_eqb [] e); [|reflexivity]. apply walk_statics.
Qed.

Theorem admits_submount m m' k ks r dk d e P :
  m_strict m' = m_strict m -> r_dom r = SLit dk ->
  admits m' (submount (map SLit (k :: ks)) r) (d :: e :: (k :: ks) ++ P) = admits m r (d :: e :: P).
Proof.
  intros Hst Hdom.
  assert (Hp : rparts r = PStatic dpart dk :: PStatic dpart [] :: tl (tl (rparts r))).
  { unfold rparts, rule_parts. rewrite Hdom. reflexivity. }
  pose proof (rparts_submount k ks r) as Hp'. rewrite Hdom in Hp'. cbn [seg_part to_cpart] in Hp'.
  pose proof (rule_tail_nonempty r) as Hne.
  set (X := tl (tl (rparts r))) in *. set (r' := submount (map SLit (k :: ks)) r) in *.
  assert (Hs : rstrict m' r' = rstrict m r).
  { unfold rstrict. cbn [r' submount r_strict_opt]. rewrite Hst. reflexivity. }
  assert (Hc : forall caps sl, Trie.convert_adm rule rres rconvert r' caps sl = Trie.convert_adm rule rres rconvert r caps sl).
  { intros caps sl. unfold Trie.convert_adm, rconvert, rule_convs. cbn [r' submount r_dom r_segs r_tail]. rewrite flat_map_app.
    replace (flat_map seg_convs (map SLit (k :: ks))) with (@nil (str * conv)); [reflexivity|].
    generalize (k :: ks). intro l. induction l; [reflexivity|exact IHl]. }
  assert (Hst1 : Trie.strip_last_empty dpart (rparts r') =
                 option_map (fun y => PStatic dpart dk :: PStatic dpart [] :: map (PStatic dpart) (k :: ks) ++ y) (Trie.strip_last_empty dpart X)).
  { rewrite Hp'. rewrite strip_last_empty_cons2 by discriminate.
    rewrite strip_last_empty_cons2 by (cbn [map app]; discriminate).
    rewrite (strip_statics (k :: ks) X Hne). destruct (Trie.strip_last_empty dpart X); reflexivity. }
  assert (Hst2 : Trie.strip_last_empty dpart (rparts r) =
                 option_map (fun y => PStatic dpart dk :: PStatic dpart [] :: y) (Trie.strip_last_empty dpart X)).
  { rewrite Hp. rewrite strip_last_empty_cons2 by discriminate. rewrite strip_last_empty_cons2 by exact Hne.
    destruct (Trie.strip_last_empty dpart X); reflexivity. }
  unfold admits, Trie.admits. rewrite Hst1, Hst2, Hs. rewrite Hp' at 1. rewrite Hp at 1. rewrite walk_prefix2.
  destruct (Trie.strip_last_empty dpart X) as [y|]; cbn [option_map]; [rewrite walk_prefix2|];
    repeat match goal with |- context [match ?w with _ => _ end] =>
      match w with cwalk _ _ => destruct w as [[? [|? [|? ?]]]|] end end;
    rewrite ?Hc; try reflexivity; destruct (rstrict m r); rewrite ?Hc; reflexivity.
Qed.

(* so a rule that is the only one of the inner map admitting P is, under Submount, the only one admitting
   prefix ++ P (every rule of the outer map being a submounted rule of the inner map) *)
Theorem sole_admitter_submount m k ks r dk0 d e P :
  (forall r0, In r0 (m_rules m) -> exists dk, r_dom r0 = SLit dk) -> r_dom r = SLit dk0 ->
  sole_admitter m r (d :: e :: P) ->
  (forall r1 r2, In r1 (m_rules m) -> In r2 (m_rules m) -> r_idx r1 = r_idx r2 -> r1 = r2) ->
  sole_admitter (map_rules m (map (submount (map SLit (k :: ks))) (m_rules m))) (submount (map SLit (k :: ks)) r)
    (d :: e :: (k :: ks) ++ P).
Proof.
  intros Hdoms Hdom Hsole _ r' Hr' Hne. cbn [map_rules m_rules] in Hr'. apply in_map_iff in Hr'. destruct Hr' as (r0 & <- & Hr0).
  destruct (Hdoms r0 Hr0) as (dk & Hd0).
  rewrite (admits_submount m (map_rules m (map (submount (map SLit (k :: ks))) (m_rules m))) k ks r0 dk d e P eq_refl Hd0) in Hne. rewrite (Hsole r0 Hr0 Hne). reflexivity.
Qed.

(* ================================================================== Subdomain *)
(* Subdomain('k', [r]) for a rule without a host part of its own *)
Theorem with_dom_build_then_match m' r vals dk ts caps vs tts restP tcaps tvs k rest meth ws :
  let r' := with_dom (SLit dk) r in
  In r' (m_rules m') -> quote safe_literal dk = dk -> r_segs r = SLit k :: rest ->
  segs_built (r_defaults r) vals (r_segs r) ts caps vs ->
  tail_built (r_defaults r) vals (is_branch r) (r_tail r) tts restP tcaps tvs ->
  sole_admitter m' r' (dk :: [] :: ts ++ restP) ->
  rmethod_ok r meth = true -> r_websocket r = ws ->
  exists path, build_rule r' vals = BOk (dk, path)
    /\ matcher_run m' (trie_of m') dk (path_part (unquote path)) meth ws = MOk rule rres r' (vs ++ tvs).
Proof.
  intros r' Hin Hq Hsegs Hsb Htb Hsole Hm Hw.
  apply (build_then_match_sole m' r' vals dk [] [] ts caps vs tts restP tcaps tvs k rest meth ws); try assumption.
  constructor. exact Hq.
Qed.

Theorem admits_with_dom m m' r dk P :
  m_strict m' = m_strict m -> r_dom r = SLit [] ->
  admits m' (with_dom (SLit dk) r) (dk :: P) = admits m r ([] :: P).
Proof.
  intros Hst Hdom. unfold admits, Trie.admits.
  assert (Hp : rparts r = PStatic dpart [] :: tl (rparts r)) by (unfold rparts, rule_parts; rewrite Hdom; reflexivity).
  assert (Hp' : rparts (with_dom (SLit dk) r) = PStatic dpart dk :: tl (rparts r)) by reflexivity.
  assert (Hne : tl (rparts r) <> []) by (unfold rparts, rule_parts; discriminate).
  assert (Hs : rstrict m' (with_dom (SLit dk) r) = rstrict m r) by (unfold rstrict; cbn [with_dom r_strict_opt]; rewrite Hst; reflexivity).
  assert (Hc : forall caps sl, Trie.convert_adm rule rres rconvert (with_dom (SLit dk) r) caps sl = Trie.convert_adm rule rres rconvert r caps sl).
  { intros caps sl. unfold Trie.convert_adm, rconvert, rule_convs. cbn [with_dom r_dom r_segs r_tail]. rewrite Hdom. reflexivity. }
  set (T := tl (rparts r)) in *. rewrite Hp', Hs. rewrite Hp. rewrite !strip_last_empty_cons2 by exact Hne.
  cbn [Trie.walk]. rewrite !list_eqb_refl.
  destruct (Trie.strip_last_empty dpart T) as [y|]; cbn [option_map Trie.walk]; rewrite ?list_eqb_refl;
    repeat match goal with |- context [match ?w with _ => _ end] =>
      match w with cwalk _ _ => destruct w as [[? [|? [|? ?]]]|] end end;
    rewrite ?Hc; try reflexivity; destruct (rstrict m r); rewrite ?Hc; reflexivity.
Qed.

(* ================================================================== EndpointPrefix *)
Section Prefix.
  Variable f : N -> N.
  Hypothesis f_inj : forall x y, f x = f y -> x = y.
  Notation we := (with_endpoint f).

  Lemma we_key r : build_key (we r) = build_key r.
  Proof. reflexivity. Qed.

  Lemma insert_we x l : insert_rule (we x) (map we l) = map we (insert_rule x l).
  Proof.
    induction l as [|y l IH]; [reflexivity|]. cbn [map insert_rule]. rewrite !we_key.
    destruct (key_lt (build_key y) (build_key x)); cbn [map]; [rewrite IH|]; reflexivity.
  Qed.

  Lemma rules_for_we m e :
    rules_for (map_rules m (map we (m_rules m))) (f e) = map we (rules_for m e).
  Proof.
    unfold rules_for. cbn [map_rules m_rules]. induction (m_rules m) as [|r rs IH]; [reflexivity|].
    cbn [map filter]. cbn [with_endpoint r_endpoint].
    assert (E : (f (r_endpoint r) =? f e) = (r_endpoint r =? e)).
    { destruct (r_endpoint r =? e) eqn:E1.
      - apply N.eqb_eq in E1. rewrite E1. apply N.eqb_refl.
      - apply N.eqb_neq. intro H. apply f_inj in H. apply N.eqb_neq in E1. contradiction. }
    rewrite E. destruct (r_endpoint r =? e); [|exact IH]. cbn [fold_right map]. rewrite IH. apply insert_we.
  Qed.

  Definition we_res (x : rule * str * str) : rule * str * str := (we (fst (fst x)), snd (fst x), snd x).
  Definition bmap {A B} (g : A -> B) (x : bres A) : bres B :=
    match x with BOk a => BOk (g a) | BValueError => BValueError | BUnsupported => BUnsupported end.

  Lemma partial_build_we rs vals meth :
    partial_build (map we rs) vals meth = bmap (option_map we_res) (partial_build rs vals meth).
  Proof.
    induction rs as [|r rs IH]; [reflexivity|]. cbn [map partial_build].
    change (suitable_for (we r) vals meth) with (suitable_for r vals meth).
    change (build_rule (we r) vals) with (build_rule r vals).
    destruct (suitable_for r vals meth); [|exact IH]. destruct (build_rule r vals) as [[d p]| |]; reflexivity.
  Qed.

  Lemma partial_build_hm_we sn rs vals meth : forall first,
    partial_build_hm sn (map we rs) vals meth (option_map we_res first)
    = bmap (option_map we_res) (partial_build_hm sn rs vals meth first).
  Proof.
    induction rs as [|r rs IH]; intro first; [reflexivity|]. cbn [map partial_build_hm].
    change (suitable_for (we r) vals meth) with (suitable_for r vals meth).
    change (build_rule (we r) vals) with (build_rule r vals).
    destruct (suitable_for r vals meth); [|apply IH]. destruct (build_rule r vals) as [[d p]| |]; cbn [bbind fst snd]; try reflexivity.
    destruct (list_eqb d sn); [reflexivity|]. rewrite <- IH. f_equal. destruct first; reflexivity.
  Qed.

  Lemma pbuild_we m a rs vals meth :
    pbuild (map_rules m (map we (m_rules m))) a (map we rs) vals meth = bmap (option_map we_res) (pbuild m a rs vals meth).
  Proof.
    unfold pbuild. cbn [map_rules m_host_matching]. destruct (m_host_matching m).
    - exact (partial_build_hm_we (a_server a) rs vals meth None).
    - apply partial_build_we.
  Qed.

  (* building endpoint f(e) of the prefixed map is building endpoint e of the inner map *)
  Theorem adapter_build_prefix m a e vals meth fe :
    adapter_build (map_rules m (map we (m_rules m))) a (f e) vals meth fe = adapter_build m a e vals meth fe.
  Proof.
    unfold adapter_build. rewrite rules_for_we, !pbuild_we.
    destruct meth as [me|].
    - destruct (pbuild m a (rules_for m e) vals (Some me)) as [[[[r d] p]|]| |]; reflexivity.
    - destruct (pbuild m a (rules_for m e) vals (Some GET)) as [[[[r d] p]|]| |]; cbn [bmap bbind option_map]; try reflexivity.
      destruct (pbuild m a (rules_for m e) vals None) as [[[[r d] p]|]| |]; reflexivity.
  Qed.

  (* ... and matching is matching in the inner map, the endpoint renamed *)
  Theorem admits_prefix m r P : admits (map_rules m (map we (m_rules m))) (we r) P = admits m r P.
  Proof. reflexivity. Qed.
End Prefix.

(* ================================================================== RuleTemplate *)
Lemma tsubst_plain ctx s : mem DOLLAR s = false -> subst ctx s = Some s.
Proof.
  unfold subst. induction s as [|c s IH]; [reflexivity|]. rewrite mem_cons. intro H. apply orb_false_elim in H. destruct H as [H1 H2].
  cbn [tsubst]. rewrite N.eqb_sym, H1, (IH H2). reflexivity.
Qed.

Lemma tsubst_name ctx n acc rest : mem RBRACE n = false ->
  tsubst ctx (TName acc) (n ++ RBRACE :: rest)
  = match ctx_get (acc ++ n) ctx with Some v => option_map (app v) (tsubst ctx TNorm rest) | None => None end.
Proof.
  revert acc. induction n as [|c n IH]; intros acc H.
  - cbn [app tsubst]. rewrite N.eqb_refl, app_nil_r. reflexivity.
  - rewrite mem_cons in H. apply orb_false_elim in H. destruct H as [H1 H2].
    cbn [app tsubst]. rewrite N.eqb_sym, H1, (IH (acc ++ [c]) H2), <- app_assoc. reflexivity.
Qed.

(* plain text, then ${n}, then the rest *)
Theorem subst_placeholder ctx pre n rest :
  mem DOLLAR pre = false -> mem RBRACE n = false ->
  subst ctx (pre ++ DOLLAR :: LBRACE :: n ++ RBRACE :: rest)
  = match ctx_get n ctx with Some v => option_map (fun t => pre ++ v ++ t) (subst ctx rest) | None => None end.
Proof.
  intros Hp Hn. unfold subst. induction pre as [|c pre IH].
  - cbn [app tsubst]. rewrite N.eqb_refl. replace (LBRACE =? DOLLAR) with false by reflexivity. rewrite N.eqb_refl.
    rewrite (tsubst_name ctx n [] rest Hn). cbn [app]. destruct (ctx_get n ctx); [|reflexivity].
    destruct (tsubst ctx TNorm rest); reflexivity.
  - rewrite mem_cons in Hp. apply orb_false_elim in Hp. destruct Hp as [H1 H2].
    cbn [app tsubst]. rewrite N.eqb_sym, H1, (IH H2). destruct (ctx_get n ctx); [|reflexivity].
    destruct (tsubst ctx TNorm rest); reflexivity.
Qed.

(* ================================================================== query extras *)
Lemma split_query_plain p : mem QMARK p = false -> split_query p = (p, []).
Proof.
  induction p as [|c p IH]; [reflexivity|]. rewrite mem_cons. intro H. apply orb_false_elim in H. destruct H as [H1 H2].
  cbn [split_query]. rewrite N.eqb_sym, H1, (IH H2). reflexivity.
Qed.
Lemma split_query_at p q : mem QMARK p = false -> split_query (p ++ QMARK :: q) = (p, q).
Proof.
  induction p as [|c p IH]; [intros _; cbn [app split_query]; rewrite N.eqb_refl; reflexivity|].
  rewrite mem_cons. intro H. apply orb_false_elim in H. destruct H as [H1 H2].
  cbn [app split_query]. rewrite N.eqb_sym, H1, (IH H2). reflexivity.
Qed.
(* the server recovers path and query string from the built text *)
Theorem split_with_query p q : mem QMARK p = false -> split_query (with_query p q) = (p, q).
Proof.
  intro H. unfold with_query. destruct q as [|c q]; cbn [is_nil]; [apply split_query_plain; exact H|apply split_query_at; exact H].
Qed.

(* sorted() returns a permutation *)
Lemma insert_item_perm s x : forall l l', insert_item s x l = BOk l' -> Permutation (x :: l) l'.
Proof.
  induction l as [|y l IH]; intros l'; cbn [insert_item].
  - intro H. injection H as <-. apply Permutation_refl.
  - destruct (item_le s x y) as [[|]| |]; cbn [bbind]; try discriminate.
    + intro H. injection H as <-. apply Permutation_refl.
    + destruct (insert_item s x l) as [t| |] eqn:E; cbn [bbind]; try discriminate. intro H. injection H as <-.
      eapply Permutation_trans; [apply perm_swap|]. apply perm_skip. exact (IH t eq_refl).
Qed.
Lemma sort_items_perm s : forall l l', sort_items s l = BOk l' -> Permutation l l'.
Proof.
  induction l as [|x l IH]; intros l'; cbn [sort_items].
  - intro H. injection H as <-. constructor.
  - destruct (sort_items s l) as [t| |] eqn:E; cbn [bbind]; try discriminate. intro H.
    eapply Permutation_trans; [apply perm_skip; exact (IH t eq_refl)|]. exact (insert_item_perm s x t l' H).
Qed.
Theorem sorted_items_perm s l l' : sorted_items s l = BOk l' -> Permutation l l' /\ (s = SortOff -> l' = l).
Proof.
  destruct s; cbn [sorted_items]; intro H.
  - injection H as <-. split; [apply Permutation_refl|reflexivity].
  - split; [exact (sort_items_perm _ _ _ H)|discriminate].
  - split; [exact (sort_items_perm _ _ _ H)|discriminate].
Qed.

(* the text items are the items that are not None, str() applied *)
Fixpoint present (l : list (str * option value)) : list (str * value) :=
  match l with
  | [] => []
  | (k, None) :: l' => present l'
  | (k, Some v) :: l' => (k, v) :: present l'
  end.
Lemma text_items_spec l t : text_items l = BOk t -> t = map (fun kv => (fst kv, value_str (snd kv))) (present l).
Proof.
  revert t. induction l as [|[k [v|]] l IH]; intros t; cbn [text_items present].
  - intro H. injection H as <-. reflexivity.
  - destruct (is_raw_float v); [discriminate|]. destruct (text_items l) as [t0| |]; cbn [bbind]; try discriminate.
    intro H. injection H as <-. cbn [map fst snd]. rewrite (IH t0 eq_refl). reflexivity.
  - apply IH.
Qed.

(* Rule.build with extra values: the path of build_rule, then ?query; the query string is the urlencode
   (C02) of the extra items, which parse_qsl reads back (C02_urlencoded_roundtrip) *)
Theorem build_rule_q_spec s r given extras d full :
  build_rule_q s r given extras = BOk (d, full) ->
  exists path items t,
    build_rule r given = BOk (d, path)
    /\ sorted_items s (raw_items r (singles given ++ extras)) = BOk items
    /\ t = map (fun kv => (fst kv, value_str (snd kv))) (present items)
    /\ full = with_query path (C02.Model.urlencode t)
    /\ (forallb C02.Proofs.valid_pair t = true -> C02.Model.parse_qsl (C02.Model.urlencode t) = t)
    /\ (mem QMARK path = false -> split_query full = (path, C02.Model.urlencode t)).
Proof.
  unfold build_rule_q, query_of. destruct (build_rule r given) as [[d0 path]| |]; cbn [bbind fst snd]; try discriminate.
  destruct (sorted_items s (raw_items r (singles given ++ extras))) as [items| |]; cbn [bbind]; try discriminate.
  destruct (text_items items) as [t| |] eqn:Et; cbn [bbind]; try discriminate.
  intro H. injection H as <- <-. exists path, items, t. split; [reflexivity|]. split; [reflexivity|].
  split; [exact (text_items_spec _ _ Et)|]. split; [reflexivity|].
  split; [apply C02.Proofs.urlencoded_roundtrip|]. intro Hq. apply split_with_query. exact Hq.
Qed.

(* the values of the rule itself are never in the query string, and extras keyed outside the rule all are *)
Lemma raw_items_singles r given :
  (forall k v, In (k, v) given -> In k (rule_arguments r)) -> raw_items r (singles given) = [].
Proof.
  intro H. unfold raw_items, singles. induction given as [|[k v] g IH]; [reflexivity|]. cbn [map flat_map fst snd].
  assert (Hk : has k (rule_arguments r) = true).
  { unfold has. apply existsb_exists. exists k. split; [apply (H k v); left; reflexivity|apply list_eqb_refl]. }
  rewrite Hk. cbn [app]. apply IH. intros k' v' Hin. apply (H k' v'). right. exact Hin.
Qed.
Lemma raw_items_extras r extras :
  (forall k x, In (k, x) extras -> has k (rule_arguments r) = false) ->
  raw_items r extras = flat_map (fun kx => items_of (fst kx) (snd kx)) extras.
Proof.
  intro H. unfold raw_items. induction extras as [|[k x] l IH]; [reflexivity|]. cbn [flat_map fst snd].
  rewrite (H k x (or_introl eq_refl)). f_equal. apply IH. intros k' x' Hin. apply (H k' x'). right. exact Hin.
Qed.

(* C04_build_match_extras: build(values + extras), deliver, match returns the values; the query string decodes
   to the extras *)
Theorem build_match_extras s m r given extras dt dcaps dvs ts caps vs tts restP tcaps tvs k rest meth ws q :
  In r (m_rules m) ->
  dom_built (r_defaults r) given (r_dom r) dt dcaps dvs -> r_segs r = SLit k :: rest ->
  segs_built (r_defaults r) given (r_segs r) ts caps vs ->
  tail_built (r_defaults r) given (is_branch r) (r_tail r) tts restP tcaps tvs ->
  sole_admitter m r (dt :: [] :: ts ++ restP) ->
  rmethod_ok r meth = true -> r_websocket r = ws ->
  (forall k v, In (k, v) given -> In k (rule_arguments r)) ->
  (forall k x, In (k, x) extras -> has k (rule_arguments r) = false) ->
  query_of s r (singles given ++ extras) = BOk q ->
  exists path items,
    build_rule_q s r given extras = BOk (dt, with_query path q)
    /\ (mem QMARK path = false -> split_query (with_query path q) = (path, q))
    /\ matcher_run m (trie_of m) dt (path_part (unquote path)) meth ws = MOk rule rres r (dvs ++ vs ++ tvs)
    /\ sorted_items s (flat_map (fun kx => items_of (fst kx) (snd kx)) extras) = BOk items
    /\ Permutation (flat_map (fun kx => items_of (fst kx) (snd kx)) extras) items
    /\ (s = SortOff -> items = flat_map (fun kx => items_of (fst kx) (snd kx)) extras)
    /\ let t := map (fun kv => (fst kv, value_str (snd kv))) (present items) in
       q = C02.Model.urlencode t /\ (forallb C02.Proofs.valid_pair t = true -> C02.Model.parse_qsl q = t).
Proof.
  intros Hin Hdb Hsegs Hsb Htb Hsole Hm Hw Hgiven Hextras Hq.
  destruct (build_then_match_sole m r given dt dcaps dvs ts caps vs tts restP tcaps tvs k rest meth ws
              Hin Hdb Hsegs Hsb Htb Hsole Hm Hw) as (path & Hb & Hmatch).
  assert (Hraw : raw_items r (singles given ++ extras) = flat_map (fun kx => items_of (fst kx) (snd kx)) extras).
  { unfold raw_items. rewrite flat_map_app. fold (raw_items r (singles given)). fold (raw_items r extras).
    rewrite (raw_items_singles r given Hgiven), (raw_items_extras r extras Hextras). reflexivity. }
  unfold query_of in Hq. rewrite Hraw in Hq.
  destruct (sorted_items s (flat_map (fun kx => items_of (fst kx) (snd kx)) extras)) as [items| |] eqn:Es; cbn [bbind] in Hq; try discriminate.
  destruct (text_items items) as [t| |] eqn:Et; cbn [bbind] in Hq; try discriminate. injection Hq as <-.
  exists path, items. destruct (sorted_items_perm _ _ _ Es) as [Hperm Hoff].
  split.
  { unfold build_rule_q, query_of. rewrite Hb, Hraw, Es. cbn [bbind]. rewrite Et. reflexivity. }
  split; [intro Hp; apply split_with_query; exact Hp|]. split; [exact Hmatch|]. split; [reflexivity|]. split; [exact Hperm|].
  split; [exact Hoff|]. cbn zeta. rewrite <- (text_items_spec _ _ Et). split; [reflexivity|apply C02.Proofs.urlencoded_roundtrip].
Qed.

(* ================================================================== instances *)
Definition API3 : str := [97; 112; 105].
Definition V1 : str := [118; 49].
(* Map([Subdomain('api', [Submount('/api/v1', [Rule('/users/<int:id>/x-<string:n>'), Rule('/all/')])])]) *)
Definition ex_fmap : rmap :=
  map_rules ex_map4 (map (with_dom (SLit API3)) (map (submount (map SLit [API3; V1])) (m_rules ex_map4))).
Definition ex_fpath : str :=
  [47] ++ API3 ++ [47] ++ V1 ++ [47] ++ USERS ++ [47; 52; 50; 47; 120; 45; 37; 67; 51; 37; 65; 57; 37; 50; 48; 37; 50; 53].
Lemma ex_factories :
  build_rule (with_dom (SLit API3) (submount (map SLit [API3; V1]) ex_users)) ex_vals = BOk (API3, ex_fpath)
  /\ matcher_run ex_fmap (trie_of ex_fmap) API3 (path_part (unquote ex_fpath)) GET false
     = MOk rule rres (with_dom (SLit API3) (submount (map SLit [API3; V1]) ex_users)) [([105; 100], VInt 42); ([110], VStr [233; 32; 37])]
  /\ Forall good_lit [API3; V1].
Proof.
  split; [vm_compute; reflexivity|]. split; [vm_compute; reflexivity|].
  repeat constructor; try discriminate.
Qed.

(* RuleTemplate([Rule('/${p}/<int:id>/x-<string:n>')]) called with p='users' is the rule above; a value with a
   slash is cut into two pieces *)
Definition ex_tmpl : rule :=
  {| r_idx := 0; r_endpoint := 0; r_dom := SLit [];
     r_segs := [SLit [36; 123; 112; 125]; SDyn [] (CInt 0 None None false) [105; 100] []; SDyn [120; 45] (CStr None 1 None) [110] []];
     r_tail := None; r_branch := false; r_methods := None; r_strict_opt := None; r_merge_opt := None;
     r_websocket := false; r_alias := false; r_defaults := [] |}.
Lemma ex_template :
  template [([112], USERS)] ex_tmpl = Some ex_users
  /\ option_map r_segs (template [([112], API3 ++ [47] ++ V1)] ex_tmpl)
     = Some (SLit API3 :: SLit V1 :: tl (r_segs ex_users))
  /\ template [] ex_tmpl = None.
Proof. repeat split; vm_compute; reflexivity. Qed.

(* EndpointPrefix: endpoint 7 + e of the prefixed map builds what endpoint e builds *)
Lemma ex_prefix :
  adapter_build (map_rules ex_map4 (map (with_endpoint (N.add 7)) (m_rules ex_map4))) ex_adapter 7 ex_vals None false
  = adapter_build ex_map4 ex_adapter 0 ex_vals None false
  /\ exists u, adapter_build ex_map4 ex_adapter 0 ex_vals None false = BOk (Some u).
Proof.
  split; [exact (adapter_build_prefix (N.add 7) (fun x y H => proj1 (N.add_cancel_l x y 7) H) ex_map4 ex_adapter 0 ex_vals None false)|].
  eexists. vm_compute. reflexivity.
Qed.

(* build('users', id=42, n='é %', q='a b', l=[1, None, 2], z=None) -> ...?q=a+b&l=1&l=2 *)
Definition ex_extras : list (str * xval) :=
  [([113], XOne (VStr [97; 32; 98])); ([108], XList [Some (VInt 1); None; Some (VInt 2)]); ([122], XNone)].
Lemma ex_extras_build :
  build_rule_q SortOff ex_users ex_vals ex_extras
  = BOk ([], [47] ++ USERS ++ [47; 52; 50; 47; 120; 45; 37; 67; 51; 37; 65; 57; 37; 50; 48; 37; 50; 53]
             ++ [63; 113; 61; 97; 43; 98; 38; 108; 61; 49; 38; 108; 61; 50])
  /\ C02.Model.parse_qsl [113; 61; 97; 43; 98; 38; 108; 61; 49; 38; 108; 61; 50]
     = [([113], [97; 32; 98]); ([108], [49]); ([108], [50])]
  /\ build_rule_q SortByKey ex_users ex_vals ex_extras
     = BOk ([], [47] ++ USERS ++ [47; 52; 50; 47; 120; 45; 37; 67; 51; 37; 65; 57; 37; 50; 48; 37; 50; 53]
                ++ [63; 108; 61; 49; 38; 108; 61; 50; 38; 113; 61; 97; 43; 98]).
Proof. repeat split; vm_compute; reflexivity. Qed.

(* ================================================================== the options survive the factories
   The companion of C03_flags_inherited: a factory rewrites one attribute; an explicit strict_slashes / merge_slashes
   (False or True), websocket, alias, methods and defaults reach the map unchanged (Rule.empty / get_empty_kwargs) *)
Definition options (r : rule) :=
  (r_strict_opt r, r_merge_opt r, r_websocket r, r_alias r, r_methods r, r_defaults r, r_tail r).
Theorem factories_keep_options r :
  (forall pre, options (submount pre r) = options r)
  /\ (forall d, options (with_dom d r) = options r)
  /\ (forall f, options (with_endpoint f r) = options r)
  /\ (forall ctx r', template ctx r = Some r' -> options r' = options r)
  /\ (forall m pre, rstrict m (submount pre r) = rstrict m r /\ rmerge m (submount pre r) = rmerge m r)
  /\ (forall m d, rstrict m (with_dom d r) = rstrict m r /\ rmerge m (with_dom d r) = rmerge m r).
Proof.
  repeat split; try reflexivity.
  intros ctx r' H. unfold template in H. destruct (template_segs ctx (r_segs r)); [|discriminate].
  destruct (match r_dom r with SLit k => _ | SDyn pre c n post => _ end); [|discriminate]. injection H as <-. reflexivity.
Qed.
