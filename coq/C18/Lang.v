(* C18: the tiny deep-embedded language of straight-line heap programs (DESIGN 2.2, T3), its
   executable semantics over an append-only heap, and the syntactic copy-on-write check.
   Definitions only.  The programs themselves are in C18/Gen.v (regenerated from local.py). *)
From Coq Require Import List NArith Bool Arith.
Import ListNotations.

Definition loc := nat.
Definition reg := nat.

(* heap objects: a dict (insertion-ordered association list, unique keys) or a list.
   Keys are attribute names, values are object identities, both N. *)
Inductive obj := ODict (d : list (N * N)) | OList (l : list N).
Inductive kind := KDict | KList.
Definition empty_of (k : kind) : obj := match k with KDict => ODict [] | KList => OList [] end.
Definition heap := list obj.

Fixpoint dict_get (d : list (N * N)) (k : N) : option N :=
  match d with
  | [] => None
  | (k', v) :: t => if N.eqb k' k then Some v else dict_get t k
  end.
Fixpoint dict_set (d : list (N * N)) (k v : N) : list (N * N) :=
  match d with
  | [] => [(k, v)]
  | (k', v') :: t => if N.eqb k' k then (k', v) :: t else (k', v') :: dict_set t k v
  end.
Fixpoint dict_del (d : list (N * N)) (k : N) : list (N * N) :=
  match d with
  | [] => []
  | (k', v') :: t => if N.eqb k' k then t else (k', v') :: dict_del t k
  end.
Definition dict_mem (d : list (N * N)) (k : N) : bool :=
  match dict_get d k with Some _ => true | None => false end.

Fixpoint last_opt (l : list N) : option N :=
  match l with
  | [] => None
  | x :: t => match t with [] => Some x | _ => last_opt t end
  end.
Definition is_nil {A} (l : list A) : bool := match l with [] => true | _ => false end.

Fixpoint upd_nth {A} (n : nat) (x : A) (l : list A) : list A :=
  match l with
  | [] => []
  | h :: t => match n with O => x :: t | S n' => h :: upd_nth n' x t end
  end.

(* register files / small maps keyed by nat: newest binding first *)
Fixpoint rget {A} (m : list (nat * A)) (r : nat) : option A :=
  match m with
  | [] => None
  | (r', x) :: t => if Nat.eqb r' r then Some x else rget t r
  end.
Definition rset {A} (m : list (nat * A)) (r : nat) (x : A) : list (nat * A) := (r, x) :: m.

(* ------------------------------------------------------------------ syntax *)
(* object registers hold heap locations, value registers hold object identities;
   k, v : nat index the method parameters (self excluded). *)
Inductive instr :=
| IGet (r : reg) (k : kind)          (* r = var.get(<fresh empty dict / list>) *)
| ICopy (r s : reg)                  (* r = s.copy() *)
| ISliceInit (r s : reg)             (* r = s[:-1] *)
| INew (r : reg) (k : kind)          (* r = {} / [] *)
| IMove (r s : reg)                  (* r = s *)
| ISetItem (r : reg) (k v : nat)     (* r[param k] = param v *)
| IDelItem (r : reg) (k : nat)       (* del r[param k] *)
| IAppend (r : reg) (v : nat)        (* r.append(param v) *)
| IPopLast (r : reg)                 (* r.pop() *)
| IClear (r : reg)                   (* r.clear() *)
| ISet (r : reg)                     (* var.set(r) *)
| ILetLast (x : reg) (r : reg)       (* x = r[-1] *)
| ILetItem (x : reg) (r : reg) (k : nat).  (* x = r[param k] *)

Inductive rexp :=
| RNone                              (* return None / fall off the end *)
| RItem (r : reg) (k : nat)          (* return r[param k] *)
| RLast (r : reg)                    (* return r[-1] *)
| RItems (r : reg)                   (* return iter(r.items()) *)
| RObj (r : reg)                     (* return r   (the object itself) *)
| RVal (x : reg).                    (* return x   (a value local) *)

Inductive cond :=
| CIn (k : nat) (r : reg)            (* param k in r *)
| CEmpty (r : reg).                  (* len(r) == 0, r a list *)

Inductive prog :=
| PDo (i : instr) (p : prog)
| PIf (c : cond) (pt pe : prog)
| PRet (e : rexp)
| PRaiseAttr.                        (* raise AttributeError(name) *)

(* ------------------------------------------------------------------ semantics *)
(* ---- the proxy layer (LocalProxy / _ProxyLookup), generated pieces *)
Inductive exn := EAttributeError | ELookupError | ERuntimeError | EOther.
Inductive otest := TIsNone | TFalsy.            (* `obj is None` / `not obj` *)
(* the _get_current_object closure LocalProxy.__init__ installs for each kind of `local` *)
Inductive gco_prog :=
| GcoLocal (catch : exn)       (* try: return get_name(local)  except <catch>: raise RuntimeError(unbound_message) *)
| GcoStack (unbound : otest)   (* obj = local.top; if <unbound obj>: raise RuntimeError(unbound_message); return get_name(obj) *)
| GcoVar (catch : exn)         (* try: obj = local.get()  except <catch>: raise RuntimeError(unbound_message); return get_name(obj) *)
| GcoCall.                     (* return get_name(local()) *)
(* what a _ProxyLookup fallback returns for an unbound proxy *)
Inductive fbkind := FbNone | FbFalse | FbTrue | FbUnboundRepr | FbEmptyList | FbTypeDoc | FbWrapped | FbTypeSelf | FbOther.
Record pentry := mkpentry { pe_id : nat; pe_has_f : bool; pe_fallback : fbkind; pe_is_attr : bool; pe_iop : bool }.
(* what the bound in-place operator of _ProxyIOp returns after calling f(obj, other) *)
Inductive iop_ret := RetInstance | RetObject.
(* callbacks run by ClosingIterator.close(), in order *)
Inductive close_cb := CbIterableClose | CbGiven.

Inductive out :=
| ONone | OVal (v : N) | OItems (l : list (N * N)) | OObj (l : list N) | OAttrError
| ORuntimeError | OBool (b : bool) | ORepr (x : option N) | OCtx (c : nat) | OProxy (i : nat)
| OFwd (e : nat) (x : N)              (* special method number e forwarded to object x *)
| OFallback (k : fbkind)              (* the fallback of an unbound proxy *)
| OMsg (m : option N)                 (* text of the RuntimeError: None = the default message *)
| OInvalid                            (* step addressed to a context / proxy that does not exist *)
| OStuck.                             (* the program went wrong (KeyError, IndexError, type error, unbound local) *)

Record st := mkst { s_heap : heap; s_regs : list (reg * loc); s_vals : list (reg * N); s_bind : option loc }.

Definition alloc (s : st) (o : obj) (r : reg) : st :=
  mkst (s_heap s ++ [o]) (rset (s_regs s) r (length (s_heap s))) (s_vals s) (s_bind s).
Definition robj (s : st) (r : reg) : option (loc * obj) :=
  match rget (s_regs s) r with
  | Some l => match nth_error (s_heap s) l with Some o => Some (l, o) | None => None end
  | None => None
  end.
Definition write (s : st) (l : loc) (o : obj) : st :=
  mkst (upd_nth l o (s_heap s)) (s_regs s) (s_vals s) (s_bind s).
Definition setreg (s : st) (r : reg) (l : loc) : st :=
  mkst (s_heap s) (rset (s_regs s) r l) (s_vals s) (s_bind s).
Definition setval (s : st) (x : reg) (v : N) : st :=
  mkst (s_heap s) (s_regs s) (rset (s_vals s) x v) (s_bind s).

Definition exec_instr (ps : list N) (s : st) (i : instr) : option st :=
  match i with
  | IGet r k =>
      match s_bind s with
      | Some l => Some (setreg s r l)
      | None => Some (alloc s (empty_of k) r)
      end
  | ICopy r r' =>
      match robj s r' with Some (_, o) => Some (alloc s o r) | None => None end
  | ISliceInit r r' =>
      match robj s r' with Some (_, OList xs) => Some (alloc s (OList (removelast xs)) r) | _ => None end
  | INew r k => Some (alloc s (empty_of k) r)
  | IMove r r' =>
      match rget (s_regs s) r' with Some l => Some (setreg s r l) | None => None end
  | ISetItem r k v =>
      match robj s r, nth_error ps k, nth_error ps v with
      | Some (l, ODict d), Some key, Some val => Some (write s l (ODict (dict_set d key val)))
      | _, _, _ => None
      end
  | IDelItem r k =>
      match robj s r, nth_error ps k with
      | Some (l, ODict d), Some key =>
          if dict_mem d key then Some (write s l (ODict (dict_del d key))) else None
      | _, _ => None
      end
  | IAppend r v =>
      match robj s r, nth_error ps v with
      | Some (l, OList xs), Some val => Some (write s l (OList (xs ++ [val])))
      | _, _ => None
      end
  | IPopLast r =>
      match robj s r with
      | Some (l, OList xs) => if is_nil xs then None else Some (write s l (OList (removelast xs)))
      | _ => None
      end
  | IClear r =>
      match robj s r with
      | Some (l, ODict _) => Some (write s l (ODict []))
      | Some (l, OList _) => Some (write s l (OList []))
      | None => None
      end
  | ISet r =>
      match rget (s_regs s) r with
      | Some l => Some (mkst (s_heap s) (s_regs s) (s_vals s) (Some l))
      | None => None
      end
  | ILetLast x r =>
      match robj s r with
      | Some (_, OList xs) => match last_opt xs with Some v => Some (setval s x v) | None => None end
      | _ => None
      end
  | ILetItem x r k =>
      match robj s r, nth_error ps k with
      | Some (_, ODict d), Some key =>
          match dict_get d key with Some v => Some (setval s x v) | None => None end
      | _, _ => None
      end
  end.

Definition eval_cond (ps : list N) (s : st) (c : cond) : option bool :=
  match c with
  | CIn k r =>
      match robj s r, nth_error ps k with
      | Some (_, ODict d), Some key => Some (dict_mem d key)
      | _, _ => None
      end
  | CEmpty r =>
      match robj s r with
      | Some (_, OList xs) => Some (is_nil xs)
      | _ => None
      end
  end.

Definition eval_ret (ps : list N) (s : st) (e : rexp) : out :=
  match e with
  | RNone => ONone
  | RItem r k =>
      match robj s r, nth_error ps k with
      | Some (_, ODict d), Some key => match dict_get d key with Some v => OVal v | None => OStuck end
      | _, _ => OStuck
      end
  | RLast r =>
      match robj s r with
      | Some (_, OList xs) => match last_opt xs with Some v => OVal v | None => OStuck end
      | _ => OStuck
      end
  | RItems r => match robj s r with Some (_, ODict d) => OItems d | _ => OStuck end
  | RObj r =>
      match robj s r with Some (_, OList xs) => OObj xs | Some (_, ODict d) => OItems d | None => OStuck end
  | RVal x => match rget (s_vals s) x with Some v => OVal v | None => OStuck end
  end.

Fixpoint exec (ps : list N) (s : st) (p : prog) : st * out :=
  match p with
  | PDo i p' => match exec_instr ps s i with Some s' => exec ps s' p' | None => (s, OStuck) end
  | PIf c a b =>
      match eval_cond ps s c with
      | Some true => exec ps s a
      | Some false => exec ps s b
      | None => (s, OStuck)
      end
  | PRet e => (s, eval_ret ps s e)
  | PRaiseAttr => (s, OAttrError)
  end.

Definition init_st (h : heap) (b : option loc) : st := mkst h [] [] b.

(* ------------------------------------------------------------------ the copy-on-write check *)
(* fresh = object registers known to hold an object allocated by this run and not yet published.
   - the result of Get is never fresh (it may be the object every other context also sees);
   - Copy / SliceInit / New make their target fresh;
   - every in-place write needs a fresh target;
   - the only shared-state write, ContextVar.set, needs a fresh object and publishes it:
     nothing is fresh afterwards. *)
Definition rmem (r : reg) (l : list reg) : bool := existsb (Nat.eqb r) l.
Definition rdrop (r : reg) (l : list reg) : list reg := filter (fun x => negb (Nat.eqb r x)) l.

Fixpoint cow_safe_from (fresh : list reg) (p : prog) : bool :=
  match p with
  | PDo i p' =>
      match i with
      | IGet r _ => cow_safe_from (rdrop r fresh) p'
      | ICopy r _ | ISliceInit r _ | INew r _ => cow_safe_from (r :: fresh) p'
      | IMove r s => cow_safe_from (if rmem s fresh then r :: fresh else rdrop r fresh) p'
      | ISetItem r _ _ | IDelItem r _ | IAppend r _ | IPopLast r | IClear r =>
          rmem r fresh && cow_safe_from fresh p'
      | ISet r => rmem r fresh && cow_safe_from [] p'
      | ILetLast _ _ | ILetItem _ _ _ => cow_safe_from fresh p'
      end
  | PIf _ a b => cow_safe_from fresh a && cow_safe_from fresh b
  | PRet _ | PRaiseAttr => true
  end.
Definition cow_safe (p : prog) : bool := cow_safe_from [] p.
