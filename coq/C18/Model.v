(* C18 world model: append-only heap + context -> ContextVar -> location, operations issued by
   contexts, the generated heap programs as method bodies; and the reference model holding one
   immutable mapping / stack per context.  Definitions only. *)
From Coq Require Import List NArith Bool Arith.
Import ListNotations.
From Wz Require Import C18.Lang C18.Gen.

(* ------------------------------------------------------------------ method table *)
Record methods := mkmethods {
  m_getattr : prog; m_setattr : prog; m_delattr : prog; m_iter : prog; m_lrelease : prog;
  m_push : prog; m_pop : prog; m_top : prog; m_srelease : prog }.

Definition gen_methods : methods :=
  mkmethods prog_Local_getattr prog_Local_setattr prog_Local_delattr prog_Local_iter
            prog_Local_release_local prog_LocalStack_push prog_LocalStack_pop prog_LocalStack_top
            prog_LocalStack_release_local.

(* ------------------------------------------------------------------ operations *)
(* Local number v owns ContextVar 2v, LocalStack number v owns ContextVar 2v+1: every
   Local / LocalStack object has a ContextVar of its own (pinned by the translator). *)
Definition lvar (v : nat) : nat := 2 * v.
Definition svar (v : nat) : nat := 2 * v + 1.

(* local(name, unbound_message=msg)  /  stack(unbound_message=msg), stack("twin", unbound_message=msg) *)
Inductive pdesc := PLocal (v : nat) (name : N) (msg : option N) | PStack (v : nat) (twin : bool) (msg : option N).
Inductive paccess :=
| PaCurrent | PaBool | PaRepr | PaGetAttr | PaSetAttr
| PaMessage                    (* the text of the RuntimeError of _get_current_object *)
| PaEntry (e : nat).           (* descriptor lookup of entry e of the regenerated proxy_table *)
(* the objects stored by the harness have one attribute holding another object: its identity *)
Definition twin_of (x : N) : N := (x + 1001)%N.
Definition get_name (twin : bool) (x : N) : N := if twin then twin_of x else x.
(* the identity standing for Python's None when it is stored as a value: a perfectly ordinary value of a Local
   attribute (an attribute bound to None is BOUND), but on top of a LocalStack it is what the stack closure of
   LocalProxy tests for, so a stack proxy whose top is None reports itself unbound (the code's behaviour) *)
Definition none_id : N := 9000%N.

Inductive op :=
| OpSet (v : nat) (name val : N)      (* local.name = val *)
| OpGet (v : nat) (name : N)          (* local.name *)
| OpDel (v : nat) (name : N)          (* del local.name *)
| OpIter (v : nat)                    (* list(iter(local)) *)
| OpLRelease (v : nat)                (* release_local(local) *)
| OpPush (v : nat) (x : N)
| OpPop (v : nat)
| OpTop (v : nat)
| OpSRelease (v : nat)                (* release_local(stack) *)
| OpCleanup (ls : list (bool * nat))  (* LocalManager([...]).cleanup(): (true, v) = stack v, (false, v) = local v *)
| OpSpawn                             (* copy_context() / create_task(): the child starts from a snapshot *)
| OpThread                            (* a new thread: starts from the empty context *)
| OpMkProxy (d : pdesc)               (* local(name) / stack() *)
| OpProxy (i : nat) (a : paccess)     (* use proxy number i *)
| OpMwOpen                            (* LocalManager.make_middleware(app)(environ, start_response): wrap the response iterable *)
| OpMwDrop                            (* the last reference to such an iterable goes away / it is garbage-collected here *)
| OpMwClose (ls : list (bool * nat)) (ac : option (nat * N * N)).
    (* close() of an iterable wrapped by LocalManager(ls).make_middleware; ac = what the application's own
       iterable does in its close(): local v . name = val (None: it has no close) *)
(* closing such an iterable is OpCleanup: by the structure of make_middleware pinned in C18/Gen.v
   (middleware_cleanup_only_on_close) the ONLY thing the middleware arranges is that close() calls
   cleanup() in the closing context; creating or discarding the iterable schedules nothing. *)

Definition truthy (x : N) : bool := N.odd x.

(* ------------------------------------------------------------------ implementation world *)
Record world := mkworld { w_heap : heap; w_ctx : list (list (nat * loc)); w_prox : list pdesc }.
Definition world0 : world := mkworld [] [[]] [].

Definition bind_upd (m : list (nat * loc)) (var : nat) (b : option loc) : list (nat * loc) :=
  match b with Some l => rset m var l | None => m end.

(* run program p with parameters ps on ContextVar var in context c *)
Definition call (p : prog) (ps : list N) (var : nat) (w : world) (c : nat) : world * out :=
  match nth_error (w_ctx w) c with
  | None => (w, OInvalid)
  | Some m =>
      let '(s, o) := exec ps (init_st (w_heap w) (rget m var)) p in
      (mkworld (s_heap s) (upd_nth c (bind_upd m var (s_bind s)) (w_ctx w)) (w_prox w), o)
  end.

Definition release_one (M : methods) (w : world) (c : nat) (l : bool * nat) : world :=
  if fst l then fst (call (m_srelease M) [] (svar (snd l)) w c)
  else fst (call (m_lrelease M) [] (lvar (snd l)) w c).

(* LocalProxy._get_current_object: the regenerated closures gco_local / gco_stack interpreted.
   inl x = the bound object, inr ORuntimeError = unbound, inr o = another exception / model error *)
Definition conv_local (o : out) : N + out :=
  match o with
  | OVal x => inl x
  | OAttrError => match gco_local with GcoLocal EAttributeError => inr ORuntimeError | _ => inr OAttrError end
  | OInvalid => inr OInvalid
  | _ => inr OStuck
  end.
Definition conv_stack (twin : bool) (o : out) : N + out :=
  match o with
  | OVal x =>
      match gco_stack with
      | GcoStack TIsNone => if N.eqb x none_id then inr ORuntimeError else inl (get_name twin x)
      | GcoStack TFalsy => if truthy x then inl (get_name twin x) else inr ORuntimeError
      | _ => inr OStuck
      end
  | ONone => match gco_stack with GcoStack _ => inr ORuntimeError | _ => inr OStuck end
  | OInvalid => inr OInvalid
  | _ => inr OStuck
  end.
Definition gco (M : methods) (d : pdesc) (w : world) (c : nat) : world * (N + out) :=
  match d with
  | PLocal v name _ =>
      let '(w', o) := call (m_getattr M) [name] (lvar v) w c in (w', conv_local o)
  | PStack v tw _ =>
      let '(w', o) := call (m_top M) [] (svar v) w c in (w', conv_stack tw o)
  end.
Definition pmsg (d : pdesc) : option N := match d with PLocal _ _ m => m | PStack _ _ m => m end.

(* _ProxyLookup.__get__ : the regenerated exception flow (lookup_catch) and fallback table interpreted *)
Definition entry_unbound (e : nat) : out :=
  match nth_error proxy_table e with
  | Some pe =>
      match lookup_catch with
      | ERuntimeError => match pe_fallback pe with FbNone => ORuntimeError | k => OFallback k end
      | _ => ORuntimeError
      end
  | None => OInvalid
  end.
Definition unbound_out (a : paccess) (msg : option N) : out :=
  match a with
  | PaCurrent => ORuntimeError
  | PaMessage => OMsg msg
  | PaBool => match entry_unbound entry_bool with
              | OFallback FbFalse => OBool false | OFallback FbTrue => OBool true | o => o end
  | PaRepr => match entry_unbound entry_repr with OFallback FbUnboundRepr => ORepr None | o => o end
  | PaGetAttr => entry_unbound entry_getattr
  | PaSetAttr => entry_unbound entry_setattr
  | PaEntry e => entry_unbound e
  end.
Definition bound_out (a : paccess) (x : N) : out :=
  match a with
  | PaBool => OBool (truthy x)
  | PaRepr => ORepr (Some x)
  | PaEntry e => match nth_error proxy_table e with Some _ => OFwd e x | None => OInvalid end
  | PaCurrent | PaGetAttr | PaSetAttr | PaMessage => OVal x
  end.
Definition proxy_out (a : paccess) (msg : option N) (r : N + out) : out :=
  match r with
  | inl x => bound_out a x
  | inr ORuntimeError => unbound_out a msg
  | inr o => o
  end.

(* ClosingIterator.close(): the regenerated callback order interpreted *)
Definition close_cb_run (M : methods) (c : nat) (ls : list (bool * nat)) (ac : option (nat * N * N))
    (w : world) (cb : close_cb) : world :=
  match cb with
  | CbIterableClose =>
      match ac with
      | Some (v, name, val) => fst (call (m_setattr M) [name; val] (lvar v) w c)
      | None => w
      end
  | CbGiven => fold_left (fun w' l => release_one M w' c l) ls w
  end.

Definition step (M : methods) (w : world) (co : nat * op) : world * out :=
  let '(c, o) := co in
  match o with
  | OpSet v name val => call (m_setattr M) [name; val] (lvar v) w c
  | OpGet v name => call (m_getattr M) [name] (lvar v) w c
  | OpDel v name => call (m_delattr M) [name] (lvar v) w c
  | OpIter v => call (m_iter M) [] (lvar v) w c
  | OpLRelease v => call (m_lrelease M) [] (lvar v) w c
  | OpPush v x => call (m_push M) [x] (svar v) w c
  | OpPop v => call (m_pop M) [] (svar v) w c
  | OpTop v => call (m_top M) [] (svar v) w c
  | OpSRelease v => call (m_srelease M) [] (svar v) w c
  | OpCleanup ls =>
      match nth_error (w_ctx w) c with
      | None => (w, OInvalid)
      | Some _ => (fold_left (fun w' l => release_one M w' c l) ls w, ONone)
      end
  | OpSpawn =>
      match nth_error (w_ctx w) c with
      | None => (w, OInvalid)
      | Some m => (mkworld (w_heap w) (w_ctx w ++ [m]) (w_prox w), OCtx (length (w_ctx w)))
      end
  | OpThread =>
      match nth_error (w_ctx w) c with
      | None => (w, OInvalid)
      | Some _ => (mkworld (w_heap w) (w_ctx w ++ [[]]) (w_prox w), OCtx (length (w_ctx w)))
      end
  | OpMkProxy d =>
      match nth_error (w_ctx w) c with
      | None => (w, OInvalid)
      | Some _ => (mkworld (w_heap w) (w_ctx w) (w_prox w ++ [d]), OProxy (length (w_prox w)))
      end
  | OpProxy i a =>
      match nth_error (w_prox w) i with
      | None => (w, OInvalid)
      | Some d => let '(w', r) := gco M d w c in (w', proxy_out a (pmsg d) r)
      end
  | OpMwOpen | OpMwDrop =>
      match nth_error (w_ctx w) c with
      | None => (w, OInvalid)
      | Some _ => (w, ONone)
      end
  | OpMwClose ls ac =>
      match nth_error (w_ctx w) c with
      | None => (w, OInvalid)
      | Some _ => (fold_left (close_cb_run M c ls ac) closing_order w, ONone)
      end
  end.

Fixpoint run_from (M : methods) (w : world) (steps : list (nat * op)) : world * list out :=
  match steps with
  | [] => (w, [])
  | s :: t => let '(w', o) := step M w s in let '(w'', os) := run_from M w' t in (w'', o :: os)
  end.
Definition run (M : methods) (steps : list (nat * op)) : world * list out := run_from M world0 steps.

(* what context c sees in ContextVar var: None = no such context; Some None = unbound *)
Definition deref (h : heap) (b : option loc) : option obj :=
  match b with Some l => nth_error h l | None => None end.
Definition view (w : world) (c var : nat) : option (option obj) :=
  match nth_error (w_ctx w) c with
  | None => None
  | Some m => Some (deref (w_heap w) (rget m var))
  end.

(* ------------------------------------------------------------------ reference model *)
(* one immutable value per (context, ContextVar); no heap, no sharing *)
Definition sem := list N -> option obj -> option obj * out.

Definition as_dict (o : option obj) : option (list (N * N)) :=
  match o with None => Some [] | Some (ODict d) => Some d | Some (OList _) => None end.
Definition as_list (o : option obj) : option (list N) :=
  match o with None => Some [] | Some (OList l) => Some l | Some (ODict _) => None end.

Definition sp_getattr : sem := fun ps o =>
  match ps, as_dict o with
  | [name], Some d => (o, match dict_get d name with Some x => OVal x | None => OAttrError end)
  | _, _ => (o, OStuck)
  end.
Definition sp_setattr : sem := fun ps o =>
  match ps, as_dict o with
  | [name; val], Some d => (Some (ODict (dict_set d name val)), ONone)
  | _, _ => (o, OStuck)
  end.
Definition sp_delattr : sem := fun ps o =>
  match ps, as_dict o with
  | [name], Some d =>
      if dict_mem d name then (Some (ODict (dict_del d name)), ONone) else (o, OAttrError)
  | _, _ => (o, OStuck)
  end.
Definition sp_iter : sem := fun ps o =>
  match as_dict o with Some d => (o, OItems d) | None => (o, OStuck) end.
Definition sp_lrelease : sem := fun ps o => (Some (ODict []), ONone).
Definition sp_push : sem := fun ps o =>
  match ps, as_list o with
  | [x], Some l => (Some (OList (l ++ [x])), OObj (l ++ [x]))
  | _, _ => (o, OStuck)
  end.
Definition sp_pop : sem := fun ps o =>
  match as_list o with
  | Some l => match last_opt l with
              | Some x => (Some (OList (removelast l)), OVal x)
              | None => (o, ONone)
              end
  | None => (o, OStuck)
  end.
Definition sp_top : sem := fun ps o =>
  match as_list o with
  | Some l => (o, match last_opt l with Some x => OVal x | None => ONone end)
  | None => (o, OStuck)
  end.
Definition sp_srelease : sem := fun ps o => (Some (OList []), ONone).

Record sworld := mksworld { sw_ctx : list (list (nat * obj)); sw_prox : list pdesc }.
Definition sworld0 : sworld := mksworld [[]] [].

Definition sbind_upd (m : list (nat * obj)) (var : nat) (o : option obj) : list (nat * obj) :=
  match o with Some x => rset m var x | None => m end.

Definition scall (f : sem) (ps : list N) (var : nat) (w : sworld) (c : nat) : sworld * out :=
  match nth_error (sw_ctx w) c with
  | None => (w, OInvalid)
  | Some m =>
      let '(o', r) := f ps (rget m var) in
      (mksworld (upd_nth c (sbind_upd m var o') (sw_ctx w)) (sw_prox w), r)
  end.

Definition srelease_one (w : sworld) (c : nat) (l : bool * nat) : sworld :=
  if fst l then fst (scall sp_srelease [] (svar (snd l)) w c)
  else fst (scall sp_lrelease [] (lvar (snd l)) w c).

(* the object a proxy denotes in a context holding the values m: None = nothing bound *)
Definition bound_of (look : nat -> option obj) (d : pdesc) : option N :=
  match d with
  | PLocal v name _ => match look (lvar v) with Some (ODict dd) => dict_get dd name | _ => None end
  | PStack v tw _ => match look (svar v) with
                     | Some (OList l) =>
                         match last_opt l with
                         | Some x => if N.eqb x none_id then None else Some (get_name tw x)
                         | None => None
                         end
                     | _ => None end
  end.
Definition bound_in (m : list (nat * obj)) (d : pdesc) : option N := bound_of (rget m) d.
(* an unbound proxy: RuntimeError, except where the entry of the proxied name carries a fallback *)
Definition entry_unbound_spec (e : nat) : out :=
  match nth_error proxy_table e with
  | Some pe => match pe_fallback pe with FbNone => ORuntimeError | k => OFallback k end
  | None => OInvalid
  end.
Definition proxy_spec (a : paccess) (msg : option N) (b : option N) : out :=
  match b with
  | Some x => bound_out a x
  | None =>
      match a with
      | PaBool => OBool false
      | PaRepr => ORepr None
      | PaMessage => OMsg msg
      | PaEntry e => entry_unbound_spec e
      | PaCurrent | PaGetAttr | PaSetAttr => ORuntimeError
      end
  end.

(* request end on the reference model: the application's own close, then cleanup *)
Definition sclose_cb_run (c : nat) (ls : list (bool * nat)) (ac : option (nat * N * N))
    (w : sworld) (cb : close_cb) : sworld :=
  match cb with
  | CbIterableClose =>
      match ac with
      | Some (v, name, val) => fst (scall sp_setattr [name; val] (lvar v) w c)
      | None => w
      end
  | CbGiven => fold_left (fun w' l => srelease_one w' c l) ls w
  end.

Definition sstep (w : sworld) (co : nat * op) : sworld * out :=
  let '(c, o) := co in
  match o with
  | OpSet v name val => scall sp_setattr [name; val] (lvar v) w c
  | OpGet v name => scall sp_getattr [name] (lvar v) w c
  | OpDel v name => scall sp_delattr [name] (lvar v) w c
  | OpIter v => scall sp_iter [] (lvar v) w c
  | OpLRelease v => scall sp_lrelease [] (lvar v) w c
  | OpPush v x => scall sp_push [x] (svar v) w c
  | OpPop v => scall sp_pop [] (svar v) w c
  | OpTop v => scall sp_top [] (svar v) w c
  | OpSRelease v => scall sp_srelease [] (svar v) w c
  | OpCleanup ls =>
      match nth_error (sw_ctx w) c with
      | None => (w, OInvalid)
      | Some _ => (fold_left (fun w' l => srelease_one w' c l) ls w, ONone)
      end
  | OpSpawn =>
      match nth_error (sw_ctx w) c with
      | None => (w, OInvalid)
      | Some m => (mksworld (sw_ctx w ++ [m]) (sw_prox w), OCtx (length (sw_ctx w)))
      end
  | OpThread =>
      match nth_error (sw_ctx w) c with
      | None => (w, OInvalid)
      | Some _ => (mksworld (sw_ctx w ++ [[]]) (sw_prox w), OCtx (length (sw_ctx w)))
      end
  | OpMkProxy d =>
      match nth_error (sw_ctx w) c with
      | None => (w, OInvalid)
      | Some _ => (mksworld (sw_ctx w) (sw_prox w ++ [d]), OProxy (length (sw_prox w)))
      end
  | OpProxy i a =>
      match nth_error (sw_prox w) i, nth_error (sw_ctx w) c with
      | Some d, Some m => (w, proxy_spec a (pmsg d) (bound_in m d))
      | _, _ => (w, OInvalid)
      end
  | OpMwOpen | OpMwDrop =>
      match nth_error (sw_ctx w) c with
      | None => (w, OInvalid)
      | Some _ => (w, ONone)
      end
  | OpMwClose ls ac =>
      match nth_error (sw_ctx w) c with
      | None => (w, OInvalid)
      | Some _ => (fold_left (sclose_cb_run c ls ac) [CbIterableClose; CbGiven] w, ONone)
      end
  end.

Fixpoint srun_from (w : sworld) (steps : list (nat * op)) : sworld * list out :=
  match steps with
  | [] => (w, [])
  | s :: t => let '(w', o) := sstep w s in let '(w'', os) := srun_from w' t in (w'', o :: os)
  end.
Definition srun (steps : list (nat * op)) : sworld * list out := srun_from sworld0 steps.

Definition sview (w : sworld) (c var : nat) : option (option obj) :=
  match nth_error (sw_ctx w) c with
  | None => None
  | Some m => Some (rget m var)
  end.

(* ------------------------------------------------------------------ for the driver *)
Definition run_gen (steps : list (nat * op)) : list out := snd (run gen_methods steps).
Definition run_spec (steps : list (nat * op)) : list out := snd (srun steps).
Definition cow_safe_all (M : methods) : bool :=
  cow_safe (m_getattr M) && cow_safe (m_setattr M) && cow_safe (m_delattr M) && cow_safe (m_iter M)
  && cow_safe (m_lrelease M) && cow_safe (m_push M) && cow_safe (m_pop M) && cow_safe (m_top M)
  && cow_safe (m_srelease M).
