(* C18 property theorems.  Nothing but statements, each closed by exact lemma, with Print
   Assumptions beneath.  Language, semantics and the check cow_safe: C18/Lang.v; the method
   bodies: C18/Gen.v (regenerated from local.py); world and reference model: C18/Model.v. *)
From Coq Require Import List NArith Bool Arith.
Import ListNotations.
From Wz Require Import C18.Lang C18.Gen C18.Model C18.Proofs C18.Refine C18.Isolation.

(* any program accepted by the syntactic check, run with any parameters in any heap under any
   binding, leaves every existing heap cell untouched (the heap only grows at the end), and the only
   object it can publish with ContextVar.set is a cell it allocated itself *)
Theorem C18_cow_sound : forall p, cow_safe p = true ->
  forall ps h b, let s' := fst (exec ps (init_st h b) p) in
  (exists news, s_heap s' = h ++ news) /\
  (s_bind s' = b \/ exists l, s_bind s' = Some l /\ length h <= l).
Proof. exact cow_sound. Qed.
Print Assumptions C18_cow_sound.

(* satisfiability of the hypothesis, and the regenerated obligation: every method body of Local and
   LocalStack in the current local.py passes the check *)
Theorem C18_cow_safe_generated :
  cow_safe prog_Local_getattr && cow_safe prog_Local_setattr && cow_safe prog_Local_delattr
  && cow_safe prog_Local_iter && cow_safe prog_Local_release_local && cow_safe prog_LocalStack_push
  && cow_safe prog_LocalStack_pop && cow_safe prog_LocalStack_top
  && cow_safe prog_LocalStack_release_local = true.
Proof. exact cow_safe_generated. Qed.
Print Assumptions C18_cow_safe_generated.

(* for EVERY step list (every interleaving at operation granularity, any number of contexts, any
   spawn tree): every observation, and what every context sees in every ContextVar, are those of
   the reference model holding one immutable mapping / stack per context *)
Theorem C18_isolation : forall steps,
  snd (run gen_methods steps) = snd (srun steps) /\
  forall c var, view (fst (run gen_methods steps)) c var = sview (fst (srun steps)) c var.
Proof. exact (isolation_any gen_methods gen_methods_ok). Qed.
Print Assumptions C18_isolation.

(* the same for any method table whose programs pass cow_safe and are correct in ONE context *)
Theorem C18_isolation_any_methods : forall M, methods_ok M -> forall steps,
  snd (run M steps) = snd (srun steps) /\
  forall c var, view (fst (run M steps)) c var = sview (fst (srun steps)) c var.
Proof. exact isolation_any. Qed.
Print Assumptions C18_isolation_any_methods.

Example C18_methods_ok_satisfiable : methods_ok gen_methods.
Proof. exact gen_methods_ok. Qed.
Print Assumptions C18_methods_ok_satisfiable.

(* in any reachable world, an operation of ANY kind issued by context c changes nothing that a
   different existing context sees *)
Theorem C18_sibling_frame : forall steps c o c' var, let w := fst (run gen_methods steps) in
  c <> c' -> c' < length (w_ctx w) ->
  view (fst (step gen_methods w (c, o))) c' var = view w c' var.
Proof. exact (frame_any gen_methods gen_methods_ok). Qed.
Print Assumptions C18_sibling_frame.

(* a child (copy_context / task) sees at birth exactly what its parent sees, and the parent is unchanged *)
Theorem C18_child_snapshot : forall steps c var, let w := fst (run gen_methods steps) in
  c < length (w_ctx w) ->
  snd (step gen_methods w (c, OpSpawn)) = OCtx (length (w_ctx w)) /\
  view (fst (step gen_methods w (c, OpSpawn))) (length (w_ctx w)) var = view w c var /\
  view (fst (step gen_methods w (c, OpSpawn))) c var = view w c var.
Proof. exact (spawn_any gen_methods). Qed.
Print Assumptions C18_child_snapshot.

(* a new thread sees nothing *)
Theorem C18_new_thread_empty : forall steps c var, let w := fst (run gen_methods steps) in
  c < length (w_ctx w) ->
  snd (step gen_methods w (c, OpThread)) = OCtx (length (w_ctx w)) /\
  view (fst (step gen_methods w (c, OpThread))) (length (w_ctx w)) var = Some None.
Proof. exact (thread_any gen_methods). Qed.
Print Assumptions C18_new_thread_empty.

(* release_local: empties that local in the releasing context and changes no other (context, variable) *)
Theorem C18_release_local_only : forall steps c v (stack : bool), let w := fst (run gen_methods steps) in
  let var := if stack then svar v else lvar v in
  let w' := fst (step gen_methods w (c, if stack then OpSRelease v else OpLRelease v)) in
  c < length (w_ctx w) ->
  view w' c var = Some (Some (if stack then OList [] else ODict [])) /\
  forall c' var', (c', var') <> (c, var) -> c' < length (w_ctx w) -> view w' c' var' = view w c' var'.
Proof. exact (release_any gen_methods gen_methods_ok). Qed.
Print Assumptions C18_release_local_only.

(* the totalised error value of the model is never produced: no generated program goes wrong *)
Theorem C18_never_stuck : forall steps, ~ In OStuck (snd (run gen_methods steps)).
Proof. exact (never_stuck_any gen_methods gen_methods_ok). Qed.
Print Assumptions C18_never_stuck.

(* a proxy, whoever created it, resolves to what the ACCESSING context sees: the bound object, or
   RuntimeError / False / the fallback repr exactly when nothing is bound there (proxy_spec);
   and using it changes no view *)
Theorem C18_proxy : forall steps c i d a, let w := fst (run gen_methods steps) in
  nth_error (w_prox w) i = Some d ->
  forall m, nth_error (w_ctx w) c = Some m ->
  snd (step gen_methods w (c, OpProxy i a))
    = proxy_spec a (bound_of (fun var => deref (w_heap w) (rget m var)) d) /\
  forall c' var, view (fst (step gen_methods w (c, OpProxy i a))) c' var = view w c' var.
Proof. exact (proxy_any gen_methods gen_methods_ok). Qed.
Print Assumptions C18_proxy.

Theorem C18_proxy_unbound_iff : forall b,
  (proxy_spec PaCurrent b = ORuntimeError <-> b = None) /\
  (b = None -> proxy_spec PaBool b = OBool false /\ proxy_spec PaRepr b = ORepr None
               /\ proxy_spec PaGetAttr b = ORuntimeError /\ proxy_spec PaSetAttr b = ORuntimeError) /\
  (forall x, b = Some x -> proxy_spec PaCurrent b = OVal x /\ proxy_spec PaBool b = OBool (truthy x)
               /\ proxy_spec PaRepr b = ORepr (Some x) /\ proxy_spec PaGetAttr b = OVal x).
Proof. exact proxy_spec_cases. Qed.
Print Assumptions C18_proxy_unbound_iff.

(* middleware glue: wrapping a response iterable (make_middleware) and discarding it, in whatever
   context that happens, leave the whole world as it is; closing it is OpCleanup, already covered by
   C18_sibling_frame (it releases in the closing context only).  Tie: the statement structure of
   make_middleware / middleware / cleanup / ClosingIterator.close is pinned by the translator. *)
Theorem C18_middleware_drop_no_effect : forall w c,
  fst (step gen_methods w (c, OpMwOpen)) = w /\ fst (step gen_methods w (c, OpMwDrop)) = w.
Proof. exact (mw_no_effect gen_methods). Qed.
Print Assumptions C18_middleware_drop_no_effect.

(* non-vacuity: a schedule on which parent and child end up seeing different things, as the
   reference model says; and the hypotheses of C18_isolation_any_methods are load-bearing: with the
   copy() removed from __setattr__ and push the programs are still correct in one context, are
   rejected by cow_safe, and leak on that schedule *)
Example C18_uncopied_leaks :
  cow_safe prog_setattr_uncopied = false /\ cow_safe prog_push_uncopied = false /\
  refines prog_setattr_uncopied sp_setattr 2 /\
  snd (run uncopied_methods leak_schedule) <> snd (srun leak_schedule) /\
  snd (run gen_methods leak_schedule) = snd (srun leak_schedule).
Proof. exact uncopied_leaks. Qed.
Print Assumptions C18_uncopied_leaks.

Example C18_views_differ :
  view (fst (run gen_methods leak_schedule)) 0 (lvar 0) = Some (Some (ODict [(1, 7)]%N)) /\
  view (fst (run gen_methods leak_schedule)) 1 (lvar 0) = Some (Some (ODict [(1, 7); (2, 9)]%N)) /\
  view (fst (run gen_methods leak_schedule)) 1 (svar 0) = Some (Some (OList [5; 6]%N)).
Proof. exact views_differ. Qed.
Print Assumptions C18_views_differ.
