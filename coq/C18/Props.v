(* C18 property theorems.  Nothing but statements, each closed by exact lemma, with Print
   Assumptions beneath.  Language, semantics and the check cow_safe: C18/Lang.v; the method
   bodies: C18/Gen.v (regenerated from local.py); world and reference model: C18/Model.v. *)
From Coq Require Import List NArith Bool Arith.
Import ListNotations.
From Wz Require Import C18.Lang C18.Gen C18.Model C18.Proofs C18.Refine C18.Isolation.

(* any program accepted by the syntactic check, run with any parameters in any heap under any
   binding, leaves every existing heap cell untouched (the heap only grows at the end), and the only
   object it can publish with ContextVar.set is a cell it allocated itself *)
Theorem C18_cow_sound : forall p, cow_safe p = true ->
  forall ps h b, let s' := fst (exec ps (init_st h b) p) in
  (exists news, s_heap s' = h ++ news) /\
  (s_bind s' = b \/ exists l, s_bind s' = Some l /\ length h <= l).
Proof. exact cow_sound. Qed.
Print Assumptions C18_cow_sound.

(* satisfiability of the hypothesis, and the regenerated obligation: every method body of Local and
   LocalStack in the current local.py passes the check *)
Theorem C18_cow_safe_generated :
  cow_safe prog_Local_getattr && cow_safe prog_Local_setattr && cow_safe prog_Local_delattr
  && cow_safe prog_Local_iter && cow_safe prog_Local_release_local && cow_safe prog_LocalStack_push
  && cow_safe prog_LocalStack_pop && cow_safe prog_LocalStack_top
  && cow_safe prog_LocalStack_release_local = true.
Proof. exact cow_safe_generated. Qed.
Print Assumptions C18_cow_safe_generated.

(* for EVERY step list (every interleaving at operation granularity, any number of contexts, any
   spawn tree): every observation, and what every context sees in every ContextVar, are those of
   the reference model holding one immutable mapping / stack per context *)
Theorem C18_isolation : forall steps,
  snd (run gen_methods steps) = snd (srun steps) /\
  forall c var, view (fst (run gen_methods steps)) c var = sview (fst (srun steps)) c var.
Proof. exact (isolation_any gen_methods gen_methods_ok). Qed.
Print Assumptions C18_isolation.

(* the same for any method table whose programs pass cow_safe and are correct in ONE context *)
Theorem C18_isolation_any_methods : forall M, methods_ok M -> forall steps,
  snd (run M steps) = snd (srun steps) /\
  forall c var, view (fst (run M steps)) c var = sview (fst (srun steps)) c var.
Proof. exact isolation_any. Qed.
Print Assumptions C18_isolation_any_methods.

Example C18_methods_ok_satisfiable : methods_ok gen_methods.
Proof. exact gen_methods_ok. Qed.
Print Assumptions C18_methods_ok_satisfiable.

(* in any reachable world, an operation of ANY kind issued by context c changes nothing that a
   different existing context sees *)
Theorem C18_sibling_frame : forall steps c o c' var, let w := fst (run gen_methods steps) in
  c <> c' -> c' < length (w_ctx w) ->
  view (fst (step gen_methods w (c, o))) c' var = view w c' var.
Proof. exact (frame_any gen_methods gen_methods_ok). Qed.
Print Assumptions C18_sibling_frame.

(* a child (copy_context / task) sees at birth exactly what its parent sees, and the parent is unchanged *)
Theorem C18_child_snapshot : forall steps c var, let w := fst (run gen_methods steps) in
  c < length (w_ctx w) ->
  snd (step gen_methods w (c, OpSpawn)) = OCtx (length (w_ctx w)) /\
  view (fst (step gen_methods w (c, OpSpawn))) (length (w_ctx w)) var = view w c var /\
  view (fst (step gen_methods w (c, OpSpawn))) c var = view w c var.
Proof. exact (spawn_any gen_methods). Qed.
Print Assumptions C18_child_snapshot.

(* a new thread sees nothing *)
Theorem C18_new_thread_empty : forall steps c var, let w := fst (run gen_methods steps) in
  c < length (w_ctx w) ->
  snd (step gen_methods w (c, OpThread)) = OCtx (length (w_ctx w)) /\
  view (fst (step gen_methods w (c, OpThread))) (length (w_ctx w)) var = Some None.
Proof. exact (thread_any gen_methods). Qed.
Print Assumptions C18_new_thread_empty.

(* release_local: empties that local in the releasing context and changes no other (context, variable) *)
Theorem C18_release_local_only : forall steps c v (stack : bool), let w := fst (run gen_methods steps) in
  let var := if stack then svar v else lvar v in
  let w' := fst (step gen_methods w (c, if stack then OpSRelease v else OpLRelease v)) in
  c < length (w_ctx w) ->
  view w' c var = Some (Some (if stack then OList [] else ODict [])) /\
  forall c' var', (c', var') <> (c, var) -> c' < length (w_ctx w) -> view w' c' var' = view w c' var'.
Proof. exact (release_any gen_methods gen_methods_ok). Qed.
Print Assumptions C18_release_local_only.

(* the totalised error value of the model is never produced: no generated program goes wrong *)
Theorem C18_never_stuck : forall steps, ~ In OStuck (snd (run gen_methods steps)).
Proof. exact (never_stuck_any gen_methods gen_methods_ok). Qed.
Print Assumptions C18_never_stuck.

(* a proxy, whoever created it, resolves to what the ACCESSING context sees: the bound object, or
   RuntimeError (with the proxy's own unbound_message) / False / the fallback repr exactly when nothing
   is bound there (proxy_spec); and using it changes no view.  The _get_current_object closures, the
   exception flow of _ProxyLookup.__get__ and the fallback table are regenerated terms (gco_local,
   gco_stack, lookup_catch, proxy_table in C18/Gen.v) interpreted by the model. *)
Theorem C18_proxy : forall steps c i d a, let w := fst (run gen_methods steps) in
  nth_error (w_prox w) i = Some d ->
  forall m, nth_error (w_ctx w) c = Some m ->
  snd (step gen_methods w (c, OpProxy i a))
    = proxy_spec a (pmsg d) (bound_of (fun var => deref (w_heap w) (rget m var)) d) /\
  forall c' var, view (fst (step gen_methods w (c, OpProxy i a))) c' var = view w c' var.
Proof. exact (proxy_any gen_methods gen_methods_ok). Qed.
Print Assumptions C18_proxy.

Theorem C18_proxy_unbound_iff : forall msg b,
  (proxy_spec PaCurrent msg b = ORuntimeError <-> b = None) /\
  (b = None -> proxy_spec PaBool msg b = OBool false /\ proxy_spec PaRepr msg b = ORepr None
               /\ proxy_spec PaGetAttr msg b = ORuntimeError /\ proxy_spec PaSetAttr msg b = ORuntimeError
               /\ proxy_spec PaMessage msg b = OMsg msg) /\
  (forall x, b = Some x -> proxy_spec PaCurrent msg b = OVal x /\ proxy_spec PaBool msg b = OBool (truthy x)
               /\ proxy_spec PaRepr msg b = ORepr (Some x) /\ proxy_spec PaGetAttr msg b = OVal x
               /\ proxy_spec PaSetAttr msg b = OVal x).
Proof. exact proxy_spec_cases. Qed.
Print Assumptions C18_proxy_unbound_iff.

(* EVERY proxied operation: whichever entry of the regenerated table of LocalProxy (all _ProxyLookup /
   _ProxyIOp names, 93 at this commit) is looked up, in whichever context, it is forwarded to exactly the
   object bound in the accessing context; with nothing bound it raises RuntimeError unless the entry has
   a fallback.  A special method defined directly on LocalProxy is refused by the translator. *)
Theorem C18_proxy_every_operation : forall steps c i d e pe, let w := fst (run gen_methods steps) in
  nth_error (w_prox w) i = Some d -> nth_error proxy_table e = Some pe ->
  forall m, nth_error (w_ctx w) c = Some m ->
  snd (step gen_methods w (c, OpProxy i (PaEntry e))) =
    match bound_of (fun var => deref (w_heap w) (rget m var)) d with
    | Some x => OFwd e x
    | None => match pe_fallback pe with FbNone => ORuntimeError | k => OFallback k end
    end.
Proof. exact (proxy_every_any gen_methods gen_methods_ok). Qed.
Print Assumptions C18_proxy_every_operation.

Theorem C18_proxy_table : 
  map pe_id proxy_table = seq 0 (length proxy_table) /\
  forallb (fun pe => match pe_fallback pe with FbTrue | FbOther => false | _ => true end) proxy_table = true /\
  entry_unbound_spec entry_bool = OFallback FbFalse /\ entry_unbound_spec entry_repr = OFallback FbUnboundRepr /\
  entry_unbound_spec entry_getattr = ORuntimeError /\ entry_unbound_spec entry_setattr = ORuntimeError /\
  60 <= length proxy_table /\
  iop_result = RetInstance /\ 13 <= length (filter pe_iop proxy_table).
Proof. exact proxy_table_facts. Qed.
Print Assumptions C18_proxy_table.

(* the snapshot persists: a child created by c (copy_context, task; c may itself be a child, to any
   depth) keeps seeing exactly what c saw at that moment whatever every other context does afterwards *)
Theorem C18_snapshot_persists : forall steps c more var,
  let w := fst (run gen_methods steps) in let n := length (w_ctx w) in
  c < n -> Forall (fun s : nat * op => fst s <> n) more ->
  view (fst (run gen_methods (steps ++ (c, OpSpawn) :: more))) n var = view w c var.
Proof. exact (snapshot_persists_any gen_methods gen_methods_ok). Qed.
Print Assumptions C18_snapshot_persists.

(* request end: closing a response wrapped by LocalManager(ls).make_middleware in context c runs the
   application's own close first and cleanup last (closing_order, regenerated from ClosingIterator), so
   afterwards every managed local is empty in c whatever that close stored; other contexts: C18_sibling_frame *)
Theorem C18_request_end : forall steps c ls ac l, let w := fst (run gen_methods steps) in
  c < length (w_ctx w) -> In l ls ->
  view (fst (step gen_methods w (c, OpMwClose ls ac))) c (var_of l) = Some (Some (empty_for l)).
Proof. exact (request_end_any gen_methods gen_methods_ok). Qed.
Print Assumptions C18_request_end.

(* below operation granularity: with arbitrary cells appended by other contexts between any two
   instructions of one method call, no cell that existed before the call is ever written *)
Theorem C18_cow_sound_interleaved : forall p, cow_safe p = true ->
  forall ps h b intf l, l < length h ->
  nth_error (s_heap (fst (exec_intf ps (init_st h b) p intf))) l = nth_error h l.
Proof. exact cow_sound_interleaved. Qed.
Print Assumptions C18_cow_sound_interleaved.

(* one instruction: it writes only cells this call allocated and has not yet published (owned), and
   ContextVar.set gives up everything owned, so a published cell is never written again *)
Theorem C18_cow_instruction_guarantee : forall ps i p' fresh s s' owned,
  cow_safe_from fresh (PDo i p') = true -> own_ok fresh s owned ->
  exec_instr ps s i = Some s' ->
  (forall l, ~ In l owned -> l < length (s_heap s) -> nth_error (s_heap s') l = nth_error (s_heap s) l) /\
  exists fresh' owned', cow_safe_from fresh' p' = true /\ own_ok fresh' s' owned' /\
    (forall l, In l owned' -> In l owned \/ l = length (s_heap s)) /\
    (forall r, i = ISet r -> owned' = []).
Proof. exact cow_instr_guarantee. Qed.
Print Assumptions C18_cow_instruction_guarantee.

(* which clauses of cow_safe are needed for what: write-after-publish is invisible at operation
   granularity but mutates a published cell (so the publish clause is exactly what the instruction-level
   theorems need); and cow_safe is sufficient, not necessary (set(get()) is harmless and rejected) *)
Example C18_write_after_publish_witness :
  cow_safe prog_write_after_publish = false /\
  let s1 := fst (exec [3; 4]%N (init_st [] None) prefix_until_publish) in
  let s2 := fst (exec [3; 4]%N (init_st [] None) prog_write_after_publish) in
  s_bind s1 = Some 1 /\ s_bind s2 = Some 1 /\
  nth_error (s_heap s1) 1 = Some (ODict []) /\ nth_error (s_heap s2) 1 = Some (ODict [(3, 4)]%N).
Proof. exact write_after_publish_witness. Qed.
Print Assumptions C18_write_after_publish_witness.

Example C18_cow_safe_not_necessary :
  cow_safe prog_set_what_was_got = false /\
  forall ps h l, l < length h ->
    nth_error (s_heap (fst (exec ps (init_st h (Some l)) prog_set_what_was_got))) l = nth_error h l.
Proof. exact cow_safe_not_necessary. Qed.
Print Assumptions C18_cow_safe_not_necessary.

(* middleware glue: wrapping a response iterable (make_middleware) and discarding it, in whatever
   context that happens, leave the whole world as it is; closing it is OpCleanup, already covered by
   C18_sibling_frame (it releases in the closing context only).  Tie: the statement structure of
   make_middleware / middleware / cleanup / ClosingIterator.close is pinned by the translator. *)
Theorem C18_middleware_drop_no_effect : forall w c,
  fst (step gen_methods w (c, OpMwOpen)) = w /\ fst (step gen_methods w (c, OpMwDrop)) = w.
Proof. exact (mw_no_effect gen_methods). Qed.
Print Assumptions C18_middleware_drop_no_effect.

(* non-vacuity: a schedule on which parent and child end up seeing different things, as the
   reference model says; and the hypotheses of C18_isolation_any_methods are load-bearing: with the
   copy() removed from __setattr__ and push the programs are still correct in one context, are
   rejected by cow_safe, and leak on that schedule *)
Example C18_uncopied_leaks :
  cow_safe prog_setattr_uncopied = false /\ cow_safe prog_push_uncopied = false /\
  refines prog_setattr_uncopied sp_setattr 2 /\
  snd (run uncopied_methods leak_schedule) <> snd (srun leak_schedule) /\
  snd (run gen_methods leak_schedule) = snd (srun leak_schedule).
Proof. exact uncopied_leaks. Qed.
Print Assumptions C18_uncopied_leaks.

Example C18_views_differ :
  view (fst (run gen_methods leak_schedule)) 0 (lvar 0) = Some (Some (ODict [(1, 7)]%N)) /\
  view (fst (run gen_methods leak_schedule)) 1 (lvar 0) = Some (Some (ODict [(1, 7); (2, 9)]%N)) /\
  view (fst (run gen_methods leak_schedule)) 1 (svar 0) = Some (Some (OList [5; 6]%N)).
Proof. exact views_differ. Qed.
Print Assumptions C18_views_differ.

Example C18_round2_examples :
  let w := fst (run gen_methods mw_schedule) in
  let w' := fst (step gen_methods w (1, OpMwClose [(false, 0); (true, 0)] (Some (0, 2%N, 9%N)))) in
  view w 1 (lvar 0) = Some (Some (ODict [(1, 7)]%N)) /\
  view w' 1 (lvar 0) = Some (Some (ODict [])) /\ view w' 1 (svar 0) = Some (Some (OList [])) /\
  view w' 0 (lvar 0) = Some (Some (ODict [(1, 7)]%N)) /\
  snd (step gen_methods w (1, OpProxy 0 (PaEntry 31))) = OFwd 31 1006%N /\
  snd (step gen_methods w (0, OpProxy 0 (PaEntry 31))) = ORuntimeError /\
  snd (step gen_methods w (0, OpProxy 0 (PaEntry entry_repr))) = OFallback FbUnboundRepr /\
  snd (step gen_methods w (0, OpProxy 0 PaMessage)) = OMsg (Some 4%N) /\
  view (fst (run gen_methods (mw_schedule ++ [(0, OpSet 0 1%N 8%N); (0, OpLRelease 0)]))) 1 (lvar 0)
    = Some (Some (ODict [(1, 7)]%N)).
Proof. exact round2_examples. Qed.
Print Assumptions C18_round2_examples.

(* None is an ordinary value: local.x = None binds x (getattr, iter, and a proxy on x all see None; the proxy is
   BOUND and falsy); a LocalStack whose top is None makes stack proxies report unbound (bound_of says so) *)
Example C18_none_is_a_value :
  let w := fst (run gen_methods [(0, OpSet 0 1%N none_id); (0, OpPush 0 5%N); (0, OpPush 0 none_id);
                                 (0, OpMkProxy (PLocal 0 1%N None)); (0, OpMkProxy (PStack 0 false None))]) in
  snd (step gen_methods w (0, OpGet 0 1%N)) = OVal none_id /\
  snd (step gen_methods w (0, OpIter 0)) = OItems [(1%N, none_id)] /\
  snd (step gen_methods w (0, OpProxy 0 PaCurrent)) = OVal none_id /\
  snd (step gen_methods w (0, OpProxy 0 PaBool)) = OBool false /\
  snd (step gen_methods w (0, OpTop 0)) = OVal none_id /\
  snd (step gen_methods w (0, OpProxy 1 PaCurrent)) = ORuntimeError.
Proof. exact none_value_examples. Qed.
Print Assumptions C18_none_is_a_value.
