(* C18 proofs, part 3: from one-context refinement + cow_safe to isolation of every context under
   every interleaving, for any method table; then the instance for the regenerated programs. *)
From Coq Require Import List NArith Bool Arith Lia.
Import ListNotations.
From Wz Require Import C18.Lang C18.Gen C18.Model C18.Proofs C18.Refine.

Record methods_ok (M : methods) : Prop := mk_methods_ok {
  ok_cow : cow_safe_all M = true;
  ok_getattr : refines (m_getattr M) sp_getattr 1;
  ok_setattr : refines (m_setattr M) sp_setattr 2;
  ok_delattr : refines (m_delattr M) sp_delattr 1;
  ok_iter : refines (m_iter M) sp_iter 0;
  ok_lrelease : refines (m_lrelease M) sp_lrelease 0;
  ok_push : refines (m_push M) sp_push 1;
  ok_pop : refines (m_pop M) sp_pop 0;
  ok_top : refines (m_top M) sp_top 0;
  ok_srelease : refines (m_srelease M) sp_srelease 0 }.

Lemma gen_methods_ok : methods_ok gen_methods.
Proof.
  constructor.
  - exact cow_safe_generated.
  - exact refines_getattr.
  - exact refines_setattr.
  - exact refines_delattr.
  - exact refines_iter.
  - exact refines_lrelease.
  - exact refines_push.
  - exact refines_pop.
  - exact refines_top.
  - exact refines_srelease.
Qed.

Lemma cow_all_parts : forall M, cow_safe_all M = true ->
  cow_safe (m_getattr M) = true /\ cow_safe (m_setattr M) = true /\ cow_safe (m_delattr M) = true /\
  cow_safe (m_iter M) = true /\ cow_safe (m_lrelease M) = true /\ cow_safe (m_push M) = true /\
  cow_safe (m_pop M) = true /\ cow_safe (m_top M) = true /\ cow_safe (m_srelease M) = true.
Proof.
  intros M H. unfold cow_safe_all in H. repeat (apply andb_true_iff in H; destruct H as [H ?]).
  repeat split; assumption.
Qed.

(* ------------------------------------------------------------------ list helpers *)
Lemma Forall2_nth : forall A B (P : A -> B -> Prop) l l' c, Forall2 P l l' ->
  (nth_error l c = None /\ nth_error l' c = None) \/
  (exists x y, nth_error l c = Some x /\ nth_error l' c = Some y /\ P x y).
Proof.
  intros A B P l l' c H. revert c. induction H as [|x y l l' Hxy H IH]; intros [|c]; cbn; auto.
  right. eauto.
Qed.

Lemma Forall2_len : forall A B (P : A -> B -> Prop) l l', Forall2 P l l' -> length l = length l'.
Proof. intros A B P l l' H. induction H; cbn; auto. Qed.

Lemma Forall2_upd_nth : forall A B (P : A -> B -> Prop) l l' c x y, Forall2 P l l' -> P x y ->
  Forall2 P (upd_nth c x l) (upd_nth c y l').
Proof.
  intros A B P l l' c x y H Hxy. revert c. induction H; intros [|c]; cbn; constructor; auto.
Qed.

Lemma Forall2_impl2 : forall A B (P Q : A -> B -> Prop) l l', (forall x y, P x y -> Q x y) ->
  Forall2 P l l' -> Forall2 Q l l'.
Proof. intros A B P Q l l' H F. induction F; constructor; auto. Qed.

(* ------------------------------------------------------------------ the simulation relation *)
Definition ctx_rel (h : heap) (m : list (nat * loc)) (sm : list (nat * obj)) : Prop :=
  forall var, bind_ok h (rget m var) /\ deref h (rget m var) = rget sm var.

Definition R (w : world) (sw : sworld) : Prop :=
  w_prox w = sw_prox sw /\ Forall2 (ctx_rel (w_heap w)) (w_ctx w) (sw_ctx sw).

Lemma deref_app : forall h n b, bind_ok h b -> deref (h ++ n) b = deref h b.
Proof. intros h n [l|] H; cbn in *; [apply nth_error_app1; assumption | reflexivity]. Qed.

Lemma bind_ok_app : forall h n b, bind_ok h b -> bind_ok (h ++ n) b.
Proof. intros h n [l|] H; cbn in *; [rewrite app_length; lia | exact I]. Qed.

Lemma ctx_rel_app : forall h n m sm, ctx_rel h m sm -> ctx_rel (h ++ n) m sm.
Proof.
  intros h n m sm H var. destruct (H var) as [Hb Hd]. split.
  - apply bind_ok_app. assumption.
  - rewrite deref_app by assumption. assumption.
Qed.

Lemma R0 : R world0 sworld0.
Proof. split; [reflexivity|]. constructor; [|constructor]. intro var. cbn. auto. Qed.

Lemma call_rel : forall p f n ps var w sw c,
  cow_safe p = true -> refines p f n -> length ps = n -> R w sw ->
  R (fst (call p ps var w c)) (fst (scall f ps var sw c)) /\
  snd (call p ps var w c) = snd (scall f ps var sw c).
Proof.
  intros p f n ps var w sw c Hcow Href Hlen [Hp HF]. unfold call, scall.
  destruct (Forall2_nth _ _ _ _ _ c HF) as [[E1 E2] | [m [sm [E1 [E2 Hrel]]]]]; rewrite E1, E2.
  - cbn. split; [split; assumption | reflexivity].
  - destruct (Hrel var) as [Hbok Hd].
    pose proof (Href ps (w_heap w) (rget m var) Hlen Hbok) as Hr. cbv zeta in Hr.
    destruct (cow_sound p Hcow ps (w_heap w) (rget m var)) as [[news Hh] _].
    destruct (exec ps (init_st (w_heap w) (rget m var)) p) as [s o] eqn:Ee.
    cbn [fst snd] in Hr, Hh. rewrite Hd in Hr.
    destruct (f ps (rget sm var)) as [o' r'] eqn:Ef. cbn [fst snd] in Hr.
    destruct Hr as [Ho [Hde Hbo]]. cbn [fst snd]. split; [|assumption].
    split; [assumption|]. cbn [w_heap w_ctx sw_ctx]. rewrite Hh.
    apply Forall2_upd_nth.
    + eapply Forall2_impl2; [|exact HF]. intros x y Hxy. apply ctx_rel_app. assumption.
    + rewrite Hh in Hde, Hbo. intro var'.
      destruct (s_bind s) as [l'|] eqn:Eb; cbn [bind_upd].
      * destruct o' as [x|]; cbn [sbind_upd].
        -- rewrite !rget_rset. destruct (Nat.eqb var var').
           ++ split; assumption.
           ++ apply ctx_rel_app. assumption.
        -- exfalso. cbn in Hde, Hbo. apply nth_error_None in Hde. lia.
      * cbn in Hde. subst o'. cbn [sbind_upd]. apply ctx_rel_app. assumption.
Qed.

(* ------------------------------------------------------------------ read-only calls *)
Definition sctx_eq (a b : list (nat * obj)) : Prop := forall var, rget a var = rget b var.

Lemma Forall2_comp : forall A B C (P : A -> B -> Prop) (Q : B -> C -> Prop) (S : A -> C -> Prop) l l1 l2,
  (forall x y z, P x y -> Q y z -> S x z) -> Forall2 P l l1 -> Forall2 Q l1 l2 -> Forall2 S l l2.
Proof.
  intros A B C P Q S l l1 l2 H F. revert l2. induction F; intros l2 G; inversion G; subst; constructor; eauto.
Qed.

Lemma Forall2_refl : forall A (P : A -> A -> Prop) l, (forall x, P x x) -> Forall2 P l l.
Proof. intros A P l H. induction l; constructor; auto. Qed.

Lemma Forall2_upd_self : forall A (P : A -> A -> Prop) l c x y, (forall z, P z z) ->
  nth_error l c = Some y -> P x y -> Forall2 P (upd_nth c x l) l.
Proof.
  intros A P l c x y Hr. revert c. induction l as [|a t IH]; intros [|c] E Hxy; cbn in *; try discriminate.
  - inversion E. subst. constructor; [assumption | apply Forall2_refl; assumption].
  - constructor; auto.
Qed.

Lemma call_rel_ro : forall p f n ps var w sw c,
  cow_safe p = true -> refines p f n -> length ps = n -> (forall o, fst (f ps o) = o) -> R w sw ->
  R (fst (call p ps var w c)) sw /\ snd (call p ps var w c) = snd (scall f ps var sw c).
Proof.
  intros p f n ps var w sw c Hcow Href Hlen Hro HR.
  destruct (call_rel p f n ps var w sw c Hcow Href Hlen HR) as [[Hp HF] Ho]. split; [|assumption].
  revert Hp HF. unfold scall. destruct (nth_error (sw_ctx sw) c) as [sm|] eqn:E.
  - specialize (Hro (rget sm var)). destruct (f ps (rget sm var)) as [o' r']. cbn [fst snd] in *. subst o'.
    cbn [sw_prox sw_ctx]. intros Hp HF. split; [assumption|].
    eapply Forall2_comp; [| exact HF |].
    2:{ apply (Forall2_upd_self _ sctx_eq _ _ _ sm); [intros z var'; reflexivity | exact E |].
        intro var'. destruct (rget sm var) as [x|] eqn:Ex; cbn [sbind_upd]; [|reflexivity].
        rewrite rget_rset. destruct (Nat.eqb var var') eqn:Ev; [|reflexivity].
        apply Nat.eqb_eq in Ev. subst. symmetry. assumption. }
    intros x y z Hxy Hyz var'. destruct (Hxy var') as [Hb Hd]. split; [assumption|].
    rewrite Hd. apply Hyz.
  - cbn. intros Hp HF. split; assumption.
Qed.

(* ------------------------------------------------------------------ kinds (on the reference model) *)
Definition kind_ok (var : nat) (o : obj) : Prop :=
  match o with ODict _ => Nat.even var = true | OList _ => Nat.even var = false end.
Definition kinded_ctx (sm : list (nat * obj)) : Prop := forall var o, rget sm var = Some o -> kind_ok var o.
Definition kinded (sw : sworld) : Prop := Forall kinded_ctx (sw_ctx sw).

Arguments lvar : simpl never.
Arguments svar : simpl never.

Lemma even_lvar : forall v, Nat.even (lvar v) = true.
Proof. intro v. unfold lvar. rewrite Nat.even_mul. reflexivity. Qed.
Lemma even_svar : forall v, Nat.even (svar v) = false.
Proof. intro v. unfold svar. rewrite Nat.add_1_r, Nat.even_succ, <- Nat.negb_even, Nat.even_mul. reflexivity. Qed.

Lemma kinded_upd : forall sm var o', kinded_ctx sm -> (forall x, o' = Some x -> kind_ok var x) ->
  kinded_ctx (sbind_upd sm var o').
Proof.
  intros sm var [x|] K H; cbn [sbind_upd]; [|assumption]. intros var' o. rewrite rget_rset.
  destruct (Nat.eqb var var') eqn:E; [|apply K]. apply Nat.eqb_eq in E. subst. intro Ex. inversion Ex. subst.
  apply H. reflexivity.
Qed.

Lemma Forall_upd_nth : forall A (P : A -> Prop) l c x, Forall P l -> P x -> Forall P (upd_nth c x l).
Proof. intros A P l c x F Hx. revert c. induction F; intros [|c]; cbn; constructor; auto. Qed.

Lemma Forall_nth : forall A (P : A -> Prop) l c x, Forall P l -> nth_error l c = Some x -> P x.
Proof. intros A P l c x F E. rewrite Forall_forall in F. apply F. eapply nth_error_In; eauto. Qed.

Definition sem_kind (f : sem) (ps : list N) (var : nat) : Prop :=
  forall sm, kinded_ctx sm ->
    (forall x, fst (f ps (rget sm var)) = Some x -> kind_ok var x) /\ snd (f ps (rget sm var)) <> OStuck.

Lemma scall_kinded : forall f ps var sw c, kinded sw -> sem_kind f ps var ->
  kinded (fst (scall f ps var sw c)) /\ snd (scall f ps var sw c) <> OStuck.
Proof.
  intros f ps var sw c K H. unfold scall. destruct (nth_error (sw_ctx sw) c) as [sm|] eqn:E.
  - pose proof (Forall_nth _ _ _ _ _ K E) as Ksm. destruct (H sm Ksm) as [H1 H2].
    destruct (f ps (rget sm var)) as [o' r']. cbn [fst snd] in *. split; [|assumption].
    unfold kinded. cbn [sw_ctx]. apply Forall_upd_nth; [assumption|]. apply kinded_upd; assumption.
  - cbn. split; [assumption | discriminate].
Qed.

Ltac semk v EV :=
  intros sm K; pose proof (K v) as Kv;
  destruct (rget sm v) as [[d|l]|]; cbn;
  try (specialize (Kv _ eq_refl); cbn in Kv; rewrite EV in Kv; discriminate);
  repeat match goal with |- context [if ?b then _ else _] => destruct b | |- context [match ?b with Some _ => _ | None => _ end] => destruct b end;
  cbn; (split; [let y := fresh "y" in let Ey := fresh "Ey" in intros y Ey; inversion Ey; subst; cbn; auto using EV; try (apply Kv; reflexivity) | discriminate]).

Lemma sk_getattr : forall v n, sem_kind sp_getattr [n] (lvar v).
Proof. intros v n. semk (lvar v) (even_lvar v). Qed.
Lemma sk_setattr : forall v n x, sem_kind sp_setattr [n; x] (lvar v).
Proof. intros v n x. semk (lvar v) (even_lvar v). Qed.
Lemma sk_delattr : forall v n, sem_kind sp_delattr [n] (lvar v).
Proof. intros v n. semk (lvar v) (even_lvar v). Qed.
Lemma sk_iter : forall v, sem_kind sp_iter [] (lvar v).
Proof. intros v. semk (lvar v) (even_lvar v). Qed.
Lemma sk_lrelease : forall v, sem_kind sp_lrelease [] (lvar v).
Proof. intros v. semk (lvar v) (even_lvar v). Qed.
Lemma sk_push : forall v x, sem_kind sp_push [x] (svar v).
Proof. intros v x. semk (svar v) (even_svar v). Qed.
Lemma sk_pop : forall v, sem_kind sp_pop [] (svar v).
Proof. intros v. semk (svar v) (even_svar v). Qed.
Lemma sk_top : forall v, sem_kind sp_top [] (svar v).
Proof. intros v. semk (svar v) (even_svar v). Qed.
Lemma sk_srelease : forall v, sem_kind sp_srelease [] (svar v).
Proof. intros v. semk (svar v) (even_svar v). Qed.

(* ------------------------------------------------------------------ proxies on the reference model *)
Lemma conv_local_val : forall x, conv_local (OVal x) = inl x. Proof. reflexivity. Qed.
Lemma conv_local_attr : conv_local OAttrError = inr ORuntimeError. Proof. reflexivity. Qed.
Lemma conv_stack_val : forall tw x, conv_stack tw (OVal x) = if N.eqb x none_id then inr ORuntimeError else inl (get_name tw x).
Proof. reflexivity. Qed.
Lemma conv_stack_none : forall tw, conv_stack tw ONone = inr ORuntimeError. Proof. reflexivity. Qed.
Lemma proxy_out_inl : forall a msg x, proxy_out a msg (inl x) = bound_out a x. Proof. reflexivity. Qed.
Lemma proxy_out_unb : forall a msg, proxy_out a msg (inr ORuntimeError) = unbound_out a msg. Proof. reflexivity. Qed.

(* the regenerated fallback table and exception flow give exactly the unbound behaviour of the statement *)
Lemma unbound_out_spec : forall a msg, unbound_out a msg = proxy_spec a msg None.
Proof.
  intros a msg. destruct a; vm_compute; reflexivity.
Qed.

Lemma proxy_local_out : forall sm v name msg a, kinded_ctx sm ->
  proxy_out a msg (conv_local (snd (sp_getattr [name] (rget sm (lvar v)))))
  = proxy_spec a msg (bound_in sm (PLocal v name msg)).
Proof.
  intros sm v name msg a K. pose proof (K (lvar v)) as Kv. unfold bound_in, bound_of, sp_getattr.
  destruct (rget sm (lvar v)) as [[d|l]|]; cbn [as_dict snd].
  - destruct (dict_get d name).
    + rewrite conv_local_val, proxy_out_inl. reflexivity.
    + rewrite conv_local_attr, proxy_out_unb. apply unbound_out_spec.
  - specialize (Kv _ eq_refl). cbn in Kv. rewrite even_lvar in Kv. discriminate.
  - cbn [dict_get]. rewrite conv_local_attr, proxy_out_unb. apply unbound_out_spec.
Qed.

Lemma proxy_stack_out : forall sm v tw msg a, kinded_ctx sm ->
  proxy_out a msg (conv_stack tw (snd (sp_top [] (rget sm (svar v)))))
  = proxy_spec a msg (bound_in sm (PStack v tw msg)).
Proof.
  intros sm v tw msg a K. pose proof (K (svar v)) as Kv. unfold bound_in, bound_of, sp_top.
  destruct (rget sm (svar v)) as [[d|l]|]; cbn [as_list snd].
  - specialize (Kv _ eq_refl). cbn in Kv. rewrite even_svar in Kv. discriminate.
  - destruct (last_opt l) as [x|].
    + rewrite conv_stack_val. destruct (N.eqb x none_id).
      * rewrite proxy_out_unb. apply unbound_out_spec.
      * rewrite proxy_out_inl. reflexivity.
    + rewrite conv_stack_none, proxy_out_unb. apply unbound_out_spec.
  - cbn [last_opt]. rewrite conv_stack_none, proxy_out_unb. apply unbound_out_spec.
Qed.

Lemma proxy_spec_not_stuck : forall a msg b, proxy_spec a msg b <> OStuck.
Proof.
  intros a msg [x|]; destruct a; cbn; try discriminate.
  - destruct (nth_error proxy_table e); discriminate.
  - unfold entry_unbound_spec. destruct (nth_error proxy_table e) as [pe|]; [destruct (pe_fallback pe)|]; discriminate.
Qed.

(* ------------------------------------------------------------------ one step, then every step list *)
Section World.
Variable M : methods.
Hypothesis OK : methods_ok M.

Definition good (w : world) (sw : sworld) : Prop := R w sw /\ kinded sw.

Lemma release_one_good : forall w sw c l, good w sw -> good (release_one M w c l) (srelease_one sw c l).
Proof.
  intros w sw c [[|] v] [HR HK]; unfold release_one, srelease_one; cbn [fst snd];
    destruct (cow_all_parts M (ok_cow M OK)) as (C1 & C2 & C3 & C4 & C5 & C6 & C7 & C8 & C9).
  - split.
    + apply (call_rel _ _ 0 [] _ w sw c C9 (ok_srelease M OK) eq_refl HR).
    + apply scall_kinded; [assumption | apply sk_srelease].
  - split.
    + apply (call_rel _ _ 0 [] _ w sw c C5 (ok_lrelease M OK) eq_refl HR).
    + apply scall_kinded; [assumption | apply sk_lrelease].
Qed.

Lemma cleanup_good : forall ls w sw c, good w sw ->
  good (fold_left (fun w' l => release_one M w' c l) ls w) (fold_left (fun w' l => srelease_one w' c l) ls sw).
Proof. induction ls as [|l t IH]; intros w sw c G; cbn; [assumption|]. apply IH. apply release_one_good. assumption. Qed.

Definition step_ok (w : world) (sw : sworld) (co : nat * op) : Prop :=
  good (fst (step M w co)) (fst (sstep sw co)) /\
  snd (step M w co) = snd (sstep sw co) /\ snd (sstep sw co) <> OStuck.

Ltac method_case C Href SK n :=
  match goal with HR : R ?w ?sw, HK : kinded ?sw |- step_ok ?w ?sw (?c, _) =>
    unfold step_ok; cbn [step sstep];
    match goal with |- context [call ?p ?ps ?var w c] =>
      destruct (call_rel p _ n ps var w sw c C Href eq_refl HR) as [H1 H2];
      match goal with |- context [scall ?f ps var sw c] =>
        destruct (scall_kinded f ps var sw c HK SK) as [H3 H4]
      end
    end; (split; [split; assumption | split; assumption])
  end.

Lemma step_rel : forall w sw co, good w sw -> step_ok w sw co.
Proof.
  intros w sw [c o] [HR HK].
  destruct (cow_all_parts M (ok_cow M OK)) as (C1 & C2 & C3 & C4 & C5 & C6 & C7 & C8 & C9).
  pose proof HR as [Hp HF].
  destruct o.
  - method_case C2 (ok_setattr M OK) (sk_setattr v name val) 2.
  - method_case C1 (ok_getattr M OK) (sk_getattr v name) 1.
  - method_case C3 (ok_delattr M OK) (sk_delattr v name) 1.
  - method_case C4 (ok_iter M OK) (sk_iter v) 0.
  - method_case C5 (ok_lrelease M OK) (sk_lrelease v) 0.
  - method_case C6 (ok_push M OK) (sk_push v x) 1.
  - method_case C7 (ok_pop M OK) (sk_pop v) 0.
  - method_case C8 (ok_top M OK) (sk_top v) 0.
  - method_case C9 (ok_srelease M OK) (sk_srelease v) 0.
  - (* cleanup *)
    unfold step_ok. cbn [step sstep].
    destruct (Forall2_nth _ _ _ _ _ c HF) as [[E1 E2] | [m [sm [E1 [E2 Hrel]]]]]; rewrite E1, E2; cbn [fst snd].
    + repeat split; try assumption; discriminate.
    + split; [apply cleanup_good; split; assumption|]. split; [reflexivity | discriminate].
  - (* spawn *)
    unfold step_ok. cbn [step sstep].
    destruct (Forall2_nth _ _ _ _ _ c HF) as [[E1 E2] | [m [sm [E1 [E2 Hrel]]]]]; rewrite E1, E2; cbn [fst snd].
    + repeat split; try assumption; discriminate.
    + split; [split|].
      * split; [assumption|]. cbn [w_heap w_ctx sw_ctx]. apply Forall2_app; [assumption|]. constructor; [assumption|constructor].
      * unfold kinded. cbn [sw_ctx]. apply Forall_app. split; [assumption|]. constructor; [|constructor].
        eapply Forall_nth; eauto.
      * split; [|discriminate]. rewrite (Forall2_len _ _ _ _ _ HF). reflexivity.
  - (* thread *)
    unfold step_ok. cbn [step sstep].
    destruct (Forall2_nth _ _ _ _ _ c HF) as [[E1 E2] | [m [sm [E1 [E2 Hrel]]]]]; rewrite E1, E2; cbn [fst snd].
    + repeat split; try assumption; discriminate.
    + split; [split|].
      * split; [assumption|]. cbn [w_heap w_ctx sw_ctx]. apply Forall2_app; [assumption|]. constructor; [|constructor].
        intro var. cbn. auto.
      * unfold kinded. cbn [sw_ctx]. apply Forall_app. split; [assumption|]. constructor; [|constructor].
        intros var o'. cbn. discriminate.
      * split; [|discriminate]. rewrite (Forall2_len _ _ _ _ _ HF). reflexivity.
  - (* mkproxy *)
    unfold step_ok. cbn [step sstep].
    destruct (Forall2_nth _ _ _ _ _ c HF) as [[E1 E2] | [m [sm [E1 [E2 Hrel]]]]]; rewrite E1, E2; cbn [fst snd].
    + repeat split; try assumption; discriminate.
    + split; [split|].
      * split; [|assumption]. cbn [w_prox sw_prox]. rewrite Hp. reflexivity.
      * assumption.
      * split; [|discriminate]. rewrite Hp. reflexivity.
  - (* proxy access *)
    unfold step_ok. cbn [step sstep]. rewrite Hp. destruct (nth_error (sw_prox sw) i) as [d|]; cbn [fst snd].
    2:{ repeat split; try assumption; discriminate. }
    destruct d as [v name msg | v tw msg]; cbn [gco pmsg].
    + destruct (call_rel_ro _ _ 1 [name] (lvar v) w sw c C1 (ok_getattr M OK) eq_refl (fun o => ltac:(unfold sp_getattr; destruct (as_dict o); reflexivity)) HR) as [H1 H2].
      destruct (call (m_getattr M) [name] (lvar v) w c) as [w' o']. cbn [fst snd] in *. subst o'.
      unfold scall. destruct (nth_error (sw_ctx sw) c) as [sm|] eqn:E.
      * pose proof (Forall_nth _ _ _ _ _ HK E) as Ksm.
        pose proof (proxy_spec_not_stuck a msg (bound_in sm (PLocal v name msg))) as HS.
        pose proof (proxy_local_out sm v name msg a Ksm) as HP.
        destruct (sp_getattr [name] (rget sm (lvar v))) as [o1 r1]. cbn [fst snd] in *.
        split; [split; assumption|]. split; [exact HP | exact HS].
      * split; [split; assumption|]. cbn. split; [reflexivity | discriminate].
    + destruct (call_rel_ro _ _ 0 [] (svar v) w sw c C8 (ok_top M OK) eq_refl (fun o => ltac:(unfold sp_top; destruct (as_list o); reflexivity)) HR) as [H1 H2].
      destruct (call (m_top M) [] (svar v) w c) as [w' o']. cbn [fst snd] in *. subst o'.
      unfold scall. destruct (nth_error (sw_ctx sw) c) as [sm|] eqn:E.
      * pose proof (Forall_nth _ _ _ _ _ HK E) as Ksm.
        pose proof (proxy_spec_not_stuck a msg (bound_in sm (PStack v tw msg))) as HS.
        pose proof (proxy_stack_out sm v tw msg a Ksm) as HP.
        destruct (sp_top [] (rget sm (svar v))) as [o1 r1]. cbn [fst snd] in *.
        split; [split; assumption|]. split; [exact HP | exact HS].
      * split; [split; assumption|]. cbn. split; [reflexivity | discriminate].
  - (* middleware: wrap *)
    unfold step_ok. cbn [step sstep].
    destruct (Forall2_nth _ _ _ _ _ c HF) as [[E1 E2] | [m [sm [E1 [E2 Hrel]]]]]; rewrite E1, E2; cbn [fst snd].
    + repeat split; try assumption; discriminate.
    + repeat split; try assumption; discriminate.
  - (* middleware: iterable dropped *)
    unfold step_ok. cbn [step sstep].
    destruct (Forall2_nth _ _ _ _ _ c HF) as [[E1 E2] | [m [sm [E1 [E2 Hrel]]]]]; rewrite E1, E2; cbn [fst snd].
    + repeat split; try assumption; discriminate.
    + repeat split; try assumption; discriminate.
  - (* middleware: close = the application's own close, then cleanup, in the regenerated order *)
    unfold step_ok. cbn [step sstep].
    destruct (Forall2_nth _ _ _ _ _ c HF) as [[E1 E2] | [m [sm [E1 [E2 Hrel]]]]]; rewrite E1, E2; cbn [fst snd].
    + repeat split; try assumption; discriminate.
    + replace closing_order with [CbIterableClose; CbGiven] by reflexivity.
      cbn [fold_left close_cb_run sclose_cb_run].
      split; [|split; [reflexivity | discriminate]].
      apply cleanup_good. destruct ac as [[[v name] val]|]; [|split; assumption].
      split.
      * apply (call_rel _ _ 2 [name; val] _ w sw c C2 (ok_setattr M OK) eq_refl HR).
      * apply scall_kinded; [assumption | apply sk_setattr].
Qed.
End World.

(* ------------------------------------------------------------------ every step list *)
Lemma run_rel : forall M, methods_ok M -> forall steps w sw, good w sw ->
  good (fst (run_from M w steps)) (fst (srun_from sw steps)) /\
  snd (run_from M w steps) = snd (srun_from sw steps) /\
  ~ In OStuck (snd (srun_from sw steps)).
Proof.
  intros M OK. induction steps as [|s t IH]; intros w sw G; cbn [run_from srun_from].
  - cbn. auto.
  - destruct (step_rel M OK w sw s G) as [G' [Eo Hs]].
    destruct (step M w s) as [w' o]. destruct (sstep sw s) as [sw' so]. cbn [fst snd] in *.
    destruct (IH w' sw' G') as [G'' [Eos Hss]].
    destruct (run_from M w' t) as [w'' os]. destruct (srun_from sw' t) as [sw'' sos]. cbn [fst snd] in *.
    split; [assumption|]. split; [congruence|]. intros [H|H]; [congruence | contradiction].
Qed.

Lemma good0 : good world0 sworld0.
Proof. split; [apply R0|]. constructor; [|constructor]. intros var o. cbn. discriminate. Qed.

Lemma run_good : forall M, methods_ok M -> forall steps,
  good (fst (run M steps)) (fst (srun steps)).
Proof. intros M OK steps. apply (run_rel M OK steps world0 sworld0 good0). Qed.

Lemma good_view : forall w sw c var, good w sw -> view w c var = sview sw c var.
Proof.
  intros w sw c var [[Hp HF] _]. unfold view, sview.
  destruct (Forall2_nth _ _ _ _ _ c HF) as [[E1 E2] | [m [sm [E1 [E2 Hrel]]]]]; rewrite E1, E2; [reflexivity|].
  destruct (Hrel var) as [_ Hd]. rewrite Hd. reflexivity.
Qed.

Lemma good_nctx : forall w sw, good w sw -> length (w_ctx w) = length (sw_ctx sw).
Proof. intros w sw [[_ HF] _]. eapply Forall2_len; eauto. Qed.

Lemma isolation_any : forall M, methods_ok M -> forall steps,
  snd (run M steps) = snd (srun steps) /\
  forall c var, view (fst (run M steps)) c var = sview (fst (srun steps)) c var.
Proof.
  intros M OK steps. destruct (run_rel M OK steps world0 sworld0 good0) as [G [E _]].
  split; [exact E|]. intros c var. apply good_view. exact G.
Qed.

Lemma never_stuck_any : forall M, methods_ok M -> forall steps, ~ In OStuck (snd (run M steps)).
Proof.
  intros M OK steps. destruct (run_rel M OK steps world0 sworld0 good0) as [_ [E H]].
  unfold run. rewrite E. exact H.
Qed.

(* ---- frame: on the reference model a step touches only the issuing context *)
Lemma scall_frame : forall f ps var sw c c', c <> c' ->
  nth_error (sw_ctx (fst (scall f ps var sw c))) c' = nth_error (sw_ctx sw) c'.
Proof.
  intros f ps var sw c c' H. unfold scall. destruct (nth_error (sw_ctx sw) c); [|reflexivity].
  destruct (f ps (rget l var)). cbn. apply nth_error_upd_nth_ne. assumption.
Qed.

Lemma scleanup_frame : forall ls sw c c', c <> c' ->
  nth_error (sw_ctx (fold_left (fun w' l => srelease_one w' c l) ls sw)) c' = nth_error (sw_ctx sw) c'.
Proof.
  induction ls as [|l t IH]; intros sw c c' H; cbn; [reflexivity|]. rewrite IH by assumption.
  unfold srelease_one. destruct (fst l); apply scall_frame; assumption.
Qed.

Lemma sstep_frame : forall sw c o c', c <> c' -> c' < length (sw_ctx sw) ->
  nth_error (sw_ctx (fst (sstep sw (c, o)))) c' = nth_error (sw_ctx sw) c'.
Proof.
  intros sw c o c' H Hl. destruct o; cbn [sstep]; try (apply scall_frame; assumption).
  - destruct (nth_error (sw_ctx sw) c); cbn [fst]; [apply scleanup_frame; assumption | reflexivity].
  - destruct (nth_error (sw_ctx sw) c); cbn; [apply nth_error_app1; assumption | reflexivity].
  - destruct (nth_error (sw_ctx sw) c); cbn; [apply nth_error_app1; assumption | reflexivity].
  - destruct (nth_error (sw_ctx sw) c); reflexivity.
  - destruct (nth_error (sw_prox sw) i); [destruct (nth_error (sw_ctx sw) c)|]; reflexivity.
  - destruct (nth_error (sw_ctx sw) c); reflexivity.
  - destruct (nth_error (sw_ctx sw) c); reflexivity.
  - destruct (nth_error (sw_ctx sw) c); [|reflexivity]. cbn [fold_left sclose_cb_run fst].
    rewrite scleanup_frame by assumption. destruct ac as [[[v name] val]|]; [apply scall_frame; assumption | reflexivity].
Qed.

(* ---- transferred to the implementation world *)
Section Reach.
Variable M : methods.
Hypothesis OK : methods_ok M.

Lemma frame_any : forall steps c o c' var, let w := fst (run M steps) in
  c <> c' -> c' < length (w_ctx w) ->
  view (fst (step M w (c, o))) c' var = view w c' var.
Proof.
  intros steps c o c' var w Hne Hl. subst w.
  pose proof (run_good M OK steps) as G.
  destruct (step_rel M OK _ _ (c, o) G) as [G' _].
  rewrite (good_view _ _ c' var G'), (good_view _ _ c' var G). unfold sview.
  rewrite sstep_frame; [reflexivity | assumption |]. rewrite <- (good_nctx _ _ G). assumption.
Qed.

Lemma spawn_any : forall steps c var, let w := fst (run M steps) in
  c < length (w_ctx w) ->
  snd (step M w (c, OpSpawn)) = OCtx (length (w_ctx w)) /\
  view (fst (step M w (c, OpSpawn))) (length (w_ctx w)) var = view w c var /\
  view (fst (step M w (c, OpSpawn))) c var = view w c var.
Proof.
  intros steps c var w Hl. cbn [step]. unfold view.
  destruct (nth_error (w_ctx w) c) as [m|] eqn:E; [|apply nth_error_None in E; lia].
  cbn [fst snd w_ctx w_heap]. split; [reflexivity|]. split.
  - rewrite nth_error_app2 by lia. rewrite Nat.sub_diag. reflexivity.
  - rewrite nth_error_app1 by assumption. rewrite E. reflexivity.
Qed.

Lemma thread_any : forall steps c var, let w := fst (run M steps) in
  c < length (w_ctx w) ->
  snd (step M w (c, OpThread)) = OCtx (length (w_ctx w)) /\
  view (fst (step M w (c, OpThread))) (length (w_ctx w)) var = Some None.
Proof.
  intros steps c var w Hl. cbn [step]. unfold view.
  destruct (nth_error (w_ctx w) c) as [m|] eqn:E; [|apply nth_error_None in E; lia].
  cbn [fst snd w_ctx w_heap]. split; [reflexivity|].
  rewrite nth_error_app2 by lia. rewrite Nat.sub_diag. reflexivity.
Qed.

(* release: the releasing context sees the empty mapping / stack in that variable, every other
   (context, variable) pair is unchanged *)
Lemma release_any : forall steps c v (stack : bool), let w := fst (run M steps) in
  let var := if stack then svar v else lvar v in
  let w' := fst (step M w (c, if stack then OpSRelease v else OpLRelease v)) in
  c < length (w_ctx w) ->
  view w' c var = Some (Some (if stack then OList [] else ODict [])) /\
  forall c' var', (c', var') <> (c, var) -> c' < length (w_ctx w) -> view w' c' var' = view w c' var'.
Proof.
  intros steps c v stack w var w' Hl. subst w w'.
  pose proof (run_good M OK steps) as G.
  pose proof (good_nctx _ _ G) as Hn.
  destruct (nth_error (sw_ctx (fst (srun steps))) c) as [sm|] eqn:E;
    [|apply nth_error_None in E; lia].
  assert (Hlen : c < length (sw_ctx (fst (srun steps)))) by lia.
  destruct stack; subst var.
  - destruct (step_rel M OK _ _ (c, OpSRelease v) G) as [G' _]. split.
    + rewrite (good_view _ _ _ _ G'). unfold sview. cbn [sstep]. unfold scall. rewrite E. cbn.
      rewrite nth_error_upd_nth_eq by assumption. cbn. rewrite Nat.eqb_refl. reflexivity.
    + intros c' var' Hne Hl'. rewrite (good_view _ _ _ _ G'), (good_view _ _ _ _ G). unfold sview.
      destruct (Nat.eq_dec c c') as [Ec|Ec].
      * subst c'. cbn [sstep]. unfold scall. rewrite E. cbn.
        rewrite nth_error_upd_nth_eq by assumption. cbn.
        destruct (Nat.eqb (svar v) var') eqn:Ev; [apply Nat.eqb_eq in Ev; congruence | reflexivity].
      * rewrite sstep_frame; [reflexivity | assumption | lia].
  - destruct (step_rel M OK _ _ (c, OpLRelease v) G) as [G' _]. split.
    + rewrite (good_view _ _ _ _ G'). unfold sview. cbn [sstep]. unfold scall. rewrite E. cbn.
      rewrite nth_error_upd_nth_eq by assumption. cbn. rewrite Nat.eqb_refl. reflexivity.
    + intros c' var' Hne Hl'. rewrite (good_view _ _ _ _ G'), (good_view _ _ _ _ G). unfold sview.
      destruct (Nat.eq_dec c c') as [Ec|Ec].
      * subst c'. cbn [sstep]. unfold scall. rewrite E. cbn.
        rewrite nth_error_upd_nth_eq by assumption. cbn.
        destruct (Nat.eqb (lvar v) var') eqn:Ev; [apply Nat.eqb_eq in Ev; congruence | reflexivity].
      * rewrite sstep_frame; [reflexivity | assumption | lia].
Qed.

(* proxies: the result is a function of what the ACCESSING context sees, whoever created the proxy;
   and using a proxy changes no view *)
Lemma proxy_any : forall steps c i d a, let w := fst (run M steps) in
  nth_error (w_prox w) i = Some d ->
  forall m, nth_error (w_ctx w) c = Some m ->
  snd (step M w (c, OpProxy i a)) = proxy_spec a (pmsg d) (bound_of (fun var => deref (w_heap w) (rget m var)) d) /\
  forall c' var, view (fst (step M w (c, OpProxy i a))) c' var = view w c' var.
Proof.
  intros steps c i d a w Hd m Hm. subst w.
  pose proof (run_good M OK steps) as G.
  destruct (step_rel M OK _ _ (c, OpProxy i a) G) as [G' [Eo _]].
  pose proof G as [[Hp HF] _].
  destruct (Forall2_nth _ _ _ _ _ c HF) as [[E1 E2] | [m' [sm [E1 [E2 Hrel]]]]]; [congruence|].
  rewrite Hm in E1. inversion E1. subst m'. split.
  - rewrite Eo. cbn [sstep]. rewrite <- Hp, Hd, E2. cbn [snd]. f_equal. unfold bound_in.
    destruct d as [v name msg | v tw msg]; unfold bound_of.
    + destruct (Hrel (lvar v)) as [_ Hdv]. rewrite Hdv. reflexivity.
    + destruct (Hrel (svar v)) as [_ Hdv]. rewrite Hdv. reflexivity.
  - intros c' var. rewrite (good_view _ _ _ _ G'), (good_view _ _ _ _ G). cbn [sstep].
    rewrite <- Hp, Hd, E2. reflexivity.
Qed.
End Reach.

(* ------------------------------------------------------------------ the hypotheses are load-bearing *)
(* Local.__setattr__ / LocalStack.push with the copy removed: still correct in one context, rejected
   by cow_safe, and leaking between parent and child in the world model. *)
Definition prog_setattr_uncopied : prog :=
  PDo (IGet 0 KDict) (PDo (ISetItem 0 0 1) (PDo (ISet 0) (PRet RNone))).
Definition prog_push_uncopied : prog :=
  PDo (IGet 0 KList) (PDo (IAppend 0 0) (PDo (ISet 0) (PRet (RObj 0)))).
Definition uncopied_methods : methods :=
  mkmethods (m_getattr gen_methods) prog_setattr_uncopied (m_delattr gen_methods) (m_iter gen_methods)
            (m_lrelease gen_methods) prog_push_uncopied (m_pop gen_methods) (m_top gen_methods)
            (m_srelease gen_methods).
Definition leak_schedule : list (nat * op) :=
  [(0, OpSet 0 1%N 7%N); (0, OpPush 0 5%N); (0, OpSpawn); (1, OpSet 0 2%N 9%N); (1, OpPush 0 6%N);
   (0, OpIter 0); (0, OpTop 0)].

Lemma uncopied_refines_setattr : refines prog_setattr_uncopied sp_setattr 2.
Proof.
  start; unfold prog_setattr_uncopied, sp_setattr; sx; try rewrite Ho; sx; repeat split; sx;
    rewrite ?upd_nth_length; auto using len_app1.
  apply nth_error_upd_nth_eq. assumption.
Qed.

Lemma uncopied_leaks :
  cow_safe prog_setattr_uncopied = false /\ cow_safe prog_push_uncopied = false /\
  refines prog_setattr_uncopied sp_setattr 2 /\
  snd (run uncopied_methods leak_schedule) <> snd (srun leak_schedule) /\
  snd (run gen_methods leak_schedule) = snd (srun leak_schedule).
Proof.
  split; [reflexivity|]. split; [reflexivity|]. split; [exact uncopied_refines_setattr|].
  split; [vm_compute; discriminate | vm_compute; reflexivity].
Qed.

Lemma proxy_spec_cases : forall msg b,
  (proxy_spec PaCurrent msg b = ORuntimeError <-> b = None) /\
  (b = None -> proxy_spec PaBool msg b = OBool false /\ proxy_spec PaRepr msg b = ORepr None
               /\ proxy_spec PaGetAttr msg b = ORuntimeError /\ proxy_spec PaSetAttr msg b = ORuntimeError
               /\ proxy_spec PaMessage msg b = OMsg msg) /\
  (forall x, b = Some x -> proxy_spec PaCurrent msg b = OVal x /\ proxy_spec PaBool msg b = OBool (truthy x)
               /\ proxy_spec PaRepr msg b = ORepr (Some x) /\ proxy_spec PaGetAttr msg b = OVal x
               /\ proxy_spec PaSetAttr msg b = OVal x).
Proof.
  intros msg [x|]; cbn; repeat split; try discriminate; try congruence; intros; try discriminate.
  all: try (match goal with H : Some _ = Some _ |- _ => inversion H; subst; reflexivity end).
Qed.

Lemma views_differ :
  view (fst (run gen_methods leak_schedule)) 0 (lvar 0) = Some (Some (ODict [(1, 7)]%N)) /\
  view (fst (run gen_methods leak_schedule)) 1 (lvar 0) = Some (Some (ODict [(1, 7); (2, 9)]%N)) /\
  view (fst (run gen_methods leak_schedule)) 1 (svar 0) = Some (Some (OList [5; 6]%N)).
Proof. vm_compute. repeat split. Qed.

(* wrapping a response with the middleware, or discarding the wrapped iterable, changes nothing in any context *)
Lemma mw_no_effect : forall M w c,
  fst (step M w (c, OpMwOpen)) = w /\ fst (step M w (c, OpMwDrop)) = w.
Proof. intros M w c. cbn [step]. destruct (nth_error (w_ctx w) c); split; reflexivity. Qed.

(* ------------------------------------------------------------------ the snapshot persists *)
Lemma srun_from_app : forall a b sw,
  fst (srun_from sw (a ++ b)) = fst (srun_from (fst (srun_from sw a)) b).
Proof.
  induction a as [|s t IH]; intros b sw; cbn [app srun_from]; [reflexivity|].
  destruct (sstep sw s) as [sw' o]. specialize (IH b sw').
  destruct (srun_from sw' (t ++ b)) as [w1 o1]. destruct (srun_from sw' t) as [w2 o2]. cbn [fst] in *.
  assumption.
Qed.

Lemma sothers_keep : forall more sw n m0, nth_error (sw_ctx sw) n = Some m0 ->
  Forall (fun s : nat * op => fst s <> n) more ->
  nth_error (sw_ctx (fst (srun_from sw more))) n = Some m0.
Proof.
  induction more as [|[c o] t IH]; intros sw n m0 E F; cbn [srun_from]; [assumption|].
  inversion F as [|x l Hx Ht]; subst. cbn [fst] in Hx.
  assert (E' : nth_error (sw_ctx (fst (sstep sw (c, o)))) n = Some m0).
  { rewrite sstep_frame; [assumption | assumption |]. apply nth_error_Some. congruence. }
  destruct (sstep sw (c, o)) as [sw' o']. cbn [fst] in E'.
  specialize (IH sw' n m0 E' Ht). destruct (srun_from sw' t) as [w2 o2]. assumption.
Qed.

(* a child created by context c keeps seeing exactly what c saw at that moment, whatever every OTHER
   context (its parent, its siblings, contexts created later - nested to any depth) does afterwards *)
Lemma snapshot_persists_any : forall M, methods_ok M -> forall steps c more var,
  let w := fst (run M steps) in let n := length (w_ctx w) in
  c < n -> Forall (fun s : nat * op => fst s <> n) more ->
  view (fst (run M (steps ++ (c, OpSpawn) :: more))) n var = view w c var.
Proof.
  intros M OK steps c more var w n Hc F. subst w n.
  pose proof (run_good M OK steps) as G.
  rewrite (good_view _ _ _ _ (run_good M OK (steps ++ (c, OpSpawn) :: more))), (good_view _ _ _ _ G).
  rewrite (good_nctx _ _ G) in *. unfold srun. rewrite srun_from_app. fold (srun steps).
  set (sw := fst (srun steps)) in *.
  destruct (nth_error (sw_ctx sw) c) as [m|] eqn:E; [|apply nth_error_None in E; lia].
  cbn [srun_from]. cbn [sstep]. rewrite E.
  assert (E1 : nth_error (sw_ctx (mksworld (sw_ctx sw ++ [m]) (sw_prox sw))) (length (sw_ctx sw)) = Some m).
  { cbn. rewrite nth_error_app2 by lia. rewrite Nat.sub_diag. reflexivity. }
  pose proof (sothers_keep more _ _ _ E1 F) as E2.
  destruct (srun_from (mksworld (sw_ctx sw ++ [m]) (sw_prox sw)) more) as [w2 o2]. cbn [fst] in *.
  unfold sview. rewrite E2, E. reflexivity.
Qed.

(* ------------------------------------------------------------------ request end *)
Definition var_of (l : bool * nat) : nat := if fst l then svar (snd l) else lvar (snd l).
Definition empty_for (l : bool * nat) : obj := if fst l then OList [] else ODict [].

Lemma var_of_kind : forall l l', var_of l = var_of l' -> fst l = fst l'.
Proof.
  intros [[|] v] [[|] v']; unfold var_of, svar, lvar; cbn; intro H; try reflexivity; lia.
Qed.

Lemma srelease_one_at : forall sw c l sm, nth_error (sw_ctx sw) c = Some sm ->
  nth_error (sw_ctx (srelease_one sw c l)) c = Some (rset sm (var_of l) (empty_for l)).
Proof.
  intros sw c [[|] v] sm E; unfold srelease_one, var_of, empty_for, scall; cbn [fst snd]; rewrite E; cbn;
    (rewrite nth_error_upd_nth_eq; [reflexivity | apply nth_error_Some; congruence]).
Qed.

Lemma srelease_fold_empty : forall ls sw c sm done, nth_error (sw_ctx sw) c = Some sm ->
  (forall l, In l done -> rget sm (var_of l) = Some (empty_for l)) ->
  exists sm', nth_error (sw_ctx (fold_left (fun w' l => srelease_one w' c l) ls sw)) c = Some sm' /\
              forall l, In l (done ++ ls) -> rget sm' (var_of l) = Some (empty_for l).
Proof.
  induction ls as [|l0 t IH]; intros sw c sm done E D; cbn [fold_left].
  - exists sm. split; [assumption|]. rewrite app_nil_r. assumption.
  - destruct (IH (srelease_one sw c l0) c _ (done ++ [l0]) (srelease_one_at sw c l0 sm E)) as [sm' [E' D']].
    + intros l Hin. rewrite rget_rset. destruct (Nat.eqb (var_of l0) (var_of l)) eqn:Ev.
      * apply Nat.eqb_eq in Ev. f_equal. unfold empty_for. rewrite (var_of_kind _ _ Ev). reflexivity.
      * apply in_app_or in Hin. destruct Hin as [Hin | [Hin | []]]; [apply D; assumption|].
        subst. rewrite Nat.eqb_refl in Ev. discriminate.
    + exists sm'. split; [assumption|]. intros l Hin. apply D'. rewrite <- app_assoc. assumption.
Qed.

(* closing a response wrapped by LocalManager(ls).make_middleware in context c: afterwards every managed
   local is empty in c - whatever the application's own close() stored there - and (frame_any) no other
   context is touched.  Needs closing_order = application's close first, cleanup last. *)
Lemma request_end_any : forall M, methods_ok M -> forall steps c ls ac l,
  let w := fst (run M steps) in
  c < length (w_ctx w) -> In l ls ->
  view (fst (step M w (c, OpMwClose ls ac))) c (var_of l) = Some (Some (empty_for l)).
Proof.
  intros M OK steps c ls ac l w Hc Hin. subst w.
  pose proof (run_good M OK steps) as G.
  destruct (step_rel M OK _ _ (c, OpMwClose ls ac) G) as [G' _].
  rewrite (good_view _ _ _ _ G'). rewrite (good_nctx _ _ G) in Hc. cbn [sstep].
  set (sw := fst (srun steps)) in *.
  destruct (nth_error (sw_ctx sw) c) as [sm|] eqn:E; [|apply nth_error_None in E; lia].
  cbn [fst fold_left sclose_cb_run].
  set (sw1 := match ac with Some (v, name, val) => fst (scall sp_setattr [name; val] (lvar v) sw c) | None => sw end).
  assert (E1 : exists sm1, nth_error (sw_ctx sw1) c = Some sm1).
  { subst sw1. destruct ac as [[[v name] val]|]; [|eauto]. unfold scall. rewrite E.
    destruct (sp_setattr [name; val] (rget sm (lvar v))) as [o' r']. cbn.
    rewrite nth_error_upd_nth_eq; [eauto | apply nth_error_Some; congruence]. }
  destruct E1 as [sm1 E1].
  destruct (srelease_fold_empty ls sw1 c sm1 [] E1 (fun l H => match H with end)) as [sm' [E' D']].
  unfold sview. rewrite E'. rewrite (D' l Hin). reflexivity.
Qed.

(* ------------------------------------------------------------------ every proxied operation *)
Lemma proxy_every_any : forall M, methods_ok M -> forall steps c i d e pe, let w := fst (run M steps) in
  nth_error (w_prox w) i = Some d -> nth_error proxy_table e = Some pe ->
  forall m, nth_error (w_ctx w) c = Some m ->
  snd (step M w (c, OpProxy i (PaEntry e))) =
    match bound_of (fun var => deref (w_heap w) (rget m var)) d with
    | Some x => OFwd e x
    | None => match pe_fallback pe with FbNone => ORuntimeError | k => OFallback k end
    end.
Proof.
  intros M OK steps c i d e pe w Hd Hpe m Hm.
  destruct (proxy_any M OK steps c i d (PaEntry e) Hd m Hm) as [H _]. fold w in H. rewrite H.
  unfold proxy_spec, bound_out, entry_unbound_spec. rewrite Hpe.
  destruct (bound_of _ d); reflexivity.
Qed.

(* facts of the regenerated table (re-proved on every run): numbered consecutively; no entry answers
   True or something unrecognised for an unbound proxy; bool is False, repr the fallback text,
   attribute access and assignment raise *)
Lemma proxy_table_facts :
  map pe_id proxy_table = seq 0 (length proxy_table) /\
  forallb (fun pe => match pe_fallback pe with FbTrue | FbOther => false | _ => true end) proxy_table = true /\
  entry_unbound_spec entry_bool = OFallback FbFalse /\ entry_unbound_spec entry_repr = OFallback FbUnboundRepr /\
  entry_unbound_spec entry_getattr = ORuntimeError /\ entry_unbound_spec entry_setattr = ORuntimeError /\
  60 <= length proxy_table /\
  iop_result = RetInstance /\ 13 <= length (filter pe_iop proxy_table).
Proof. vm_compute. repeat split; repeat constructor. Qed.

(* non-vacuity of the request-end, snapshot and every-operation statements *)
Definition mw_schedule : list (nat * op) :=
  [(0, OpSet 0 1%N 7%N); (0, OpMkProxy (PStack 0 true (Some 4%N))); (0, OpSpawn); (1, OpPush 0 5%N)].
Lemma round2_examples :
  let w := fst (run gen_methods mw_schedule) in
  let w' := fst (step gen_methods w (1, OpMwClose [(false, 0); (true, 0)] (Some (0, 2%N, 9%N)))) in
  view w 1 (lvar 0) = Some (Some (ODict [(1, 7)]%N)) /\
  view w' 1 (lvar 0) = Some (Some (ODict [])) /\ view w' 1 (svar 0) = Some (Some (OList [])) /\
  view w' 0 (lvar 0) = Some (Some (ODict [(1, 7)]%N)) /\
  snd (step gen_methods w (1, OpProxy 0 (PaEntry 31))) = OFwd 31 1006%N /\
  snd (step gen_methods w (0, OpProxy 0 (PaEntry 31))) = ORuntimeError /\
  snd (step gen_methods w (0, OpProxy 0 (PaEntry entry_repr))) = OFallback FbUnboundRepr /\
  snd (step gen_methods w (0, OpProxy 0 PaMessage)) = OMsg (Some 4%N) /\
  view (fst (run gen_methods (mw_schedule ++ [(0, OpSet 0 1%N 8%N); (0, OpLRelease 0)]))) 1 (lvar 0)
    = Some (Some (ODict [(1, 7)]%N)).
Proof. vm_compute. repeat split. Qed.

(* None as a value: an attribute of a Local bound to None is bound (the proxy resolves to None); a LocalStack
   whose top is None makes its proxies report unbound - the behaviour of the code at this commit *)
Lemma none_value_examples :
  let w := fst (run gen_methods [(0, OpSet 0 1%N none_id); (0, OpPush 0 5%N); (0, OpPush 0 none_id);
                                 (0, OpMkProxy (PLocal 0 1%N None)); (0, OpMkProxy (PStack 0 false None))]) in
  snd (step gen_methods w (0, OpGet 0 1%N)) = OVal none_id /\
  snd (step gen_methods w (0, OpIter 0)) = OItems [(1%N, none_id)] /\
  snd (step gen_methods w (0, OpProxy 0 PaCurrent)) = OVal none_id /\
  snd (step gen_methods w (0, OpProxy 0 PaBool)) = OBool false /\
  snd (step gen_methods w (0, OpTop 0)) = OVal none_id /\
  snd (step gen_methods w (0, OpProxy 1 PaCurrent)) = ORuntimeError.
Proof. vm_compute. repeat split. Qed.
