let ios = int_of_string
let nn s = n_of_int (ios s)
let nt s = nat_of_int (ios s)
let split c s = String.split_on_char c s
let access = function "cur" -> PaCurrent | "bool" -> PaBool | "repr" -> PaRepr | "get" -> PaGetAttr | "set" -> PaSetAttr
  | "msg" -> PaMessage
  | s when String.length s > 1 && s.[0] = 'e' -> PaEntry (nt (String.sub s 1 (String.length s - 1)))
  | _ -> failwith "access"
let msg m = if m = "0" then None else Some (nn m)
let locals l = List.map (fun e -> (e.[0] = 's', nt (String.sub e 1 (String.length e - 1)))) (if l = "-" then [] else split ',' l)
let fbname = function FbNone -> "FbNone" | FbFalse -> "FbFalse" | FbTrue -> "FbTrue" | FbUnboundRepr -> "FbUnboundRepr"
  | FbEmptyList -> "FbEmptyList" | FbTypeDoc -> "FbTypeDoc" | FbWrapped -> "FbWrapped" | FbTypeSelf -> "FbTypeSelf" | FbOther -> "FbOther"
let op_of (t : string list) : op = match t with
  | ["set"; v; k; x] -> OpSet (nt v, nn k, nn x) | ["get"; v; k] -> OpGet (nt v, nn k)
  | ["del"; v; k] -> OpDel (nt v, nn k) | ["iter"; v] -> OpIter (nt v) | ["lrel"; v] -> OpLRelease (nt v)
  | ["push"; v; x] -> OpPush (nt v, nn x) | ["pop"; v] -> OpPop (nt v) | ["top"; v] -> OpTop (nt v)
  | ["srel"; v] -> OpSRelease (nt v)
  | ["clean"; l] -> OpCleanup (locals l)
  | ["spawn"] -> OpSpawn | ["thread"] -> OpThread | ["mwopen"] -> OpMwOpen | ["mwdrop"] -> OpMwDrop
  | ["mkp"; "l"; v; k; m] -> OpMkProxy (PLocal (nt v, nn k, msg m)) | ["mkp"; "s"; v; tw; m] -> OpMkProxy (PStack (nt v, tw = "1", msg m))
  | ["mwclose"; l; ac] -> OpMwClose (locals l, (if ac = "-" then None else
      match split '.' ac with [v; k; x] -> Some ((nt v, nn k), nn x) | _ -> failwith "ac"))
  | ["px"; i; a] -> OpProxy (nt i, access a)
  | _ -> failwith "op"
let step_of (tok : string) = match split ':' tok with
  | c :: rest -> (nt c, op_of rest) | [] -> failwith "step"
let si x = string_of_int (int_of_n x)
let show = function
  | ONone -> "none" | OVal v -> "v" ^ si v
  | OItems l -> "items:" ^ (if l = [] then "-" else String.concat "," (List.map (fun (k, v) -> si k ^ "=" ^ si v) l))
  | OObj l -> "obj:" ^ (if l = [] then "-" else String.concat "," (List.map si l))
  | OAttrError -> "attrerr" | ORuntimeError -> "rterr" | OBool b -> if b then "bool:1" else "bool:0"
  | ORepr None -> "repr:unbound" | ORepr (Some x) -> "repr:" ^ si x
  | OCtx c -> "ctx:" ^ string_of_int (int_of_nat c) | OProxy i -> "proxy:" ^ string_of_int (int_of_nat i)
  | OFwd (_, x) -> "fwd:" ^ si x | OFallback k -> "fb:" ^ fbname k
  | OMsg None -> "msg:default" | OMsg (Some m) -> "msg:" ^ si m
  | OInvalid -> "invalid" | OStuck -> "stuck"
let () = iter_lines (fun line ->
  match fields line with
  | "g" :: steps -> String.concat " " (List.map show (run_gen (List.map step_of steps)))
  | "s" :: steps -> String.concat " " (List.map show (run_spec (List.map step_of steps)))
  | ["cow"] -> if cow_safe_all gen_methods then "true" else "false"
  | _ -> "bad-command")
