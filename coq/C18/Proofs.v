(* C18 proofs, part 1: soundness of the syntactic copy-on-write check. *)
From Coq Require Import List NArith Bool Arith Lia.
Import ListNotations.
From Wz Require Import C18.Lang C18.Gen C18.Model.

(* ------------------------------------------------------------------ small facts *)
Lemma rget_rset : forall A (m : list (nat * A)) r x q,
  rget (rset m r x) q = if Nat.eqb r q then Some x else rget m q.
Proof. reflexivity. Qed.

Lemma rmem_cons : forall q r l, rmem q (r :: l) = Nat.eqb q r || rmem q l.
Proof. reflexivity. Qed.

Lemma rmem_rdrop : forall q r l, rmem q (rdrop r l) = true -> q <> r /\ rmem q l = true.
Proof.
  intros q r l. unfold rmem, rdrop. rewrite existsb_exists. intros [x [Hin Hx]].
  apply filter_In in Hin. destruct Hin as [Hin Hne]. apply Nat.eqb_eq in Hx. subst x. split.
  - intro E. subst r. rewrite Nat.eqb_refl in Hne. discriminate.
  - apply existsb_exists. exists q. split; [assumption | apply Nat.eqb_refl].
Qed.

Lemma upd_nth_length : forall A n (x : A) l, length (upd_nth n x l) = length l.
Proof. intros A n x l. revert n. induction l as [|h t IH]; intros [|n]; cbn; auto. Qed.

Lemma upd_nth_app_ge : forall A (h0 n : list A) l x, length h0 <= l ->
  upd_nth l x (h0 ++ n) = h0 ++ upd_nth (l - length h0) x n.
Proof.
  intros A h0. induction h0 as [|a t IH]; intros n l x Hl; cbn.
  - rewrite Nat.sub_0_r. reflexivity.
  - destruct l as [|l]; cbn in Hl; [lia|]. cbn. f_equal. apply IH. lia.
Qed.

Lemma upd_nth_app_lt : forall A (h0 n : list A) l x, l < length h0 ->
  upd_nth l x (h0 ++ n) = upd_nth l x h0 ++ n.
Proof.
  intros A h0. induction h0 as [|a t IH]; intros n l x Hl; cbn in *; [lia|].
  destruct l; cbn; [reflexivity|]. f_equal. apply IH. lia.
Qed.

Lemma nth_error_upd_nth_ne : forall A (l : list A) n m x, n <> m ->
  nth_error (upd_nth n x l) m = nth_error l m.
Proof.
  intros A l. induction l as [|h t IH]; intros [|n] [|m] x H; cbn; auto; try congruence.
Qed.

Lemma nth_error_upd_nth_eq : forall A (l : list A) n x, n < length l ->
  nth_error (upd_nth n x l) n = Some x.
Proof.
  intros A l. induction l as [|h t IH]; intros [|n] x H; cbn in *; try lia; auto. apply IH. lia.
Qed.

(* ------------------------------------------------------------------ cow_sound *)
Definition fresh_ok (fresh : list reg) (s : st) (h0 : heap) : Prop :=
  forall r l, rmem r fresh = true -> rget (s_regs s) r = Some l -> length h0 <= l.
Definition extends (s : st) (h0 : heap) : Prop := exists news, s_heap s = h0 ++ news.

Lemma extends_alloc : forall s h0 o r, extends s h0 -> extends (alloc s o r) h0.
Proof. intros s h0 o r [n E]. exists (n ++ [o]). cbn. rewrite E, app_assoc. reflexivity. Qed.

Lemma fresh_ok_alloc : forall fresh s h0 o r, extends s h0 -> fresh_ok fresh s h0 ->
  fresh_ok (r :: fresh) (alloc s o r) h0.
Proof.
  intros fresh s h0 o r [n E] F q l Hm Hg. cbn in Hg. rewrite rmem_cons in Hm.
  destruct (Nat.eqb r q) eqn:Erq.
  - inversion Hg. subst l. rewrite E, app_length. lia.
  - apply Nat.eqb_neq in Erq. destruct (Nat.eqb q r) eqn:Eqr.
    + apply Nat.eqb_eq in Eqr. congruence.
    + cbn in Hm. eapply F; eauto.
Qed.

Lemma extends_write : forall fresh s h0 r l o o', extends s h0 -> fresh_ok fresh s h0 ->
  rmem r fresh = true -> robj s r = Some (l, o) -> extends (write s l o') h0.
Proof.
  intros fresh s h0 r l o o' [n E] F Hm Ho. unfold robj in Ho.
  destruct (rget (s_regs s) r) as [l'|] eqn:Eg; [|discriminate].
  destruct (nth_error (s_heap s) l') eqn:En; [|discriminate]. inversion Ho. subst l' o0.
  pose proof (F r l Hm Eg) as Hge. unfold write, extends. cbn. rewrite E.
  rewrite upd_nth_app_ge by assumption. eauto.
Qed.

Lemma fresh_ok_regs : forall fresh s s' h0, s_regs s' = s_regs s -> fresh_ok fresh s h0 -> fresh_ok fresh s' h0.
Proof. intros fresh s s' h0 E F r l Hm Hg. rewrite E in Hg. eauto. Qed.

Lemma fresh_ok_nil : forall s h0, fresh_ok [] s h0.
Proof. intros s h0 r l Hm. discriminate. Qed.

Lemma cow_instr : forall ps i p' fresh s s' h0,
  cow_safe_from fresh (PDo i p') = true -> extends s h0 -> fresh_ok fresh s h0 ->
  exec_instr ps s i = Some s' ->
  exists fresh', cow_safe_from fresh' p' = true /\ extends s' h0 /\ fresh_ok fresh' s' h0.
Proof.
  intros ps i p' fresh s s' h0 Hc Hx Hf He.
  destruct i; cbn [cow_safe_from] in Hc; cbn [exec_instr] in He.
  - (* IGet *)
    exists (rdrop r fresh). split; [assumption|].
    destruct (s_bind s) as [l|]; inversion He; subst s'; clear He.
    + split; [exact Hx|]. intros q l' Hm Hg. apply rmem_rdrop in Hm. destruct Hm as [Hne Hm].
      cbn in Hg. destruct (Nat.eqb r q) eqn:E; [apply Nat.eqb_eq in E; congruence|]. eauto.
    + split; [apply extends_alloc; assumption|]. intros q l' Hm Hg. apply rmem_rdrop in Hm.
      destruct Hm as [Hne Hm]. cbn in Hg.
      destruct (Nat.eqb r q) eqn:E; [apply Nat.eqb_eq in E; congruence|]. eauto.
  - (* ICopy *)
    destruct (robj s s0) as [[l o]|]; inversion He; subst s'.
    exists (r :: fresh). auto using extends_alloc, fresh_ok_alloc.
  - (* ISliceInit *)
    destruct (robj s s0) as [[l [d|xs]]|]; inversion He; subst s'.
    exists (r :: fresh). auto using extends_alloc, fresh_ok_alloc.
  - (* INew *)
    inversion He; subst s'. exists (r :: fresh). auto using extends_alloc, fresh_ok_alloc.
  - (* IMove *)
    destruct (rget (s_regs s) s0) as [l|] eqn:Eg; inversion He; subst s'; clear He.
    eexists. split; [exact Hc|]. split; [exact Hx|].
    intros q l' Hm Hg. cbn in Hg. destruct (rmem s0 fresh) eqn:Es.
    + rewrite rmem_cons in Hm. destruct (Nat.eqb r q) eqn:E.
      * inversion Hg. subst l'. eauto.
      * destruct (Nat.eqb q r) eqn:E'; [apply Nat.eqb_eq in E'; apply Nat.eqb_neq in E; congruence|].
        cbn in Hm. eauto.
    + apply rmem_rdrop in Hm. destruct Hm as [Hne Hm].
      destruct (Nat.eqb r q) eqn:E; [apply Nat.eqb_eq in E; congruence|]. eauto.
  - (* ISetItem *)
    apply andb_true_iff in Hc. destruct Hc as [Hm Hc].
    destruct (robj s r) as [[l [d|xs]]|] eqn:Eo; try discriminate.
    destruct (nth_error ps k); try discriminate. destruct (nth_error ps v); try discriminate.
    inversion He; subst s'. exists fresh. split; [assumption|]. split.
    + eapply extends_write; eauto.
    + eapply fresh_ok_regs; [|exact Hf]. reflexivity.
  - (* IDelItem *)
    apply andb_true_iff in Hc. destruct Hc as [Hm Hc].
    destruct (robj s r) as [[l [d|xs]]|] eqn:Eo; try discriminate.
    destruct (nth_error ps k); try discriminate. destruct (dict_mem d n); try discriminate.
    inversion He; subst s'. exists fresh. split; [assumption|]. split.
    + eapply extends_write; eauto.
    + eapply fresh_ok_regs; [|exact Hf]. reflexivity.
  - (* IAppend *)
    apply andb_true_iff in Hc. destruct Hc as [Hm Hc].
    destruct (robj s r) as [[l [d|xs]]|] eqn:Eo; try discriminate.
    destruct (nth_error ps v); try discriminate.
    inversion He; subst s'. exists fresh. split; [assumption|]. split.
    + eapply extends_write; eauto.
    + eapply fresh_ok_regs; [|exact Hf]. reflexivity.
  - (* IPopLast *)
    apply andb_true_iff in Hc. destruct Hc as [Hm Hc].
    destruct (robj s r) as [[l [d|xs]]|] eqn:Eo; try discriminate.
    destruct (is_nil xs); try discriminate.
    inversion He; subst s'. exists fresh. split; [assumption|]. split.
    + eapply extends_write; eauto.
    + eapply fresh_ok_regs; [|exact Hf]. reflexivity.
  - (* IClear *)
    apply andb_true_iff in Hc. destruct Hc as [Hm Hc].
    destruct (robj s r) as [[l [d|xs]]|] eqn:Eo; try discriminate;
      inversion He; subst s'; exists fresh; (split; [assumption|]); split;
      solve [eapply extends_write; eauto | eapply fresh_ok_regs; [|exact Hf]; reflexivity].
  - (* ISet *)
    apply andb_true_iff in Hc. destruct Hc as [Hm Hc].
    destruct (rget (s_regs s) r); inversion He; subst s'. exists []. split; [assumption|].
    split; [exact Hx | apply fresh_ok_nil].
  - (* ILetLast *)
    destruct (robj s r) as [[l [d|xs]]|]; try discriminate. destruct (last_opt xs); inversion He; subst s'.
    exists fresh. split; [assumption|]. split; [exact Hx|]. eapply fresh_ok_regs; [|exact Hf]. reflexivity.
  - (* ILetItem *)
    destruct (robj s r) as [[l [d|xs]]|]; try discriminate. destruct (nth_error ps k); try discriminate.
    destruct (dict_get d n); inversion He; subst s'.
    exists fresh. split; [assumption|]. split; [exact Hx|]. eapply fresh_ok_regs; [|exact Hf]. reflexivity.
Qed.

(* only ContextVar.set changes the binding, and it binds what its register holds *)
Lemma exec_instr_bind : forall ps s i s', exec_instr ps s i = Some s' ->
  s_bind s' = s_bind s \/ exists r l, i = ISet r /\ rget (s_regs s) r = Some l /\ s_bind s' = Some l.
Proof.
  intros ps s i s' He. destruct i; cbn [exec_instr] in He;
    repeat match type of He with
           | match ?x with _ => _ end = _ => destruct x eqn:?; try discriminate
           | (if ?x then _ else _) = _ => destruct x eqn:?; try discriminate
           end;
    inversion He; subst s'; cbn; eauto.
  right. eauto.
Qed.

Definition bind_inv (s : st) (h0 : heap) (b0 : option loc) : Prop :=
  s_bind s = b0 \/ exists l, s_bind s = Some l /\ length h0 <= l.

Lemma cow_exec : forall p ps fresh s h0 b0,
  cow_safe_from fresh p = true -> extends s h0 -> fresh_ok fresh s h0 -> bind_inv s h0 b0 ->
  extends (fst (exec ps s p)) h0 /\ bind_inv (fst (exec ps s p)) h0 b0.
Proof.
  induction p as [i p IH | c pt IHt pe IHe | e | ]; intros ps fresh s h0 b0 Hc Hx Hf Hb; cbn [exec].
  - destruct (exec_instr ps s i) as [s'|] eqn:E; [|split; assumption].
    destruct (cow_instr ps i p fresh s s' h0 Hc Hx Hf E) as [fresh' [Hc' [Hx' Hf']]].
    apply (IH ps fresh' s' h0 b0 Hc' Hx' Hf').
    destruct (exec_instr_bind ps s i s' E) as [Eb | [r [l [Ei [Er Eb]]]]].
    + unfold bind_inv. rewrite Eb. exact Hb.
    + subst i. cbn [cow_safe_from] in Hc. apply andb_true_iff in Hc. destruct Hc as [Hm _].
      right. exists l. split; [assumption|]. eapply Hf; eauto.
  - cbn [cow_safe_from] in Hc. apply andb_true_iff in Hc. destruct Hc as [Ha Hb'].
    destruct (eval_cond ps s c) as [[|]|]; eauto.
  - split; assumption.
  - split; assumption.
Qed.

(* every cow_safe program, run in any heap with any binding and any parameters, leaves every
   existing heap cell as it was (the final heap is the initial heap followed by new cells), and the
   only thing it can publish with ContextVar.set is one of those new cells *)
Theorem cow_sound : forall p, cow_safe p = true ->
  forall ps h b, let s' := fst (exec ps (init_st h b) p) in
  (exists news, s_heap s' = h ++ news) /\
  (s_bind s' = b \/ exists l, s_bind s' = Some l /\ length h <= l).
Proof.
  intros p Hc ps h b. apply (cow_exec p ps [] (init_st h b) h b Hc).
  - exists []. cbn. rewrite app_nil_r. reflexivity.
  - apply fresh_ok_nil.
  - left. reflexivity.
Qed.

Corollary cow_sound_cells : forall p, cow_safe p = true ->
  forall ps h b l, l < length h ->
  nth_error (s_heap (fst (exec ps (init_st h b) p))) l = nth_error h l.
Proof.
  intros p Hc ps h b l Hl. destruct (cow_sound p Hc ps h b) as [[n E] _]. rewrite E.
  apply nth_error_app1. assumption.
Qed.

(* the regenerated obligations: each method body of local.py passes the check *)
Example cow_safe_Local_getattr : cow_safe prog_Local_getattr = true. Proof. vm_compute. reflexivity. Qed.
Example cow_safe_Local_setattr : cow_safe prog_Local_setattr = true. Proof. vm_compute. reflexivity. Qed.
Example cow_safe_Local_delattr : cow_safe prog_Local_delattr = true. Proof. vm_compute. reflexivity. Qed.
Example cow_safe_Local_iter : cow_safe prog_Local_iter = true. Proof. vm_compute. reflexivity. Qed.
Example cow_safe_Local_release_local : cow_safe prog_Local_release_local = true. Proof. vm_compute. reflexivity. Qed.
Example cow_safe_LocalStack_push : cow_safe prog_LocalStack_push = true. Proof. vm_compute. reflexivity. Qed.
Example cow_safe_LocalStack_pop : cow_safe prog_LocalStack_pop = true. Proof. vm_compute. reflexivity. Qed.
Example cow_safe_LocalStack_top : cow_safe prog_LocalStack_top = true. Proof. vm_compute. reflexivity. Qed.
Example cow_safe_LocalStack_release_local : cow_safe prog_LocalStack_release_local = true. Proof. vm_compute. reflexivity. Qed.

Lemma cow_safe_generated : cow_safe_all gen_methods = true.
Proof. vm_compute. reflexivity. Qed.

(* ------------------------------------------------------------------ below operation granularity *)
(* The same check, instruction by instruction, with other contexts running in between (they can only
   append cells: that is their own guarantee).  owned = the cells this run allocated and has not yet
   published.  Every instruction of a cow_safe program writes only owned cells, and ContextVar.set gives
   up ownership of everything: a published cell is never written again, so a child spawned or a sibling
   scheduled between two instructions of one operation can never observe a change. *)
Definition own_ok (fresh : list reg) (s : st) (owned : list loc) : Prop :=
  forall r l, rmem r fresh = true -> rget (s_regs s) r = Some l -> In l owned.

Definition interfere (s : st) (extra : list obj) : st :=
  mkst (s_heap s ++ extra) (s_regs s) (s_vals s) (s_bind s).

Lemma own_ok_interfere : forall fresh s owned extra, own_ok fresh s owned -> own_ok fresh (interfere s extra) owned.
Proof. intros fresh s owned extra H r l Hm Hg. exact (H r l Hm Hg). Qed.

Lemma own_write : forall fresh s owned r l o o', own_ok fresh s owned -> rmem r fresh = true ->
  robj s r = Some (l, o) ->
  forall l', ~ In l' owned -> nth_error (s_heap (write s l o')) l' = nth_error (s_heap s) l'.
Proof.
  intros fresh s owned r l o o' H Hm Ho l' Hn. unfold robj in Ho.
  destruct (rget (s_regs s) r) as [l0|] eqn:Eg; [|discriminate].
  destruct (nth_error (s_heap s) l0); [|discriminate]. inversion Ho. subst l0.
  cbn. apply nth_error_upd_nth_ne. intro E. subst l'. apply Hn. eapply H; eauto.
Qed.

Lemma own_alloc : forall fresh s owned o r, own_ok fresh s owned ->
  own_ok (r :: fresh) (alloc s o r) (length (s_heap s) :: owned).
Proof.
  intros fresh s owned o r H q l Hm Hg. cbn in Hg. rewrite rmem_cons in Hm.
  destruct (Nat.eqb r q) eqn:E.
  - inversion Hg. left. reflexivity.
  - destruct (Nat.eqb q r) eqn:E'; [apply Nat.eqb_eq in E'; apply Nat.eqb_neq in E; congruence|].
    cbn in Hm. right. eauto.
Qed.

Lemma alloc_keeps : forall s o r l, l < length (s_heap s) ->
  nth_error (s_heap (alloc s o r)) l = nth_error (s_heap s) l.
Proof. intros. cbn. apply nth_error_app1. assumption. Qed.

Lemma cow_instr_guarantee : forall ps i p' fresh s s' owned,
  cow_safe_from fresh (PDo i p') = true -> own_ok fresh s owned ->
  exec_instr ps s i = Some s' ->
  (forall l, ~ In l owned -> l < length (s_heap s) -> nth_error (s_heap s') l = nth_error (s_heap s) l) /\
  exists fresh' owned', cow_safe_from fresh' p' = true /\ own_ok fresh' s' owned' /\
    (forall l, In l owned' -> In l owned \/ l = length (s_heap s)) /\
    (forall r, i = ISet r -> owned' = []).
Proof.
  intros ps i p' fresh s s' owned Hc Ho He.
  destruct i; cbn [cow_safe_from] in Hc; cbn [exec_instr] in He.
  - (* IGet *)
    destruct (s_bind s) as [l|]; inversion He; subst s'; clear He.
    + split; [reflexivity|]. exists (rdrop r fresh), owned. split; [assumption|]. split; [|split; [auto | discriminate]].
      intros q l' Hm Hg. apply rmem_rdrop in Hm. destruct Hm as [Hne Hm]. cbn in Hg.
      destruct (Nat.eqb r q) eqn:E; [apply Nat.eqb_eq in E; congruence|]. eauto.
    + split; [intros; apply alloc_keeps; assumption|].
      exists (rdrop r fresh), owned. split; [assumption|]. split; [|split; [auto | discriminate]].
      intros q l' Hm Hg. apply rmem_rdrop in Hm. destruct Hm as [Hne Hm]. cbn in Hg.
      destruct (Nat.eqb r q) eqn:E; [apply Nat.eqb_eq in E; congruence|]. eauto.
  - (* ICopy *)
    destruct (robj s s0) as [[l o]|]; inversion He; subst s'.
    split; [intros; apply alloc_keeps; assumption|].
    exists (r :: fresh), (length (s_heap s) :: owned). split; [assumption|]. split; [apply own_alloc; assumption|].
    split; [intros l' [E|H]; auto | discriminate].
  - (* ISliceInit *)
    destruct (robj s s0) as [[l [d|xs]]|]; inversion He; subst s'.
    split; [intros; apply alloc_keeps; assumption|].
    exists (r :: fresh), (length (s_heap s) :: owned). split; [assumption|]. split; [apply own_alloc; assumption|].
    split; [intros l' [E|H]; auto | discriminate].
  - (* INew *)
    inversion He; subst s'.
    split; [intros; apply alloc_keeps; assumption|].
    exists (r :: fresh), (length (s_heap s) :: owned). split; [assumption|]. split; [apply own_alloc; assumption|].
    split; [intros l' [E|H]; auto | discriminate].
  - (* IMove *)
    destruct (rget (s_regs s) s0) as [l|] eqn:Eg; inversion He; subst s'; clear He.
    split; [reflexivity|]. eexists. exists owned. split; [exact Hc|]. split; [|split; [auto | discriminate]].
    intros q l' Hm Hg. cbn in Hg. destruct (rmem s0 fresh) eqn:Es.
    + rewrite rmem_cons in Hm. destruct (Nat.eqb r q) eqn:E.
      * inversion Hg. subst l'. eauto.
      * destruct (Nat.eqb q r) eqn:E'; [apply Nat.eqb_eq in E'; apply Nat.eqb_neq in E; congruence|].
        cbn in Hm. eauto.
    + apply rmem_rdrop in Hm. destruct Hm as [Hne Hm].
      destruct (Nat.eqb r q) eqn:E; [apply Nat.eqb_eq in E; congruence|]. eauto.
  - (* ISetItem *)
    apply andb_true_iff in Hc. destruct Hc as [Hm Hc].
    destruct (robj s r) as [[l [d|xs]]|] eqn:Eo; try discriminate.
    destruct (nth_error ps k); try discriminate. destruct (nth_error ps v); try discriminate.
    inversion He; subst s'. split; [intros l' Hn _; eapply own_write; eauto|].
    exists fresh, owned. split; [assumption|]. split; [exact Ho|]. split; [auto | discriminate].
  - (* IDelItem *)
    apply andb_true_iff in Hc. destruct Hc as [Hm Hc].
    destruct (robj s r) as [[l [d|xs]]|] eqn:Eo; try discriminate.
    destruct (nth_error ps k); try discriminate. destruct (dict_mem d n); try discriminate.
    inversion He; subst s'. split; [intros l' Hn _; eapply own_write; eauto|].
    exists fresh, owned. split; [assumption|]. split; [exact Ho|]. split; [auto | discriminate].
  - (* IAppend *)
    apply andb_true_iff in Hc. destruct Hc as [Hm Hc].
    destruct (robj s r) as [[l [d|xs]]|] eqn:Eo; try discriminate.
    destruct (nth_error ps v); try discriminate.
    inversion He; subst s'. split; [intros l' Hn _; eapply own_write; eauto|].
    exists fresh, owned. split; [assumption|]. split; [exact Ho|]. split; [auto | discriminate].
  - (* IPopLast *)
    apply andb_true_iff in Hc. destruct Hc as [Hm Hc].
    destruct (robj s r) as [[l [d|xs]]|] eqn:Eo; try discriminate.
    destruct (is_nil xs); try discriminate.
    inversion He; subst s'. split; [intros l' Hn _; eapply own_write; eauto|].
    exists fresh, owned. split; [assumption|]. split; [exact Ho|]. split; [auto | discriminate].
  - (* IClear *)
    apply andb_true_iff in Hc. destruct Hc as [Hm Hc].
    destruct (robj s r) as [[l [d|xs]]|] eqn:Eo; try discriminate; inversion He; subst s';
      (split; [intros l' Hn _; eapply own_write; eauto|]);
      exists fresh, owned; (split; [assumption|]); (split; [exact Ho|]); (split; [auto | discriminate]).
  - (* ISet *)
    apply andb_true_iff in Hc. destruct Hc as [Hm Hc].
    destruct (rget (s_regs s) r); inversion He; subst s'. split; [reflexivity|].
    exists [], []. split; [assumption|]. split; [intros q l' Hq; discriminate|]. split; [intros l' []|reflexivity].
  - (* ILetLast *)
    destruct (robj s r) as [[l [d|xs]]|]; try discriminate. destruct (last_opt xs); inversion He; subst s'.
    split; [reflexivity|]. exists fresh, owned. split; [assumption|]. split; [exact Ho|]. split; [auto | discriminate].
  - (* ILetItem *)
    destruct (robj s r) as [[l [d|xs]]|]; try discriminate. destruct (nth_error ps k); try discriminate.
    destruct (dict_get d n); inversion He; subst s'.
    split; [reflexivity|]. exists fresh, owned. split; [assumption|]. split; [exact Ho|]. split; [auto | discriminate].
Qed.

(* the whole run with arbitrary interference (cells appended by others) between its instructions *)
Fixpoint exec_intf (ps : list N) (s : st) (p : prog) (intf : list (list obj)) : st * out :=
  match p with
  | PDo i p' =>
      match exec_instr ps s i with
      | Some s' => exec_intf ps (interfere s' (hd [] intf)) p' (tl intf)
      | None => (s, OStuck)
      end
  | PIf c a b =>
      match eval_cond ps s c with
      | Some true => exec_intf ps s a intf
      | Some false => exec_intf ps s b intf
      | None => (s, OStuck)
      end
  | PRet e => (s, eval_ret ps s e)
  | PRaiseAttr => (s, OAttrError)
  end.

Lemma exec_instr_len : forall ps s i s', exec_instr ps s i = Some s' -> length (s_heap s) <= length (s_heap s').
Proof.
  intros ps s i s' He. destruct i; cbn [exec_instr] in He;
    repeat match type of He with
           | match ?x with _ => _ end = _ => destruct x eqn:?; try discriminate
           | (if ?x then _ else _) = _ => destruct x eqn:?; try discriminate
           end;
    inversion He; subst s'; cbn; rewrite ?app_length, ?upd_nth_length; lia.
Qed.

Lemma cow_intf : forall p ps fresh s owned intf (h0 : heap),
  cow_safe_from fresh p = true -> own_ok fresh s owned ->
  (forall l, In l owned -> length h0 <= l) -> length h0 <= length (s_heap s) ->
  forall l, l < length h0 ->
  nth_error (s_heap (fst (exec_intf ps s p intf))) l = nth_error (s_heap s) l.
Proof.
  induction p as [i p IH | c pt IHt pe IHe | e | ]; intros ps fresh s owned intf h0 Hc Ho Hown Hlen l Hl; cbn [exec_intf].
  - destruct (exec_instr ps s i) as [s'|] eqn:E; [|reflexivity].
    destruct (cow_instr_guarantee ps i p fresh s s' owned Hc Ho E) as [Hk [fresh' [owned' [Hc' [Ho' [Hsub _]]]]]].
    pose proof (exec_instr_len ps s i s' E) as Hle.
    rewrite (IH ps fresh' (interfere s' (hd [] intf)) owned' (tl intf) h0 Hc'
               (own_ok_interfere _ _ _ _ Ho')).
    + cbn. rewrite nth_error_app1 by lia. apply Hk; [|lia]. intro Hin. apply Hown in Hin. lia.
    + intros l' Hin. destruct (Hsub l' Hin) as [H|H]; [auto | lia].
    + cbn. rewrite app_length. lia.
    + assumption.
  - cbn [cow_safe_from] in Hc. apply andb_true_iff in Hc. destruct Hc as [Ha Hb].
    destruct (eval_cond ps s c) as [[|]|]; eauto.
  - reflexivity.
  - reflexivity.
Qed.

Theorem cow_sound_interleaved : forall p, cow_safe p = true ->
  forall ps h b intf l, l < length h ->
  nth_error (s_heap (fst (exec_intf ps (init_st h b) p intf))) l = nth_error h l.
Proof.
  intros p Hc ps h b intf l Hl.
  apply (cow_intf p ps [] (init_st h b) [] intf h Hc); try assumption.
  - intros r l' Hm. discriminate.
  - intros l' [].
  - cbn. lia.
Qed.

(* the clause "ContextVar.set publishes: nothing is fresh afterwards" is what the instruction-level
   statement needs, and only that: x = get().copy(); set(x); x[name] = value is correct at operation
   granularity, is rejected by cow_safe, and writes the cell it has already published (a child spawned
   between set and the item assignment would see the assignment) *)
Definition prog_write_after_publish : prog :=
  PDo (IGet 1 KDict) (PDo (ICopy 0 1) (PDo (ISet 0) (PDo (ISetItem 0 0 1) (PRet RNone)))).
Definition prefix_until_publish : prog :=
  PDo (IGet 1 KDict) (PDo (ICopy 0 1) (PDo (ISet 0) (PRet RNone))).

Lemma write_after_publish_witness :
  cow_safe prog_write_after_publish = false /\
  let s1 := fst (exec [3; 4]%N (init_st [] None) prefix_until_publish) in
  let s2 := fst (exec [3; 4]%N (init_st [] None) prog_write_after_publish) in
  s_bind s1 = Some 1 /\ s_bind s2 = Some 1 /\
  nth_error (s_heap s1) 1 = Some (ODict []) /\ nth_error (s_heap s2) 1 = Some (ODict [(3, 4)]%N).
Proof. vm_compute. repeat split. Qed.

(* cow_safe is sufficient, not necessary: re-publishing the object just read is harmless and rejected *)
Definition prog_set_what_was_got : prog := PDo (IGet 0 KDict) (PDo (ISet 0) (PRet RNone)).
Lemma cow_safe_not_necessary :
  cow_safe prog_set_what_was_got = false /\
  forall ps h l, l < length h -> nth_error (s_heap (fst (exec ps (init_st h (Some l)) prog_set_what_was_got))) l = nth_error h l.
Proof. split; [reflexivity|]. intros ps h l Hl. reflexivity. Qed.
