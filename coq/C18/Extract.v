From Coq Require Extraction ExtrOcamlBasic.
From Wz Require Import lib.ExtractBase C18.Lang C18.Gen C18.Model.
Extraction Language OCaml.
Extraction "C18/model_extracted.ml" force_types run_gen run_spec cow_safe_all gen_methods.
