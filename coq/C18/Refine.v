(* C18 proofs, part 2: each regenerated method body, run on its own (one context, any heap, any
   binding), computes the reference semantics of its method.  Proved by symbolic execution of the
   concrete generated program, so these lemmas are re-checked against local.py on every run. *)
From Coq Require Import List NArith Bool Arith Lia.
Import ListNotations.
From Wz Require Import C18.Lang C18.Gen C18.Model C18.Proofs.

Definition bind_ok (h : heap) (b : option loc) : Prop :=
  match b with Some l => l < length h | None => True end.

Definition refines (p : prog) (f : sem) (n : nat) : Prop :=
  forall ps h b, length ps = n -> bind_ok h b ->
  let r := exec ps (init_st h b) p in
  snd r = snd (f ps (deref h b)) /\
  deref (s_heap (fst r)) (s_bind (fst r)) = fst (f ps (deref h b)) /\
  bind_ok (s_heap (fst r)) (s_bind (fst r)).

Lemma nth_app_len : forall A (l : list A) x t, nth_error (l ++ x :: t) (length l) = Some x.
Proof. intros. rewrite nth_error_app2 by lia. rewrite Nat.sub_diag. reflexivity. Qed.

Lemma upd_app_len : forall A (l : list A) x y t, upd_nth (length l) y (l ++ x :: t) = l ++ y :: t.
Proof. intros. rewrite upd_nth_app_ge by lia. rewrite Nat.sub_diag. reflexivity. Qed.

Lemma len_app1 : forall A (l : list A) x, length l < length (l ++ [x]).
Proof. intros. rewrite app_length. cbn. lia. Qed.

Lemma lt_app : forall A (l t : list A) n, n < length l -> n < length (l ++ t).
Proof. intros. rewrite app_length. lia. Qed.

Lemma bound_cell : forall (h : heap) l, l < length h -> exists o, nth_error h l = Some o.
Proof. intros h l H. destruct (nth_error h l) eqn:E; eauto. apply nth_error_None in E. lia. Qed.

Ltac sx :=
  repeat (cbn [exec exec_instr eval_cond eval_ret robj alloc write setreg setval init_st
                 s_heap s_regs s_vals s_bind rget rset Nat.eqb nth_error fst snd empty_of
                 deref bind_ok as_dict as_list];
          rewrite ?nth_app_len, ?upd_app_len).

Ltac start :=
  let ps := fresh "ps" in let h := fresh "h" in let b := fresh "b" in
  let Hn := fresh "Hn" in let Hb := fresh "Hb" in
  intros ps h b Hn Hb;
  repeat (destruct ps as [|? ps]; try discriminate Hn); clear Hn;
  destruct b as [l|];
  [ let o := fresh "o" in let Ho := fresh "Ho" in
    destruct (bound_cell h l Hb) as [o Ho]; destruct o as [d|xs] | ].

Ltac fin := repeat split; sx; auto using len_app1, lt_app;
            try (rewrite nth_error_app1 by assumption; assumption).

Lemma refines_getattr : refines prog_Local_getattr sp_getattr arity_Local_getattr.
Proof.
  start; unfold prog_Local_getattr, sp_getattr; sx; try rewrite Ho; sx.
  - unfold dict_mem. destruct (dict_get d n); sx; rewrite ?Ho; sx; fin.
  - fin.
  - fin.
Qed.

Lemma refines_setattr : refines prog_Local_setattr sp_setattr arity_Local_setattr.
Proof.
  start; unfold prog_Local_setattr, sp_setattr; sx; try rewrite Ho; sx; fin.
Qed.

Lemma refines_delattr : refines prog_Local_delattr sp_delattr arity_Local_delattr.
Proof.
  start; unfold prog_Local_delattr, sp_delattr; sx; try rewrite Ho; sx.
  - destruct (dict_mem d n) eqn:Em; sx; rewrite ?Ho; sx; rewrite ?Em; sx; fin.
  - fin.
  - fin.
Qed.

Lemma refines_iter : refines prog_Local_iter sp_iter arity_Local_iter.
Proof.
  start; unfold prog_Local_iter, sp_iter; sx; try rewrite Ho; sx; fin.
Qed.

Lemma refines_lrelease : refines prog_Local_release_local sp_lrelease arity_Local_release_local.
Proof.
  start; unfold prog_Local_release_local, sp_lrelease; sx; fin.
Qed.

Lemma refines_push : refines prog_LocalStack_push sp_push arity_LocalStack_push.
Proof.
  start; unfold prog_LocalStack_push, sp_push; sx; try rewrite Ho; sx; fin.
Qed.

Lemma last_opt_nil : forall xs, last_opt xs = None -> xs = [].
Proof.
  induction xs as [|x t IH]; [reflexivity|]. cbn. destruct t; [discriminate|]. intro H.
  apply IH in H. discriminate.
Qed.

Lemma is_nil_last : forall xs, is_nil xs = false -> exists x, last_opt xs = Some x.
Proof.
  intros xs H. destruct (last_opt xs) eqn:E; eauto. apply last_opt_nil in E. subst. discriminate.
Qed.

Lemma refines_pop : refines prog_LocalStack_pop sp_pop arity_LocalStack_pop.
Proof.
  start; unfold prog_LocalStack_pop, sp_pop; sx; try rewrite Ho; sx.
  - fin.
  - destruct (is_nil xs) eqn:En; sx.
    + destruct xs; [|discriminate]. sx. fin.
    + destruct (is_nil_last xs En) as [x Ex]. rewrite ?Ho; sx; rewrite ?Ex; sx; rewrite ?Ho; sx. fin.
  - fin.
Qed.

Lemma refines_top : refines prog_LocalStack_top sp_top arity_LocalStack_top.
Proof.
  start; unfold prog_LocalStack_top, sp_top; sx; try rewrite Ho; sx.
  - fin.
  - destruct (is_nil xs) eqn:En; sx.
    + destruct xs; [|discriminate]. sx. fin.
    + destruct (is_nil_last xs En) as [x Ex]. rewrite ?Ho; sx; rewrite ?Ex; sx. fin.
  - fin.
Qed.

Lemma refines_srelease : refines prog_LocalStack_release_local sp_srelease arity_LocalStack_release_local.
Proof.
  start; unfold prog_LocalStack_release_local, sp_srelease; sx; fin.
Qed.
