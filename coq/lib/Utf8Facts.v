(* Round-trip and alphabet facts about the UTF-8 model. *)
From Coq Require Import ZArith Lia ZifyBool ZifyN.
From Wz Require Import lib.Bytes lib.Utf8.
Open Scope N_scope.
Ltac Zify.zify_post_hook ::= Z.to_euclidean_division_equations.

Lemma valid_cp_bound c : valid_cp c = true -> c < 1114112.
Proof. unfold valid_cp. lia. Qed.

Lemma dec_enc1 c rest :
  valid_cp c = true ->
  utf8_decode (enc1 c ++ rest) = option_map (cons c) (utf8_decode rest).
Proof.
  intro Hv. unfold valid_cp in Hv. unfold enc1.
  destruct (c <? 128) eqn:H1.
  { cbn [app utf8_decode]. rewrite H1. reflexivity. }
  destruct (c <? 2048) eqn:H2.
  { cbn [app utf8_decode].
    replace (192 + c / 64 <? 128) with false by lia.
    replace (192 + c / 64 <? 194) with false by lia.
    replace (192 + c / 64 <? 224) with true by lia.
    unfold is_cont.
    replace ((128 <=? 128 + c mod 64) && (128 + c mod 64 <? 192)) with true by lia.
    replace ((192 + c / 64 - 192) * 64 + (128 + c mod 64 - 128)) with c by lia.
    reflexivity. }
  destruct (c <? 65536) eqn:H3.
  { cbn [app utf8_decode].
    replace (224 + c / 4096 <? 128) with false by lia.
    replace (224 + c / 4096 <? 194) with false by lia.
    replace (224 + c / 4096 <? 224) with false by lia.
    replace (224 + c / 4096 <? 240) with true by lia.
    assert (Hs : second_ok (224 + c / 4096) (128 + (c / 64) mod 64) = true).
    { unfold second_ok, is_cont.
      destruct (224 + c / 4096 =? 224) eqn:E1; [lia|].
      destruct (224 + c / 4096 =? 237) eqn:E2; [lia|].
      destruct (224 + c / 4096 =? 240) eqn:E3; [lia|].
      destruct (224 + c / 4096 =? 244) eqn:E4; lia. }
    rewrite Hs. unfold is_cont.
    replace ((128 <=? 128 + c mod 64) && (128 + c mod 64 <? 192)) with true by lia.
    cbn [andb].
    replace ((224 + c / 4096 - 224) * 4096 + (128 + (c / 64) mod 64 - 128) * 64
             + (128 + c mod 64 - 128)) with c by lia.
    reflexivity. }
  cbn [app utf8_decode].
  replace (240 + c / 262144 <? 128) with false by lia.
  replace (240 + c / 262144 <? 194) with false by lia.
  replace (240 + c / 262144 <? 224) with false by lia.
  replace (240 + c / 262144 <? 240) with false by lia.
  replace (240 + c / 262144 <? 245) with true by lia.
  assert (Hs : second_ok (240 + c / 262144) (128 + (c / 4096) mod 64) = true).
  { unfold second_ok, is_cont.
    destruct (240 + c / 262144 =? 224) eqn:E1; [lia|].
    destruct (240 + c / 262144 =? 237) eqn:E2; [lia|].
    destruct (240 + c / 262144 =? 240) eqn:E3; [lia|].
    destruct (240 + c / 262144 =? 244) eqn:E4; lia. }
  rewrite Hs. unfold is_cont.
  replace ((128 <=? 128 + (c / 64) mod 64) && (128 + (c / 64) mod 64 <? 192)) with true by lia.
  replace ((128 <=? 128 + c mod 64) && (128 + c mod 64 <? 192)) with true by lia.
  cbn [andb].
  replace ((240 + c / 262144 - 240) * 262144 + (128 + (c / 4096) mod 64 - 128) * 4096
           + (128 + (c / 64) mod 64 - 128) * 64 + (128 + c mod 64 - 128)) with c by lia.
  reflexivity.
Qed.

Theorem utf8_decode_encode s : valid_text s = true -> utf8_decode (utf8_encode s) = Some s.
Proof.
  unfold valid_text, utf8_encode.
  induction s as [|c s IH]; intro H; [reflexivity|].
  cbn [forallb] in H. apply andb_prop in H. destruct H as [Hc Hs].
  cbn [flat_map]. rewrite dec_enc1 by exact Hc. rewrite IH by exact Hs. reflexivity.
Qed.

(* the replacing decoder agrees with the strict one wherever the strict one succeeds *)
Lemma dec_replace_enc1 c rest :
  valid_cp c = true ->
  utf8_decode_replace (enc1 c ++ rest) = c :: utf8_decode_replace rest.
Proof.
  intro Hv. unfold valid_cp in Hv. unfold enc1.
  destruct (c <? 128) eqn:H1.
  { cbn [app utf8_decode_replace]. rewrite H1. reflexivity. }
  destruct (c <? 2048) eqn:H2.
  { cbn [app utf8_decode_replace].
    replace (192 + c / 64 <? 128) with false by lia.
    replace (192 + c / 64 <? 194) with false by lia.
    replace (192 + c / 64 <? 224) with true by lia.
    unfold is_cont.
    replace ((128 <=? 128 + c mod 64) && (128 + c mod 64 <? 192)) with true by lia.
    replace ((192 + c / 64 - 192) * 64 + (128 + c mod 64 - 128)) with c by lia.
    reflexivity. }
  destruct (c <? 65536) eqn:H3.
  { cbn [app utf8_decode_replace].
    replace (224 + c / 4096 <? 128) with false by lia.
    replace (224 + c / 4096 <? 194) with false by lia.
    replace (224 + c / 4096 <? 224) with false by lia.
    replace (224 + c / 4096 <? 240) with true by lia.
    assert (Hs : second_ok (224 + c / 4096) (128 + (c / 64) mod 64) = true).
    { unfold second_ok, is_cont.
      destruct (224 + c / 4096 =? 224) eqn:E1; [lia|].
      destruct (224 + c / 4096 =? 237) eqn:E2; [lia|].
      destruct (224 + c / 4096 =? 240) eqn:E3; [lia|].
      destruct (224 + c / 4096 =? 244) eqn:E4; lia. }
    rewrite Hs. unfold is_cont.
    replace ((128 <=? 128 + c mod 64) && (128 + c mod 64 <? 192)) with true by lia.
    replace ((224 + c / 4096 - 224) * 4096 + (128 + (c / 64) mod 64 - 128) * 64
             + (128 + c mod 64 - 128)) with c by lia.
    reflexivity. }
  cbn [app utf8_decode_replace].
  replace (240 + c / 262144 <? 128) with false by lia.
  replace (240 + c / 262144 <? 194) with false by lia.
  replace (240 + c / 262144 <? 224) with false by lia.
  replace (240 + c / 262144 <? 240) with false by lia.
  replace (240 + c / 262144 <? 245) with true by lia.
  assert (Hs : second_ok (240 + c / 262144) (128 + (c / 4096) mod 64) = true).
  { unfold second_ok, is_cont.
    destruct (240 + c / 262144 =? 224) eqn:E1; [lia|].
    destruct (240 + c / 262144 =? 237) eqn:E2; [lia|].
    destruct (240 + c / 262144 =? 240) eqn:E3; [lia|].
    destruct (240 + c / 262144 =? 244) eqn:E4; lia. }
  rewrite Hs. unfold is_cont.
  replace ((128 <=? 128 + (c / 64) mod 64) && (128 + (c / 64) mod 64 <? 192)) with true by lia.
  replace ((128 <=? 128 + c mod 64) && (128 + c mod 64 <? 192)) with true by lia.
  replace ((240 + c / 262144 - 240) * 262144 + (128 + (c / 4096) mod 64 - 128) * 4096
           + (128 + (c / 64) mod 64 - 128) * 64 + (128 + c mod 64 - 128)) with c by lia.
  reflexivity.
Qed.

Theorem utf8_decode_replace_encode s :
  valid_text s = true -> utf8_decode_replace (utf8_encode s) = s.
Proof.
  unfold valid_text, utf8_encode.
  induction s as [|c s IH]; intro H; [reflexivity|].
  cbn [forallb] in H. apply andb_prop in H. destruct H as [Hc Hs].
  cbn [flat_map]. rewrite dec_replace_enc1 by exact Hc. rewrite IH by exact Hs. reflexivity.
Qed.

(* every byte of an encoding is < 256; bytes < 128 are exactly the ASCII code points *)
Lemma enc1_bytes c b : valid_cp c = true -> In b (enc1 c) -> b < 256.
Proof.
  intros Hv. unfold valid_cp in Hv. unfold enc1.
  destruct (c <? 128) eqn:H1; [cbn [In]; intros [<-|[]]; lia|].
  destruct (c <? 2048) eqn:H2; [cbn [In]; intros [<-|[<-|[]]]; lia|].
  destruct (c <? 65536) eqn:H3; [cbn [In]; intros [<-|[<-|[<-|[]]]]; lia|].
  cbn [In]; intros [<-|[<-|[<-|[<-|[]]]]]; lia.
Qed.

Lemma enc1_ascii c b : In b (enc1 c) -> b < 128 -> enc1 c = [b] /\ c = b.
Proof.
  unfold enc1.
  destruct (c <? 128) eqn:H1; [cbn [In]; intros [<-|[]]; auto|].
  destruct (c <? 2048) eqn:H2; [cbn [In]; intros [<-|[<-|[]]]; lia|].
  destruct (c <? 65536) eqn:H3; [cbn [In]; intros [<-|[<-|[<-|[]]]]; lia|].
  cbn [In]; intros [<-|[<-|[<-|[<-|[]]]]]; lia.
Qed.

Lemma utf8_encode_bytes s b : valid_text s = true -> In b (utf8_encode s) -> b < 256.
Proof.
  unfold valid_text, utf8_encode. intros Hv Hin. apply in_flat_map in Hin.
  destruct Hin as [c [Hc Hb]]. eapply enc1_bytes; [|exact Hb].
  rewrite forallb_forall in Hv. apply Hv. exact Hc.
Qed.

Lemma utf8_encode_app a b : utf8_encode (a ++ b) = utf8_encode a ++ utf8_encode b.
Proof. unfold utf8_encode. apply flat_map_app. Qed.

Lemma utf8_encode_ascii s : forallb (fun c => c <? 128) s = true -> utf8_encode s = s.
Proof.
  induction s as [|c s IH]; [reflexivity|]. cbn [forallb]. intro H.
  apply andb_prop in H. destruct H as [Hc Hs]. unfold utf8_encode in *. cbn [flat_map].
  rewrite IH by exact Hs. unfold enc1. rewrite Hc. reflexivity.
Qed.
