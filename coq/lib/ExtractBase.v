(* forces positive / N / Z / nat into every extracted module so tools/conv.ml type-checks *)
From Coq Require Import NArith ZArith.
Definition force_types (a : N) (b : Z) (c : nat) : N * Z * nat := (N.succ a, Z.succ b, S c).
