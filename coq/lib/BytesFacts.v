(* Generic list/byte lemmas used by several properties. *)
From Coq Require Import ZArith Lia ZifyBool ZifyN.
From Wz Require Import lib.Bytes.
Open Scope N_scope.

Lemma nat_range_in n c : c < N.of_nat n -> In c (nat_range n).
Proof.
  intro H. unfold nat_range. apply in_map_iff. exists (N.to_nat c). split; [lia|].
  apply in_seq. lia.
Qed.

(* lifting a finite sweep: the bound is part of the statement *)
Lemma sweep (P : N -> bool) n :
  forallb P (nat_range n) = true -> forall c, c < N.of_nat n -> P c = true.
Proof. intros H c Hc. rewrite forallb_forall in H. apply H. apply nat_range_in. exact Hc. Qed.

Lemma sweep256 (P : N -> bool) :
  forallb P all_bytes = true -> forall c, c < 256 -> P c = true.
Proof. intros H c Hc. apply (sweep P 256 H). exact Hc. Qed.

Lemma sweep128 (P : N -> bool) :
  forallb P (nat_range 128) = true -> forall c, c < 128 -> P c = true.
Proof. intros H c Hc. apply (sweep P 128 H). exact Hc. Qed.

Lemma in_ranges_bound rs m c :
  forallb (fun r => snd r <? m) rs = true -> in_ranges c rs = true -> c < m.
Proof.
  unfold in_ranges. intros Hb Hin. apply existsb_exists in Hin. destruct Hin as [r [Hr Hc]].
  rewrite forallb_forall in Hb. specialize (Hb r Hr). lia.
Qed.

Lemma take_while_app_stop (p : N -> bool) k x r :
  forallb p k = true -> p x = false -> take_while p (k ++ x :: r) = k.
Proof.
  induction k as [|a k IH]; cbn [app take_while forallb]; intros Hk Hx.
  - rewrite Hx. reflexivity.
  - apply andb_prop in Hk. destruct Hk as [Ha Hk]. rewrite Ha. f_equal. apply IH; assumption.
Qed.

Lemma drop_while_app_stop (p : N -> bool) k x r :
  forallb p k = true -> p x = false -> drop_while p (k ++ x :: r) = x :: r.
Proof.
  induction k as [|a k IH]; cbn [app drop_while forallb]; intros Hk Hx.
  - rewrite Hx. reflexivity.
  - apply andb_prop in Hk. destruct Hk as [Ha Hk]. rewrite Ha. apply IH; assumption.
Qed.

Lemma drop_while_none (p : N -> bool) s :
  match s with x :: _ => p x = false | [] => True end -> drop_while p s = s.
Proof. destruct s as [|x r]; cbn [drop_while]; intro H; [reflexivity|]. rewrite H. reflexivity. Qed.

Lemma rstrip_none (p : N -> bool) s :
  forallb (fun c => negb (p c)) s = true -> rstrip p s = s.
Proof.
  induction s as [|x r IH]; cbn [rstrip forallb]; intro H; [reflexivity|].
  apply andb_prop in H. destruct H as [Hx Hr]. rewrite IH by exact Hr.
  destruct r; [|reflexivity]. destruct (p x); [discriminate|reflexivity].
Qed.

Lemma rstrip_last (p : N -> bool) s z : p z = false -> rstrip p (s ++ [z]) = s ++ [z].
Proof.
  intro Hz. induction s as [|x r IH]; cbn [app rstrip].
  - rewrite Hz. reflexivity.
  - rewrite IH. destruct (r ++ [z]) eqn:E; [destruct r; discriminate|reflexivity].
Qed.

Lemma strip_ends (p : N -> bool) a m z :
  p a = false -> p z = false -> strip p (a :: m ++ [z]) = a :: m ++ [z].
Proof.
  intros Ha Hz. unfold strip. cbn [drop_while]. rewrite Ha.
  change (a :: m ++ [z]) with ((a :: m) ++ [z]). apply rstrip_last. exact Hz.
Qed.

Lemma strip_none (p : N -> bool) s :
  forallb (fun c => negb (p c)) s = true -> strip p s = s.
Proof.
  intro H. unfold strip. rewrite drop_while_none.
  - apply rstrip_none. exact H.
  - destruct s as [|x r]; [exact I|]. cbn [forallb] in H. apply andb_prop in H.
    destruct H as [Hx _]. destruct (p x); [discriminate|reflexivity].
Qed.

Lemma partition1_app_stop x k r :
  forallb (fun c => negb (x =? c)) k = true -> partition1 x (k ++ x :: r) = (k, Some r).
Proof.
  induction k as [|a k IH]; cbn [app partition1 forallb]; intro H.
  - rewrite N.eqb_refl. reflexivity.
  - apply andb_prop in H. destruct H as [Ha Hk]. destruct (x =? a); [discriminate|].
    rewrite IH by exact Hk. reflexivity.
Qed.

Lemma mem_false_forall x s : forallb (fun c => negb (x =? c)) s = true -> mem x s = false.
Proof.
  unfold mem. induction s as [|a s IH]; cbn [existsb forallb]; intro H; [reflexivity|].
  apply andb_prop in H. destruct H as [Ha Hs]. rewrite IH by exact Hs.
  destruct (x =? a); [discriminate|reflexivity].
Qed.

Lemma forallb_impl (p q : N -> bool) s :
  (forall c, p c = true -> q c = true) -> forallb p s = true -> forallb q s = true.
Proof.
  intros Hpq. induction s as [|a s IH]; cbn [forallb]; intro H; [reflexivity|].
  apply andb_prop in H. destruct H as [Ha Hs]. rewrite (Hpq a Ha), IH by exact Hs. reflexivity.
Qed.

Lemma forallb_flat_map (p : N -> bool) (f : N -> list N) s :
  (forall c, In c s -> forallb p (f c) = true) -> forallb p (flat_map f s) = true.
Proof.
  induction s as [|a s IH]; cbn [flat_map]; intro H; [reflexivity|].
  rewrite forallb_app, H by (left; reflexivity). apply IH. intros c Hc. apply H. right. exact Hc.
Qed.

Lemma removelast_app_one (A : Type) (l : list A) x : removelast (l ++ [x]) = l.
Proof. apply removelast_last. Qed.
