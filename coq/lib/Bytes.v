(* Byte strings and text as lists of N.  Definitions only (proofs: BytesFacts.v).
   Bytes are tested with N.eqb / N.ltb, never by pattern matching on numerals. *)
From Coq Require Export List NArith Bool.
Export ListNotations.
Open Scope N_scope.

Definition bytes := list N.
Definition str := list N.   (* code points *)

Definition beq (a b : N) : bool := N.eqb a b.

Fixpoint list_eqb (a b : list N) : bool :=
  match a, b with
  | [], [] => true
  | x :: a', y :: b' => N.eqb x y && list_eqb a' b'
  | _, _ => false
  end.

Fixpoint starts_with (p s : list N) : bool :=
  match p, s with
  | [], _ => true
  | x :: p', y :: s' => N.eqb x y && starts_with p' s'
  | _ :: _, [] => false
  end.

Definition mem (x : N) (l : list N) : bool := existsb (N.eqb x) l.

(* in_ranges x [(lo,hi);...] : lo <= x <= hi for some pair *)
Definition in_ranges (x : N) (rs : list (N * N)) : bool :=
  existsb (fun r => (fst r <=? x) && (x <=? snd r)) rs.

Fixpoint take_while (p : N -> bool) (s : list N) : list N :=
  match s with
  | [] => []
  | x :: r => if p x then x :: take_while p r else []
  end.

Fixpoint drop_while (p : N -> bool) (s : list N) : list N :=
  match s with
  | [] => []
  | x :: r => if p x then drop_while p r else s
  end.

(* strip from the right: drop the longest suffix satisfying p *)
Fixpoint rstrip (p : N -> bool) (s : list N) : list N :=
  match s with
  | [] => []
  | x :: r =>
      match rstrip p r with
      | [] => if p x then [] else [x]
      | r' => x :: r'
      end
  end.

Definition strip (p : N -> bool) (s : list N) : list N := rstrip p (drop_while p s).

(* ASCII white space of re.ASCII \s and bytes.strip(): 09-0D, 20 *)
Definition ascii_ws (c : N) : bool := ((9 <=? c) && (c <=? 13)) || (c =? 32).

(* str.isspace / str.strip() white space: the interpreter's 29 code points *)
Definition uni_ws (c : N) : bool :=
  ((9 <=? c) && (c <=? 13)) || ((28 <=? c) && (c <=? 32)) || (c =? 133) || (c =? 160)
  || (c =? 5760) || ((8192 <=? c) && (c <=? 8202)) || (c =? 8232) || (c =? 8233)
  || (c =? 8239) || (c =? 8287) || (c =? 12288).

Definition is_digit (c : N) : bool := (48 <=? c) && (c <=? 57).
Definition is_upper (c : N) : bool := (65 <=? c) && (c <=? 90).
Definition is_lower (c : N) : bool := (97 <=? c) && (c <=? 122).
Definition is_alpha (c : N) : bool := is_upper c || is_lower c.
(* re.ASCII \w *)
Definition is_word (c : N) : bool := is_digit c || is_alpha c || (c =? 95).
Definition ascii_lower (c : N) : N := if is_upper c then c + 32 else c.
Definition ascii_upper (c : N) : N := if is_lower c then c - 32 else c.
Definition lower (s : list N) : list N := map ascii_lower s.

Definition is_octal (c : N) : bool := (48 <=? c) && (c <=? 55).
Definition is_hex (c : N) : bool :=
  is_digit c || ((65 <=? c) && (c <=? 70)) || ((97 <=? c) && (c <=? 102)).
Definition hex_val (c : N) : N :=
  if is_digit c then c - 48 else if (65 <=? c) && (c <=? 70) then c - 55 else c - 87.

(* first index of x in s *)
Fixpoint index_of (x : N) (s : list N) : option nat :=
  match s with
  | [] => None
  | y :: r => if N.eqb x y then Some O else option_map S (index_of x r)
  end.

(* split at the first occurrence of x: (before, Some after) or (s, None) — str.partition *)
Fixpoint partition1 (x : N) (s : list N) : list N * option (list N) :=
  match s with
  | [] => ([], None)
  | y :: r => if N.eqb x y then ([], Some r)
              else let '(a, b) := partition1 x r in (y :: a, b)
  end.

(* find the first occurrence of a sub-list; returns (before, after-the-match) *)
Fixpoint find_sub (p s : list N) : option (list N * list N) :=
  if starts_with p s then Some ([], skipn (length p) s)
  else match s with
       | [] => None
       | y :: r => match find_sub p r with
                   | Some (a, b) => Some (y :: a, b)
                   | None => None
                   end
       end.

Definition nat_range (n : nat) : list N := map N.of_nat (seq 0 n).
Definition all_bytes : list N := nat_range 256.
