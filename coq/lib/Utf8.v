(* UTF-8 and latin-1 codecs over code points (N).  Definitions only. *)
From Wz Require Import lib.Bytes.
Open Scope N_scope.

(* Unicode scalar values: what a Python str without lone surrogates holds *)
Definition valid_cp (c : N) : bool := (c <? 55296) || ((57343 <? c) && (c <? 1114112)).
Definition valid_text (s : str) : bool := forallb valid_cp s.

Definition enc1 (c : N) : bytes :=
  if c <? 128 then [c]
  else if c <? 2048 then [192 + c / 64; 128 + c mod 64]
  else if c <? 65536 then [224 + c / 4096; 128 + (c / 64) mod 64; 128 + c mod 64]
  else [240 + c / 262144; 128 + (c / 4096) mod 64; 128 + (c / 64) mod 64; 128 + c mod 64].

(* str.encode() ("utf-8", strict): defined on valid_text; surrogates make Python raise,
   callers state valid_text as a hypothesis *)
Definition utf8_encode (s : str) : bytes := flat_map enc1 s.

Definition is_cont (b : N) : bool := (128 <=? b) && (b <? 192).

(* the admissible range of the second byte, by lead byte (RFC 3629 table) *)
Definition second_ok (b0 b1 : N) : bool :=
  if b0 =? 224 then (160 <=? b1) && (b1 <? 192)
  else if b0 =? 237 then (128 <=? b1) && (b1 <? 160)
  else if b0 =? 240 then (144 <=? b1) && (b1 <? 192)
  else if b0 =? 244 then (128 <=? b1) && (b1 <? 144)
  else is_cont b1.

(* bytes.decode() ("utf-8", strict): None models UnicodeDecodeError *)
Fixpoint utf8_decode (b : bytes) : option str :=
  match b with
  | [] => Some []
  | b0 :: r0 =>
    if b0 <? 128 then option_map (cons b0) (utf8_decode r0)
    else if b0 <? 194 then None
    else if b0 <? 224 then
      match r0 with
      | b1 :: r1 =>
        if is_cont b1 then option_map (cons ((b0 - 192) * 64 + (b1 - 128))) (utf8_decode r1)
        else None
      | [] => None
      end
    else if b0 <? 240 then
      match r0 with
      | b1 :: (b2 :: r2) =>
        if second_ok b0 b1 && is_cont b2
        then option_map (cons ((b0 - 224) * 4096 + (b1 - 128) * 64 + (b2 - 128))) (utf8_decode r2)
        else None
      | _ => None
      end
    else if b0 <? 245 then
      match r0 with
      | b1 :: (b2 :: (b3 :: r3)) =>
        if second_ok b0 b1 && is_cont b2 && is_cont b3
        then option_map
               (cons ((b0 - 240) * 262144 + (b1 - 128) * 4096 + (b2 - 128) * 64 + (b3 - 128)))
               (utf8_decode r3)
        else None
      | _ => None
      end
    else None
  end.

(* bytes.decode(errors="replace"): CPython replaces each maximal invalid subpart by U+FFFD *)
Definition REPL : N := 65533.
Fixpoint utf8_decode_replace (b : bytes) : str :=
  match b with
  | [] => []
  | b0 :: r0 =>
    if b0 <? 128 then b0 :: utf8_decode_replace r0
    else if b0 <? 194 then REPL :: utf8_decode_replace r0
    else if b0 <? 224 then
      match r0 with
      | b1 :: r1 =>
        if is_cont b1 then ((b0 - 192) * 64 + (b1 - 128)) :: utf8_decode_replace r1
        else REPL :: utf8_decode_replace r0
      | [] => [REPL]
      end
    else if b0 <? 240 then
      match r0 with
      | b1 :: r1 =>
        if second_ok b0 b1 then
          match r1 with
          | b2 :: r2 =>
            if is_cont b2
            then ((b0 - 224) * 4096 + (b1 - 128) * 64 + (b2 - 128)) :: utf8_decode_replace r2
            else REPL :: utf8_decode_replace r1
          | [] => [REPL]
          end
        else REPL :: utf8_decode_replace r0
      | [] => [REPL]
      end
    else if b0 <? 245 then
      match r0 with
      | b1 :: r1 =>
        if second_ok b0 b1 then
          match r1 with
          | b2 :: r2 =>
            if is_cont b2 then
              match r2 with
              | b3 :: r3 =>
                if is_cont b3
                then ((b0 - 240) * 262144 + (b1 - 128) * 4096 + (b2 - 128) * 64 + (b3 - 128))
                       :: utf8_decode_replace r3
                else REPL :: utf8_decode_replace r2
              | [] => [REPL]
              end
            else REPL :: utf8_decode_replace r1
          | [] => [REPL]
          end
        else REPL :: utf8_decode_replace r0
      | [] => [REPL]
      end
    else REPL :: utf8_decode_replace r0
  end.

(* latin-1: code points < 256 <-> bytes, identity on the numbers *)
Definition latin1_encode (s : str) : option bytes :=
  if forallb (fun c => c <? 256) s then Some s else None.
Definition latin1_decode (b : bytes) : str := b.

(* the PEP 3333 "dance": str -> utf-8 bytes -> latin-1 str, and back *)
Definition wsgi_encoding_dance (s : str) : str := latin1_decode (utf8_encode s).
Definition wsgi_decoding_dance_replace (s : str) : option str :=
  option_map utf8_decode_replace (latin1_encode s).
