From Coq Require Extraction ExtrOcamlBasic.
From Wz Require Import lib.Bytes lib.ExtractBase C01.Gen C01.Model C10.Gen C10.Model.
Extraction Language OCaml.
Extraction "C10/model_extracted.ml" force_types form_parse read_urlencoded default_max_form_memory_size default_max_form_parts.
