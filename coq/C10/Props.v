(* C10 property theorems (theorems only). Decoder model: C01/Model.v; fold and limited read: C10/Model.v;
   limit conditions: C10/Gen.v (regenerated from the source on every run). *)
From Coq Require Import ZArith.
From Wz Require Import lib.Bytes C01.Gen C01.Model C01.Proofs C10.Gen C10.Model C10.Proofs.
From Wz Require C09.Base C09.Gen C09.Model C10.Declared.
Open Scope N_scope.

(* in every configuration a run can reach, the buffer holds at most max_form_memory_size bytes *)
Theorem C10_buffer_bound : forall lim B c m,
  reach lim B c -> max_mem lim = Some m -> (length (buf c) <= m)%nat.
Proof. exact buffer_bound. Qed.
Print Assumptions C10_buffer_bound.

(* no reachable configuration has counted more than max_form_parts parts *)
Theorem C10_parts_bound : forall lim B c m,
  reach lim B c -> max_parts lim = Some m -> (nparts c <= m)%nat.
Proof. exact parts_bound. Qed.
Print Assumptions C10_parts_bound.

(* a returned non-file field has at most max_form_memory_size bytes, for every chunking and every
   distribution of the field over Data events *)
Theorem C10_field_bound : forall lim B m (ks : list (option bool)) chunks parts,
  max_mem lim = Some m -> form_parse lim B ks chunks = Ok parts ->
  forall h p, In (false, h, p) parts -> (length p <= m)%nat.
Proof. exact field_bound. Qed.
Print Assumptions C10_field_bound.

(* limits are pure guards: decoder level and form level *)
Theorem C10_pure_guard : forall lim B chunks r,
  drive lim B chunks = Ok r -> drive no_limits B chunks = Ok r.
Proof. exact pure_guard. Qed.
Print Assumptions C10_pure_guard.

Theorem C10_form_pure_guard : forall lim B ks chunks r,
  form_parse lim B ks chunks = Ok r -> form_parse no_limits B ks chunks = Ok r.
Proof. exact form_pure_guard. Qed.
Print Assumptions C10_form_pure_guard.

(* the regenerated limit conditions are the ones the decoder model applies *)
Theorem C10_conditions_agree_receive : forall lim c d,
  (exists e, receive lim c d = Err e) <->
  gen_recv_too_large (max_mem lim) (length (buf c)) (length d) = true.
Proof. exact gen_recv_agrees. Qed.
Print Assumptions C10_conditions_agree_receive.

Theorem C10_conditions_agree_parts : forall lim B c ms me,
  st c = PART -> search_blank (buf c) (spos c) = Some (ms, me) ->
  ((exists e, next_event lim B c = Err e) <->
   gen_too_many_parts (max_parts lim) (S (nparts c)) = true).
Proof. exact gen_parts_agrees. Qed.
Print Assumptions C10_conditions_agree_parts.

(* urlencoded bodies: whatever the declared length and however the stream fragments its reads,
   a body that is returned is the whole stream and has at most max_form_memory_size bytes;
   a longer one is rejected; and the limited read is a pure guard *)
Theorem C10_urlencoded_limit : forall m clen data sched body,
  read_urlencoded (Some m) clen data sched = UOk body -> body = data /\ (length data <= m)%nat.
Proof. exact url_limit. Qed.
Print Assumptions C10_urlencoded_limit.

Theorem C10_urlencoded_rejects : forall m clen data sched,
  (m < length data)%nat -> read_urlencoded (Some m) clen data sched = UTooLarge.
Proof. exact url_rejects. Qed.
Print Assumptions C10_urlencoded_rejects.

Theorem C10_urlencoded_pure_guard : forall mm clen data sched body,
  read_urlencoded mm clen data sched = UOk body -> read_urlencoded None None data sched = UOk body.
Proof. exact url_pure_guard. Qed.
Print Assumptions C10_urlencoded_pure_guard.

(* ---- the max_content_length clause, as corollaries of the C09 development: get_input_stream_gen is the
   decision table regenerated from wsgi.get_input_stream, run / readall the LimitedStream model *)
Section MaxContentLength.
Import C09.Base C09.Gen C09.Model.

(* a declared length above the maximum is refused before a byte is read *)
Theorem C10_declared_length_rejected : forall r n m,
  wsgi_get_content_length_gen r = Val (Some n) -> e_mcl r = Some m -> (n > m)%Z ->
  get_input_stream_gen r = ChRaise RequestEntityTooLarge.
Proof. exact C10.Declared.declared_rejected. Qed.
Print Assumptions C10_declared_length_rejected.

(* a declared length within the maximum is a pure guard: the stream is the one built without a smaller
   limit (the declared length, or the maximum on a server-terminated input) *)
Theorem C10_declared_length_accepted : forall r n m,
  wsgi_get_content_length_gen r = Val (Some n) -> e_mcl r = Some m -> (n <= m)%Z ->
  get_input_stream_gen r = if term_truthy r then ChLimited m true else ChLimited n false.
Proof. exact C10.Declared.declared_accepted. Qed.
Print Assumptions C10_declared_length_accepted.

(* with a maximum configured: no stream with a larger limit, no exception but RequestEntityTooLarge *)
Theorem C10_never_beyond_max : forall r m,
  e_mcl r = Some m ->
  (forall e, get_input_stream_gen r = ChRaise e -> e = RequestEntityTooLarge) /\
  (forall l k, get_input_stream_gen r = ChLimited l k -> (l <= m)%Z).
Proof. exact C10.Declared.never_beyond_max. Qed.
Print Assumptions C10_never_beyond_max.

(* server-terminated stream without a usable length: capped at the maximum; under every operation
   sequence and read schedule at most m bytes are consumed and only the client's bytes are yielded;
   reading a body of m bytes or more to the end raises RequestEntityTooLarge *)
Theorem C10_terminated_stream_bounded : forall r m D sched ri ops,
  wsgi_get_content_length_gen r = Val None -> e_mcl r = Some m -> term_truthy r = true ->
  get_input_stream_gen r = ChLimited m true /\
  (match run (ls_init (Z.to_N m) true) (und_init D sched ri) ops with
   | (l, s, u) => u_taken u ++ u_data u = D /\ (lenN (u_taken u) <= Z.to_N m)%N /\
                  trace_ok D (Z.to_N m) 0 l
   end) /\
  (benign sched = true -> (Z.to_N m <= lenN D)%N ->
   fst (fst (readall (ls_init (Z.to_N m) true) (und_init D sched ri))) = Exn RequestEntityTooLarge).
Proof. exact C10.Declared.terminated_stream_bounded. Qed.
Print Assumptions C10_terminated_stream_bounded.

Example C10_max_content_length_example :
  get_input_stream_gen {| e_cl := Some [53; 48]; e_te := None; e_term := None; e_mcl := Some 49%Z; e_safe := true |}
    = ChRaise RequestEntityTooLarge
  /\ get_input_stream_gen {| e_cl := Some [53; 48]; e_te := None; e_term := None; e_mcl := Some 50%Z; e_safe := true |}
    = ChLimited 50 false
  /\ get_input_stream_gen {| e_cl := None; e_te := None; e_term := Some true; e_mcl := Some 50%Z; e_safe := true |}
    = ChLimited 50 true.
Proof. vm_compute. repeat split. Qed.
Print Assumptions C10_max_content_length_example.
End MaxContentLength.
