let optnat s = if s = "~" then None else Some (nat_of_int (int_of_string s))
let err_str = function
  | ErrValue -> "X:value" | ErrTooLarge -> "X:413" | ErrTooManyParts h -> "X:413H:" ^ hex_of_nlist h
  | ErrNoLineBreak -> "X:AttributeError" | ErrOutOfFuel -> "X:fuel"
let () = iter_lines (fun line ->
  match fields line with
  | ["form"; b; mm; mp; kinds; chunks] ->
      let cs = if chunks = "~" then [] else List.map nlist_of_hex (String.split_on_char ',' chunks) in
      let ks = if kinds = "~" then [] else List.map (fun c -> if c = '2' then None else Some (c = '1')) (List.init (String.length kinds) (String.get kinds)) in
      let lim = { max_mem = optnat mm; max_parts = optnat mp } in
      (match form_parse lim (nlist_of_hex b) ks cs with
       | Ok parts -> "ok " ^ String.concat "|" (List.map (fun ((k, h), p) -> (if k then "F" else "f") ^ ":" ^ hex_of_nlist h ^ ":" ^ hex_of_nlist p) parts)
       | Err e -> err_str e)
  | ["url"; mm; clen; data; sched] ->
      let sc = if sched = "~" then [] else List.map (fun t -> nat_of_int (int_of_string t)) (String.split_on_char ',' sched) in
      (match read_urlencoded (optnat mm) (optnat clen) (nlist_of_hex data) sc with
       | UOk b -> "ok " ^ hex_of_nlist b | UTooLarge -> "X:413" | UOutOfFuel -> "X:fuel")
  | ["defaults"] ->
      let o = function None -> "~" | Some n -> string_of_int (int_of_nat n) in
      o default_max_form_memory_size ^ " " ^ o default_max_form_parts
  | _ -> "bad-command")
