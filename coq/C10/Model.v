(* C10: the form-level fold of MultiPartParser.parse (field_size accounting) on top of the decoder
   model of C01, and the limited read of FormDataParser._parse_urlencoded.  Definitions only.
   The limit conditions are the regenerated ones of C10/Gen.v. *)
From Coq Require Import ZArith.
From Wz Require Import lib.Bytes C01.Gen C01.Model C10.Gen.
Open Scope N_scope.

(* a finished part: (is_file, raw header block, payload) *)
Definition fpart := (bool * bytes * bytes)%type.

Record fstate := mkf {
  cur : option (bool * bytes * bytes * option nat);  (* kind, header, payload so far, field_size *)
  kinds : list (option bool);                        (* per part still to come, from werkzeug's header parser:
                                                        Some is_file, or None = the header block is rejected (ValueError) *)
  finished : list fpart }.

Definition fold_event (mm : option nat) (fs : fstate) (ev : event) : res fstate :=
  match ev with
  | EPart h =>
    match (match kinds fs with k :: _ => k | [] => Some false end) with
    | None => Err ErrValue
    | Some k => Ok (mkf (Some (k, h, [], if k then None else Some 0%nat)) (tl (kinds fs)) (finished fs))
    end
  | EData d more =>
    match cur fs with
    | None => Ok fs
    | Some (k, h, p, fsz) =>
      let fsz' := match fsz with Some n => Some (n + length d)%nat | None => None end in
      if gen_field_guard mm fsz && gen_field_too_large mm fsz' then Err ErrTooLarge
      else if more then Ok (mkf (Some (k, h, p ++ d, fsz')) (kinds fs) (finished fs))
           else Ok (mkf None (kinds fs) (finished fs ++ [(k, h, p ++ d)]))
    end
  | _ => Ok fs
  end.

Fixpoint fold_events (mm : option nat) (fs : fstate) (evs : list event) : res fstate :=
  match evs with
  | [] => Ok fs
  | ev :: r => match fold_event mm fs ev with
               | Ok fs' => fold_events mm fs' r
               | Err e => Err e
               end
  end.

(* MultiPartParser.parse: per chunk, receive_data then events until NeedData; the fold sees each
   event before the decoder is asked for the next one *)
Fixpoint form_feed (lim : limits) (B : bytes) (fs : fstate) (c : cfg) (chunks : list bytes) : res (list fpart) :=
  match chunks with
  | [] =>
    let c1 := receive_end c in
    let '(l, e, _) := drain_t (drain_fuel c1) lim B c1 in
    match fold_events (max_mem lim) fs (map fst l) with
    | Err x => Err x
    | Ok fs' => match e with Some x => Err x | None => Ok (finished fs') end
    end
  | d :: rest =>
    match receive lim c d with
    | Err e => Err e
    | Ok c1 =>
      let '(l, e, c2) := drain_t (drain_fuel c1) lim B c1 in
      match fold_events (max_mem lim) fs (map fst l) with
      | Err x => Err x
      | Ok fs' => match e with Some x => Err x | None => form_feed lim B fs' c2 rest end
      end
    end
  end.

Definition form_parse (lim : limits) (B : bytes) (ks : list (option bool)) (chunks : list bytes) : res (list fpart) :=
  form_feed lim B (mkf None ks []) init chunks.

(* ---- _parse_urlencoded: the limited read.  The stream is its data plus a schedule: the i-th
   read call returns at most (nth i sched) bytes (0 or a missing entry = no bound of its own) *)
Fixpoint read_loop (fuel : nat) (remaining : Z) (data : bytes) (sched : list nat) (acc : bytes)
  : option (Z * bytes) :=
  match fuel with
  | O => None
  | S f =>
    if Z.ltb 0 remaining then
      let k := match sched with k :: _ => if Nat.eqb k 0 then length data else k | [] => length data end in
      let n := Nat.min (Z.to_nat remaining) k in
      let chunk := firstn n data in
      match chunk with
      | [] => Some (remaining, acc)
      | _ => read_loop f (remaining - Z.of_nat (length chunk)) (skipn n data) (tl sched) (acc ++ chunk)
      end
    else Some (remaining, acc)
  end.

Inductive ures := UOk (body : bytes) | UTooLarge | UOutOfFuel.

Definition read_urlencoded (mm clen : option nat) (data : bytes) (sched : list nat) : ures :=
  if gen_url_declared_too_large mm clen then UTooLarge
  else match mm with
       | None => UOk data
       | Some m =>
         match read_loop (S (S (length data))) (Z.of_nat m + 1) data sched [] with
         | None => UOutOfFuel
         | Some (remaining, body) => if gen_url_read_too_large remaining then UTooLarge else UOk body
         end
       end.
