(* C10, the Content-Length / max_content_length clause: corollaries of the C09 development.
   get_input_stream_gen is the decision table regenerated from wsgi.get_input_stream (coq/C09/Gen.v);
   readall / ls_init / und_init are the LimitedStream model of coq/C09/Model.v. *)
From Coq Require Import ZArith Lia ZifyBool ZifyN.
From Wz Require Import lib.Bytes C09.Base C09.Gen C09.Model C09.Proofs.
Ltac Zify.zify_post_hook ::= Z.to_euclidean_division_equations.

(* a declared length above the maximum: refused before a single byte is read *)
Lemma declared_rejected r n m :
  wsgi_get_content_length_gen r = Val (Some n) -> e_mcl r = Some m -> (n > m)%Z ->
  get_input_stream_gen r = ChRaise RequestEntityTooLarge.
Proof.
  intros Hc Hm Hgt. destruct (wrapper_choice_full r) as [cl [Hcl [_ [_ H]]]].
  rewrite Hc in Hcl. inversion Hcl; subst cl. rewrite H. unfold wrapper_spec. rewrite Hm.
  destruct (n >? m)%Z eqn:E; [reflexivity | lia].
Qed.

(* a declared length within the maximum never makes the wrapper raise, and the stream it builds is
   limited by the declared length (not a server-terminated input) or by the maximum (terminated) *)
Lemma declared_accepted r n m :
  wsgi_get_content_length_gen r = Val (Some n) -> e_mcl r = Some m -> (n <= m)%Z ->
  get_input_stream_gen r = if term_truthy r then ChLimited m true else ChLimited n false.
Proof.
  intros Hc Hm Hle. destruct (wrapper_choice_full r) as [cl [Hcl [_ [_ H]]]].
  rewrite Hc in Hcl. inversion Hcl; subst cl. rewrite H. unfold wrapper_spec. rewrite Hm.
  destruct (n >? m)%Z eqn:E; [lia | reflexivity].
Qed.

(* no usable length on a server-terminated input: the stream is capped at the maximum *)
Lemma terminated_capped r m :
  wsgi_get_content_length_gen r = Val None -> e_mcl r = Some m -> term_truthy r = true ->
  get_input_stream_gen r = ChLimited m true.
Proof.
  intros Hc Hm Ht. destruct (wrapper_choice_full r) as [cl [Hcl [_ [_ H]]]].
  rewrite Hc in Hcl. inversion Hcl; subst cl. rewrite H. unfold wrapper_spec. rewrite Hm, Ht. reflexivity.
Qed.

(* whatever the headers say, with a maximum configured no stream handed out has a larger limit and
   the only exception is RequestEntityTooLarge *)
Lemma never_beyond_max r m :
  e_mcl r = Some m ->
  (forall e, get_input_stream_gen r = ChRaise e -> e = RequestEntityTooLarge) /\
  (forall l k, get_input_stream_gen r = ChLimited l k -> (l <= m)%Z).
Proof.
  intros Hm. destruct (wrapper_sound r) as [He Hl]. split; [exact He|].
  intros l k H. destruct (Hl l k H) as [_ [_ Hx]]. apply Hx. exact Hm.
Qed.

(* the two halves composed: a request whose stream get_input_stream caps at the maximum (no usable
   length, server-terminated input).  Under every operation sequence and read schedule the stream
   consumes at most m bytes of the input and yields only the client's bytes; a body of m bytes or
   more read to the end raises RequestEntityTooLarge *)
Lemma terminated_stream_bounded r m D sched ri ops :
  wsgi_get_content_length_gen r = Val None -> e_mcl r = Some m -> term_truthy r = true ->
  get_input_stream_gen r = ChLimited m true /\
  (match run (ls_init (Z.to_N m) true) (und_init D sched ri) ops with
   | (l, s, u) => u_taken u ++ u_data u = D /\ (lenN (u_taken u) <= Z.to_N m)%N /\
                  trace_ok D (Z.to_N m) 0 l
   end) /\
  (benign sched = true -> (Z.to_N m <= lenN D)%N ->
   fst (fst (readall (ls_init (Z.to_N m) true) (und_init D sched ri))) = Exn RequestEntityTooLarge).
Proof.
  intros Hc Hm Ht. split; [apply terminated_capped; assumption|]. split.
  - pose proof (invariant D (Z.to_N m) true sched ri ops) as H.
    destruct (run (ls_init (Z.to_N m) true) (und_init D sched ri) ops) as [[l s] u].
    destruct H as [H1 [H2 [H3 [H4 _]]]]. split; [exact H1|]. split; [rewrite <- H2; exact H3 | exact H4].
  - intros Hb Hl. apply max_body_too_large; assumption.
Qed.
