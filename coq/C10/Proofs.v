(* C10 proofs. *)
From Coq Require Import ZArith Lia ZifyBool ZifyN ZifyNat.
From Wz Require Import lib.Bytes lib.BytesFacts C01.Gen C01.Model C01.Proofs C10.Gen C10.Model.
Open Scope N_scope.

(* ---- the regenerated conditions are the ones the decoder model uses *)
Lemma gen_recv_agrees lim c d :
  (exists e, receive lim c d = Err e) <->
  gen_recv_too_large (max_mem lim) (length (buf c)) (length d) = true.
Proof.
  unfold receive, gen_recv_too_large. destruct (max_mem lim) as [m|]; cbn [negb andb].
  - destruct (Nat.ltb m (length (buf c) + length d)); split; intro H;
      try reflexivity; try (destruct H; discriminate); try discriminate. eexists; reflexivity.
  - split; [intros [e H]; discriminate|discriminate].
Qed.

Lemma gen_parts_agrees lim B c ms me :
  st c = PART -> search_blank (buf c) (spos c) = Some (ms, me) ->
  ((exists e, next_event lim B c = Err e) <->
   gen_too_many_parts (max_parts lim) (S (nparts c)) = true).
Proof.
  intros Hst Hs. unfold next_event, gen_too_many_parts. rewrite Hst, Hs.
  destruct (max_parts lim) as [m|]; cbn [negb andb].
  - destruct (Nat.ltb m (S (nparts c))); split; intro H;
      try reflexivity; try (destruct H; discriminate); try discriminate. eexists; reflexivity.
  - split; [intros [e H]; discriminate|discriminate].
Qed.

(* ---- field bound: a returned non-file field never exceeds the limit, however its bytes were
   distributed over Data events *)
Definition cur_ok (m : nat) (fs : fstate) : Prop :=
  match cur fs with
  | Some (false, _, p, fsz) => fsz = Some (length p) /\ (length p <= m)%nat
  | Some (true, _, _, fsz) => fsz = None
  | None => True
  end.
Definition fields_ok (m : nat) (l : list fpart) : Prop :=
  Forall (fun x => match x with (false, _, p) => (length p <= m)%nat | _ => True end) l.

Lemma fold_event_inv m fs ev fs' :
  cur_ok m fs -> fields_ok m (finished fs) ->
  fold_event (Some m) fs ev = Ok fs' -> cur_ok m fs' /\ fields_ok m (finished fs').
Proof.
  intros Hc Hf. unfold fold_event. destruct ev as [|d|h|d more|d].
  - intro H; inversion H; subst; auto.
  - intro H; inversion H; subst; auto.
  - destruct (match kinds fs with k :: _ => k | [] => Some false end) as [k|]; [|discriminate].
    intro H; inversion H; subst. split; [|exact Hf]. unfold cur_ok. cbn [cur].
    destruct k; [reflexivity|]. cbn [length]. split; [reflexivity|lia].
  - unfold cur_ok in Hc. destruct (cur fs) as [[[[k h] p] fsz]|] eqn:Ecur; [|intro H; inversion H; subst; unfold cur_ok; rewrite Ecur; auto].
    destruct k.
    + (* file: no accounting *)
      subst fsz. unfold gen_field_guard. cbn [negb andb].
      destruct more; intro H; inversion H; subst; unfold cur_ok; cbn [cur finished]; split; auto.
      unfold fields_ok in *. apply Forall_app. split; [exact Hf|]. constructor; [exact I|constructor].
    + destruct Hc as [Hfs Hle]. subst fsz. unfold gen_field_guard, gen_field_too_large. cbn [negb andb].
      destruct (Nat.ltb m (length p + length d)) eqn:E; [discriminate|]. apply Nat.ltb_ge in E.
      destruct more; intro H; inversion H; subst; unfold cur_ok; cbn [cur finished].
      * split; [|exact Hf]. rewrite app_length. split; [reflexivity|lia].
      * split; [exact I|]. unfold fields_ok in *. apply Forall_app. split; [exact Hf|].
        constructor; [|constructor]. rewrite app_length. lia.
  - intro H; inversion H; subst; auto.
Qed.

Lemma fold_events_inv m evs fs fs' :
  cur_ok m fs -> fields_ok m (finished fs) ->
  fold_events (Some m) fs evs = Ok fs' -> cur_ok m fs' /\ fields_ok m (finished fs').
Proof.
  revert fs. induction evs as [|ev r IH]; intros fs Hc Hf; cbn [fold_events].
  - intro H; inversion H; subst; auto.
  - destruct (fold_event (Some m) fs ev) as [fs1|e] eqn:E; [|discriminate].
    destruct (fold_event_inv _ _ _ _ Hc Hf E) as [Hc1 Hf1]. apply IH; assumption.
Qed.

Lemma form_feed_field_bound lim B m chunks fs c parts :
  max_mem lim = Some m -> cur_ok m fs -> fields_ok m (finished fs) ->
  form_feed lim B fs c chunks = Ok parts -> fields_ok m parts.
Proof.
  intro Hm. revert fs c. induction chunks as [|d rest IH]; intros fs c Hc Hf; cbn [form_feed].
  - destruct (drain_t (drain_fuel (receive_end c)) lim B (receive_end c)) as [[l e] c2].
    rewrite Hm. destruct (fold_events (Some m) fs (map fst l)) as [fs'|x] eqn:E; [|discriminate].
    destruct (fold_events_inv _ _ _ _ Hc Hf E) as [_ Hf']. destruct e; [discriminate|].
    intro H; inversion H; subst. exact Hf'.
  - destruct (receive lim c d) as [c1|e]; [|discriminate].
    destruct (drain_t (drain_fuel c1) lim B c1) as [[l e] c2].
    rewrite Hm. destruct (fold_events (Some m) fs (map fst l)) as [fs'|x] eqn:E; [|discriminate].
    destruct (fold_events_inv _ _ _ _ Hc Hf E) as [Hc' Hf']. destruct e; [discriminate|].
    apply IH; assumption.
Qed.

Theorem field_bound lim B m ks chunks parts :
  max_mem lim = Some m -> form_parse lim B ks chunks = Ok parts ->
  forall h p, In (false, h, p) parts -> (length p <= m)%nat.
Proof.
  intros Hm H h p Hin. unfold form_parse in H.
  assert (Hf : fields_ok m parts).
  { eapply form_feed_field_bound; [exact Hm| | |exact H]; [exact I|constructor]. }
  unfold fields_ok in Hf. rewrite Forall_forall in Hf. exact (Hf _ Hin).
Qed.

(* ---- limits are pure guards, at form level *)
Lemma drain_t_guard fuel lim B c l c2 :
  drain_t fuel lim B c = (l, None, c2) -> drain_t fuel no_limits B c = (l, None, c2).
Proof.
  revert c l c2. induction fuel as [|f IH]; intros c l c2; cbn [drain_t]; [discriminate|].
  destruct (next_event lim B c) as [[ev c']|e] eqn:E; [|discriminate].
  rewrite (next_event_guard _ _ _ _ E).
  destruct ev; try (intro H; exact H);
    (destruct (drain_t f lim B c') as [[l' e'] c''] eqn:E2; intro H; inversion H; subst;
     rewrite (IH _ _ _ E2); reflexivity).
Qed.

Lemma fold_event_guard mm fs ev fs' :
  fold_event mm fs ev = Ok fs' -> fold_event None fs ev = Ok fs'.
Proof.
  unfold fold_event. destruct ev; try (intro H; exact H).
  destruct (cur fs) as [[[[k h] p] fsz]|]; [|intro H; exact H].
  unfold gen_field_guard at 2. cbn [negb andb].
  destruct (gen_field_guard mm fsz && gen_field_too_large mm _); [discriminate|intro H; exact H].
Qed.

Lemma fold_events_guard mm evs fs fs' :
  fold_events mm fs evs = Ok fs' -> fold_events None fs evs = Ok fs'.
Proof.
  revert fs. induction evs as [|ev r IH]; intros fs; cbn [fold_events]; [intro H; exact H|].
  destruct (fold_event mm fs ev) as [fs1|e] eqn:E; [|discriminate].
  rewrite (fold_event_guard _ _ _ _ E). apply IH.
Qed.

Lemma form_feed_guard lim B chunks fs c r :
  form_feed lim B fs c chunks = Ok r -> form_feed no_limits B fs c chunks = Ok r.
Proof.
  revert fs c. induction chunks as [|d rest IH]; intros fs c; cbn [form_feed].
  - destruct (drain_t (drain_fuel (receive_end c)) lim B (receive_end c)) as [[l e] c2] eqn:E.
    destruct (fold_events (max_mem lim) fs (map fst l)) as [fs'|x] eqn:E2; [|discriminate].
    destruct e; [discriminate|]. rewrite (drain_t_guard _ _ _ _ _ _ E). cbn [max_mem no_limits].
    rewrite (fold_events_guard _ _ _ _ E2). intro H; exact H.
  - destruct (receive lim c d) as [c1|e] eqn:E1; [|discriminate].
    rewrite (receive_guard _ _ _ _ E1).
    destruct (drain_t (drain_fuel c1) lim B c1) as [[l e] c2] eqn:E.
    destruct (fold_events (max_mem lim) fs (map fst l)) as [fs'|x] eqn:E2; [|discriminate].
    destruct e; [discriminate|]. rewrite (drain_t_guard _ _ _ _ _ _ E). cbn [max_mem no_limits].
    rewrite (fold_events_guard _ _ _ _ E2). apply IH.
Qed.

Theorem form_pure_guard lim B ks chunks r :
  form_parse lim B ks chunks = Ok r -> form_parse no_limits B ks chunks = Ok r.
Proof. apply form_feed_guard. Qed.

(* ---- the urlencoded limited read *)
Lemma read_loop_spec fuel : forall remaining data sched acc rem' body,
  (length data < fuel)%nat ->
  read_loop fuel remaining data sched acc = Some (rem', body) ->
  exists taken, body = acc ++ taken /\ taken = firstn (length taken) data /\
    rem' = (remaining - Z.of_nat (length taken))%Z /\
    ((0 < remaining)%Z -> (0 <= rem')%Z) /\
    ((0 < rem')%Z -> taken = data) /\
    ((remaining <= 0)%Z -> taken = []).
Proof.
  induction fuel as [|f IH]; intros remaining data sched acc rem' body Hfuel; [lia|].
  cbn [read_loop]. destruct (Z.ltb 0 remaining) eqn:Hpos.
  2:{ intro H; inversion H; subst. exists []. rewrite app_nil_r. cbn [length firstn].
      repeat split; try lia. }
  assert (Hrem : (0 < remaining)%Z) by lia.
  set (k := match sched with k :: _ => if Nat.eqb k 0 then length data else k | [] => length data end).
  set (n := Nat.min (Z.to_nat remaining) k).
  destruct (firstn n data) as [|x chunk'] eqn:Echunk.
  - intro H; inversion H; subst. exists []. rewrite app_nil_r. cbn [length firstn].
    repeat split; try lia. intros _.
    (* an empty read with remaining > 0 and k >= 1 (or k = length data) means the data is exhausted *)
    destruct data as [|y data']; [reflexivity|].
    assert (Hn : n = 0%nat) by (destruct n; [reflexivity|discriminate]).
    unfold n in Hn. assert (Hk : k = 0%nat) by lia.
    unfold k in Hk. destruct sched as [|k0 sr]; cbn [length] in Hk; [lia|].
    destruct (Nat.eqb k0 0) eqn:E0; [cbn [length] in Hk; lia|]. apply Nat.eqb_neq in E0. lia.
  - rewrite <- Echunk. intro H.
    assert (Hlen : length (firstn n data) = Nat.min n (length data)) by apply firstn_length.
    assert (Hnz : (1 <= length (firstn n data))%nat) by (rewrite Echunk; cbn [length]; lia).
    apply IH in H.
    2:{ rewrite skipn_length. lia. }
    destruct H as [taken [Hb [Ht [Hr [Hnn [Hall Hzero]]]]]].
    exists (firstn n data ++ taken). rewrite app_assoc. split; [exact Hb|].
    rewrite app_length. split.
    + rewrite Hlen. rewrite Ht at 1.
      assert (Hmin : Nat.min n (length data) = n \/ Nat.min n (length data) = length data) by lia.
      destruct Hmin as [Hmin|Hmin]; rewrite Hmin.
      * rewrite <- (firstn_skipn n data) at 3. rewrite firstn_app.
        rewrite firstn_length. replace (n + length taken - Nat.min n (length data))%nat with (length taken) by lia.
        rewrite (firstn_all2 (n := (n + length taken)%nat)); [reflexivity|]. rewrite firstn_length. lia.
      * assert (Hsk : skipn n data = []) by (apply skipn_all2; lia).
        rewrite Hsk in Ht. rewrite firstn_nil in Ht. subst taken. cbn [length]. rewrite app_nil_r, Nat.add_0_r.
        rewrite firstn_all. rewrite firstn_all2 by lia. reflexivity.
    + split; [rewrite Hr; lia|]. split; [|split].
      * intros _.
        destruct (Z.ltb 0 (remaining - Z.of_nat (length (firstn n data)))) eqn:Ez.
        -- apply Hnn. lia.
        -- rewrite (Hzero ltac:(lia)) in Hr. cbn [length] in Hr. unfold n in *. lia.
      * intro Hp. rewrite (Hall Hp). apply firstn_skipn.
      * lia.
Qed.

Theorem url_limit m clen data sched body :
  read_urlencoded (Some m) clen data sched = UOk body -> body = data /\ (length data <= m)%nat.
Proof.
  unfold read_urlencoded. destruct (gen_url_declared_too_large (Some m) clen); [discriminate|].
  destruct (read_loop (S (S (length data))) (Z.of_nat m + 1) data sched []) as [[rem' b]|] eqn:E; [|discriminate].
  unfold gen_url_read_too_large. destruct (Z.leb rem' 0) eqn:Er; [discriminate|].
  intro H; inversion H; subst b.
  apply read_loop_spec in E; [|lia]. destruct E as [taken [Hb [Ht [Hr [_ [Hall _]]]]]].
  cbn [app] in Hb. subst body. assert (Hp : (0 < rem')%Z) by lia. rewrite (Hall Hp) in *.
  split; [reflexivity|]. lia.
Qed.

Theorem url_rejects m clen data sched :
  (m < length data)%nat -> read_urlencoded (Some m) clen data sched = UTooLarge.
Proof.
  intro Hlen. unfold read_urlencoded. destruct (gen_url_declared_too_large (Some m) clen); [reflexivity|].
  destruct (read_loop (S (S (length data))) (Z.of_nat m + 1) data sched []) as [[rem' b]|] eqn:E.
  - unfold gen_url_read_too_large. destruct (Z.leb rem' 0) eqn:Er; [reflexivity|].
    apply read_loop_spec in E; [|lia]. destruct E as [taken [Hb [Ht [Hr [_ [Hall _]]]]]].
    assert (Hp : (0 < rem')%Z) by lia. rewrite (Hall Hp) in Hr. lia.
  - (* fuel cannot run out *)
    exfalso. revert E. generalize (Z.of_nat m + 1)%Z as r. generalize (@nil N) as acc. generalize sched.
    assert (G : forall fuel d s a r, (length d < fuel)%nat -> read_loop fuel r d s a <> None).
    { induction fuel as [|f IH]; intros d s a r Hf; [lia|]. cbn [read_loop].
      destruct (Z.ltb 0 r); [|discriminate].
      destruct (firstn _ d) as [|x ch] eqn:Ech; [discriminate|]. rewrite <- Ech.
      apply IH. rewrite skipn_length.
      assert (Hl : (length (firstn (Nat.min (Z.to_nat r) (match s with k :: _ => if Nat.eqb k 0 then length d else k | [] => length d end)) d) >= 1)%nat)
        by (rewrite Ech; cbn [length]; lia).
      rewrite firstn_length in Hl. lia. }
    intros s a r. apply G. lia.
Qed.

Theorem url_pure_guard mm clen data sched body :
  read_urlencoded mm clen data sched = UOk body -> read_urlencoded None None data sched = UOk body.
Proof.
  destruct mm as [m|].
  - intro H. apply url_limit in H. destruct H as [-> _]. reflexivity.
  - unfold read_urlencoded. cbn. intro H; exact H.
Qed.

(* non-vacuity *)
Example url_example :
  read_urlencoded (Some 5%nat) None [97; 61; 98] [1%nat; 1%nat] = UOk [97; 61; 98]
  /\ read_urlencoded (Some 2%nat) None [97; 61; 98] [1%nat] = UTooLarge.
Proof. split; vm_compute; reflexivity. Qed.
