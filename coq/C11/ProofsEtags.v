(* C11 proofs.  Part 8: the entity-tag list grammar - parse_etags on a rendered list of (weak?, opaque) tags
   gives back exactly those tags, unquote_etag inverts the rendering of one tag, and what make_conditional
   answers for If-None-Match / If-Match built from such lists. *)
From Coq Require Import ZArith Lia ZifyBool ZifyN.
From Wz Require Import lib.Bytes lib.BytesFacts C11.Base C11.Gen C11.Model C11.ProofsRange C11.ProofsWrapper C11.ProofsCond
  C11.ProofsResp C11.ProofsRefute C11.ProofsParse C11.ProofsGrammar.
Open Scope N_scope.

Definition tag := (bool * str)%type.                    (* weak flag, opaque tag *)
(* etagc: no double quote, no white space, no controls (so no LF) *)
Definition etagc (c : N) : bool := negb (c =? DQ) && negb (uni_ws c) && (32 <? c).
Definition tag_ok (t : tag) : bool := forallb etagc (snd t).
Definition s_W : str := [87; 47].
Definition render_tag (t : tag) : str := (if fst t then s_W else []) ++ DQ :: snd t ++ [DQ].
Fixpoint render_tags (l : list tag) : str :=
  match l with
  | [] => []
  | t :: r => match r with [] => render_tag t | _ :: _ => render_tag t ++ COMMA :: SP :: render_tags r end
  end.
Definition tail_of (l : list tag) : str :=
  match l with [] => [] | _ :: _ => COMMA :: SP :: render_tags l end.
Definition strongs (l : list tag) : list str := map snd (filter (fun t => negb (fst t)) l).
Definition weaks (l : list tag) : list str := map snd (filter (fun t => fst t) l).

Lemma etagc_facts c : etagc c = true -> (c =? DQ) = false /\ uni_ws c = false /\ (c =? LF) = false.
Proof.
  unfold etagc. intro H. apply andb_prop in H. destruct H as [H H3]. apply andb_prop in H. destruct H as [H1 H2].
  apply negb_true_iff in H1. apply negb_true_iff in H2. repeat split; try assumption. unfold LF. lia.
Qed.

Lemma render_tags_head l : l <> [] ->
  exists c r, render_tags l = c :: r /\ uni_ws c = false.
Proof.
  destruct l as [|[w t] l']; [congruence|]. intros _. cbn [render_tags].
  destruct l'; unfold render_tag; cbn [fst snd]; destruct w; cbn [app s_W]; eexists; eexists; split; reflexivity.
Qed.

Lemma sep_after_tag l :
  sep_or_end (tail_of l) = Some (render_tags l).
Proof.
  destruct l as [|t l']; [reflexivity|]. unfold tail_of.
  destruct (render_tags_head (t :: l')) as (c & r & E & Hc); [discriminate|].
  unfold sep_or_end. cbn [drop_while]. change (uni_ws COMMA) with false. cbv iota.
  change (COMMA =? COMMA) with true. cbv iota. change (uni_ws SP) with true. cbv iota.
  rewrite E. cbn [drop_while]. rewrite Hc. reflexivity.
Qed.

Lemma find_close_tag q rest rest' :
  forallb etagc q = true -> sep_or_end rest = Some rest' ->
  find_close (q ++ DQ :: rest) = Some (q, rest').
Proof.
  intros Hq Hs. induction q as [|c q IH]; cbn [app find_close].
  - change (DQ =? DQ) with true. cbv iota. rewrite Hs. reflexivity.
  - cbn [forallb] in Hq. apply andb_prop in Hq. destruct Hq as [Hc Hq].
    destruct (etagc_facts _ Hc) as (-> & _ & _). rewrite (IH Hq). reflexivity.
Qed.

Lemma etag_match_tag w (t : str) l :
  forallb etagc t = true ->
  etag_match (render_tag (w, t) ++ tail_of l)
  = (TQuoted w t, render_tags l).
Proof.
  intro Ht. unfold etag_match, render_tag. cbn [fst snd].
  destruct w.
  - cbn [app s_W weak_prefix]. change ((87 =? 87) || (87 =? 119)) with true. change (47 =? SLASH) with true. cbn [andb skipn].
    change (DQ =? DQ) with true. cbv iota. rewrite <- app_assoc. cbn [app].
    match goal with |- context [find_close ?x] =>
      replace (find_close x) with (Some (t, render_tags l))
        by (symmetry; exact (find_close_tag t _ _ Ht (sep_after_tag l))) end.
    reflexivity.
  - assert (Hwp : forall X, weak_prefix (DQ :: X) = false) by (intros [|d X]; reflexivity).
    cbn [app]. rewrite Hwp. change (DQ =? DQ) with true. cbv iota. rewrite <- app_assoc. cbn [app].
    match goal with |- context [find_close ?x] =>
      replace (find_close x) with (Some (t, render_tags l))
        by (symmetry; exact (find_close_tag t _ _ Ht (sep_after_tag l))) end.
    reflexivity.
Qed.

Lemma render_tags_cons t l :
  render_tags (t :: l) = render_tag t ++ tail_of l.
Proof. unfold tail_of. cbn [render_tags]. destruct l; [rewrite app_nil_r|]; reflexivity. Qed.

Lemma render_tags_length t l : (length (render_tags l) < length (render_tags (t :: l)))%nat.
Proof.
  rewrite render_tags_cons. unfold tail_of. rewrite app_length. unfold render_tag. rewrite app_length. cbn [length].
  generalize (length (if fst t then s_W else [])). intro k.
  destruct l as [|t0 l0]; cbn [length render_tags]; [lia|].
  generalize (length (render_tags (t0 :: l0))). intro m. cbn [render_tags]. intros. lia.
Qed.

Lemma loop_step f s strong weak : s <> [] ->
  parse_etags_loop (S f) s strong weak =
  match etag_match s with
  | (TRaw w t, rest) =>
    if list_eqb t [STAR] then Ok (mk_etags [] [] true)
    else if w then parse_etags_loop f rest strong (t :: weak) else parse_etags_loop f rest (t :: strong) weak
  | (TQuoted w t, rest) =>
    if w then parse_etags_loop f rest strong (t :: weak) else parse_etags_loop f rest (t :: strong) weak
  end.
Proof. destruct s; [congruence|reflexivity]. Qed.

Lemma render_tags_nonempty t l : render_tags (t :: l) <> [].
Proof. rewrite render_tags_cons. unfold render_tag. destruct (fst t); discriminate. Qed.

Lemma parse_loop_tags : forall l fuel strong weak,
  forallb tag_ok l = true -> (length (render_tags l) < fuel)%nat ->
  parse_etags_loop fuel (render_tags l) strong weak
  = Ok (mk_etags (rev strong ++ strongs l) (rev weak ++ weaks l) false).
Proof.
  induction l as [|[w t] l IH]; intros fuel strong weak Hok Hf.
  - destruct fuel; cbn [render_tags parse_etags_loop strongs weaks filter map]; rewrite !app_nil_r; reflexivity.
  - cbn [forallb] in Hok. apply andb_prop in Hok. destruct Hok as [Ht Hl]. unfold tag_ok in Ht. cbn [snd] in Ht.
    destruct fuel as [|f]; [lia|].
    pose proof (render_tags_length (w, t) l) as Hlen.
    rewrite loop_step by apply render_tags_nonempty.
    rewrite render_tags_cons. rewrite (etag_match_tag w t l Ht).
    assert (Hf' : (length (render_tags l) < f)%nat) by lia.
    destruct w; rewrite (IH f _ _ Hl Hf'); unfold strongs, weaks; cbn [filter fst negb map snd rev];
      rewrite <- ?app_assoc; reflexivity.
Qed.

Lemma render_tag_no_lf t : tag_ok t = true -> mem LF (render_tag t) = false.
Proof.
  intro H. apply mem_false_forall. unfold render_tag. rewrite forallb_app.
  assert (H1 : forallb (fun c => negb (LF =? c)) (if fst t then s_W else []) = true) by (destruct (fst t); reflexivity).
  rewrite H1. cbn [forallb andb]. rewrite forallb_app.
  rewrite (forallb_impl etagc (fun c => negb (LF =? c)) (snd t)); [reflexivity| |exact H].
  intros c Hc. destruct (etagc_facts _ Hc) as (_ & _ & E). rewrite N.eqb_sym, E. reflexivity.
Qed.

Lemma render_tags_no_lf l : forallb tag_ok l = true -> mem LF (render_tags l) = false.
Proof.
  induction l as [|t l IH]; [reflexivity|]. cbn [forallb]. intro H. apply andb_prop in H. destruct H as [Ht Hl].
  rewrite render_tags_cons. unfold mem. rewrite existsb_app. fold (mem LF (render_tag t)).
  rewrite (render_tag_no_lf _ Ht). unfold tail_of. destruct l; [reflexivity|]. cbn [existsb orb].
  change (LF =? COMMA) with false. change (LF =? SP) with false. cbn [orb]. apply IH. exact Hl.
Qed.

(* the list grammar: a rendered list parses back to its tags, strong and weak in order, no star *)
Theorem parse_etags_render l :
  forallb tag_ok l = true ->
  parse_etags (Some (render_tags l)) = Ok (mk_etags (strongs l) (weaks l) false).
Proof.
  intro H. unfold parse_etags. rewrite (render_tags_no_lf _ H).
  rewrite (parse_loop_tags l _ [] [] H) by lia. reflexivity.
Qed.

Lemma parse_etags_star : parse_etags (Some [STAR]) = Ok (mk_etags [] [] true).
Proof. reflexivity. Qed.

(* unquote_etag inverts the rendering of one tag *)
Lemma unquote_render w (t : str) : forallb etagc t = true -> unquote_etag (Some (render_tag (w, t))) = (Some t, Some w).
Proof.
  intro Ht. unfold unquote_etag.
  assert (Hs : forall pre, match pre with [] => True | c :: _ => uni_ws c = false end ->
                 ustrip (pre ++ DQ :: t ++ [DQ]) = pre ++ DQ :: t ++ [DQ]).
  { intros pre Hp. destruct pre as [|c pre'].
    - cbn [app]. apply (strip_ends uni_ws DQ t DQ); reflexivity.
    - cbn [app]. replace (pre' ++ DQ :: t ++ [DQ]) with ((pre' ++ DQ :: t) ++ [DQ]) by (rewrite <- app_assoc; reflexivity).
      apply strip_ends; [exact Hp|reflexivity]. }
  unfold render_tag. cbn [fst snd].
  assert (Hlast : last_is DQ (DQ :: t ++ [DQ]) = true).
  { unfold last_is. cbn [rev]. rewrite rev_app_distr. cbn [rev app]. reflexivity. }
  destruct w.
  - rewrite (Hs s_W) by reflexivity. cbn [app s_W]. cbn [weak_prefix].
    change ((87 =? 87) || (87 =? 119)) with true. change (47 =? SLASH) with true. cbn [andb skipn].
    change (DQ =? DQ) with true. rewrite Hlast. cbn [andb]. rewrite removelast_app_one. reflexivity.
  - rewrite (Hs []) by exact I. cbn [app].
    replace (weak_prefix (DQ :: t ++ [DQ])) with false by (destruct (t ++ [DQ]); reflexivity).
    change (DQ =? DQ) with true. rewrite Hlast. cbn [andb]. rewrite removelast_app_one. reflexivity.
Qed.

(* ------------------------------------------------------------------ end to end *)
Definition inm_env (h : str) (ims : option str) : environ :=
  {| q_method := s_GET; q_range := None; q_if_range := None; q_if_modified_since := ims;
     q_if_none_match := Some h; q_if_match := None |}.
Definition im_env (h : str) (ims : option str) : environ :=
  {| q_method := s_GET; q_range := None; q_if_range := None; q_if_modified_since := ims;
     q_if_none_match := None; q_if_match := Some h |}.

Lemma tag_in_map cur (l : list tag) (f : tag -> bool) :
  tag_in (Some cur) (map snd (filter f l)) = existsb (fun t => f t && list_eqb cur (snd t)) l.
Proof.
  induction l as [|t l IH]; [reflexivity|]. cbn [filter existsb]. destruct (f t); cbn [map tag_in existsb andb].
  - cbn [tag_in] in IH. rewrite IH. reflexivity.
  - exact IH.
Qed.

Lemma truthy_tags l : l <> [] -> etags_truthy (mk_etags (strongs l) (weaks l) false) = true.
Proof.
  destruct l as [|[w t] l]; [congruence|]. intros _. unfold etags_truthy, mk_etags, strongs, weaks.
  cbn [e_star e_strong e_weak filter fst negb]. destruct w; cbn [negb map nonempty_l orb]; [apply orb_true_r|reflexivity].
Qed.

Lemma no_range_decide pd env st0 etag lm acc cl :
  q_range env = None -> q_if_range env = None -> cond_method env = true ->
  make_conditional pd env st0 etag lm acc cl = decide pd env st0 etag lm.
Proof.
  intros Hr Hi Hm. rewrite mc_unfold, Hm. rewrite prr_skipped; [reflexivity|].
  rewrite skipped_no_if_range by exact Hi. rewrite Hr. cbn [is_some]. rewrite andb_false_r. reflexivity.
Qed.

Lemma render_tag_truthy t : str_truthy (Some (render_tag t)) = true.
Proof. unfold render_tag. destruct (fst t); reflexivity. Qed.

(* If-None-Match: a list of entity tags, against a response with ETag (w, cur): 304 exactly when some listed tag
   has the same opaque tag, whatever the weakness flags - and whatever If-Modified-Since says *)
Theorem grammar_if_none_match pd l w (cur : str) ims lm st0 acc cl :
  forallb tag_ok l = true -> l <> [] -> forallb etagc cur = true ->
  make_conditional pd (inm_env (render_tags l) ims) st0 (Some (render_tag (w, cur))) lm acc cl =
  Ok (MCResp (if existsb (fun t : tag => list_eqb cur (snd t)) l then 304 else st0) None).
Proof.
  intros Hl Hne Hc. rewrite no_range_decide by reflexivity. unfold decide. rewrite irm_env_true.
  rewrite render_tag_truthy. cbn [q_if_none_match q_if_match inm_env].
  rewrite (parse_etags_render l Hl). cbn [bind parse_etags].
  change (etags_truthy (mk_etags [] [] false)) with false. cbv iota.
  rewrite (truthy_tags l Hne). unfold current_tag. rewrite (unquote_render w cur Hc). cbn [fst].
  unfold contains_weak, contains, is_weak, is_strong, mk_etags. cbn [e_star e_strong e_weak].
  unfold strongs, weaks. rewrite !tag_in_map.
  assert (E : existsb (fun t : tag => fst t && list_eqb cur (snd t)) l
              || existsb (fun t : tag => negb (fst t) && list_eqb cur (snd t)) l
              = existsb (fun t : tag => list_eqb cur (snd t)) l).
  { clear. induction l as [|[w t] l IH]; [reflexivity|]. cbn [existsb fst snd]. rewrite <- IH.
    destruct w, (list_eqb cur t); cbn [negb andb orb]; try reflexivity.
    - rewrite orb_true_r. reflexivity. }
  rewrite E. rewrite negb_involutive.
  destruct (existsb (fun t : tag => list_eqb cur (snd t)) l); reflexivity.
Qed.

(* If-Match: 412 exactly when no strong listed tag has the opaque tag of the response's ETag *)
Theorem grammar_if_match pd l w (cur : str) lm st0 acc cl :
  forallb tag_ok l = true -> l <> [] -> forallb etagc cur = true ->
  make_conditional pd (im_env (render_tags l) None) st0 (Some (render_tag (w, cur))) lm acc cl =
  Ok (MCResp (if existsb (fun t : tag => negb (fst t) && list_eqb cur (snd t)) l then st0 else 412) None).
Proof.
  intros Hl Hne Hc. rewrite no_range_decide by reflexivity. unfold decide. rewrite irm_env_true.
  rewrite render_tag_truthy. cbn [q_if_none_match q_if_match im_env].
  rewrite (parse_etags_render l Hl). cbn [bind parse_etags].
  change (etags_truthy (mk_etags [] [] false)) with false. cbv iota.
  rewrite (truthy_tags l Hne). unfold current_tag. rewrite (unquote_render w cur Hc). cbn [fst].
  unfold contains, is_strong, mk_etags. cbn [e_star e_strong]. unfold strongs. rewrite tag_in_map.
  destruct (existsb (fun t : tag => negb (fst t) && list_eqb cur (snd t)) l); cbn [negb bind]; reflexivity.
Qed.

(* the star forms *)
Theorem grammar_star pd w (cur : str) ims lm st0 acc cl :
  forallb etagc cur = true ->
  make_conditional pd (inm_env [STAR] ims) st0 (Some (render_tag (w, cur))) lm acc cl = Ok (MCResp 304 None)
  /\ make_conditional pd (im_env [STAR] None) st0 (Some (render_tag (w, cur))) lm acc cl = Ok (MCResp st0 None).
Proof.
  intro Hc. split; rewrite no_range_decide by reflexivity; unfold decide; rewrite irm_env_true;
    rewrite render_tag_truthy; cbn [q_if_none_match q_if_match inm_env im_env]; cbn [parse_etags mem existsb LF STAR N.eqb Pos.eqb orb length parse_etags_loop etag_match weak_prefix raw_tag sep_or_end snd fst list_eqb andb bind];
    unfold current_tag; rewrite (unquote_render w cur Hc); reflexivity.
Qed.
