From Coq Require Extraction ExtrOcamlBasic.
From Wz Require Import lib.Bytes lib.ExtractBase C11.Base C11.Gen C11.Model.
Extraction Language OCaml.
Extraction "C11/model_extracted.ml" force_types respond parse_etags parse_range_header unquote_etag
  range_for_length to_content_range_header is_byte_range_valid is_resource_modified range_wrapper plain_int dec_Z send_file_respond content_range_416 wsgi_header_kept.
