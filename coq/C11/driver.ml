(* one case per line, one canonical result per line; option str fields: "~" = None, "-" = "", else code points *)
let opt s = if s = "~" then None else Some (nlist_of_csv s)
let oz s = if s = "~" then None else Some (z_of_int (int_of_string s))
let show_oz = function None -> "~" | Some z -> string_of_int (int_of_z z)
let show_os = function None -> "~" | Some s -> csv_of_nlist s
let exn_name = function TypeError -> "TypeError" | AttributeError -> "AttributeError" | ValueError -> "ValueError"
  | Unsupported -> "unsupported" | OutOfFuel -> "fuel"
let res f = function Ok v -> f v | Raise e -> "exn:" ^ exn_name e
(* "k1=v1;k2=v2" : header text (code points) -> instant in microseconds; anything else does not parse *)
let date_table s : n list -> z option =
  let tbl = if s = "-" || s = "" then [] else
    List.map (fun kv -> match String.split_on_char '=' kv with
      | [k; v] -> (nlist_of_csv k, z_of_int (int_of_string v)) | _ -> failwith "date table") (String.split_on_char ';' s) in
  fun key -> List.assoc_opt key tbl
let accept_of s = if s = "F" then AFalse else if s = "T" then ATrue else AStr (nlist_of_csv (String.sub s 2 (String.length s - 2)))
let show_accept = function AFalse -> "F" | ATrue -> "T" | AStr s -> "S:" ^ csv_of_nlist s
let chunks_of s = if s = "" then [] else List.map nlist_of_hex (String.split_on_char '/' s)
let show_chunks l = String.concat "/" (List.map hex_of_nlist l)
(* "L:hex/hex" list of chunks ("L:" = no chunk) ; "F:bs:hex" seekable file *)
let body_of s =
  if String.length s >= 2 && String.sub s 0 2 = "L:" then BList (chunks_of (String.sub s 2 (String.length s - 2)))
  else match String.split_on_char ':' s with
    | ["F"; bs; d] -> BFile (nlist_of_hex d, nat_of_int (int_of_string bs))
    | ["W"; bs; hs; fs; hk; d] -> BWrap (nlist_of_hex d, nat_of_int (int_of_string bs), hs = "1", fs = "1", hk = "1")
    | _ -> failwith "body"
let env_of m r ir ims inm im =
  { q_method = nlist_of_csv m; q_range = opt r; q_if_range = opt ir; q_if_modified_since = opt ims;
    q_if_none_match = opt inm; q_if_match = opt im }
let show_tags l = String.concat ";" (List.map csv_of_nlist l)
let lm_of s = if s = "~" then None else if String.length s > 2 && String.sub s 0 2 = "D:"
  then Some (Inr (z_of_int (int_of_string (String.sub s 2 (String.length s - 2))))) else Some (Inl (nlist_of_csv s))
let () = iter_lines (fun line ->
  match fields line with
  | ["mc"; m; r; ir; ims; inm; im; etag; lm; acc; clen; st; pcl; pt; body; dates] ->
      let ri = { i_status = n_of_int (int_of_string st); i_etag = opt etag; i_last_modified = opt lm;
                 i_content_length = opt pcl; i_passthrough = (pt = "1"); i_body = body_of body } in
      res (function
        | W416 l -> "416 " ^ show_oz l ^ " cr=" ^ show_os (content_range_416 l)
        | WResp (s, cr, cl, ar, b) ->
            Printf.sprintf "%d cr=%s cl=%s ar=%s body=%s" (int_of_n s) (show_os cr) (show_os cl)
              (match ar with None -> "~" | Some a -> show_accept a) (show_chunks b))
        (respond (date_table dates) (env_of m r ir ims inm im) ri (accept_of acc) (oz clen))
  | ["sf"; m; r; ir; ims; inm; im; etag; lm; data; dates] ->
      res (function
        | W416 l -> "416 " ^ show_oz l ^ " cr=" ^ show_os (content_range_416 l)
        | WResp (s, cr, cl, ar, b) ->
            Printf.sprintf "%d cr=%s cl=%s ar=%s body=%s" (int_of_n s) (show_os cr) (show_os cl)
              (match ar with None -> "~" | Some a -> show_accept a) (show_chunks b))
        (send_file_respond (date_table dates) (env_of m r ir ims inm im) (opt etag) (opt lm) (nlist_of_hex data))
  | ["irm"; r; ir; ims; inm; im; etag; lm; ign; dates] ->
      res (fun b -> if b then "modified" else "unmodified")
        (is_resource_modified (date_table dates) (opt r) (opt ir) (opt ims) (opt inm) (opt im) (opt etag) (lm_of lm) (ign = "1"))
  | ["petags"; v] ->
      res (fun e -> Printf.sprintf "s=%s w=%s star=%b" (show_tags e.e_strong) (show_tags e.e_weak) e.e_star) (parse_etags (opt v))
  | ["unq"; v] ->
      (match unquote_etag (opt v) with (t, w) ->
        show_os t ^ " " ^ (match w with None -> "~" | Some b -> string_of_bool b))
  | ["prange"; v] ->
      res (function None -> "none" | Some r ->
          csv_of_nlist r.r_units ^ " " ^ String.concat ";" (List.map (fun (a, b) -> string_of_int (int_of_z a) ^ ":" ^ show_oz b) r.r_ranges))
        (parse_range_header (opt v))
  | ["rfl"; units; ranges; len] ->
      let rs = if ranges = "-" then [] else List.map (fun ab -> match String.split_on_char ':' ab with
          | [a; b] -> (z_of_int (int_of_string a), oz b) | _ -> failwith "ranges") (String.split_on_char ';' ranges) in
      let r = { r_units = nlist_of_csv units; r_ranges = rs } in
      res (function None -> "none" | Some (a, b) -> show_oz a ^ ":" ^ show_oz b) (range_for_length r (oz len))
      ^ " " ^ res show_os (to_content_range_header r (oz len))
  | ["wk"; st; name] -> if wsgi_header_kept (n_of_int (int_of_string st)) (nlist_of_csv name) then "1" else "0"
  | ["ibrv"; a; b; l] -> res string_of_bool (is_byte_range_valid (oz a) (oz b) (oz l))
  | ["rw"; body; start; len] ->
      res show_chunks (range_wrapper (body_of body) (nat_of_int (int_of_string start)) (nat_of_int (int_of_string len)))
  | ["pint"; v] -> (match plain_int (nlist_of_csv v) with None -> "none" | Some z -> string_of_int (int_of_z z))
  | ["dec"; v] -> csv_of_nlist (dec_Z (z_of_int (int_of_string v)))
  | _ -> "bad-command")
