(* C11 proofs.  Part 3: the validator decision (regenerated is_resource_modified) in closed form, and the
   304 / 412 / 206 / 416 / 200 theorems about make_conditional. *)
From Coq Require Import ZArith Lia ZifyBool ZifyN.
From Wz Require Import lib.Bytes lib.BytesFacts C11.Base C11.Gen C11.Model C11.ProofsRange C11.ProofsWrapper.
Open Scope N_scope.

Section Cond.
Variable pd : str -> option Z.

Definition lm_norm (lm : lmval) : option Z :=
  match lm with
  | None => None
  | Some (inl s) => option_map floor_second (pd s)
  | Some (inr z) => Some (floor_second z)
  end.
Definition date_match (ms l : option Z) : bool :=
  match ms, l with Some d, Some x => (x <=? d)%Z | _, _ => false end.

Definition irm_spec (http_range http_if_range ims inm_h im_h etag : option str) (lm : lmval) (ign : bool) : res bool :=
  let ifr := if negb ign && is_some http_range then Some (parse_if_range_header pd http_if_range) else None in
  let ms := match ifr with
            | Some i => match ifr_date i with Some d => Some d | None => parse_date_opt pd ims end
            | None => parse_date_opt pd ims
            end in
  let u0 := date_match ms (lm_norm lm) in
  if str_truthy etag then
    let t := fst (unquote_etag etag) in
    match ifr with
    | Some {| ifr_etag := Some e |} => Ok (negb (ostr_eqb (Some e) t))
    | _ =>
      inm <- parse_etags inm_h ;;
      let u1 := if etags_truthy inm then contains_weak inm t else u0 in
      im <- parse_etags im_h ;;
      let u2 := if etags_truthy im then negb (contains im t) else u1 in
      Ok (negb u2)
    end
  else Ok (negb u0).

Lemma irm_correct r ifr ims inm im etag lm ign :
  is_resource_modified pd r ifr ims inm im etag lm ign = irm_spec r ifr ims inm im etag lm ign.
Proof.
  unfold is_resource_modified, irm_spec.
  destruct lm as [[s|z]|]; cbn [lm_is_str bind lm_parse is_none not_ negb lm_floor lm_norm option_map].
  all: try destruct (pd s) as [zz|]; cbn [bind is_none not_ negb lm_floor option_map].
  all: destruct ign; cbn [negb andb and_ not_ bind is_none].
  all: try destruct r; cbn [negb andb and_ not_ bind is_none is_some ifr_date_ ifr_etag_].

  all: repeat match goal with
       | |- context [parse_if_range_header pd ?x] => destruct (parse_if_range_header pd x) as [[e|] [d|]]
       | |- context [parse_date_opt pd ?x] => destruct (parse_date_opt pd x)
       end; cbn [ifr_date ifr_etag is_none is_some negb bind lm_truthy dt_le date_match seq_].
  all: destruct (str_truthy etag); cbn [bind]; try (destruct (_ <=? _)%Z; reflexivity); try reflexivity.
  all: destruct (unquote_etag etag) as [t w]; cbn [fst bind ostr_eqb].
  all: try (destruct (_ <=? _)%Z; cbn [bind]); try reflexivity.
  all: destruct (parse_etags inm) as [i1|]; cbn [bind]; try reflexivity.
  all: destruct (etags_truthy i1); cbn [bind]; destruct (parse_etags im) as [i2|]; cbn [bind]; try reflexivity.
  all: destruct (etags_truthy i2); cbn [bind]; try reflexivity.
Qed.

(* ------------------------------------------------------------------ specification side *)
(* the weak comparison function of RFC 7232 2.3.2 against a parsed tag list: opaque tags equal, weakness ignored;
   "*" matches anything *)
Definition weak_match (e : etags) (t : option str) : bool :=
  e_star e || tag_in t (e_strong e) || tag_in t (e_weak e).
(* If-Match admits the current tag: "*" or a strong member with the same opaque tag *)
Definition admits (e : etags) (t : option str) : bool := e_star e || tag_in t (e_strong e).

Lemma contains_weak_is_weak_match e t : contains_weak e t = weak_match e t.
Proof.
  unfold contains_weak, weak_match, contains, is_weak, is_strong.
  destruct (e_star e), (tag_in t (e_weak e)), (tag_in t (e_strong e)); reflexivity.
Qed.
Lemma contains_is_admits e t : contains e t = admits e t.
Proof. unfold contains, admits, is_strong. destruct (e_star e); reflexivity. Qed.

(* the opaque tag of the response's ETag header *)
Definition current_tag (etag : option str) : option str := fst (unquote_etag etag).
(* Last-Modified is not later than If-Modified-Since, at one-second resolution *)
Definition date_matches (env : environ) (last_modified : option str) : bool :=
  date_match (parse_date_opt pd (q_if_modified_since env)) (lm_norm (lm_of_header last_modified)).

(* the validators the client sent match the current representation (the 304 condition):
   If-None-Match decides when the response has an ETag and the header lists something, otherwise the dates *)
Definition validators_match (env : environ) (etag last_modified : option str) : res bool :=
  if str_truthy etag then
    inm <- parse_etags (q_if_none_match env) ;;
    Ok (if etags_truthy inm then weak_match inm (current_tag etag) else date_matches env last_modified)
  else Ok (date_matches env last_modified).

Definition cond_method (env : environ) : bool := existsb (list_eqb (q_method env)) conditional_methods.

Lemma irm_env_true env etag lm :
  is_resource_modified_env pd env etag (lm_of_header lm) true =
  (if str_truthy etag then
     inm <- parse_etags (q_if_none_match env) ;;
     im <- parse_etags (q_if_match env) ;;
     Ok (negb (if etags_truthy im then negb (contains im (current_tag etag))
               else if etags_truthy inm then contains_weak inm (current_tag etag)
               else date_matches env lm))
   else Ok (negb (date_matches env lm))).
Proof.
  unfold is_resource_modified_env. rewrite irm_correct. unfold irm_spec. cbn [negb andb].
  destruct (str_truthy etag); [|reflexivity].
  destruct (parse_etags (q_if_none_match env)) as [inm|]; cbn [bind]; [|reflexivity].
  destruct (parse_etags (q_if_match env)) as [im|]; cbn [bind]; reflexivity.
Qed.

(* make_conditional when no range is served *)
Definition decide (env : environ) (st0 : N) (etag lm : option str) : res mc_outcome :=
  modified <- is_resource_modified_env pd env etag (lm_of_header lm) true ;;
  if negb modified then
    im <- parse_etags (q_if_match env) ;;
    if etags_truthy im then Ok (MCResp status_precondition_failed None)
    else Ok (MCResp status_not_modified None)
  else Ok (MCResp st0 None).

Lemma mc_unfold env st0 etag lm acc cl :
  make_conditional pd env st0 etag lm acc cl =
  if cond_method env then
    pr <- process_range_request pd env etag lm acc cl ;;
    match pr with
    | R416 l => Ok (MC416 l)
    | R206 a c h ar => Ok (MCResp status_partial_content (Some (a, c, h, ar)))
    | RSkip => decide env st0 etag lm
    end
  else Ok (MCResp st0 None).
Proof. reflexivity. Qed.

Lemma prr_skipped env etag lm acc cl :
  range_request_skipped pd env etag lm acc cl = Ok true ->
  process_range_request pd env etag lm acc cl = Ok RSkip.
Proof. intro H. unfold process_range_request. rewrite H. reflexivity. Qed.

(* _process_range_request never answers RSkip once the guard let the request through *)
Lemma prr_not_skipped env etag lm acc cl o :
  process_range_request pd env etag lm acc cl = Ok o ->
  (o = RSkip <-> range_request_skipped pd env etag lm acc cl = Ok true).
Proof.
  unfold process_range_request.
  destruct (range_request_skipped pd env etag lm acc cl) as [[|]|e]; cbn [bind]; intro H.
  - injection H as <-. split; reflexivity.
  - split; [|discriminate]. intros ->.
    destruct (parse_range_header (q_range env)) as [[r|]|]; cbn [bind] in H; try discriminate.
    destruct (range_for_length r cl) as [rt|]; cbn [bind] in H; [|discriminate].
    destruct (to_content_range_header r cl) as [h|]; cbn [bind] in H; [|discriminate].
    destruct rt as [[a b]|], h as [h|]; try discriminate.
    destruct (sub_ (Ok b) (Ok a)); discriminate.
  - discriminate.
Qed.

(* ------------------------------------------------------------------ 304 *)
Lemma decide_304 env st0 etag lm p :
  decide env st0 etag lm = Ok (MCResp 304 p) -> st0 <> 304 ->
  p = None /\ validators_match env etag lm = Ok true
  /\ exists im, parse_etags (q_if_match env) = Ok im /\ etags_truthy im = false.
Proof.
  unfold decide. rewrite irm_env_true. unfold validators_match. intros H Hst.
  destruct (str_truthy etag).
  - destruct (parse_etags (q_if_none_match env)) as [inm|]; cbn [bind] in *; [|discriminate].
    destruct (parse_etags (q_if_match env)) as [im|] eqn:Eim; cbn [bind] in *; [|discriminate].
    destruct (etags_truthy im) eqn:Tim.
    + destruct (negb (contains im (current_tag etag))); cbn [negb bind] in H.
      * discriminate.
      * injection H as H1 H2. congruence.
    + rewrite contains_weak_is_weak_match in H.
      destruct (if etags_truthy inm then weak_match inm (current_tag etag) else date_matches env lm);
        cbn [negb bind] in H.
      * injection H as <-. split; [reflexivity|]. split; [reflexivity|].
        exists im. split; [reflexivity|exact Tim].
      * injection H as H1 H2. congruence.
  - destruct (date_matches env lm); cbn [negb bind] in H.
    + destruct (parse_etags (q_if_match env)) as [im|] eqn:Eim; cbn [bind] in H; [|discriminate].
      destruct (etags_truthy im) eqn:Tim; [discriminate|]. injection H as <-.
      split; [reflexivity|]. split; [reflexivity|]. exists im. split; [reflexivity|exact Tim].
    + injection H as H1 H2. congruence.
Qed.

Lemma cond_304_sound env st0 etag lm acc cl p :
  make_conditional pd env st0 etag lm acc cl = Ok (MCResp 304 p) -> st0 <> 304 ->
  cond_method env = true /\ p = None /\ validators_match env etag lm = Ok true
  /\ exists im, parse_etags (q_if_match env) = Ok im /\ etags_truthy im = false.
Proof.
  rewrite mc_unfold. intros H Hst. destruct (cond_method env).
  2:{ injection H as H1 H2. congruence. }
  split; [reflexivity|].
  destruct (process_range_request pd env etag lm acc cl) as [[|l|a c h ar]|]; cbn [bind] in H; try discriminate.
  eapply decide_304; eassumption.
Qed.

Lemma decide_304_complete env st0 etag lm im :
  parse_etags (q_if_match env) = Ok im -> etags_truthy im = false ->
  validators_match env etag lm = Ok true ->
  decide env st0 etag lm = Ok (MCResp 304 None).
Proof.
  unfold decide, validators_match. rewrite irm_env_true. intros Eim Tim H.
  destruct (str_truthy etag).
  - destruct (parse_etags (q_if_none_match env)) as [inm|]; cbn [bind] in *; [|discriminate].
    rewrite Eim. cbn [bind]. rewrite Tim. rewrite contains_weak_is_weak_match. injection H as ->.
    cbn [negb bind]. reflexivity.
  - injection H as ->. cbn [negb bind]. rewrite Eim. cbn [bind]. rewrite Tim. reflexivity.
Qed.

Lemma cond_304_complete_partial env st0 etag lm acc cl im :
  cond_method env = true ->
  range_request_skipped pd env etag lm acc cl = Ok true ->           (* no range is served *)
  parse_etags (q_if_match env) = Ok im -> etags_truthy im = false -> (* no If-Match *)
  validators_match env etag lm = Ok true ->
  make_conditional pd env st0 etag lm acc cl = Ok (MCResp 304 None).
Proof.
  intros Hm Hs Eim Tim Hv. rewrite mc_unfold, Hm, (prr_skipped _ _ _ _ _ Hs). cbn [bind].
  apply decide_304_complete with im; assumption.
Qed.

(* ------------------------------------------------------------------ 412 *)
Lemma cond_412_only_if env st0 etag lm acc cl p :
  make_conditional pd env st0 etag lm acc cl = Ok (MCResp 412 p) -> st0 <> 412 ->
  cond_method env = true /\ p = None /\
  exists im, parse_etags (q_if_match env) = Ok im /\ etags_truthy im = true /\
             (str_truthy etag = true -> admits im (current_tag etag) = false).
Proof.
  rewrite mc_unfold. intros H Hst. destruct (cond_method env).
  2:{ injection H as H1 H2. congruence. }
  split; [reflexivity|].
  destruct (process_range_request pd env etag lm acc cl) as [[|l|a c h ar]|]; cbn [bind] in H; try discriminate.
  unfold decide in H. rewrite irm_env_true in H.
  destruct (str_truthy etag).
  - destruct (parse_etags (q_if_none_match env)) as [inm|]; cbn [bind] in *; [|discriminate].
    destruct (parse_etags (q_if_match env)) as [im|] eqn:Eim; cbn [bind] in *; [|discriminate].
    destruct (etags_truthy im) eqn:Tim.
    + destruct (contains im (current_tag etag)) eqn:Ec; cbn [negb bind] in H.
      * injection H as H1 H2. congruence.
      * injection H as <-. split; [reflexivity|]. exists im.
        split; [reflexivity|]. split; [exact Tim|]. intros _. rewrite <- contains_is_admits. exact Ec.
    + destruct (if etags_truthy inm then contains_weak inm (current_tag etag) else date_matches env lm);
        cbn [negb bind] in H.
      * discriminate.
      * injection H as H1 H2. congruence.
  - destruct (date_matches env lm); cbn [negb bind] in H.
    + destruct (parse_etags (q_if_match env)) as [im|] eqn:Eim; cbn [bind] in H; [|discriminate].
      destruct (etags_truthy im) eqn:Tim; [|discriminate]. injection H as <-.
      split; [reflexivity|]. exists im. split; [reflexivity|]. split; [exact Tim|]. discriminate.
    + injection H as H1 H2. congruence.
Qed.
End Cond.
