(* C11 proofs.  Part 1: the regenerated decision functions is_byte_range_valid and
   range_for_length against closed-form specifications. *)
From Coq Require Import ZArith Lia ZifyBool ZifyN.
From Wz Require Import lib.Bytes lib.BytesFacts C11.Base C11.Gen C11.Model.
Open Scope N_scope.
Ltac Zify.zify_post_hook ::= Z.to_euclidean_division_equations.

(* ------------------------------------------------------------------ pins *)
Lemma patterns_pinned :
  list_eqb etag_re_text
    [40; 91; 87; 119; 93; 47; 41; 63; 40; 63; 58; 34; 40; 46; 42; 63; 41; 34; 124; 40; 46; 42; 63; 41; 41; 40; 63; 58;
     92; 115; 42; 44; 92; 115; 42; 124; 36; 41]
  && list_eqb etag_re_text_sansio etag_re_text && (etag_re_flags =? 0)
  && list_eqb plain_int_re_text [45; 63; 92; 100; 43] && (plain_int_re_flags =? 256)
  && match non_ascii_lowering_into_bytes with [] => true | _ => false end = true.
Proof. vm_compute. reflexivity. Qed.

(* the interpreter's white space table (str.isspace = Unicode \s) is the one lib.Bytes.uni_ws implements:
   both are finite unions of ranges below 12289, compared on every code point up to there, and
   nothing above is in either *)
Lemma ws_table_matches :
  forallb (fun c => Bool.eqb (uni_ws c) (in_ranges c interp_ws)) (nat_range 12300) = true
  /\ forallb (fun r => snd r <? 12300) interp_ws = true.
Proof. split; vm_compute; reflexivity. Qed.

Lemma uni_ws_bound c : uni_ws c = true -> c < 12300.
Proof. unfold uni_ws. lia. Qed.

Lemma ws_table c : uni_ws c = in_ranges c interp_ws.
Proof.
  destruct ws_table_matches as [H1 H2].
  destruct (N.ltb_spec c 12300) as [Hlt|Hge].
  - pose proof (sweep _ 12300 H1 c) as Hs. cbv beta in Hs.
    apply Bool.eqb_prop. apply Hs. exact Hlt.
  - destruct (uni_ws c) eqn:E1.
    + apply uni_ws_bound in E1. lia.
    + destruct (in_ranges c interp_ws) eqn:E2; [|reflexivity].
      pose proof (in_ranges_bound _ _ _ H2 E2). lia.
Qed.

Lemma methods_pinned :
  conditional_methods = [[71; 69; 84]; [72; 69; 65; 68]]
  /\ status_partial_content = 206 /\ status_not_modified = 304 /\ status_precondition_failed = 412.
Proof. repeat split; reflexivity. Qed.

(* ------------------------------------------------------------------ is_byte_range_valid *)
Definition ibrv_spec (start stop length : pint) : bool :=
  match start, stop, length with
  | None, None, None => true
  | None, None, Some l => (0 <=? l)%Z
  | Some a, Some b, None => ((0 <=? a) && (a <? b))%Z
  | Some a, Some b, Some l => ((a <? b) && (0 <=? a) && (a <? l))%Z
  | _, _, _ => false
  end.

Lemma ibrv_correct start stop length :
  is_byte_range_valid start stop length = Ok (ibrv_spec start stop length).
Proof.
  destruct start as [a|], stop as [b|], length as [l|]; cbv -[Z.ltb Z.leb Z.geb Z.gtb andb];
    repeat match goal with |- context [if ?c then _ else _] => destruct c eqn:? end;
    try reflexivity; try (f_equal; lia).
Qed.

(* ------------------------------------------------------------------ range_for_length *)
Definition rfl_spec (self : range) (length : pint) : option (pint * pint) :=
  if negb (list_eqb (r_units self) s_bytes) then None
  else match length, r_ranges self with
       | Some L, [(b, en)] =>
         let '(s, e) := match en with
                        | Some e0 => (b, e0)
                        | None => ((if b <? 0 then b + L else b), L)
                        end%Z in
         if ((s <? e) && (0 <=? s) && (s <? L))%Z then Some (Some s, Some (Z.min e L)) else None
       | _, _ => None
       end.

Lemma rfl_correct self length : range_for_length self length = Ok (rfl_spec self length).
Proof.
  unfold range_for_length, rfl_spec.
  destruct (list_eqb (r_units self) s_bytes); cbn [negb or_ bind]; [|reflexivity].
  destruct length as [L|]; cbn [is_none or_ bind]; [|reflexivity].
  unfold ranges_first.
  destruct (r_ranges self) as [|[b en] rest]; [reflexivity|].
  destruct rest as [|x rest'].
  2:{ cbn [List.length]. unfold ne_, bind, pint_eqb.
      replace (Z.of_nat (S (S (List.length rest'))) =? 1)%Z with false by lia. reflexivity. }
  cbn [List.length ne_ bind pint_eqb Z.of_nat Pos.of_succ_nat Z.eqb Pos.eqb negb].
  destruct en as [e0|]; cbn [is_none bind].
  - rewrite ibrv_correct. cbn [bind ibrv_spec].
    destruct ((b <? e0) && (0 <=? b) && (b <? L))%Z; reflexivity.
  - unfold lt_, cmp2, bind.
    destruct (b <? 0)%Z eqn:Hb; cbn [add_ arith2 bind]; rewrite ibrv_correct; cbn [bind ibrv_spec];
      match goal with |- context [if ?c then _ else _] => destruct c end; reflexivity.
Qed.

(* what one parsed range (begin, end) asks for on a resource of L bytes: the half-open interval *)
Definition asked (b : Z) (en : option Z) (L : Z) : Z * option Z :=
  match en with
  | Some e0 => (b, Some e0)
  | None => if (b <? 0)%Z then ((L + b)%Z, Some L) else (b, None)
  end.

Lemma rfl_sound self length s e :
  range_for_length self length = Ok (Some (s, e)) ->
  list_eqb (r_units self) s_bytes = true /\
  exists L b en s' e', length = Some L /\ r_ranges self = [(b, en)] /\ s = Some s' /\ e = Some e' /\
    (0 <= s' < e')%Z /\ (e' <= L)%Z /\
    s' = fst (asked b en L) /\
    e' = match snd (asked b en L) with Some hi => Z.min hi L | None => L end.
Proof.
  rewrite rfl_correct. unfold rfl_spec. intro H. injection H as H.
  destruct (list_eqb (r_units self) s_bytes); cbn [negb] in H; [|discriminate].
  split; [reflexivity|].
  destruct length as [L|]; [|discriminate].
  destruct (r_ranges self) as [|[b en] [|x rest]]; try discriminate.
  exists L, b, en.
  destruct en as [e0|]; cbn [asked fst snd].
  - destruct ((b <? e0) && (0 <=? b) && (b <? L))%Z eqn:Hc; [|discriminate].
    injection H as <- <-. exists b, (Z.min e0 L). repeat split; try reflexivity; lia.
  - destruct (b <? 0)%Z eqn:Hb; cbn [fst snd];
      match type of H with (if ?c then _ else _) = _ => destruct c eqn:Hc end; try discriminate;
      injection H as <- <-.
    + exists (b + L)%Z, (Z.min L L). repeat split; try reflexivity; lia.
    + exists b, (Z.min L L). repeat split; try reflexivity; lia.
Qed.

(* range_for_length answers None exactly for other units, unknown length, multi-range and unsatisfiable ranges *)
Lemma rfl_none self length :
  range_for_length self length = Ok None <->
  (list_eqb (r_units self) s_bytes = false \/ length = None \/ List.length (r_ranges self) <> 1%nat \/
   exists L b en, length = Some L /\ r_ranges self = [(b, en)] /\
     let s := fst (asked b en L) in
     ~ (0 <= s < L /\ match snd (asked b en L) with Some hi => s < hi | None => True end)%Z).
Proof.
  rewrite rfl_correct. unfold rfl_spec. split.
  - intro H. injection H as H.
    destruct (list_eqb (r_units self) s_bytes); cbn [negb] in H; [|left; reflexivity]. right.
    destruct length as [L|]; [|left; reflexivity]. right.
    destruct (r_ranges self) as [|[b en] [|x rest]]; [left; cbn; lia| |left; cbn; lia]. right.
    exists L, b, en. split; [reflexivity|]. split; [reflexivity|].
    destruct en as [e0|]; cbn [asked fst snd] in *.
    + destruct ((b <? e0) && (0 <=? b) && (b <? L))%Z eqn:Hc; [discriminate|]. lia.
    + destruct (b <? 0)%Z eqn:Hb; cbn [fst snd];
        match type of H with (if ?c then _ else _) = _ => destruct c eqn:Hc end; try discriminate; lia.
  - intros [H|[H|[H|H]]].
    + rewrite H. reflexivity.
    + subst. destruct (negb _); reflexivity.
    + destruct (negb _); [reflexivity|]. destruct length; [|reflexivity].
      destruct (r_ranges self) as [|[b en] [|x rest]]; try reflexivity. cbn in H. lia.
    + destruct H as (L & b & en & -> & -> & Hn). destruct (negb _); [reflexivity|].
      destruct en as [e0|]; cbn [asked fst snd] in Hn.
      * destruct ((b <? e0) && (0 <=? b) && (b <? L))%Z eqn:Hc; [|reflexivity]. exfalso. apply Hn. lia.
      * destruct (b <? 0)%Z eqn:Hb; cbn [fst snd] in Hn;
          match goal with |- context [if ?c then _ else _] => destruct c eqn:Hc end; try reflexivity;
          exfalso; apply Hn; lia.
Qed.

Lemma rfl_total self length : exists r, range_for_length self length = Ok r.
Proof. eexists. apply rfl_correct. Qed.

Lemma ibrv_full start stop length :
  is_byte_range_valid start stop length = Ok (ibrv_spec start stop length)
  /\ forall a b l, start = Some a -> stop = Some b -> length = Some l ->
       (ibrv_spec start stop length = true <-> (0 <= a < b /\ a < l)%Z).
Proof.
  split; [apply ibrv_correct|]. intros a b l -> -> ->. cbn [ibrv_spec]. lia.
Qed.

Lemma source_pins :
  conditional_methods = [[71; 69; 84]; [72; 69; 65; 68]]
  /\ status_partial_content = 206 /\ status_not_modified = 304 /\ status_precondition_failed = 412
  /\ list_eqb etag_re_text_sansio etag_re_text = true /\ etag_re_flags = 0
  /\ plain_int_re_text = [45; 63; 92; 100; 43] /\ plain_int_re_flags = 256
  /\ non_ascii_lowering_into_bytes = []
  /\ forall c, uni_ws c = in_ranges c interp_ws.
Proof.
  repeat split; try reflexivity. exact ws_table.
Qed.
