(* C11 proofs.  Part 4: _process_range_request / make_conditional outcomes (206, 416, no range) and the
   response as a whole: headers and body bytes of a 206 agree. *)
From Coq Require Import ZArith Lia ZifyBool ZifyN.
From Wz Require Import lib.Bytes lib.BytesFacts C11.Base C11.Gen C11.Model C11.ProofsRange C11.ProofsWrapper C11.ProofsCond.
Open Scope N_scope.

Lemma list_eqb_eq a : forall b, list_eqb a b = true -> a = b.
Proof.
  induction a as [|x a IH]; intros [|y b] H; cbn [list_eqb] in H; try discriminate; [reflexivity|].
  apply andb_prop in H. destruct H as [H1 H2]. apply N.eqb_eq in H1. subst. f_equal. apply IH. exact H2.
Qed.
Lemma list_eqb_refl a : list_eqb a a = true.
Proof. induction a as [|x a IH]; cbn [list_eqb]; [reflexivity|]. rewrite N.eqb_refl, IH. reflexivity. Qed.

Lemma rfl_spec_shape r cl a b :
  rfl_spec r cl = Some (a, b) ->
  exists L s e, cl = Some L /\ a = Some s /\ b = Some e /\ (0 <= s < e)%Z /\ (e <= L)%Z /\ r_units r = s_bytes.
Proof.
  intro H. assert (H' : range_for_length r cl = Ok (Some (a, b))) by (rewrite rfl_correct, H; reflexivity).
  apply rfl_sound in H'. destruct H' as (Hu & L & b0 & en & s & e & -> & _ & -> & -> & Hb & He & _).
  exists L, s, e. repeat split; try lia. apply list_eqb_eq. exact Hu.
Qed.

(* the Content-Range text of a served range *)
Definition content_range_text (s e L : Z) : str :=
  s_bytes ++ SP :: dec_Z s ++ DASH :: dec_Z (e - 1) ++ SLASH :: dec_Z L.

Section Resp.
Variable pd : str -> option Z.

Definition accept_value (acc : accept) : accept := match acc with ATrue => AStr s_bytes | x => x end.

Lemma prr_cases env etag lm acc cl o :
  process_range_request pd env etag lm acc cl = Ok o ->
  match o with
  | RSkip => range_request_skipped pd env etag lm acc cl = Ok true
  | R416 l =>
    range_request_skipped pd env etag lm acc cl = Ok false /\ l = cl /\
    exists pr, parse_range_header (q_range env) = Ok pr /\
               (pr = None \/ exists r, pr = Some r /\ range_for_length r cl = Ok None)
  | R206 a c h ar =>
    range_request_skipped pd env etag lm acc cl = Ok false /\
    exists r L s e, parse_range_header (q_range env) = Ok (Some r) /\ cl = Some L /\
      range_for_length r (Some L) = Ok (Some (Some s, Some e)) /\
      a = Some s /\ c = Some (e - s)%Z /\ h = content_range_text s e L /\ ar = accept_value acc
  end.
Proof.
  unfold process_range_request.
  destruct (range_request_skipped pd env etag lm acc cl) as [[|]|ex]; cbn [bind]; intro H; try discriminate.
  { injection H as <-. reflexivity. }
  destruct (parse_range_header (q_range env)) as [[r|]|ex]; cbn [bind] in H; try discriminate.
  2:{ injection H as <-. split; [reflexivity|]. split; [reflexivity|]. exists None. split; [reflexivity|]. left. reflexivity. }
  unfold to_content_range_header in H. rewrite rfl_correct in H. cbn [bind] in H.
  destruct (rfl_spec r cl) as [[a b]|] eqn:E.
  - destruct (rfl_spec_shape _ _ _ _ E) as (L & s & e & -> & -> & -> & Hb & He & Hu).
    cbn [sub_ arith2 bind fmt_pint] in H. injection H as <-.
    split; [reflexivity|]. exists r, L, s, e.
    split; [reflexivity|]. split; [reflexivity|]. split; [rewrite rfl_correct, E; reflexivity|].
    split; [reflexivity|]. split; [reflexivity|]. split; [|reflexivity].
    unfold content_range_text. rewrite Hu. reflexivity.
  - cbn [bind] in H. injection H as <-. split; [reflexivity|]. split; [reflexivity|].
    exists (Some r). split; [reflexivity|]. right. exists r. split; [reflexivity|]. rewrite rfl_correct, E. reflexivity.
Qed.

Lemma prr_416_conv env etag lm acc cl pr :
  range_request_skipped pd env etag lm acc cl = Ok false ->
  parse_range_header (q_range env) = Ok pr ->
  (pr = None \/ exists r, pr = Some r /\ range_for_length r cl = Ok None) ->
  process_range_request pd env etag lm acc cl = Ok (R416 cl).
Proof.
  intros Hs Hp Hc. unfold process_range_request. rewrite Hs, Hp. cbn [bind].
  destruct Hc as [->|(r & -> & Hr)]; [reflexivity|].
  unfold to_content_range_header. rewrite Hr. reflexivity.
Qed.

(* ---- 416: exactly when range processing applies and the header is unparsable, or not one satisfiable bytes range *)
Lemma cond_416 env st0 etag lm acc cl l :
  make_conditional pd env st0 etag lm acc cl = Ok (MC416 l) <->
  (cond_method env = true /\ range_request_skipped pd env etag lm acc cl = Ok false /\ l = cl /\
   exists pr, parse_range_header (q_range env) = Ok pr /\
              (pr = None \/ exists r, pr = Some r /\ range_for_length r cl = Ok None)).
Proof.
  rewrite mc_unfold. split.
  - intro H. destruct (cond_method env); [|discriminate]. split; [reflexivity|].
    destruct (process_range_request pd env etag lm acc cl) as [o|] eqn:E; cbn [bind] in H; [|discriminate].
    pose proof (prr_cases _ _ _ _ _ _ E) as Hc. destruct o as [|l'|a c h ar].
    + unfold decide in H. destruct (is_resource_modified_env pd env etag (lm_of_header lm) true) as [m|]; cbn [bind] in H;
        [|discriminate]. destruct (negb m); [|discriminate].
      destruct (parse_etags (q_if_match env)) as [im|]; cbn [bind] in H; [|discriminate].
      destruct (etags_truthy im); discriminate.
    + injection H as <-. exact Hc.
    + discriminate.
  - intros (Hm & Hs & -> & pr & Hp & Hc). rewrite Hm. rewrite (prr_416_conv _ _ _ _ _ _ Hs Hp Hc). reflexivity.
Qed.

(* ---- 206: the headers *)
Lemma cond_206 env st0 etag lm acc cl st a c h ar :
  make_conditional pd env st0 etag lm acc cl = Ok (MCResp st (Some (a, c, h, ar))) ->
  st = 206 /\ cond_method env = true /\ range_request_skipped pd env etag lm acc cl = Ok false /\
  exists r L s e, parse_range_header (q_range env) = Ok (Some r) /\ cl = Some L /\
    range_for_length r (Some L) = Ok (Some (Some s, Some e)) /\
    a = Some s /\ c = Some (e - s)%Z /\ h = content_range_text s e L /\ ar = accept_value acc.
Proof.
  rewrite mc_unfold. intro H. destruct (cond_method env); [|discriminate].
  destruct (process_range_request pd env etag lm acc cl) as [o|] eqn:E; cbn [bind] in H; [|discriminate].
  pose proof (prr_cases _ _ _ _ _ _ E) as Hc. destruct o as [|l'|a' c' h' ar'].
  - unfold decide in H. destruct (is_resource_modified_env pd env etag (lm_of_header lm) true) as [m|]; cbn [bind] in H;
      [|discriminate]. destruct (negb m); [|discriminate].
    destruct (parse_etags (q_if_match env)) as [im|]; cbn [bind] in H; [|discriminate].
    destruct (etags_truthy im); discriminate.
  - discriminate.
  - injection H as <- <- <- <- <-. split; [reflexivity|]. split; [reflexivity|]. exact Hc.
Qed.

(* ---- no range: other methods, no Range header, accept_ranges off, unknown or zero length, failed If-Range *)
Lemma cond_200 env st0 etag lm acc cl o :
  (cond_method env = false \/ range_request_skipped pd env etag lm acc cl = Ok true) ->
  make_conditional pd env st0 etag lm acc cl = Ok o ->
  exists st, o = MCResp st None /\ (st = st0 \/ st = 304 \/ st = 412) /\ (cond_method env = false -> st = st0).
Proof.
  rewrite mc_unfold. intros Hc H. destruct (cond_method env) eqn:Hm.
  - destruct Hc as [Hc|Hc]; [discriminate|]. rewrite (prr_skipped _ _ _ _ _ _ Hc) in H. cbn [bind] in H.
    unfold decide in H. destruct (is_resource_modified_env pd env etag (lm_of_header lm) true) as [m|]; cbn [bind] in H;
      [|discriminate]. destruct (negb m).
    + destruct (parse_etags (q_if_match env)) as [im|]; cbn [bind] in H; [|discriminate].
      destruct (etags_truthy im); injection H as <-; eexists; (split; [reflexivity|]); (split; [|discriminate]); auto.
    + injection H as <-. eexists. split; [reflexivity|]. split; [|discriminate]. auto.
  - injection H as <-. eexists. split; [reflexivity|]. auto.
Qed.

(* ------------------------------------------------------------------ the whole response *)
Lemma no_body_206 : no_body_status 206 = false.
Proof. reflexivity. Qed.

Theorem respond_206 env r acc body st h cl ar out :
  concat (full_body (i_body r)) = body ->
  respond pd env r acc (Some (Z.of_nat (length body))) = Ok (WResp st (Some h) cl ar out) ->
  exists s e : Z,
    st = 206 /\ (0 <= s < e)%Z /\ (e <= Z.of_nat (length body))%Z /\
    h = content_range_text s e (Z.of_nat (length body)) /\
    cl = Some (dec_Z (e - s)) /\ ar = Some (accept_value acc) /\
    (if list_eqb (q_method env) s_HEAD then out = []
     else concat out = firstn (Z.to_nat (e - s)) (skipn (Z.to_nat s) body) /\ Forall (fun c => c <> []) out) /\
    exists rg b en, parse_range_header (q_range env) = Ok (Some rg) /\ r_ranges rg = [(b, en)] /\
      r_units rg = s_bytes /\
      s = fst (asked b en (Z.of_nat (length body))) /\
      e = match snd (asked b en (Z.of_nat (length body))) with
          | Some hi => Z.min hi (Z.of_nat (length body)) | None => Z.of_nat (length body) end.
Proof.
  intros Hbody H. unfold respond in H.
  destruct (make_conditional pd env (i_status r) (i_etag r) (i_last_modified r) acc (Some (Z.of_nat (length body))))
    as [[l|st' [[[[a c] h'] ar']|]]|] eqn:E; cbn [bind] in H; try discriminate.
  apply cond_206 in E. destruct E as (-> & Hm & Hs & rg & L & s & e & Hp & HL & Hr & -> & -> & -> & ->).
  injection HL as <-.
  pose proof (rfl_sound _ _ _ _ Hr) as (Hu & L' & b & en & s' & e' & HL' & Hrs & Hs' & He' & Hb & Hle & Has & Hae).
  injection HL' as <-. injection Hs' as <-. injection He' as <-.
  unfold to_nat_ in H.
  destruct (s <? 0)%Z eqn:Hs0; [lia|]. cbn [bind] in H.
  destruct (e - s <? 0)%Z eqn:He0; [lia|]. cbn [bind] in H.
  exists s, e. rewrite no_body_206 in H. rewrite orb_false_r in H.
  destruct (list_eqb (q_method env) s_HEAD) eqn:Hh; cbn [bind] in H.
  - injection H as <- <- <- <- <-. repeat split; try lia; try reflexivity.
    exists rg, b, en. repeat split; try assumption. apply list_eqb_eq. exact Hu.
  - assert (H1 : (Z.to_nat s + Z.to_nat (e - s) <= length (concat (full_body (i_body r))))%nat) by (rewrite Hbody; lia).
    assert (H2 : (0 < Z.to_nat (e - s))%nat) by lia.
    destruct (range_wrapper_slice (i_body r) (Z.to_nat s) (Z.to_nat (e - s)) H1 H2) as (out' & Ho & Hc & Hall).
    rewrite Ho in H. cbn [bind] in H. injection H as <- <- <- <- <-.
    repeat split; try lia; try reflexivity; try assumption.
    + rewrite Hc, Hbody. reflexivity.
    + exists rg, b, en. repeat split; try assumption. apply list_eqb_eq. exact Hu.
Qed.

(* an answer without Content-Range carries the complete body (unless the status or HEAD forbids a body) *)
Theorem respond_200 env r acc cl st clh ar out :
  respond pd env r acc cl = Ok (WResp st None clh ar out) ->
  ar = None /\ (st = i_status r \/ st = 304 \/ st = 412) /\
  out = (if list_eqb (q_method env) s_HEAD || no_body_status st then [] else full_body (i_body r)).
Proof.
  unfold respond. intro H.
  destruct (make_conditional pd env (i_status r) (i_etag r) (i_last_modified r) acc cl)
    as [[l|st' [[[[a c] h'] ar']|]]|] eqn:E; cbn [bind] in H; try discriminate.
  - destruct (to_nat_ a); cbn [bind] in H; [|discriminate]. destruct (to_nat_ c); cbn [bind] in H; [|discriminate].
    match type of H with context [bind ?m _] => destruct m end; cbn [bind] in H; discriminate.
  - injection H as <- _ <- <-. split; [reflexivity|]. split; [|reflexivity].
    rewrite mc_unfold in E. destruct (cond_method env) eqn:Hm.
    + destruct (process_range_request pd env (i_etag r) (i_last_modified r) acc cl) as [[|l|a c h ar]|] eqn:Ep;
        cbn [bind] in E; try discriminate.
      pose proof (prr_cases _ _ _ _ _ _ Ep) as Hc. cbn in Hc.
      destruct (cond_200 env (i_status r) (i_etag r) (i_last_modified r) acc cl (MCResp st' None)) as (st2 & Hst & Hor & _).
      * right. exact Hc.
      * rewrite mc_unfold, Hm, Ep. exact E.
      * injection Hst as ->. exact Hor.
    + injection E as <-. left. reflexivity.
Qed.
End Resp.
