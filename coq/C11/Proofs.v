(* C11 proofs: the parts, re-exported for C11/Props.v *)
From Wz Require Export C11.ProofsRange C11.ProofsWrapper C11.ProofsCond C11.ProofsResp C11.ProofsRefute C11.ProofsParse
  C11.ProofsGrammar C11.ProofsEtags C11.ProofsMore.
