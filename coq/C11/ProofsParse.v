(* C11 proofs.  Part 6: the header parsers are total - parse_etags never runs out of fuel on text without LF,
   parse_range_header never raises (Range.__init__ accepts whatever the loop built). *)
From Coq Require Import ZArith Lia ZifyBool ZifyN.
From Wz Require Import lib.Bytes lib.BytesFacts C11.GenArith C11.Base C11.Gen C11.Model.
Open Scope N_scope.

(* ------------------------------------------------------------------ parse_etags: progress *)
Lemma drop_while_length p (s : str) : (length (drop_while p s) <= length s)%nat.
Proof. induction s as [|c r IH]; cbn [drop_while]; [lia|]. destruct (p c); cbn [length]; lia. Qed.

Lemma sep_or_end_shorter s r :
  sep_or_end s = Some r -> (length r <= length s)%nat /\ (s <> [] -> (length r < length s)%nat).
Proof.
  unfold sep_or_end. destruct s as [|c0 s0]; [intro H; injection H as <-; split; [lia|congruence]|].
  pose proof (drop_while_length uni_ws (c0 :: s0)) as H1.
  destruct (drop_while uni_ws (c0 :: s0)) as [|c r']; [discriminate|].
  destruct (c =? COMMA); [|discriminate]. intro H. injection H as <-.
  pose proof (drop_while_length uni_ws r') as H2. cbn [length] in *. split; [lia|]. intros _. lia.
Qed.

Lemma find_close_shorter s : forall q r, find_close s = Some (q, r) -> (length r < length s)%nat.
Proof.
  induction s as [|c s IH]; intros q r; cbn [find_close]; [discriminate|].
  destruct (c =? DQ).
  - destruct (sep_or_end s) as [rest|] eqn:E.
    + intro H. injection H as _ <-. apply sep_or_end_shorter in E. cbn [length]. lia.
    + destruct (find_close s) as [[q' r']|]; [|discriminate]. intro H. injection H as _ <-.
      specialize (IH q' r' eq_refl). cbn [length]. lia.
  - destruct (find_close s) as [[q' r']|]; [|discriminate]. intro H. injection H as _ <-.
    specialize (IH q' r' eq_refl). cbn [length]. lia.
Qed.

Lemma raw_tag_shorter s :
  (length (snd (raw_tag s)) <= length s)%nat /\ (s <> [] -> (length (snd (raw_tag s)) < length s)%nat).
Proof.
  induction s as [|c s IH].
  - cbn. split; [lia|congruence].
  - cbn [raw_tag]. destruct (sep_or_end (c :: s)) as [rest|] eqn:E.
    + cbn [snd]. apply sep_or_end_shorter in E. destruct E as [E1 E2]. split; [exact E1|]. intros _. apply E2. discriminate.
    + destruct (raw_tag s) as [a b]. cbn [snd] in *. destruct IH as [IH _]. cbn [length]. split; [lia|]. intros _. lia.
Qed.

Lemma etag_match_progress s : s <> [] -> (length (snd (etag_match s)) < length s)%nat.
Proof.
  intro Hs. unfold etag_match.
  assert (Hw : weak_prefix s = true -> (2 <= length s)%nat).
  { destruct s as [|a [|b s']]; cbn [weak_prefix length]; try discriminate. lia. }
  set (s1 := if weak_prefix s then skipn 2 s else s).
  assert (H1 : (length s1 <= length s)%nat /\ (s1 = s \/ (length s1 + 2 = length s)%nat)).
  { unfold s1. destruct (weak_prefix s) eqn:E; [|split; [lia|left; reflexivity]].
    specialize (Hw eq_refl). rewrite skipn_length. split; [lia|right; lia]. }
  destruct H1 as [H1 H2].
  assert (Hraw : (length (snd (raw_tag s1)) < length s)%nat).
  { pose proof (raw_tag_shorter s1) as [R1 R2]. destruct H2 as [H2|H2].
    - rewrite H2 in *. apply R2. exact Hs.
    - lia. }
  destruct s1 as [|c s2] eqn:Es1.
  - cbn [snd length]. destruct s; [congruence|cbn; lia].
  - destruct (c =? DQ).
    + destruct (find_close s2) as [[q rest]|] eqn:E.
      * cbn [snd]. apply find_close_shorter in E. cbn [length] in H1. lia.
      * destruct (raw_tag (c :: s2)) as [t rest]. exact Hraw.
    + destruct (raw_tag (c :: s2)) as [t rest]. exact Hraw.
Qed.

Lemma parse_etags_loop_total : forall fuel s strong weak,
  (length s < fuel)%nat -> exists e, parse_etags_loop fuel s strong weak = Ok e.
Proof.
  induction fuel as [|f IH]; intros s strong weak Hf; [lia|].
  cbn [parse_etags_loop]. destruct s as [|c s']; [eexists; reflexivity|].
  pose proof (etag_match_progress (c :: s')) as Hp.
  destruct (etag_match (c :: s')) as [[w t|w t] rest]; cbn [snd] in Hp;
    assert (Hr : (length rest < f)%nat) by (specialize (Hp ltac:(discriminate)); cbn [length] in *; lia).
  - destruct w; apply IH; exact Hr.
  - destruct (list_eqb t [STAR]); [eexists; reflexivity|]. destruct w; apply IH; exact Hr.
Qed.

(* parse_etags answers for every header value without LF (and for a missing header) *)
Lemma parse_etags_total v :
  match v with Some s => mem LF s = false | None => True end -> exists e, parse_etags v = Ok e.
Proof.
  destruct v as [s|]; [|intros _; eexists; reflexivity].
  intro H. unfold parse_etags. rewrite H. apply parse_etags_loop_total. lia.
Qed.

(* ------------------------------------------------------------------ parse_range_header never raises *)
Lemma partition1_no x s : forallb (fun c => negb (c =? x)) (fst (partition1 x s)) = true.
Proof.
  induction s as [|y r IH]; cbn [partition1]; [reflexivity|].
  destruct (x =? y) eqn:E; [reflexivity|].
  destruct (partition1 x r) as [a b]. cbn [fst forallb] in *. rewrite IH.
  rewrite N.eqb_sym, E. reflexivity.
Qed.

Lemma forallb_drop_while (p q : N -> bool) s : forallb p s = true -> forallb p (drop_while q s) = true.
Proof.
  induction s as [|c r IH]; cbn [drop_while forallb]; [reflexivity|]. intro H. apply andb_prop in H.
  destruct H as [H1 H2]. destruct (q c); [apply IH; exact H2|]. cbn [forallb]. rewrite H1, H2. reflexivity.
Qed.

Lemma forallb_rstrip (p q : N -> bool) s : forallb p s = true -> forallb p (rstrip q s) = true.
Proof.
  induction s as [|c r IH]; cbn [rstrip forallb]; [reflexivity|]. intro H. apply andb_prop in H.
  destruct H as [H1 H2]. specialize (IH H2). destruct (rstrip q r) as [|c' r'].
  - destruct (q c); [reflexivity|]. cbn [forallb]. rewrite H1. reflexivity.
  - cbn [forallb] in *. rewrite H1, IH. reflexivity.
Qed.

Lemma forallb_ustrip (p : N -> bool) s : forallb p s = true -> forallb p (ustrip s) = true.
Proof. intro H. unfold ustrip, strip. apply forallb_rstrip. apply forallb_drop_while. exact H. Qed.

Lemma digits_val_nonneg ds : (0 <= digits_val ds)%Z.
Proof.
  unfold digits_val. assert (H : forall a, (0 <= a)%Z ->
    (0 <= fold_left (fun a d => (a * 10 + Z.of_N (d - 48))%Z) ds a)%Z).
  { induction ds as [|d r IH]; intros a Ha; cbn [fold_left]; [exact Ha|]. apply IH. lia. }
  apply H. lia.
Qed.

(* a begin position taken from text without "-" is not negative *)
Lemma plain_int_nodash s b :
  forallb (fun c => negb (c =? DASH)) s = true -> plain_int s = Some b -> (0 <= b)%Z.
Proof.
  intros Hs. unfold plain_int. pose proof (forallb_ustrip _ _ Hs) as Hu.
  destruct (ustrip s) as [|c r]; [discriminate|]. cbn [forallb] in Hu. apply andb_prop in Hu. destruct Hu as [Hc _].
  destruct (c =? DASH); [discriminate|].
  destruct (forallb is_digit (c :: r)); [|discriminate]. intro H. injection H as <-. apply digits_val_nonneg.
Qed.

Definition range_ok (p : Z * option Z) : bool :=
  match snd p with Some e => negb ((fst p <? 0)%Z || (fst p >=? e)%Z) | None => true end.

(* what the regenerated comparisons of parse_range_header say (C11/GenArith.v): unfolding them here makes an
   edited comparison, a dropped +1 or a changed last_end value break this file *)
Lemma prh_specs :
  (forall l, prh_suffix_blocked l = (l <? 0)%Z) /\ (forall b, prh_suffix_empty b = (b =? 0)%Z) /\
  (forall b l, prh_begin_blocked b l = ((b <? l)%Z || (l <? 0)%Z)) /\ (forall p, prh_end_of p = (p + 1)%Z) /\
  (forall b e, prh_empty_range b e = (b >=? e)%Z) /\
  prh_last_end_init = 0%Z /\ prh_last_end_suffix = (-1)%Z /\
  (forall e, prh_last_end_next (Some e) = e) /\ prh_last_end_next None = (-1)%Z.
Proof. repeat split; reflexivity. Qed.

Lemma parse_range_items_ok : forall items last_end acc rs,
  forallb range_ok acc = true ->
  parse_range_items items last_end acc = Some rs -> forallb range_ok rs = true.
Proof.
  destruct prh_specs as (S1 & S2 & S3 & S4 & S5 & S6 & S7 & S8 & S9).
  induction items as [|item0 rest IH]; intros last_end acc rs Hacc; cbn [parse_range_items]; cbv zeta.
  - intro H. injection H as <-. rewrite forallb_forall in *. intros x Hx. apply Hacc. apply in_rev. exact Hx.
  - pose proof (partition1_no DASH (ustrip item0)) as Hnd.
    destruct (partition1 DASH (ustrip item0)) as [bs oes]. cbn [fst] in Hnd.
    destruct bs as [|b0 bs']; destruct oes as [es|]; try discriminate.
    + destruct (prh_suffix_blocked last_end); [discriminate|].
      destruct (plain_int (ustrip item0)) as [b|]; [|discriminate].
      destruct (prh_suffix_empty b); [discriminate|]. apply IH. cbn [forallb range_ok snd]. exact Hacc.
    + destruct (plain_int (ustrip (b0 :: bs'))) as [b|] eqn:Eb; [|discriminate].
      assert (Hb : (0 <= b)%Z)
        by (apply (plain_int_nodash (ustrip (b0 :: bs'))); [apply forallb_ustrip; exact Hnd|exact Eb]).
      destruct (prh_begin_blocked b last_end); [discriminate|].
      destruct (nonempty (ustrip es)).
      * destruct (starts_with [DASH] (ustrip es)); [discriminate|].
        destruct (plain_int (ustrip es)) as [e0|]; [|discriminate].
        destruct (prh_empty_range b (prh_end_of e0)) eqn:Ege; [discriminate|]. apply IH.
        rewrite S5 in Ege.
        cbn [forallb range_ok snd fst]. rewrite Hacc, Ege. replace (b <? 0)%Z with false by lia. reflexivity.
      * apply IH. cbn [forallb range_ok snd]. exact Hacc.
Qed.

Lemma parse_range_header_total v : exists r, parse_range_header v = Ok r.
Proof.
  unfold parse_range_header. destruct v as [s|]; [|eexists; reflexivity].
  destruct (partition1 EQS s) as [units [rng|]]; [|eexists; reflexivity].
  destruct (parse_range_items (split_on COMMA rng) prh_last_end_init []) as [rs|] eqn:E; [|eexists; reflexivity].
  apply parse_range_items_ok in E; [|reflexivity].
  change (range_init_ok rs) with (forallb range_ok rs). rewrite E. eexists. reflexivity.
Qed.

(* every range the parser returns has a non-negative begin when it has an end, and begin < end *)
Lemma parse_range_header_wf v r :
  parse_range_header v = Ok (Some r) -> forallb range_ok (r_ranges r) = true.
Proof.
  unfold parse_range_header. destruct v as [s|]; [|discriminate].
  destruct (partition1 EQS s) as [units [rng|]]; [|discriminate].
  destruct (parse_range_items (split_on COMMA rng) prh_last_end_init []) as [rs|] eqn:E; [|discriminate].
  apply parse_range_items_ok in E; [|reflexivity].
  change (range_init_ok rs) with (forallb range_ok rs). rewrite E. intro H. injection H as <-. exact E.
Qed.

(* ------------------------------------------------------------------ str(int) and _plain_int are inverse *)
Definition dv (a : Z) (l : str) : Z := fold_left (fun a d => (a * 10 + Z.of_N (d - 48))%Z) l a.

Lemma dv_app a l1 l2 : dv a (l1 ++ l2) = dv (dv a l1) l2.
Proof. unfold dv. apply fold_left_app. Qed.

Lemma dec_aux_S f n acc :
  dec_aux (S f) n acc = if n / 10 =? 0 then (48 + n mod 10) :: acc else dec_aux f (n / 10) ((48 + n mod 10) :: acc).
Proof. reflexivity. Qed.

Lemma dec_aux_spec : forall f n acc,
  n < 2 ^ N.of_nat (S f) ->
  exists ds, dec_aux (S f) n acc = ds ++ acc /\ ds <> [] /\ forallb is_digit ds = true /\
             forall a, dv a ds = (a * 10 ^ Z.of_nat (length ds) + Z.of_N n)%Z.
Proof.
  induction f as [|f IH]; intros n acc Hn; rewrite dec_aux_S.
  - assert (Hz : n / 10 = 0) by (cbn in Hn; lia). rewrite Hz. cbn [N.eqb].
    exists [48 + n mod 10]. split; [reflexivity|]. split; [discriminate|]. split.
    + cbn [forallb is_digit]. unfold is_digit. lia.
    + intro a. unfold dv. cbn [fold_left length]. change (Z.of_nat 1) with 1%Z. lia.
  - destruct (N.eqb_spec (n / 10) 0) as [Hz|Hz].
    + exists [48 + n mod 10]. split; [reflexivity|]. split; [discriminate|]. split.
      * cbn [forallb is_digit]. unfold is_digit. lia.
      * intro a. unfold dv. cbn [fold_left length]. change (Z.of_nat 1) with 1%Z. lia.
    + assert (Hn' : n / 10 < 2 ^ N.of_nat (S f)).
      { rewrite (Nat2N.inj_succ (S f)), N.pow_succ_r' in Hn. lia. }
      destruct (IH (n / 10) ((48 + n mod 10) :: acc) Hn') as (ds & Hd & Hne & Hdig & Hv).
      exists (ds ++ [48 + n mod 10]). split; [rewrite Hd, <- app_assoc; reflexivity|].
      split; [destruct ds; discriminate|]. split.
      * rewrite forallb_app, Hdig. cbn [forallb is_digit]. unfold is_digit. lia.
      * intro a. rewrite dv_app, Hv. unfold dv. cbn [fold_left]. rewrite app_length. cbn [length].
        rewrite Nat2Z.inj_add. change (Z.of_nat 1) with 1%Z. rewrite Z.pow_add_r by lia. lia.
Qed.

Lemma dec_N_spec n :
  dec_N n <> [] /\ forallb is_digit (dec_N n) = true /\ digits_val (dec_N n) = Z.of_N n.
Proof.
  unfold dec_N.
  assert (Hn : n < 2 ^ N.of_nat (S (N.to_nat (N.log2 n)))).
  { rewrite Nat2N.inj_succ, N2Nat.id. destruct (N.eq_dec n 0) as [->|Hz]; [reflexivity|].
    apply N.log2_spec. lia. }
  destruct (dec_aux_spec _ n [] Hn) as (ds & Hd & Hne & Hdig & Hv).
  rewrite Hd, app_nil_r. split; [exact Hne|]. split; [exact Hdig|].
  change (digits_val ds) with (dv 0 ds). rewrite Hv. lia.
Qed.

Lemma digit_not_ws c : is_digit c = true -> negb (uni_ws c) = true.
Proof. unfold is_digit, uni_ws. lia. Qed.
Lemma digit_not_dash c : is_digit c = true -> negb (DASH =? c) = true.
Proof. unfold is_digit, DASH. lia. Qed.
Lemma digit_not_comma c : is_digit c = true -> negb (c =? COMMA) = true.
Proof. unfold is_digit, COMMA. lia. Qed.

Lemma ustrip_digits s : forallb is_digit s = true -> ustrip s = s.
Proof. intro H. apply strip_none. apply (forallb_impl is_digit); [exact digit_not_ws|exact H]. Qed.

Lemma plain_int_dec n : plain_int (dec_N n) = Some (Z.of_N n).
Proof.
  destruct (dec_N_spec n) as (Hne & Hdig & Hv). unfold plain_int. rewrite (ustrip_digits _ Hdig).
  destruct (dec_N n) as [|c r] eqn:E; [congruence|].
  pose proof Hdig as Hd. cbn [forallb] in Hd. apply andb_prop in Hd. destruct Hd as [Hc _].
  replace (c =? DASH) with false by (unfold is_digit, DASH in *; lia).
  rewrite Hdig, Hv. reflexivity.
Qed.

Lemma plain_int_neg_dec n : plain_int (DASH :: dec_N n) = Some (- Z.of_N n)%Z.
Proof.
  destruct (dec_N_spec n) as (Hne & Hdig & Hv). unfold plain_int.
  assert (Hs : ustrip (DASH :: dec_N n) = DASH :: dec_N n).
  { apply strip_none. cbn [forallb]. rewrite (forallb_impl is_digit _ _ digit_not_ws Hdig). reflexivity. }
  rewrite Hs. rewrite N.eqb_refl, Hdig, Hv.
  destruct (dec_N n); [congruence|reflexivity].
Qed.

Lemma split_on_none c s : forallb (fun x => negb (x =? c)) s = true -> split_on c s = [s].
Proof.
  induction s as [|x r IH]; cbn [split_on forallb]; [reflexivity|]. intro H. apply andb_prop in H.
  destruct H as [H1 H2]. destruct (x =? c); [discriminate|]. rewrite IH by exact H2. reflexivity.
Qed.

(* ------------------------------------------------------------------ the Range grammar: the three spec forms *)
Definition hdr_first_last (a b : N) : str := s_bytes ++ EQS :: dec_N a ++ DASH :: dec_N b.
Definition hdr_first_open (a : N) : str := s_bytes ++ EQS :: dec_N a ++ [DASH].
Definition hdr_suffix (n : N) : str := s_bytes ++ EQS :: DASH :: dec_N n.

Lemma header_split rest :
  partition1 EQS (s_bytes ++ EQS :: rest) = (s_bytes, Some rest) /\ lower (ustrip s_bytes) = s_bytes.
Proof. split; [apply partition1_app_stop; reflexivity|reflexivity]. Qed.

Lemma spec_no_comma a tail :
  forallb is_digit tail = true ->
  forallb (fun x => negb (x =? COMMA)) (dec_N a ++ DASH :: tail) = true.
Proof.
  intro Ht. destruct (dec_N_spec a) as (_ & Hdig & _). rewrite forallb_app.
  rewrite (forallb_impl is_digit _ _ digit_not_comma Hdig). cbn [forallb].
  rewrite (forallb_impl is_digit _ _ digit_not_comma Ht). reflexivity.
Qed.

Lemma spec_strip a tail :
  forallb is_digit tail = true -> ustrip (dec_N a ++ DASH :: tail) = dec_N a ++ DASH :: tail.
Proof.
  intro Ht. destruct (dec_N_spec a) as (_ & Hdig & _). apply strip_none. rewrite forallb_app.
  rewrite (forallb_impl is_digit _ _ digit_not_ws Hdig). cbn [forallb].
  rewrite (forallb_impl is_digit _ _ digit_not_ws Ht). reflexivity.
Qed.

Lemma spec_partition a tail : partition1 DASH (dec_N a ++ DASH :: tail) = (dec_N a, Some tail).
Proof.
  destruct (dec_N_spec a) as (_ & Hdig & _). apply partition1_app_stop.
  apply (forallb_impl is_digit); [exact digit_not_dash|exact Hdig].
Qed.

Lemma parse_first_last a b : a <= b ->
  parse_range_header (Some (hdr_first_last a b)) =
  Ok (Some {| r_units := s_bytes; r_ranges := [(Z.of_N a, Some (Z.of_N b + 1)%Z)] |}).
Proof.
  intro Hab. unfold parse_range_header, hdr_first_last.
  destruct (header_split (dec_N a ++ DASH :: dec_N b)) as [-> ->].
  destruct (dec_N_spec a) as (Hnea & Hda & _). destruct (dec_N_spec b) as (Hneb & Hdb & _).
  rewrite split_on_none by (apply spec_no_comma; exact Hdb).
  cbn [parse_range_items]. cbv zeta. cbv [prh_suffix_blocked prh_suffix_empty prh_begin_blocked prh_end_of prh_empty_range prh_last_end_init prh_last_end_suffix prh_last_end_next]. rewrite spec_strip by exact Hdb. rewrite spec_partition.
  destruct (dec_N a) as [|c r] eqn:Ea; [congruence|]. rewrite <- Ea.
  rewrite (ustrip_digits _ Hdb). rewrite Ea at 1. rewrite <- Ea. rewrite (ustrip_digits (dec_N a)) by (rewrite Ea; exact Hda).
  rewrite !plain_int_dec.
  replace ((Z.of_N a <? 0)%Z || (0 <? 0)%Z) with false by lia.
  destruct (dec_N b) as [|cb rb] eqn:Eb; [congruence|]. cbn [nonempty starts_with].
  pose proof Hdb as Hcb. cbn [forallb] in Hcb. apply andb_prop in Hcb. destruct Hcb as [Hcb _].
  replace (DASH =? cb) with false by (unfold is_digit, DASH in *; lia). cbn [andb].
  replace (Z.of_N a >=? Z.of_N b + 1)%Z with false by lia.
  cbn [rev app range_init_ok forallb fst snd].
  replace ((Z.of_N a <? 0)%Z || (Z.of_N a >=? Z.of_N b + 1)%Z) with false by lia. reflexivity.
Qed.

Lemma parse_first_open a :
  parse_range_header (Some (hdr_first_open a)) =
  Ok (Some {| r_units := s_bytes; r_ranges := [(Z.of_N a, None)] |}).
Proof.
  unfold parse_range_header, hdr_first_open.
  destruct (header_split (dec_N a ++ [DASH])) as [-> ->].
  destruct (dec_N_spec a) as (Hnea & Hda & _).
  rewrite split_on_none by (apply spec_no_comma; reflexivity).
  cbn [parse_range_items]. cbv zeta. cbv [prh_suffix_blocked prh_suffix_empty prh_begin_blocked prh_end_of prh_empty_range prh_last_end_init prh_last_end_suffix prh_last_end_next]. rewrite spec_strip by reflexivity. rewrite spec_partition.
  destruct (dec_N a) as [|c r] eqn:Ea; [congruence|]. rewrite <- Ea.
  rewrite (ustrip_digits (dec_N a)) by (rewrite Ea; exact Hda).
  rewrite plain_int_dec.
  replace ((Z.of_N a <? 0)%Z || (0 <? 0)%Z) with false by lia.
  reflexivity.
Qed.

Lemma parse_suffix n : 0 < n ->
  parse_range_header (Some (hdr_suffix n)) =
  Ok (Some {| r_units := s_bytes; r_ranges := [((- Z.of_N n)%Z, None)] |}).
Proof.
  intro Hn. unfold parse_range_header, hdr_suffix.
  destruct (header_split (DASH :: dec_N n)) as [-> ->].
  destruct (dec_N_spec n) as (Hne & Hd & _).
  assert (Hs : ustrip (DASH :: dec_N n) = DASH :: dec_N n).
  { apply strip_none. cbn [forallb]. rewrite (forallb_impl is_digit _ _ digit_not_ws Hd). reflexivity. }
  rewrite split_on_none by (cbn [forallb]; rewrite (forallb_impl is_digit _ _ digit_not_comma Hd); reflexivity).
  cbn [parse_range_items]. cbv zeta. cbv [prh_suffix_blocked prh_suffix_empty prh_begin_blocked prh_end_of prh_empty_range prh_last_end_init prh_last_end_suffix prh_last_end_next]. rewrite Hs. cbn [partition1]. rewrite N.eqb_refl.
  replace (0 <? 0)%Z with false by lia. rewrite plain_int_neg_dec.
  replace (- Z.of_N n =? 0)%Z with false by lia. reflexivity.
Qed.

(* ------------------------------------------------------------------ several ranges, other units *)
Lemma split_on_comma s1 s2 :
  forallb (fun x => negb (x =? COMMA)) s1 = true -> split_on COMMA (s1 ++ COMMA :: s2) = s1 :: split_on COMMA s2.
Proof.
  induction s1 as [|x r IH]; cbn [app split_on forallb]; intro H.
  - change (COMMA =? COMMA) with true. reflexivity.
  - apply andb_prop in H. destruct H as [H1 H2]. destruct (x =? COMMA); [discriminate|]. rewrite (IH H2). reflexivity.
Qed.

(* one first-last item inside the loop *)
Lemma item_first_last a b rest last acc :
  a <= b -> (0 <= last)%Z -> (last <= Z.of_N a)%Z ->
  parse_range_items ((dec_N a ++ DASH :: dec_N b) :: rest) last acc =
  parse_range_items rest (Z.of_N b + 1)%Z ((Z.of_N a, Some (Z.of_N b + 1)%Z) :: acc).
Proof.
  intros Hab Hl0 Hla.
  destruct (dec_N_spec a) as (Hnea & Hda & _). destruct (dec_N_spec b) as (Hneb & Hdb & _).
  cbn [parse_range_items]. cbv zeta.
  cbv [prh_suffix_blocked prh_suffix_empty prh_begin_blocked prh_end_of prh_empty_range prh_last_end_init prh_last_end_suffix prh_last_end_next].
  rewrite spec_strip by exact Hdb. rewrite spec_partition.
  destruct (dec_N a) as [|c r] eqn:Ea; [congruence|]. rewrite <- Ea.
  rewrite (ustrip_digits _ Hdb). rewrite (ustrip_digits (dec_N a)) by (rewrite Ea; exact Hda).
  rewrite !plain_int_dec.
  replace ((Z.of_N a <? last)%Z || (last <? 0)%Z) with false by lia.
  destruct (dec_N b) as [|cb rb] eqn:Eb; [congruence|]. cbn [nonempty starts_with].
  pose proof Hdb as Hcb. cbn [forallb] in Hcb. apply andb_prop in Hcb. destruct Hcb as [Hcb _].
  replace (DASH =? cb) with false by (unfold is_digit, DASH in *; lia). cbn [andb].
  replace (Z.of_N a >=? Z.of_N b + 1)%Z with false by lia. reflexivity.
Qed.

Definition hdr_unit_first_last (u : str) (a b : N) : str := u ++ EQS :: dec_N a ++ DASH :: dec_N b.
Definition hdr_two (a b c d : N) : str :=
  s_bytes ++ EQS :: (dec_N a ++ DASH :: dec_N b) ++ COMMA :: (dec_N c ++ DASH :: dec_N d).

(* unit=a-b for any unit text without "=": the unit is stripped and lower-cased, the range is read as usual *)
Lemma parse_unit_first_last u a b : a <= b ->
  forallb (fun c => negb (EQS =? c)) u = true ->
  parse_range_header (Some (hdr_unit_first_last u a b)) =
  Ok (Some {| r_units := lower (ustrip u); r_ranges := [(Z.of_N a, Some (Z.of_N b + 1)%Z)] |}).
Proof.
  intros Hab Hu. unfold parse_range_header, hdr_unit_first_last.
  rewrite (partition1_app_stop EQS u _ Hu).
  destruct (dec_N_spec b) as (_ & Hdb & _).
  rewrite split_on_none by (apply spec_no_comma; exact Hdb).
  change prh_last_end_init with 0%Z. rewrite item_first_last by lia.
  cbn [parse_range_items rev app range_init_ok forallb fst snd].
  replace ((Z.of_N a <? 0)%Z || (Z.of_N a >=? Z.of_N b + 1)%Z) with false by lia. reflexivity.
Qed.

(* bytes=a-b,c-d with a <= b < c <= d: two ranges *)
Lemma parse_two a b c d : a <= b -> b < c -> c <= d ->
  parse_range_header (Some (hdr_two a b c d)) =
  Ok (Some {| r_units := s_bytes;
              r_ranges := [(Z.of_N a, Some (Z.of_N b + 1)%Z); (Z.of_N c, Some (Z.of_N d + 1)%Z)] |}).
Proof.
  intros Hab Hbc Hcd. unfold parse_range_header, hdr_two.
  destruct (header_split ((dec_N a ++ DASH :: dec_N b) ++ COMMA :: dec_N c ++ DASH :: dec_N d)) as [-> ->].
  destruct (dec_N_spec b) as (_ & Hdb & _). destruct (dec_N_spec d) as (_ & Hdd & _).
  rewrite split_on_comma by (apply spec_no_comma; exact Hdb).
  rewrite split_on_none by (apply spec_no_comma; exact Hdd).
  change prh_last_end_init with 0%Z. rewrite item_first_last by lia. rewrite item_first_last by lia.
  cbn [parse_range_items rev app range_init_ok forallb fst snd].
  replace ((Z.of_N a <? 0)%Z || (Z.of_N a >=? Z.of_N b + 1)%Z) with false by lia.
  replace ((Z.of_N c <? 0)%Z || (Z.of_N c >=? Z.of_N d + 1)%Z) with false by lia. reflexivity.
Qed.
