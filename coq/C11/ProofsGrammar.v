(* C11 proofs.  Part 7: the Range header grammar end to end - what make_conditional answers for
   bytes=first-last, bytes=first- and bytes=-suffix on a resource of L bytes. *)
From Coq Require Import ZArith Lia ZifyBool ZifyN.
From Wz Require Import lib.Bytes lib.BytesFacts C11.Base C11.Gen C11.Model C11.ProofsRange C11.ProofsWrapper C11.ProofsCond
  C11.ProofsResp C11.ProofsRefute C11.ProofsParse.
Open Scope N_scope.

(* without If-Range the guard of _process_range_request does not look at any validator *)
Lemma skipped_no_if_range pd env etag lm acc cl :
  q_if_range env = None ->
  range_request_skipped pd env etag lm acc cl = Ok (negb (range_applicable env acc cl && is_some (q_range env))).
Proof.
  intro H. unfold range_request_skipped, is_range_request_processable, range_applicable. rewrite H.
  cbn [is_none or_ and_ bind not_].
  destruct (accept_truthy acc); cbn [negb or_ bind andb]; [|reflexivity].
  destruct cl as [z|]; cbn [is_none or_ bind negb andb eq_ pint_eqb]; [|reflexivity].
  destruct (z =? 0)%Z; cbn [negb andb]; [reflexivity|].
  destruct (is_some (q_range env)); reflexivity.
Qed.

Definition range_env (h : str) : environ :=
  {| q_method := s_GET; q_range := Some h; q_if_range := None; q_if_modified_since := None;
     q_if_none_match := None; q_if_match := None |}.

Definition served (s e L : Z) (acc : accept) : res mc_outcome :=
  Ok (MCResp 206 (Some (Some s, Some (e - s)%Z, content_range_text s e L, accept_value acc))).

(* a request whose only conditional header is Range: h, parsed as the single bytes range (b, en) *)
Lemma single_range_answer pd h b en L acc etag lm st0 :
  parse_range_header (Some h) = Ok (Some {| r_units := s_bytes; r_ranges := [(b, en)] |}) ->
  0 < L -> accept_truthy acc = true ->
  make_conditional pd (range_env h) st0 etag lm acc (Some (Z.of_N L)) =
  match rfl_spec {| r_units := s_bytes; r_ranges := [(b, en)] |} (Some (Z.of_N L)) with
  | Some (Some s, Some e) => served s e (Z.of_N L) acc
  | _ => Ok (MC416 (Some (Z.of_N L)))
  end.
Proof.
  intros Hp HL Hacc. rewrite mc_unfold. change (cond_method (range_env h)) with true. cbv iota.
  unfold process_range_request. rewrite skipped_no_if_range by reflexivity.
  unfold range_applicable. rewrite Hacc. cbn [is_none negb andb pint_eqb q_range range_env is_some].
  replace (Z.of_N L =? 0)%Z with false by lia. cbn [negb bind andb].
  rewrite Hp. cbn [bind]. unfold to_content_range_header. rewrite rfl_correct. cbn [bind].
  destruct (rfl_spec _ _) as [[a c]|] eqn:E; [|reflexivity].
  destruct (rfl_spec_shape _ _ _ _ E) as (L' & s & e & HL' & -> & -> & _).
  cbn [sub_ arith2 bind fmt_pint r_units]. unfold served, content_range_text.
  destruct acc; reflexivity.
Qed.

(* bytes=a-b : 206 for [a, min(b+1, L)) when a < L, else 416 *)
Lemma grammar_first_last pd a b L acc etag lm st0 :
  a <= b -> 0 < L -> accept_truthy acc = true ->
  make_conditional pd (range_env (hdr_first_last a b)) st0 etag lm acc (Some (Z.of_N L)) =
  if a <? L then served (Z.of_N a) (Z.min (Z.of_N b + 1) (Z.of_N L)) (Z.of_N L) acc
  else Ok (MC416 (Some (Z.of_N L))).
Proof.
  intros Hab HL Hacc. rewrite (single_range_answer pd _ _ _ L acc etag lm st0 (parse_first_last a b Hab) HL Hacc).
  unfold rfl_spec. cbn [r_units r_ranges negb]. change (list_eqb s_bytes s_bytes) with true. cbn [negb].
  destruct (N.ltb_spec a L) as [H|H].
  - replace ((Z.of_N a <? Z.of_N b + 1) && (0 <=? Z.of_N a) && (Z.of_N a <? Z.of_N L))%Z with true by lia. reflexivity.
  - replace ((Z.of_N a <? Z.of_N b + 1) && (0 <=? Z.of_N a) && (Z.of_N a <? Z.of_N L))%Z with false by lia. reflexivity.
Qed.

(* bytes=a- : 206 for [a, L) when a < L, else 416 *)
Lemma grammar_first_open pd a L acc etag lm st0 :
  0 < L -> accept_truthy acc = true ->
  make_conditional pd (range_env (hdr_first_open a)) st0 etag lm acc (Some (Z.of_N L)) =
  if a <? L then served (Z.of_N a) (Z.of_N L) (Z.of_N L) acc else Ok (MC416 (Some (Z.of_N L))).
Proof.
  intros HL Hacc. rewrite (single_range_answer pd _ _ _ L acc etag lm st0 (parse_first_open a) HL Hacc).
  unfold rfl_spec. cbn [r_units r_ranges negb]. change (list_eqb s_bytes s_bytes) with true. cbn [negb].
  replace (Z.of_N a <? 0)%Z with false by lia.
  destruct (N.ltb_spec a L) as [H|H].
  - replace ((Z.of_N a <? Z.of_N L) && (0 <=? Z.of_N a) && (Z.of_N a <? Z.of_N L))%Z with true by lia.
    rewrite Z.min_id. reflexivity.
  - replace ((Z.of_N a <? Z.of_N L) && (0 <=? Z.of_N a) && (Z.of_N a <? Z.of_N L))%Z with false by lia. reflexivity.
Qed.

(* bytes=-n (n > 0) : 206 for the last n bytes when n <= L; a longer suffix is answered 416 (what the code
   does; RFC 7233 would serve the whole representation - the property does not pin this case) *)
Lemma grammar_suffix pd n L acc etag lm st0 :
  0 < n -> 0 < L -> accept_truthy acc = true ->
  make_conditional pd (range_env (hdr_suffix n)) st0 etag lm acc (Some (Z.of_N L)) =
  if n <=? L then served (Z.of_N L - Z.of_N n) (Z.of_N L) (Z.of_N L) acc else Ok (MC416 (Some (Z.of_N L))).
Proof.
  intros Hn HL Hacc. rewrite (single_range_answer pd _ _ _ L acc etag lm st0 (parse_suffix n Hn) HL Hacc).
  unfold rfl_spec. cbn [r_units r_ranges negb]. change (list_eqb s_bytes s_bytes) with true. cbn [negb].
  replace (- Z.of_N n <? 0)%Z with true by lia.
  destruct (N.leb_spec n L) as [H|H].
  - replace ((- Z.of_N n + Z.of_N L <? Z.of_N L) && (0 <=? - Z.of_N n + Z.of_N L) && (- Z.of_N n + Z.of_N L <? Z.of_N L))%Z
      with true by lia.
    rewrite Z.min_id. replace (- Z.of_N n + Z.of_N L)%Z with (Z.of_N L - Z.of_N n)%Z by lia. reflexivity.
  - replace ((- Z.of_N n + Z.of_N L <? Z.of_N L) && (0 <=? - Z.of_N n + Z.of_N L) && (- Z.of_N n + Z.of_N L <? Z.of_N L))%Z
      with false by lia. reflexivity.
Qed.

(* ------------------------------------------------------------------ 416 from the header text *)
(* the ways a Range header text fails to denote one satisfiable bytes range on a resource of length cl *)
Definition text_unparsable (h : option str) : Prop := parse_range_header h = Ok None.
Definition text_bad_range (h : option str) (cl : pint) : Prop :=
  exists r, parse_range_header h = Ok (Some r) /\
    (list_eqb (r_units r) s_bytes = false                         (* another unit *)
     \/ cl = None                                                 (* length unknown *)
     \/ List.length (r_ranges r) <> 1%nat                          (* several ranges *)
     \/ exists L b en, cl = Some L /\ r_ranges r = [(b, en)] /\     (* one range, not satisfiable for L *)
          let s := fst (asked b en L) in
          ~ (0 <= s < L /\ match snd (asked b en L) with Some hi => s < hi | None => True end)%Z).

Theorem c416_from_text pd env st0 etag lm acc cl l :
  make_conditional pd env st0 etag lm acc cl = Ok (MC416 l) <->
  (cond_method env = true /\ range_request_skipped pd env etag lm acc cl = Ok false /\ l = cl /\
   (text_unparsable (q_range env) \/ text_bad_range (q_range env) cl)).
Proof.
  rewrite cond_416. unfold text_unparsable, text_bad_range. split.
  - intros (Hm & Hs & Hl & pr & Hp & [->|(r & -> & Hr)]).
    + repeat split; try assumption. left. exact Hp.
    + repeat split; try assumption. right. exists r. split; [exact Hp|]. apply rfl_none. exact Hr.
  - intros (Hm & Hs & Hl & [Hp|(r & Hp & Hr)]).
    + repeat split; try assumption. exists None. split; [exact Hp|]. left. reflexivity.
    + repeat split; try assumption. exists (Some r). split; [exact Hp|]. right. exists r. split; [reflexivity|].
      apply rfl_none. exact Hr.
Qed.

(* every header text falls in exactly one class: unparsable, bad, or one satisfiable bytes range - the parser never raises *)
Lemma text_trichotomy h cl :
  text_unparsable h \/ text_bad_range h cl \/
  exists r s e, parse_range_header h = Ok (Some r) /\ range_for_length r cl = Ok (Some (Some s, Some e)).
Proof.
  destruct (parse_range_header_total h) as ([r|] & Hp); [|left; exact Hp]. right.
  destruct (rfl_spec r cl) as [[a b]|] eqn:E.
  - right. destruct (rfl_spec_shape _ _ _ _ E) as (L & s & e & -> & -> & -> & _).
    exists r, s, e. split; [exact Hp|]. rewrite rfl_correct, E. reflexivity.
  - left. exists r. split; [exact Hp|]. apply rfl_none. rewrite rfl_correct, E. reflexivity.
Qed.

(* and when the text is one satisfiable range and processing applies, the answer is that range *)
Theorem c206_from_text pd env st0 etag lm acc cl r s e :
  cond_method env = true -> range_request_skipped pd env etag lm acc cl = Ok false ->
  parse_range_header (q_range env) = Ok (Some r) -> range_for_length r cl = Ok (Some (Some s, Some e)) ->
  exists L, cl = Some L /\ make_conditional pd env st0 etag lm acc cl = served s e L acc.
Proof.
  intros Hm Hs Hp Hr. pose proof Hr as Hr'. rewrite rfl_correct in Hr'. injection Hr' as E.
  destruct (rfl_spec_shape _ _ _ _ E) as (L & s' & e' & -> & Hs' & He' & _ & _ & Hu).
  injection Hs' as <-. injection He' as <-. exists L. split; [reflexivity|].
  rewrite mc_unfold, Hm. unfold process_range_request. rewrite Hs. cbn [bind]. rewrite Hp. cbn [bind].
  unfold to_content_range_header. rewrite Hr. cbn [bind sub_ arith2 fmt_pint]. unfold served, content_range_text.
  rewrite Hu. destruct acc; reflexivity.
Qed.

(* range processing applies, in closed form, when the request has no If-Range *)
Lemma applies_no_if_range pd env etag lm acc cl :
  q_if_range env = None ->
  (range_request_skipped pd env etag lm acc cl = Ok false <->
   accept_truthy acc = true /\ (exists L, cl = Some L /\ L <> 0%Z) /\ q_range env <> None).
Proof.
  intro H. rewrite (skipped_no_if_range _ _ _ _ _ _ H). unfold range_applicable. split.
  - intro E. injection E as E. apply negb_false_iff in E. apply andb_prop in E. destruct E as [E E3].
    apply andb_prop in E. destruct E as [E E2]. apply andb_prop in E. destruct E as [E1 E4].
    split; [exact E1|]. split.
    + destruct cl as [L|]; [|discriminate]. exists L. split; [reflexivity|]. cbn [pint_eqb] in E2. lia.
    + destruct (q_range env); [discriminate|discriminate].
  - intros (H1 & (L & -> & HL) & H3). rewrite H1. cbn [is_none negb andb pint_eqb].
    replace (L =? 0)%Z with false by lia. destruct (q_range env); [reflexivity|contradiction].
Qed.

(* text-level facts: no "=" at all is unparsable; any unit other than bytes (after strip and lower) is a bad range *)
Lemma text_without_equals h :
  forallb (fun c => negb (EQS =? c)) h = true -> text_unparsable (Some h).
Proof.
  intro H. unfold text_unparsable, parse_range_header.
  assert (E : partition1 EQS h = (h, None)).
  { induction h as [|c r IH]; [reflexivity|]. cbn [forallb] in H. apply andb_prop in H. destruct H as [H1 H2].
    cbn [partition1]. destruct (EQS =? c); [discriminate|]. rewrite (IH H2). reflexivity. }
  rewrite E. reflexivity.
Qed.

(* a multi-range text and another-unit text are answered 416 *)
Lemma grammar_two_ranges pd a b c d L acc etag lm st0 :
  a <= b -> b < c -> c <= d -> 0 < L -> accept_truthy acc = true ->
  make_conditional pd (range_env (hdr_two a b c d)) st0 etag lm acc (Some (Z.of_N L)) = Ok (MC416 (Some (Z.of_N L))).
Proof.
  intros Hab Hbc Hcd HL Hacc. apply c416_from_text. split; [reflexivity|]. split.
  - apply applies_no_if_range; [reflexivity|]. split; [exact Hacc|]. split; [|discriminate].
    exists (Z.of_N L). split; [reflexivity|lia].
  - split; [reflexivity|]. right. eexists. split; [exact (parse_two a b c d Hab Hbc Hcd)|].
    right. right. left. cbn. lia.
Qed.

Lemma grammar_other_unit pd u a b L acc etag lm st0 :
  a <= b -> forallb (fun c => negb (EQS =? c)) u = true -> list_eqb (lower (ustrip u)) s_bytes = false ->
  0 < L -> accept_truthy acc = true ->
  make_conditional pd (range_env (hdr_unit_first_last u a b)) st0 etag lm acc (Some (Z.of_N L))
  = Ok (MC416 (Some (Z.of_N L))).
Proof.
  intros Hab Hu Hunit HL Hacc. apply c416_from_text. split; [reflexivity|]. split.
  - apply applies_no_if_range; [reflexivity|]. split; [exact Hacc|]. split; [|discriminate].
    exists (Z.of_N L). split; [reflexivity|lia].
  - split; [reflexivity|]. right. eexists. split; [exact (parse_unit_first_last u a b Hab Hu)|].
    left. exact Hunit.
Qed.
