(* C11 proofs.  Part 7: the Range header grammar end to end - what make_conditional answers for
   bytes=first-last, bytes=first- and bytes=-suffix on a resource of L bytes. *)
From Coq Require Import ZArith Lia ZifyBool ZifyN.
From Wz Require Import lib.Bytes lib.BytesFacts C11.Base C11.Gen C11.Model C11.ProofsRange C11.ProofsWrapper C11.ProofsCond
  C11.ProofsResp C11.ProofsRefute C11.ProofsParse.
Open Scope N_scope.

(* without If-Range the guard of _process_range_request does not look at any validator *)
Lemma skipped_no_if_range pd env etag lm acc cl :
  q_if_range env = None ->
  range_request_skipped pd env etag lm acc cl = Ok (negb (range_applicable env acc cl && is_some (q_range env))).
Proof.
  intro H. unfold range_request_skipped, is_range_request_processable, range_applicable. rewrite H.
  cbn [is_none or_ and_ bind not_].
  destruct (accept_truthy acc); cbn [negb or_ bind andb]; [|reflexivity].
  destruct cl as [z|]; cbn [is_none or_ bind negb andb eq_ pint_eqb]; [|reflexivity].
  destruct (z =? 0)%Z; cbn [negb andb]; [reflexivity|].
  destruct (is_some (q_range env)); reflexivity.
Qed.

Definition range_env (h : str) : environ :=
  {| q_method := s_GET; q_range := Some h; q_if_range := None; q_if_modified_since := None;
     q_if_none_match := None; q_if_match := None |}.

Definition served (s e L : Z) (acc : accept) : res mc_outcome :=
  Ok (MCResp 206 (Some (Some s, Some (e - s)%Z, content_range_text s e L, accept_value acc))).

(* a request whose only conditional header is Range: h, parsed as the single bytes range (b, en) *)
Lemma single_range_answer pd h b en L acc etag lm st0 :
  parse_range_header (Some h) = Ok (Some {| r_units := s_bytes; r_ranges := [(b, en)] |}) ->
  0 < L -> accept_truthy acc = true ->
  make_conditional pd (range_env h) st0 etag lm acc (Some (Z.of_N L)) =
  match rfl_spec {| r_units := s_bytes; r_ranges := [(b, en)] |} (Some (Z.of_N L)) with
  | Some (Some s, Some e) => served s e (Z.of_N L) acc
  | _ => Ok (MC416 (Some (Z.of_N L)))
  end.
Proof.
  intros Hp HL Hacc. rewrite mc_unfold. change (cond_method (range_env h)) with true. cbv iota.
  unfold process_range_request. rewrite skipped_no_if_range by reflexivity.
  unfold range_applicable. rewrite Hacc. cbn [is_none negb andb pint_eqb q_range range_env is_some].
  replace (Z.of_N L =? 0)%Z with false by lia. cbn [negb bind andb].
  rewrite Hp. cbn [bind]. unfold to_content_range_header. rewrite rfl_correct. cbn [bind].
  destruct (rfl_spec _ _) as [[a c]|] eqn:E; [|reflexivity].
  destruct (rfl_spec_shape _ _ _ _ E) as (L' & s & e & HL' & -> & -> & _).
  cbn [sub_ arith2 bind fmt_pint r_units]. unfold served, content_range_text.
  destruct acc; reflexivity.
Qed.

(* bytes=a-b : 206 for [a, min(b+1, L)) when a < L, else 416 *)
Lemma grammar_first_last pd a b L acc etag lm st0 :
  a <= b -> 0 < L -> accept_truthy acc = true ->
  make_conditional pd (range_env (hdr_first_last a b)) st0 etag lm acc (Some (Z.of_N L)) =
  if a <? L then served (Z.of_N a) (Z.min (Z.of_N b + 1) (Z.of_N L)) (Z.of_N L) acc
  else Ok (MC416 (Some (Z.of_N L))).
Proof.
  intros Hab HL Hacc. rewrite (single_range_answer pd _ _ _ L acc etag lm st0 (parse_first_last a b Hab) HL Hacc).
  unfold rfl_spec. cbn [r_units r_ranges negb]. change (list_eqb s_bytes s_bytes) with true. cbn [negb].
  destruct (N.ltb_spec a L) as [H|H].
  - replace ((Z.of_N a <? Z.of_N b + 1) && (0 <=? Z.of_N a) && (Z.of_N a <? Z.of_N L))%Z with true by lia. reflexivity.
  - replace ((Z.of_N a <? Z.of_N b + 1) && (0 <=? Z.of_N a) && (Z.of_N a <? Z.of_N L))%Z with false by lia. reflexivity.
Qed.

(* bytes=a- : 206 for [a, L) when a < L, else 416 *)
Lemma grammar_first_open pd a L acc etag lm st0 :
  0 < L -> accept_truthy acc = true ->
  make_conditional pd (range_env (hdr_first_open a)) st0 etag lm acc (Some (Z.of_N L)) =
  if a <? L then served (Z.of_N a) (Z.of_N L) (Z.of_N L) acc else Ok (MC416 (Some (Z.of_N L))).
Proof.
  intros HL Hacc. rewrite (single_range_answer pd _ _ _ L acc etag lm st0 (parse_first_open a) HL Hacc).
  unfold rfl_spec. cbn [r_units r_ranges negb]. change (list_eqb s_bytes s_bytes) with true. cbn [negb].
  replace (Z.of_N a <? 0)%Z with false by lia.
  destruct (N.ltb_spec a L) as [H|H].
  - replace ((Z.of_N a <? Z.of_N L) && (0 <=? Z.of_N a) && (Z.of_N a <? Z.of_N L))%Z with true by lia.
    rewrite Z.min_id. reflexivity.
  - replace ((Z.of_N a <? Z.of_N L) && (0 <=? Z.of_N a) && (Z.of_N a <? Z.of_N L))%Z with false by lia. reflexivity.
Qed.

(* bytes=-n (n > 0) : 206 for the last n bytes when n <= L; a longer suffix is answered 416 (what the code
   does; RFC 7233 would serve the whole representation - the property does not pin this case) *)
Lemma grammar_suffix pd n L acc etag lm st0 :
  0 < n -> 0 < L -> accept_truthy acc = true ->
  make_conditional pd (range_env (hdr_suffix n)) st0 etag lm acc (Some (Z.of_N L)) =
  if n <=? L then served (Z.of_N L - Z.of_N n) (Z.of_N L) (Z.of_N L) acc else Ok (MC416 (Some (Z.of_N L))).
Proof.
  intros Hn HL Hacc. rewrite (single_range_answer pd _ _ _ L acc etag lm st0 (parse_suffix n Hn) HL Hacc).
  unfold rfl_spec. cbn [r_units r_ranges negb]. change (list_eqb s_bytes s_bytes) with true. cbn [negb].
  replace (- Z.of_N n <? 0)%Z with true by lia.
  destruct (N.leb_spec n L) as [H|H].
  - replace ((- Z.of_N n + Z.of_N L <? Z.of_N L) && (0 <=? - Z.of_N n + Z.of_N L) && (- Z.of_N n + Z.of_N L <? Z.of_N L))%Z
      with true by lia.
    rewrite Z.min_id. replace (- Z.of_N n + Z.of_N L)%Z with (Z.of_N L - Z.of_N n)%Z by lia. reflexivity.
  - replace ((- Z.of_N n + Z.of_N L <? Z.of_N L) && (0 <=? - Z.of_N n + Z.of_N L) && (- Z.of_N n + Z.of_N L <? Z.of_N L))%Z
      with false by lia. reflexivity.
Qed.
