(* C11 proofs.  Part 2: wsgi._RangeWrapper yields exactly the requested slice, for every chunking of
   the body (empty chunks included) without seek, and for a FileWrapper of any block size with seek. *)
From Coq Require Import ZArith Lia ZifyBool ZifyN.
From Wz Require Import lib.Bytes lib.BytesFacts C11.GenArith C11.Base C11.Gen C11.Model.
Open Scope nat_scope.

(* ------------------------------------------------------------------ FileWrapper blocks *)
Lemma blocks_aux_concat bs d : forall cur room, concat (blocks_aux bs cur room d) = rev cur ++ d.
Proof.
  induction d as [|x r IH]; intros cur room; cbn [blocks_aux].
  - destruct cur; cbn [concat]; [reflexivity|]. rewrite !app_nil_r. reflexivity.
  - destruct room as [|[|room']].
    + rewrite IH. cbn [rev]. rewrite <- app_assoc. reflexivity.
    + cbn [concat]. rewrite IH. cbn [rev app]. rewrite <- app_assoc. reflexivity.
    + rewrite IH. cbn [rev]. rewrite <- app_assoc. reflexivity.
Qed.

Lemma blocks_aux_nonempty bs d : forall cur room, Forall (fun c => c <> []) (blocks_aux bs cur room d).
Proof.
  induction d as [|x r IH]; intros cur room; cbn [blocks_aux].
  - destruct cur as [|y cur']; constructor; [|constructor].
    intro H. apply (f_equal (@length N)) in H. rewrite rev_length in H. discriminate.
  - destruct room as [|[|room']]; try apply IH.
    constructor; [|apply IH].
    intro H. apply (f_equal (@length N)) in H. rewrite rev_length in H. discriminate.
Qed.

Lemma blocks_concat bs d : 0 < bs -> concat (blocks bs d) = d.
Proof. intro H. destruct bs; [lia|]. unfold blocks. rewrite blocks_aux_concat. reflexivity. Qed.

Lemma blocks_nonempty bs d : Forall (fun c => c <> []) (blocks bs d).
Proof. destruct bs; [constructor|]. apply blocks_aux_nonempty. Qed.

(* ------------------------------------------------------------------ the regenerated arithmetic means what the proofs need.
   Each lemma unfolds one rw_* function of C11/GenArith.v: an edited comparison, offset or slice bound in
   wsgi._RangeWrapper changes that function and the lemma stops checking. *)
Lemma adv_spec rl c : adv rl c = rl + length c.
Proof. unfold adv, rw_advance. lia. Qed.
Lemma skip_more_spec rl start : skip_more rl start = (rl <=? start).
Proof. unfold skip_more, rw_skip_more. destruct (Nat.leb_spec rl start); lia. Qed.
Lemma is_first_spec rl : is_first rl = (rl =? 0).
Proof. unfold is_first, rw_is_first. destruct (Nat.eqb_spec rl 0); lia. Qed.
Lemma range_done_spec rl e : range_done rl e = (e <=? rl).
Proof. unfold range_done, rw_range_done. cbn [andb]. destruct (Nat.leb_spec e rl); lia. Qed.
Lemma crl_specs rl : crl_seek rl = rl /\ crl_skip rl = rl /\ crl_plain rl = rl /\ seek_pos rl = rl.
Proof. unfold crl_seek, crl_skip, crl_plain, seek_pos, rw_crl_seek, rw_crl_skip, rw_crl_plain, rw_seek_pos. lia. Qed.
Lemma end_of_spec start len : end_of start len = start + len.
Proof. unfold end_of, rw_end_byte. lia. Qed.
Lemma initial_rl_spec : initial_rl = 0.
Proof. reflexivity. Qed.
Lemma retry_spec c e : rw_retry c e = negb c && negb e.
Proof. reflexivity. Qed.
(* chunk[start_byte - read_length:] once the loop has passed start_byte: the last read_length - start_byte bytes *)
Lemma first_cut_spec (c : bytes) start rl : start < rl -> first_cut c start rl = skipn (length c - (rl - start)) c.
Proof.
  intro H. unfold first_cut, py_from, rw_first_index.
  destruct (Z.ltb_spec (Z.of_nat start - Z.of_nat rl) 0); [|lia]. f_equal. lia.
Qed.
(* chunk[: end_byte - contextual_read_length] *)
Lemma last_cut_spec (c : bytes) e crl : crl <= e -> last_cut c e crl = firstn (e - crl) c.
Proof.
  intro H. unfold last_cut, py_to, rw_cut_index.
  destruct (Z.ltb_spec (Z.of_nat e - Z.of_nat crl) 0); [lia|]. f_equal. lia.
Qed.

(* ------------------------------------------------------------------ the iteration *)
Section W.
Variable seekable : bool.
Variable seek : nat -> list bytes.
Variable start_byte end_byte : nat.

Notation next_ := (next_ seekable seek start_byte end_byte).
Notation drive := (drive seekable seek start_byte end_byte).

Definition mk (it : list bytes) (rl : nat) (e : bool) : rw := {| rw_it := it; rw_rl := rl; rw_end := e |}.

(* a call of _next that is not the first iteration *)
Lemma next_plain it rl : rl <> 0 -> rl <= end_byte ->
  next_ (mk it rl false) =
  match it with
  | [] => (None, mk [] rl true)
  | c :: r => if end_byte <=? rl + length c
              then (Some (firstn (end_byte - rl) c), mk r (rl + length c) true)
              else (Some c, mk r (rl + length c) false)
  end.
Proof.
  intros H Hle. unfold Model.next_. cbn [rw_end rw_rl mk]. rewrite is_first_spec.
  destruct (Nat.eqb_spec rl 0) as [E|E]; [contradiction|].
  destruct (crl_specs rl) as (_ & _ & -> & _).
  unfold next_chunk. cbn [rw_it rw_rl rw_end mk].
  destruct it as [|c r]; [reflexivity|].
  cbn [rw_rl rw_it rw_end]. rewrite range_done_spec, adv_spec, (last_cut_spec c end_byte rl Hle).
  destruct (end_byte <=? rl + length c); reflexivity.
Qed.

Lemma next_ended it rl : next_ (mk it rl true) = (None, mk it rl true).
Proof. reflexivity. Qed.

Lemma drive_ended f it rl : drive (S f) (mk it rl true) = Ok [].
Proof. cbn [Model.drive]. rewrite next_ended. reflexivity. Qed.

(* one round of __next__ in terms of the chunk _next produced *)
Lemma drive_step f s :
  drive (S f) s =
  match next_ s with
  | (None, _) => Ok []
  | (Some c, s') => if nonempty c then r <- drive f s' ;; Ok (c :: r)
                    else if rw_end s' then Ok [] else drive f s'
  end.
Proof.
  cbn [Model.drive]. destruct (next_ s) as [[c|] s']; [|reflexivity]. rewrite retry_spec.
  destruct (nonempty c), (rw_end s'); reflexivity.
Qed.

Lemma nonempty_length (c : bytes) : nonempty c = true <-> 0 < length c.
Proof. destruct c; cbn; split; intro; try lia; try discriminate; reflexivity. Qed.

(* every call after the first: the chunks still to come are cut at end_byte *)
Lemma drive_rest : forall it rl fuel,
  0 < rl -> rl < end_byte -> end_byte <= rl + length (concat it) -> length it < fuel ->
  exists out, drive fuel (mk it rl false) = Ok out
              /\ concat out = firstn (end_byte - rl) (concat it)
              /\ Forall (fun c => c <> []) out.
Proof.
  induction it as [|c r IH]; intros rl fuel Hrl Hlt Hge Hf.
  - cbn [concat length] in Hge. lia.
  - destruct fuel as [|f]; [cbn in Hf; lia|]. rewrite drive_step.
    rewrite next_plain by lia.
    cbn [concat] in Hge. rewrite app_length in Hge.
    destruct (Nat.leb_spec end_byte (rl + length c)) as [Hend|Hend].
    + (* the range ends inside this chunk *)
      assert (Hne : nonempty (firstn (end_byte - rl) c) = true).
      { apply nonempty_length. rewrite firstn_length. lia. }
      rewrite Hne. destruct f as [|f']; [cbn in Hf; lia|].
      rewrite drive_ended. cbn [bind].
      eexists. split; [reflexivity|]. split.
      * cbn [concat]. rewrite app_nil_r. rewrite firstn_app.
        replace (end_byte - rl - length c) with 0 by lia. cbn [firstn]. rewrite app_nil_r. reflexivity.
      * constructor; [|constructor]. intro E. rewrite E in Hne. discriminate.
    + destruct (nonempty c) eqn:Hc.
      * apply nonempty_length in Hc.
        destruct (IH (rl + length c) f) as (out & Ho & Hcat & Hall); try lia; [cbn in Hf; lia|].
        rewrite Ho. cbn [bind]. eexists. split; [reflexivity|]. split.
        -- cbn [concat]. rewrite Hcat. rewrite firstn_app.
           rewrite (@firstn_all2 _ (end_byte - rl) c) by lia.
           replace (end_byte - rl - length c) with (end_byte - (rl + length c)) by lia. reflexivity.
        -- constructor; [|exact Hall]. intro E. subst c. cbn in Hc. lia.
      * (* an empty chunk is skipped *)
        cbn [rw_end mk].
        assert (Hl : length c = 0). { destruct c; [reflexivity|discriminate]. }
        destruct (IH rl f) as (out & Ho & Hcat & Hall); try lia; [cbn in Hf; lia|].
        replace (rl + length c) with rl by lia.
        rewrite Ho. eexists. split; [reflexivity|]. split; [|exact Hall].
        destruct c; [|discriminate]. cbn [concat app]. exact Hcat.
Qed.

(* a first call that produced the chunk c (already cut to start at offset crl) and left the state (it, rl) *)
Lemma drive_first s c crl it rl f :
  next_ s = (if end_byte <=? rl
             then (Some (firstn (end_byte - crl) c), mk it rl true)
             else (Some c, mk it rl false)) ->
  0 < length c -> crl + length c = rl -> crl < end_byte ->
  end_byte <= rl + length (concat it) -> length it < f ->
  exists out, drive (S f) s = Ok out
              /\ concat out = firstn (end_byte - crl) (c ++ concat it)
              /\ Forall (fun c => c <> []) out.
Proof.
  intros Hn Hc Hrl Hlt Hge Hf. rewrite drive_step. rewrite Hn.
  destruct (Nat.leb_spec end_byte rl) as [Hend|Hend].
  - assert (Hne : nonempty (firstn (end_byte - crl) c) = true).
    { apply nonempty_length. rewrite firstn_length. lia. }
    rewrite Hne. destruct f as [|f']; [lia|]. rewrite drive_ended. cbn [bind].
    eexists. split; [reflexivity|]. split.
    + cbn [concat]. rewrite app_nil_r. rewrite firstn_app.
      replace (end_byte - crl - length c) with 0 by lia. cbn [firstn]. rewrite app_nil_r. reflexivity.
    + constructor; [|constructor]. intro E. rewrite E in Hne. discriminate.
  - assert (Hne : nonempty c = true) by (apply nonempty_length; exact Hc). rewrite Hne.
    destruct (drive_rest it rl f) as (out & Ho & Hcat & Hall); try lia; try assumption.
    rewrite Ho. cbn [bind]. eexists. split; [reflexivity|]. split.
    + cbn [concat]. rewrite Hcat. rewrite firstn_app. rewrite (@firstn_all2 _ (end_byte - crl) c) by lia.
      replace (end_byte - crl - length c) with (end_byte - rl) by lia. reflexivity.
    + constructor; [|exact Hall]. intro E. subst c. cbn in Hc. lia.
Qed.

(* the skipping loop of _first_iteration *)
Lemma first_skip_spec : forall it rl ch,
  rl <= start_byte -> start_byte < rl + length (concat it) ->
  exists pre c post,
    it = pre ++ c :: post /\
    rl + length (concat pre) <= start_byte < rl + length (concat pre) + length c /\
    first_skip it rl start_byte ch = inl (Some c, mk post (rl + length (concat pre) + length c) false).
Proof.
  induction it as [|c r IH]; intros rl ch Hle Hlt.
  - cbn in Hlt. lia.
  - cbn [first_skip]. rewrite skip_more_spec, adv_spec. destruct (Nat.leb_spec rl start_byte) as [H|H]; [|lia].
    cbn [concat] in Hlt. rewrite app_length in Hlt.
    destruct (Nat.ltb_spec start_byte (rl + length c)) as [Hin|Hout].
    + exists [], c, r. cbn [app concat length]. split; [reflexivity|]. split; [lia|].
      destruct r as [|c2 r2]; cbn [first_skip]; rewrite skip_more_spec;
        destruct (Nat.leb_spec (rl + length c) start_byte); try lia;
        rewrite Nat.add_0_r; reflexivity.
    + destruct (IH (rl + length c) (Some c)) as (pre & c' & post & -> & Hb & Hf); try lia.
      exists (c :: pre), c', post. cbn [app concat]. rewrite app_length.
      split; [reflexivity|]. split; [lia|].
      eapply eq_trans; [exact Hf|]. do 3 f_equal. lia.
Qed.
End W.

(* ------------------------------------------------------------------ the slice theorem *)
Lemma skipn_app_exact {A} (l1 l2 : list A) n : n <= length l1 -> skipn n (l1 ++ l2) = skipn n l1 ++ l2.
Proof. intro H. rewrite skipn_app. replace (n - length l1) with 0 by lia. reflexivity. Qed.

Lemma slice_list chunks start len :
  start + len <= length (concat chunks) -> 0 < len ->
  exists out, range_wrapper (BList chunks) start len = Ok out
              /\ concat out = firstn len (skipn start (concat chunks))
              /\ Forall (fun c => c <> []) out.
Proof.
  intros Hle Hlen. unfold range_wrapper, rw_list. rewrite end_of_spec, initial_rl_spec.
  destruct (first_skip_spec (fun _ => []) start chunks 0 None) as (pre & c & post & Hit & [Hlo Hhi] & Hfs); try lia.
  cbn [Nat.add] in Hlo, Hhi, Hfs.
  set (R := length (concat pre) + length c) in *.
  assert (Hcat : concat chunks = concat pre ++ c ++ concat post).
  { rewrite Hit. rewrite concat_app. cbn [concat]. reflexivity. }
  assert (Hpt : first_cut c start R = skipn (length c - (R - start)) c) by (apply first_cut_spec; unfold R; lia).
  assert (Hptl : length (first_cut c start R) = R - start) by (rewrite Hpt, skipn_length; unfold R; lia).
  destruct (drive_first false (fun _ => []) start (start + len) (mk chunks 0 false) (first_cut c start R) start post R
              (S (length chunks))) as (out & Ho & Hc & Hall).
  - unfold next_. cbn [rw_end rw_rl rw_it mk]. rewrite is_first_spec. cbn [Nat.eqb]. rewrite Hfs.
    cbn [option_map rw_rl mk rw_it rw_end]. destruct (crl_specs start) as (_ & -> & _ & _).
    rewrite range_done_spec, (last_cut_spec _ (start + len) start) by lia.
    destruct (start + len <=? R); reflexivity.
  - lia.
  - lia.
  - lia.
  - rewrite Hcat in Hle. rewrite !app_length in Hle. unfold R. lia.
  - rewrite Hit. rewrite app_length. cbn [length]. unfold bytes in *. lia.
  - exists out. split; [exact Ho|]. split; [|exact Hall].
    rewrite Hc. replace (start + len - start) with len by lia. f_equal.
    rewrite Hcat. rewrite skipn_app. rewrite (skipn_all2 (concat pre)) by lia. cbn [app].
    rewrite skipn_app_exact by (unfold R in *; lia).
    rewrite Hpt. f_equal. f_equal. unfold R. lia.
Qed.

Lemma slice_file d bs start len :
  start + len <= length (concat (blocks bs d)) -> 0 < len ->
  exists out, range_wrapper (BFile d bs) start len = Ok out
              /\ concat out = firstn len (skipn start d)
              /\ Forall (fun c => c <> []) out.
Proof.
  intros Hle Hlen. destruct bs as [|bs']; [cbn in Hle; lia|].
  rewrite blocks_concat in Hle by lia. unfold range_wrapper, rw_file. rewrite end_of_spec, initial_rl_spec.
  destruct (crl_specs start) as (Hcs & _ & _ & Hsp). rewrite Hsp.
  set (sk := blocks (S bs') (skipn start d)).
  assert (Hsk : concat sk = skipn start d) by (apply blocks_concat; lia).
  assert (Hne : Forall (fun c => c <> []) sk) by apply blocks_nonempty.
  destruct sk as [|c1 r] eqn:Esk.
  { cbn [concat] in Hsk. apply (f_equal (@length N)) in Hsk. rewrite skipn_length in Hsk. cbn in Hsk. lia. }
  assert (Hc1 : 0 < length c1).
  { inversion Hne as [|? ? Hx _]. destruct c1; [contradiction|cbn; lia]. }
  assert (Hlen_sk : length c1 + length (concat r) = length d - start).
  { apply (f_equal (@length N)) in Hsk. cbn [concat] in Hsk. rewrite app_length, skipn_length in Hsk. exact Hsk. }
  destruct (drive_first true (fun p => blocks (S bs') (skipn p d)) start (start + len) (mk (blocks (S bs') d) 0 false) c1 start r
              (start + length c1) (S (length (blocks (S bs') d) + length (c1 :: r)))) as (out & Ho & Hc & Hall).
  - unfold next_. cbn [rw_end rw_rl rw_it mk]. rewrite is_first_spec. cbn [Nat.eqb]. rewrite Hsp. cbv zeta.
    cbn [rw_rl]. rewrite Hcs. fold sk. rewrite Esk. unfold next_chunk. cbn [rw_it rw_rl rw_end].
    rewrite range_done_spec, adv_spec, (last_cut_spec c1 (start + len) start) by lia.
    destruct (start + len <=? start + length c1); reflexivity.
  - exact Hc1.
  - reflexivity.
  - lia.
  - lia.
  - cbn [length]. lia.
  - exists out. split; [exact Ho|]. split; [|exact Hall].
    rewrite Hc. replace (start + len - start) with len by lia. rewrite <- Hsk. reflexivity.
Qed.

(* FileWrapper.seekable (regenerated): the file's own seekable() when it has one, else whether it has seek *)
Lemma file_wrapper_seekable_spec hs fs hk :
  file_wrapper_seekable hs fs hk = Ok (if hs then fs else hk).
Proof. destruct hs, fs, hk; reflexivity. Qed.

Theorem range_wrapper_slice b start len :
  start + len <= length (concat (full_body b)) -> 0 < len ->
  exists out, range_wrapper b start len = Ok out
              /\ concat out = firstn len (skipn start (concat (full_body b)))
              /\ Forall (fun c => c <> []) out.
Proof.
  destruct b as [chunks|d bs|d bs hs fs hk]; cbn [full_body]; intros H1 H2.
  - apply slice_list; assumption.
  - destruct (slice_file d bs start len H1 H2) as (out & Ho & Hc & Hall).
    exists out. split; [exact Ho|]. split; [|exact Hall].
    destruct bs; [cbn in H1; lia|]. rewrite blocks_concat by lia. exact Hc.
  - cbn [range_wrapper]. rewrite file_wrapper_seekable_spec. cbn [bind].
    destruct (if hs then fs else hk).
    + destruct (slice_file d bs start len H1 H2) as (out & Ho & Hc & Hall).
      exists out. split; [exact Ho|]. split; [|exact Hall].
      destruct bs; [cbn in H1; lia|]. rewrite blocks_concat by lia. exact Hc.
    + apply (slice_list (blocks bs d)); assumption.
Qed.

(* the defect that was repaired in /repo (commit 40e41c0): with the old __next__, which stopped at the first
   empty chunk, the statement is false; old_drive is the old loop *)
Section Old.
Variable seekable : bool.
Variable seek : nat -> list bytes.
Variable start_byte end_byte : nat.
Fixpoint old_drive (fuel : nat) (s : rw) : res (list bytes) :=
  match fuel with
  | O => Raise OutOfFuel
  | S f =>
    match next_ seekable seek start_byte end_byte s with
    | (None, _) => Ok []
    | (Some c, s') => if nonempty c then r <- old_drive f s' ;; Ok (c :: r) else Ok []
    end
  end.
End Old.

Lemma old_wrapper_refuted :
  exists chunks start len,
    start + len <= length (concat chunks) /\ 0 < len /\
    exists out, old_drive false (fun _ => []) start (start + len) (S (S (length chunks))) (mk chunks 0 false) = Ok out
                /\ concat out <> firstn len (skipn start (concat chunks)).
Proof.
  exists [[97%N; 98%N]; []; [99%N; 100%N]], 0, 4. split; [cbn; lia|]. split; [lia|].
  eexists. split; [vm_compute; reflexivity|]. vm_compute. discriminate.
Qed.
