(* C11 base definitions (hand-written, definitions only): the exception monad used by the
   generated decision functions, Python int-or-None arithmetic, the string functions of
   werkzeug.http that the conditional / range code calls (parse_etags, unquote_etag,
   parse_if_range_header, _plain_int, parse_range_header), ETags, decimal rendering.
   C11/Gen.v (regenerated from /repo on every run) is built on top of this file. *)
From Coq Require Import ZArith.
From Wz Require Import lib.Bytes C11.GenArith.
Open Scope N_scope.

(* ------------------------------------------------------------------ exceptions *)
Inductive exn := TypeError | AttributeError | ValueError | Unsupported | OutOfFuel.
Inductive res (A : Type) : Type := Ok (a : A) | Raise (e : exn).
Arguments Ok {A} a.
Arguments Raise {A} e.

Definition bind {A B : Type} (m : res A) (f : A -> res B) : res B :=
  match m with Ok a => f a | Raise e => Raise e end.
Notation "x <- m ;; k" := (bind m (fun x => k))
  (at level 61, m at next level, right associativity).
Notation "' p <- m ;; k" := (bind m (fun x => match x with p => k end))
  (at level 61, p pattern, m at next level, right associativity).

Definition is_none {A : Type} (o : option A) : bool := match o with None => true | Some _ => false end.
Definition is_some {A : Type} (o : option A) : bool := negb (is_none o).

(* ------------------------------------------------------------------ int | None *)
Definition pint := option Z.

Definition cmp2 (f : Z -> Z -> bool) (a b : res pint) : res bool :=
  x <- a ;; y <- b ;;
  match x, y with
  | Some x', Some y' => Ok (f x' y')
  | _, _ => Raise TypeError           (* ordering None against anything raises TypeError *)
  end.
Definition lt_ := cmp2 Z.ltb.
Definition le_ := cmp2 Z.leb.
Definition gt_ := cmp2 Z.gtb.
Definition ge_ := cmp2 Z.geb.

Definition pint_eqb (x y : pint) : bool :=
  match x, y with
  | Some a, Some b => Z.eqb a b
  | None, None => true
  | _, _ => false
  end.
(* == and != never raise *)
Definition eq_ (a b : res pint) : res bool := x <- a ;; y <- b ;; Ok (pint_eqb x y).
Definition ne_ (a b : res pint) : res bool := x <- a ;; y <- b ;; Ok (negb (pint_eqb x y)).
Definition ostr_eqb (x y : option str) : bool :=
  match x, y with
  | Some a, Some b => list_eqb a b
  | None, None => true
  | _, _ => false
  end.
Definition seq_ (a b : res (option str)) : res bool := x <- a ;; y <- b ;; Ok (ostr_eqb x y).
Definition sne_ (a b : res (option str)) : res bool := x <- a ;; y <- b ;; Ok (negb (ostr_eqb x y)).
Definition beq_ (a b : res bool) : res bool := x <- a ;; y <- b ;; Ok (Bool.eqb x y).
Definition bne_ (a b : res bool) : res bool := x <- a ;; y <- b ;; Ok (negb (Bool.eqb x y)).

Definition arith2 (f : Z -> Z -> Z) (a b : res pint) : res pint :=
  x <- a ;; y <- b ;;
  match x, y with
  | Some x', Some y' => Ok (Some (f x' y'))
  | _, _ => Raise TypeError
  end.
Definition add_ := arith2 Z.add.
Definition sub_ := arith2 Z.sub.
Definition min_ := arith2 Z.min.

(* short-circuit and / or / not on already-boolean operands; b is only looked at when needed *)
Definition and_ (a b : res bool) : res bool := x <- a ;; if x then b else Ok false.
Definition or_ (a b : res bool) : res bool := x <- a ;; if x then Ok true else b.
Definition not_ (a : res bool) : res bool := x <- a ;; Ok (negb x).
Definition pair_ {A B : Type} (a : res A) (b : res B) : res (A * B) := x <- a ;; y <- b ;; Ok (x, y).
Definition some_ {A : Type} (a : res A) : res (option A) := x <- a ;; Ok (Some x).
Definition truthy_int (x : pint) : bool := match x with Some z => negb (Z.eqb z 0) | None => false end.

(* ------------------------------------------------------------------ characters *)
Definition DQ : N := 34.
Definition STAR : N := 42.
Definition COMMA : N := 44.
Definition DASH : N := 45.
Definition SLASH : N := 47.
Definition EQS : N := 61.
Definition LF : N := 10.
Definition SP : N := 32.
Definition nonempty (s : str) : bool := match s with [] => false | _ :: _ => true end.
Definition str_truthy (o : option str) : bool := match o with Some s => nonempty s | None => false end.
Definition ustrip (s : str) : str := strip uni_ws s.          (* str.strip() *)
Definition s_bytes : str := [98; 121; 116; 101; 115].        (* the literal compared with Range.units *)

(* str.split(c) : never empty *)
Fixpoint split_on (c : N) (s : str) : list str :=
  match s with
  | [] => [[]]
  | x :: r =>
    if x =? c then [] :: split_on c r
    else match split_on c r with
         | h :: t => (x :: h) :: t
         | [] => [[x]]
         end
  end.

(* ------------------------------------------------------------------ _plain_int *)
Definition digits_val (ds : str) : Z := fold_left (fun a d => (a * 10 + Z.of_N (d - 48))%Z) ds 0%Z.

(* value.strip(); fullmatch -?\d+ (re.ASCII); int(value).  None = ValueError *)
Definition plain_int (s : str) : option Z :=
  match ustrip s with
  | [] => None
  | c :: r =>
    if c =? DASH then
      if nonempty r && forallb is_digit r then Some (- digits_val r)%Z else None
    else if forallb is_digit (c :: r) then Some (digits_val (c :: r)) else None
  end.

(* str(int) *)
Fixpoint dec_aux (fuel : nat) (n : N) (acc : str) : str :=
  match fuel with
  | O => acc
  | S f => let acc' := (48 + n mod 10) :: acc in
           if n / 10 =? 0 then acc' else dec_aux f (n / 10) acc'
  end.
Definition dec_N (n : N) : str := dec_aux (S (N.to_nat (N.log2 n))) n [].
Definition dec_Z (z : Z) : str :=
  match z with
  | Zneg p => DASH :: dec_N (Npos p)
  | _ => dec_N (Z.to_N z)
  end.

(* ------------------------------------------------------------------ Range *)
Record range := { r_units : str; r_ranges : list (Z * option Z) }.

(* the validation loop of datastructures.Range.__init__ (start is never None here) *)
Definition range_init_ok (rs : list (Z * option Z)) : bool :=
  forallb (fun p => match snd p with
                    | Some e => negb ((fst p <? 0)%Z || (fst p >=? e)%Z)
                    | None => true
                    end) rs.

(* the loop body of http.parse_range_header over rng.split(",") ; None = return None.
   The comparisons, the +1 and the last_end values are the regenerated prh_* functions of C11/GenArith.v *)
Fixpoint parse_range_items (items : list str) (last_end : Z) (acc : list (Z * option Z))
  : option (list (Z * option Z)) :=
  match items with
  | [] => Some (rev acc)
  | item0 :: rest =>
    let item := ustrip item0 in
    match partition1 DASH item with
    | (_, None) => None                                        (* "-" not in item *)
    | ([], Some _) =>                                          (* item.startswith("-") *)
      if prh_suffix_blocked last_end then None
      else match plain_int item with
           | None => None
           | Some b => if prh_suffix_empty b then None
                       else parse_range_items rest prh_last_end_suffix ((b, None) :: acc)
           end
    | (bs, Some es) =>                                         (* item.split("-", 1) *)
      match plain_int (ustrip bs) with
      | None => None
      | Some b =>
        if prh_begin_blocked b last_end then None
        else if nonempty (ustrip es) then
          if starts_with [DASH] (ustrip es) then None         (* end_str.startswith("-") *)
          else
          match plain_int (ustrip es) with
          | None => None
          | Some e0 => let e := prh_end_of e0 in
                       if prh_empty_range b e then None
                       else parse_range_items rest (prh_last_end_next (Some e)) ((b, Some e) :: acc)
          end
        else parse_range_items rest (prh_last_end_next None) ((b, None) :: acc)
      end
    end
  end.

(* http.parse_range_header(value) ; Raise ValueError = Range.__init__ rejected the list *)
Definition parse_range_header (value : option str) : res (option range) :=
  match value with
  | None => Ok None
  | Some v =>
    match partition1 EQS v with
    | (_, None) => Ok None                                     (* not value or "=" not in value *)
    | (units, Some rng) =>
      match parse_range_items (split_on COMMA rng) prh_last_end_init [] with
      | None => Ok None
      | Some rs => if range_init_ok rs then Ok (Some {| r_units := lower (ustrip units); r_ranges := rs |})
                   else Raise ValueError
      end
    end
  end.

(* ------------------------------------------------------------------ ETags *)
Record etags := { e_strong : list str; e_weak : list str; e_star : bool }.

(* ETags.__init__ *)
Definition mk_etags (strong weak : list str) (star : bool) : etags :=
  {| e_strong := if star then [] else strong; e_weak := weak; e_star := star |}.

Definition tag_in (t : option str) (l : list str) : bool :=
  match t with Some s => existsb (list_eqb s) l | None => false end.
Definition is_weak (e : etags) (t : option str) : bool := tag_in t (e_weak e).
Definition is_strong (e : etags) (t : option str) : bool := tag_in t (e_strong e).
Definition contains (e : etags) (t : option str) : bool := if e_star e then true else is_strong e t.
Definition contains_weak (e : etags) (t : option str) : bool := is_weak e t || contains e t.
Definition nonempty_l (l : list str) : bool := match l with [] => false | _ :: _ => true end.
(* ETags.__bool__ *)
Definition etags_truthy (e : etags) : bool :=
  e_star e || nonempty_l (e_strong e) || nonempty_l (e_weak e).

(* --- _etag_re = ([Ww]/)?(?:"(.*?)"|(.*?))(?:\s*,\s*|$)  matched at a position, on text without LF.
   The tail (?:\s*,\s*|$) applied to the text after a tag: the remaining text, if it matches. *)
Definition sep_or_end (s : str) : option str :=
  match s with
  | [] => Some []                                             (* $ *)
  | _ :: _ =>
    match drop_while uni_ws s with
    | c :: r => if c =? COMMA then Some (drop_while uni_ws r) else None
    | [] => None
    end
  end.

(* after the opening quote: the lazy (.*?) ends at the first quote after which the tail matches *)
Fixpoint find_close (s : str) : option (str * str) :=
  match s with
  | [] => None
  | c :: r =>
    if c =? DQ then
      match sep_or_end r with
      | Some rest => Some ([], rest)
      | None => match find_close r with Some (q, rest) => Some (c :: q, rest) | None => None end
      end
    else match find_close r with Some (q, rest) => Some (c :: q, rest) | None => None end
  end.

(* the unquoted alternative: the shortest text after which the tail matches *)
Fixpoint raw_tag (s : str) : str * str :=
  match sep_or_end s with
  | Some rest => ([], rest)
  | None => match s with
            | c :: r => let '(a, b) := raw_tag r in (c :: a, b)
            | [] => ([], [])
            end
  end.

Inductive etag_tok := TQuoted (weak : bool) (t : str) | TRaw (weak : bool) (t : str).

Definition weak_prefix (s : str) : bool :=
  match s with
  | c :: d :: _ => ((c =? 87) || (c =? 119)) && (d =? SLASH)
  | _ => false
  end.

(* one _etag_re.match(value, pos): the token and the text from match.end() on *)
Definition etag_match (s : str) : etag_tok * str :=
  let w := weak_prefix s in
  let s1 := if w then skipn 2 s else s in
  match s1 with
  | c :: s2 =>
    if c =? DQ then
      match find_close s2 with
      | Some (q, rest) => (TQuoted w q, rest)
      | None => let '(t, rest) := raw_tag s1 in (TRaw w t, rest)
      end
    else let '(t, rest) := raw_tag s1 in (TRaw w t, rest)
  | [] => (TRaw w [], [])
  end.

(* the while loop of parse_etags; strong / weak accumulate in source order *)
Fixpoint parse_etags_loop (fuel : nat) (s : str) (strong weak : list str) : res etags :=
  match s with
  | [] => Ok (mk_etags (rev strong) (rev weak) false)
  | _ :: _ =>
    match fuel with
    | O => Raise OutOfFuel
    | S f =>
      match etag_match s with
      | (TRaw w t, rest) =>
        if list_eqb t [STAR] then Ok (mk_etags [] [] true)
        else if w then parse_etags_loop f rest strong (t :: weak)
        else parse_etags_loop f rest (t :: strong) weak
      | (TQuoted w t, rest) =>
        if w then parse_etags_loop f rest strong (t :: weak)
        else parse_etags_loop f rest (t :: strong) weak
      end
    end
  end.

(* http.parse_etags(value).  Text containing LF is outside the model (Raise Unsupported):
   "." does not match LF and "$" also matches before a final LF. *)
Definition parse_etags (value : option str) : res etags :=
  match value with
  | None => Ok (mk_etags [] [] false)
  | Some v =>
    if mem LF v then Raise Unsupported
    else parse_etags_loop (S (length v)) v [] []
  end.

(* http.unquote_etag *)
Definition last_is (c : N) (s : str) : bool :=
  match rev s with x :: _ => x =? c | [] => false end.
Definition unquote_etag (etag : option str) : option str * option bool :=
  match etag with
  | None => (None, None)
  | Some [] => (None, None)
  | Some e0 =>
    let e := ustrip e0 in
    let w := weak_prefix e in
    let e1 := if w then skipn 2 e else e in
    let e2 := match e1 with
              | c :: r => if (c =? DQ) && last_is DQ e1 then removelast r else e1
              | [] => e1
              end in
    (Some e2, Some w)
  end.

(* datastructures.IfRange and http.parse_if_range_header; dates are instants in microseconds,
   parse_date is the email.utils contract (a Section variable wherever it is used) *)
Record ifrange := { ifr_etag : option str; ifr_date : option Z }.

Definition parse_date_opt (parse_date : str -> option Z) (v : option str) : option Z :=
  match v with Some s => parse_date s | None => None end.

Definition parse_if_range_header (parse_date : str -> option Z) (value : option str) : ifrange :=
  match value with
  | None => {| ifr_etag := None; ifr_date := None |}
  | Some [] => {| ifr_etag := None; ifr_date := None |}
  | Some v =>
    match parse_date v with
    | Some d => {| ifr_etag := None; ifr_date := Some d |}
    | None => {| ifr_etag := fst (unquote_etag (Some v)); ifr_date := None |}
    end
  end.

(* ------------------------------------------------------------------ last_modified values *)
(* the last_modified argument of is_resource_modified: None | str | datetime (instant, microseconds) *)
Definition lmval := option (str + Z).
Definition lm_of_header (h : option str) : lmval := option_map inl h.
Definition lm_is_str (l : lmval) : bool := match l with Some (inl _) => true | _ => false end.
Definition lm_truthy (l : lmval) : bool :=
  match l with Some (inl s) => nonempty s | Some (inr _) => true | None => false end.
(* http.parse_date(last_modified): None for None; TypeError of email.utils is swallowed -> None *)
Definition lm_parse (parse_date : str -> option Z) (l : lmval) : lmval :=
  match l with
  | Some (inl s) => match parse_date s with Some z => Some (inr z) | None => None end
  | _ => None
  end.
Definition floor_second (z : Z) : Z := (z / 1000000 * 1000000)%Z.
(* _dt_as_utc(last_modified.replace(microsecond=0)) : contract of datetime - same instant, sub-second part dropped *)
Definition lm_floor (l : lmval) : res lmval :=
  match l with
  | Some (inr z) => Ok (Some (inr (floor_second z)))
  | Some (inl _) => Raise TypeError
  | None => Raise AttributeError
  end.
(* last_modified <= modified_since on aware datetimes *)
Definition dt_le (a : lmval) (b : option Z) : res bool :=
  match a, b with
  | Some (inr x), Some y => Ok (x <=? y)%Z
  | _, _ => Raise TypeError
  end.
Definition ifr_etag_ (i : option ifrange) : res (option str) :=
  match i with Some x => Ok (ifr_etag x) | None => Raise AttributeError end.
Definition ifr_date_ (i : option ifrange) : res (option Z) :=
  match i with Some x => Ok (ifr_date x) | None => Raise AttributeError end.

(* lifted calls used by the generated code *)
Definition parse_etags_ (v : res (option str)) : res etags := x <- v ;; parse_etags x.
Definition contains_ (e : res etags) (t : res (option str)) : res bool := x <- e ;; y <- t ;; Ok (contains x y).
Definition contains_weak_ (e : res etags) (t : res (option str)) : res bool := x <- e ;; y <- t ;; Ok (contains_weak x y).
Definition is_strong_ (e : res etags) (t : res (option str)) : res bool := x <- e ;; y <- t ;; Ok (is_strong x y).
Definition is_weak_ (e : res etags) (t : res (option str)) : res bool := x <- e ;; y <- t ;; Ok (is_weak x y).

(* the WSGI environ keys the conditional code reads *)
Record environ := {
  q_method : str;
  q_range : option str;
  q_if_range : option str;
  q_if_modified_since : option str;
  q_if_none_match : option str;
  q_if_match : option str }.

(* the accept_ranges argument of make_conditional: False | True | a string *)
Inductive accept := AFalse | ATrue | AStr (s : str).
Definition accept_truthy (a : accept) : bool :=
  match a with AFalse => false | ATrue => true | AStr s => nonempty s end.
