(* C11 proofs.  Part 5: If-Range (what holds, what the faithful model refutes), the refutations of the
   full 304-completeness statement, and concrete witnesses showing the hypotheses of every theorem are
   satisfiable. *)
From Coq Require Import ZArith Lia ZifyBool ZifyN.
From Wz Require Import lib.Bytes lib.BytesFacts C11.Base C11.Gen C11.Model C11.ProofsRange C11.ProofsWrapper C11.ProofsCond
  C11.ProofsResp.
Open Scope N_scope.

(* ------------------------------------------------------------------ If-Range *)
(* RFC 7233 3.2: the validator in If-Range matches the current representation.  A date matches when
   Last-Modified is not later (one-second resolution); an entity tag matches under the strong comparison:
   neither side weak, same opaque tag.  lenient = the same without the two weakness tests. *)
Definition weak_flag (v : option str) : bool :=
  match snd (unquote_etag v) with Some true => true | _ => false end.

Definition if_range_matches (strict : bool) (pd : str -> option Z) (env : environ) (etag lm : option str) : bool :=
  match q_if_range env with
  | None => true
  | Some v =>
    let i := parse_if_range_header pd (Some v) in
    match ifr_date i, ifr_etag i with
    | Some d, _ => date_match (Some d) (lm_norm pd (lm_of_header lm))
    | None, Some t =>
      str_truthy etag && ostr_eqb (Some t) (current_tag etag)
      && (negb strict || (negb (weak_flag (Some v)) && negb (weak_flag etag)))
    | None, None => false
    end
  end.

(* If-Range alone decides: no If-None-Match / If-Match in the request, and If-Modified-Since can only step in
   when If-Range is a date (then the code ignores it) or an entity tag compared with a response ETag *)
Definition if_range_decides (pd : str -> option Z) (env : environ) (etag : option str) : bool :=
  is_none (q_if_none_match env) && is_none (q_if_match env)
  && (is_none (q_if_modified_since env)
      || is_some (ifr_date (parse_if_range_header pd (q_if_range env)))
      || (is_some (ifr_etag (parse_if_range_header pd (q_if_range env))) && str_truthy etag)).

Lemma pih_not_both pd v t d : parse_if_range_header pd v <> {| ifr_etag := Some t; ifr_date := Some d |}.
Proof.
  unfold parse_if_range_header. destruct v as [[|c v]|]; try discriminate. destruct (pd (c :: v)); discriminate.
Qed.

Lemma processable_spec pd env etag lm :
  if_range_decides pd env etag = true ->
  is_range_request_processable pd env etag lm =
  Ok (if_range_matches false pd env etag lm && is_some (q_range env)).
Proof.
  unfold if_range_decides, is_range_request_processable, is_resource_modified_env, if_range_matches.
  intro Hd. apply andb_prop in Hd. destruct Hd as [Hd H3]. apply andb_prop in Hd. destruct Hd as [H1 H2].
  destruct (q_if_none_match env) as [x|] eqn:E1; [discriminate|].
  destruct (q_if_match env) as [x|] eqn:E2; [discriminate|].
  destruct (q_if_range env) as [v|] eqn:Ev; cbn [is_none or_ and_ bind]; [|reflexivity].
  rewrite irm_correct. unfold irm_spec. cbn [negb andb].
  destruct (q_range env) as [rg|] eqn:Er; cbn [is_some is_none negb andb].
  2:{ rewrite andb_false_r.
      destruct (str_truthy etag); cbn [parse_etags mk_etags bind etags_truthy e_star e_strong e_weak nonempty_l orb not_ and_ negb];
        destruct (negb _); reflexivity. }
  rewrite andb_true_r.
  destruct (parse_if_range_header pd (Some v)) as [[t|] [d|]] eqn:Ep; cbn [ifr_date ifr_etag is_some is_none negb orb andb] in *.
  - exfalso. exact (pih_not_both _ _ _ _ Ep).
  - unfold current_tag. destruct (str_truthy etag); cbn [and_ not_ bind negb andb orb] in *.
    + destruct (ostr_eqb (Some t) (fst (unquote_etag etag))); reflexivity.
    + rewrite orb_false_r in H3. destruct (q_if_modified_since env); [discriminate|]. reflexivity.
  - destruct (str_truthy etag);
      cbn [parse_etags mk_etags bind etags_truthy e_star e_strong e_weak nonempty_l orb not_ and_ negb andb];
      destruct (date_match _ _); reflexivity.
  - (* IfRange() : the If-Range header is empty; only without If-Modified-Since *)
    rewrite !orb_false_r in H3. destruct (q_if_modified_since env); [discriminate|].
    destruct (str_truthy etag);
      cbn [parse_etags mk_etags bind etags_truthy e_star e_strong e_weak nonempty_l orb not_ and_ negb andb
           parse_date_opt date_match]; reflexivity.
Qed.

Definition range_applicable (env : environ) (acc : accept) (cl : pint) : bool :=
  accept_truthy acc && negb (is_none cl) && negb (pint_eqb cl (Some 0%Z)).

Lemma skipped_spec pd env etag lm acc cl :
  if_range_decides pd env etag = true ->
  range_request_skipped pd env etag lm acc cl =
  Ok (negb (range_applicable env acc cl && if_range_matches false pd env etag lm && is_some (q_range env))).
Proof.
  intro Hd. unfold range_request_skipped, range_applicable. rewrite (processable_spec _ _ _ _ Hd).
  destruct (accept_truthy acc); cbn [not_ or_ bind negb andb]; [|reflexivity].
  destruct cl as [z|]; cbn [is_none or_ bind negb andb eq_ pint_eqb]; [|reflexivity].
  destruct (z =? 0)%Z; cbn [negb andb]; [reflexivity|].
  destruct (if_range_matches false pd env etag lm && is_some (q_range env)); reflexivity.
Qed.

(* a failed If-Range (lenient comparison), as the only validator: no 206, no 416, the complete body *)
Lemma if_range_failed_partial pd env st0 etag lm acc cl o :
  if_range_decides pd env etag = true ->
  if_range_matches false pd env etag lm = false ->
  make_conditional pd env st0 etag lm acc cl = Ok o ->
  exists st, o = MCResp st None /\ (st = st0 \/ st = 304 \/ st = 412).
Proof.
  intros Hd Hm H. destruct (cond_200 pd env st0 etag lm acc cl o) as (st & Ho & Hs & _); [|exact H|].
  - right. rewrite (skipped_spec _ _ _ _ _ _ Hd), Hm. rewrite andb_false_r. reflexivity.
  - exists st. split; assumption.
Qed.

(* and conversely: range processing happens exactly when it applies and If-Range admits *)
Lemma range_processed_iff pd env etag lm acc cl :
  if_range_decides pd env etag = true ->
  (range_request_skipped pd env etag lm acc cl = Ok false <->
   range_applicable env acc cl = true /\ if_range_matches false pd env etag lm = true /\ q_range env <> None).
Proof.
  intro Hd. rewrite (skipped_spec _ _ _ _ _ _ Hd). split.
  - intro H. injection H as H. apply negb_false_iff in H. apply andb_prop in H. destruct H as [H H3].
    apply andb_prop in H. destruct H as [H1 H2]. repeat split; try assumption.
    destruct (q_range env); [discriminate|discriminate].
  - intros (H1 & H2 & H3). rewrite H1, H2. destruct (q_range env); [reflexivity|contradiction].
Qed.

(* ------------------------------------------------------------------ concrete witnesses *)
Definition S_ (l : list N) : option str := Some l.
Definition t_abc : str := [34; 97; 98; 99; 34].            (* "abc" with its quotes *)
Definition t_zzz : str := [34; 122; 122; 122; 34].
Definition t_wabc : str := [87; 47; 34; 97; 98; 99; 34].   (* W/"abc" *)
Definition s_GET : str := [71; 69; 84].
Definition r_0_1 : str := [98; 121; 116; 101; 115; 61; 48; 45; 49].   (* bytes=0-1 *)
Definition r_0_3 : str := [98; 121; 116; 101; 115; 61; 48; 45; 51].   (* bytes=0-3 *)
(* a date contract for the witnesses: the one-character texts 1 and 2 are the instants 1 s and 2 s *)
Definition pd12 (s : str) : option Z :=
  if list_eqb s [49] then Some 1000000%Z else if list_eqb s [50] then Some 2000000%Z else None.
Definition pd0 (s : str) : option Z := None.
Definition mk_env (range if_range ims inm im : option str) : environ :=
  {| q_method := s_GET; q_range := range; q_if_range := if_range; q_if_modified_since := ims;
     q_if_none_match := inm; q_if_match := im |}.

(* the full 304-completeness statement, and the two classes of requests on which the faithful model refutes it *)
Definition complete_304_statement : Prop :=
  forall pd env st0 etag lm acc cl,
    cond_method env = true -> validators_match pd env etag lm = Ok true ->
    make_conditional pd env st0 etag lm acc cl = Ok (MCResp 304 None).

Lemma complete_304_refuted_range_first :
  exists pd env st0 etag lm acc cl,
    cond_method env = true /\ validators_match pd env etag lm = Ok true /\
    make_conditional pd env st0 etag lm acc cl =
      Ok (MCResp 206 (Some (Some 0%Z, Some 2%Z, content_range_text 0 2 4, AStr s_bytes))).
Proof.
  exists pd0, (mk_env (S_ r_0_1) None None (S_ t_abc) None), 200, (S_ t_abc), None, ATrue, (Some 4%Z).
  split; [reflexivity|]. split; vm_compute; reflexivity.
Qed.

Lemma complete_304_refuted_if_match :
  exists pd env st0 etag lm acc cl im,
    cond_method env = true /\ validators_match pd env etag lm = Ok true /\
    range_request_skipped pd env etag lm acc cl = Ok true /\
    parse_etags (q_if_match env) = Ok im /\ admits im (current_tag etag) = true /\
    make_conditional pd env st0 etag lm acc cl = Ok (MCResp 200 None).
Proof.
  exists pd12, (mk_env None None (S_ [50]) None (S_ t_abc)), 200, (S_ t_abc), (S_ [49]), AFalse, (Some 4%Z).
  eexists. split; [reflexivity|]. split; [vm_compute; reflexivity|]. split; [vm_compute; reflexivity|].
  split; [vm_compute; reflexivity|]. split; vm_compute; reflexivity.
Qed.

Lemma complete_304_refuted : ~ complete_304_statement.
Proof.
  intro H. destruct complete_304_refuted_range_first as (pd & env & st0 & etag & lm & acc & cl & Hm & Hv & Hr).
  rewrite (H pd env st0 etag lm acc cl Hm Hv) in Hr. discriminate.
Qed.

(* the full If-Range statement (strong comparison, any other validators around) and its refutations *)
Definition if_range_statement : Prop :=
  forall pd env st0 etag lm acc cl o,
    if_range_matches true pd env etag lm = false ->
    make_conditional pd env st0 etag lm acc cl = Ok o ->
    exists st, o = MCResp st None.

Lemma if_range_refuted_other_validators :
  exists pd env st0 etag lm acc cl p,
    if_range_matches true pd env etag lm = false /\ if_range_matches false pd env etag lm = false /\
    make_conditional pd env st0 etag lm acc cl = Ok (MCResp 206 (Some p)).
Proof.
  (* If-Range: 1 (older than Last-Modified: 2), If-Match: "zzz" against ETag "abc" *)
  exists pd12, (mk_env (S_ r_0_1) (S_ [49]) None None (S_ t_zzz)), 200, (S_ t_abc), (S_ [50]), ATrue, (Some 4%Z).
  eexists. split; [vm_compute; reflexivity|]. split; vm_compute; reflexivity.
Qed.

Lemma if_range_refuted_weak :
  exists pd env st0 etag lm acc cl p,
    if_range_decides pd env etag = true /\
    if_range_matches true pd env etag lm = false /\
    make_conditional pd env st0 etag lm acc cl = Ok (MCResp 206 (Some p)).
Proof.
  exists pd0, (mk_env (S_ r_0_1) (S_ t_wabc) None None None), 200, (S_ t_abc), None, ATrue, (Some 4%Z).
  eexists. split; [vm_compute; reflexivity|]. split; vm_compute; reflexivity.
Qed.

Lemma if_range_refuted : ~ if_range_statement.
Proof.
  intro H. destruct if_range_refuted_weak as (pd & env & st0 & etag & lm & acc & cl & p & _ & Hm & Hr).
  destruct (H pd env st0 etag lm acc cl _ Hm Hr) as (st & Hst). discriminate.
Qed.

(* ---- satisfiability witnesses for the positive theorems *)
Example ex_304 :
  make_conditional pd0 (mk_env None None None (S_ [42]) None) 200 (S_ t_abc) None AFalse None = Ok (MCResp 304 None).
Proof. vm_compute. reflexivity. Qed.

Example ex_304_dates :
  make_conditional pd12 (mk_env None None (S_ [50]) None None) 200 None (S_ [49]) AFalse None = Ok (MCResp 304 None)
  /\ make_conditional pd12 (mk_env None None (S_ [49]) None None) 200 None (S_ [50]) AFalse None = Ok (MCResp 200 None).
Proof. split; vm_compute; reflexivity. Qed.

Example ex_412 :
  make_conditional pd0 (mk_env None None None None (S_ t_zzz)) 200 (S_ t_abc) None AFalse None = Ok (MCResp 412 None)
  /\ make_conditional pd0 (mk_env None None None None (S_ [42])) 200 (S_ t_abc) None AFalse None = Ok (MCResp 200 None).
Proof. split; vm_compute; reflexivity. Qed.

Example ex_416 :
  make_conditional pd0 (mk_env (S_ [98; 121; 116; 101; 115; 61; 57; 45]) None None None None) 200 None None ATrue (Some 4%Z)
  = Ok (MC416 (Some 4%Z)).
Proof. vm_compute. reflexivity. Qed.

Example ex_if_range_failed :
  if_range_decides pd12 (mk_env (S_ r_0_1) (S_ [49]) None None None) (S_ t_abc) = true
  /\ if_range_matches false pd12 (mk_env (S_ r_0_1) (S_ [49]) None None None) (S_ t_abc) (S_ [50]) = false
  /\ make_conditional pd12 (mk_env (S_ r_0_1) (S_ [49]) None None None) 200 (S_ t_abc) (S_ [50]) ATrue (Some 4%Z)
     = Ok (MCResp 200 None).
Proof. repeat split; vm_compute; reflexivity. Qed.

Definition ex_body : body_src := BList [[97; 98]; []; [99; 100]].
Example ex_206_response :
  respond pd0 (mk_env (S_ r_0_3) None None None None)
    {| i_status := 200; i_etag := None; i_last_modified := None; i_content_length := None; i_passthrough := false;
       i_body := ex_body |} ATrue (Some 4%Z)
  = Ok (WResp 206 (Some (content_range_text 0 4 4)) (Some [52]) (Some (AStr s_bytes)) [[97; 98]; [99; 100]]).
Proof. vm_compute. reflexivity. Qed.

Example ex_206_file :
  range_wrapper (BFile [1; 2; 3; 4; 5; 6; 7] 3) 2 4 = Ok [[3; 4; 5]; [6]]
  /\ range_wrapper (BList [[1]; []; [2; 3; 4]; [5; 6; 7]]) 2 4 = Ok [[3; 4]; [5; 6]].
Proof. split; vm_compute; reflexivity. Qed.
