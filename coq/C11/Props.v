(* C11 property theorems.  Nothing but statements, each closed by exact, with Print Assumptions beneath.
   Model: C11/Base.v, C11/Model.v; decision functions, constants and pattern texts: C11/Gen.v (regenerated
   from /repo on every run); specification-side definitions (ibrv_spec, asked, weak_match, admits,
   validators_match, if_range_matches, content_range_text): C11/Proofs*.v.
   pd is the date parser (email.utils contract): every theorem holds for any function. *)
From Coq Require Import ZArith.
From Wz Require Import lib.Bytes C11.GenArith C11.Base C11.Gen C11.Model C11.Proofs.
Open Scope N_scope.

(* ---------------------------------------------------------------- what the source says (regenerated) *)
Theorem C11_source_pins :
  conditional_methods = [[71; 69; 84]; [72; 69; 65; 68]]
  /\ status_partial_content = 206 /\ status_not_modified = 304 /\ status_precondition_failed = 412
  /\ list_eqb etag_re_text_sansio etag_re_text = true /\ etag_re_flags = 0
  /\ plain_int_re_text = [45; 63; 92; 100; 43] /\ plain_int_re_flags = 256
  /\ non_ascii_lowering_into_bytes = []
  /\ forall c, uni_ws c = in_ranges c interp_ws.
Proof. exact source_pins. Qed.
Print Assumptions C11_source_pins.

(* ---------------------------------------------------------------- the two range decision functions (T2) *)
(* is_byte_range_valid never raises, and on three integers it says: 0 <= start < stop and start < length *)
Theorem C11_is_byte_range_valid : forall start stop length,
  is_byte_range_valid start stop length = Ok (ibrv_spec start stop length)
  /\ forall a b l, start = Some a -> stop = Some b -> length = Some l ->
       (ibrv_spec start stop length = true <-> (0 <= a < b /\ a < l)%Z).
Proof. exact ibrv_full. Qed.
Print Assumptions C11_is_byte_range_valid.

(* range_for_length never raises; a range it returns is the single bytes range of the header, clipped to the
   resource: 0 <= start < stop <= length, start is where the header asked to start, stop is where it asked to
   stop or the end of the resource *)
Theorem C11_range_for_length_sound : forall self length s e,
  range_for_length self length = Ok (Some (s, e)) ->
  list_eqb (r_units self) s_bytes = true /\
  exists L b en s' e', length = Some L /\ r_ranges self = [(b, en)] /\ s = Some s' /\ e = Some e' /\
    (0 <= s' < e')%Z /\ (e' <= L)%Z /\
    s' = fst (asked b en L) /\
    e' = match snd (asked b en L) with Some hi => Z.min hi L | None => L end.
Proof. exact rfl_sound. Qed.
Print Assumptions C11_range_for_length_sound.

Theorem C11_range_for_length_total : forall self length, exists r, range_for_length self length = Ok r.
Proof. exact rfl_total. Qed.
Print Assumptions C11_range_for_length_total.

(* ... and it answers None exactly for another unit, an unknown length, several ranges, or an unsatisfiable one *)
Theorem C11_range_for_length_none : forall self length,
  range_for_length self length = Ok None <->
  (list_eqb (r_units self) s_bytes = false \/ length = None \/ List.length (r_ranges self) <> 1%nat \/
   exists L b en, length = Some L /\ r_ranges self = [(b, en)] /\
     let s := fst (asked b en L) in
     ~ (0 <= s < L /\ match snd (asked b en L) with Some hi => s < hi | None => True end)%Z).
Proof. exact rfl_none. Qed.
Print Assumptions C11_range_for_length_none.

(* ---------------------------------------------------------------- 206: the bytes *)
(* _RangeWrapper over any body - a list / generator with any chunking, empty chunks included, or a FileWrapper
   of any block size over a seekable file - yields exactly the slice, in non-empty chunks, and terminates *)
Theorem C11_206_slice : forall b start len,
  (start + len <= length (concat (full_body b)))%nat -> (0 < len)%nat ->
  exists out, range_wrapper b start len = Ok out
              /\ concat out = firstn len (skipn start (concat (full_body b)))
              /\ Forall (fun c => c <> []) out.
Proof. exact range_wrapper_slice. Qed.
Print Assumptions C11_206_slice.

Example C11_206_slice_example :
  range_wrapper (BFile [1; 2; 3; 4; 5; 6; 7] 3) 2 4 = Ok [[3; 4; 5]; [6]]
  /\ range_wrapper (BList [[1]; []; [2; 3; 4]; [5; 6; 7]]) 2 4 = Ok [[3; 4]; [5; 6]].
Proof. exact ex_206_file. Qed.
Print Assumptions C11_206_slice_example.

(* a response that leaves make_conditional with a Content-Range: status 206, Content-Range declares
   start-(stop-1)/length, Content-Length is stop-start, 0 <= start < stop <= length, the body is exactly
   that slice of the resource (HEAD: no body), and [start, stop) is what the single bytes range of the
   Range header asked for, clipped to the resource *)
Theorem C11_206_response : forall pd env r acc body st h cl ar out,
  concat (full_body (i_body r)) = body ->
  respond pd env r acc (Some (Z.of_nat (length body))) = Ok (WResp st (Some h) cl ar out) ->
  exists s e : Z,
    st = 206 /\ (0 <= s < e)%Z /\ (e <= Z.of_nat (length body))%Z /\
    h = content_range_text s e (Z.of_nat (length body)) /\
    cl = Some (dec_Z (e - s)) /\ ar = Some (accept_value acc) /\
    (if list_eqb (q_method env) s_HEAD then out = []
     else concat out = firstn (Z.to_nat (e - s)) (skipn (Z.to_nat s) body) /\ Forall (fun c => c <> []) out) /\
    exists rg b en, parse_range_header (q_range env) = Ok (Some rg) /\ r_ranges rg = [(b, en)] /\
      r_units rg = s_bytes /\
      s = fst (asked b en (Z.of_nat (length body))) /\
      e = match snd (asked b en (Z.of_nat (length body))) with
          | Some hi => Z.min hi (Z.of_nat (length body)) | None => Z.of_nat (length body) end.
Proof. exact respond_206. Qed.
Print Assumptions C11_206_response.

Example C11_206_response_example :
  respond pd0 (mk_env (S_ r_0_3) None None None None)
    {| i_status := 200; i_etag := None; i_last_modified := None; i_content_length := None; i_passthrough := false;
       i_body := ex_body |} ATrue (Some 4%Z)
  = Ok (WResp 206 (Some (content_range_text 0 4 4)) (Some [52]) (Some (AStr s_bytes)) [[97; 98]; [99; 100]]).
Proof. exact ex_206_response. Qed.
Print Assumptions C11_206_response_example.

(* ---------------------------------------------------------------- 416 *)
(* exactly when range processing applies (GET/HEAD, guard passed) and the Range header is unparsable, or is
   not one satisfiable bytes range (see C11_range_for_length_none) *)
Theorem C11_416 : forall pd env st0 etag lm acc cl l,
  make_conditional pd env st0 etag lm acc cl = Ok (MC416 l) <->
  (cond_method env = true /\ range_request_skipped pd env etag lm acc cl = Ok false /\ l = cl /\
   exists pr, parse_range_header (q_range env) = Ok pr /\
              (pr = None \/ exists r, pr = Some r /\ range_for_length r cl = Ok None)).
Proof. exact cond_416. Qed.
Print Assumptions C11_416.

Example C11_416_example :
  make_conditional pd0 (mk_env (S_ [98; 121; 116; 101; 115; 61; 57; 45]) None None None None) 200 None None ATrue (Some 4%Z)
  = Ok (MC416 (Some 4%Z)).
Proof. exact ex_416. Qed.
Print Assumptions C11_416_example.

(* ---------------------------------------------------------------- 200: no range *)
(* another method, or the guard of _process_range_request (accept_ranges off, length unknown or zero, no Range
   header, If-Range not satisfied): no Content-Range, status untouched or 304 / 412 *)
Theorem C11_200 : forall pd env st0 etag lm acc cl o,
  (cond_method env = false \/ range_request_skipped pd env etag lm acc cl = Ok true) ->
  make_conditional pd env st0 etag lm acc cl = Ok o ->
  exists st, o = MCResp st None /\ (st = st0 \/ st = 304 \/ st = 412) /\ (cond_method env = false -> st = st0).
Proof. exact cond_200. Qed.
Print Assumptions C11_200.

(* ... and such a response carries the complete body *)
Theorem C11_200_body : forall pd env r acc cl st clh ar out,
  respond pd env r acc cl = Ok (WResp st None clh ar out) ->
  ar = None /\ (st = i_status r \/ st = 304 \/ st = 412) /\
  out = (if list_eqb (q_method env) s_HEAD || no_body_status st then [] else full_body (i_body r)).
Proof. exact respond_200. Qed.
Print Assumptions C11_200_body.

(* when If-Range is the only validator that can decide (if_range_decides), the guard is exactly:
   accept_ranges on, length known and non-zero, Range present, If-Range absent or matching (lenient) *)
Theorem C11_range_processed_iff : forall pd env etag lm acc cl,
  if_range_decides pd env etag = true ->
  (range_request_skipped pd env etag lm acc cl = Ok false <->
   range_applicable env acc cl = true /\ if_range_matches false pd env etag lm = true /\ q_range env <> None).
Proof. exact range_processed_iff. Qed.
Print Assumptions C11_range_processed_iff.

(* a failed If-Range: the Range header is ignored.  The full statement - strong comparison (RFC 7233 3.2), whatever
   other validators the request carries - is refuted by the faithful model (two known findings); it holds with the
   comparison that ignores the weakness flags when If-Range is the validator that decides *)
Theorem C11_if_range_failed_partial : forall pd env st0 etag lm acc cl o,
  if_range_decides pd env etag = true ->
  if_range_matches false pd env etag lm = false ->
  make_conditional pd env st0 etag lm acc cl = Ok o ->
  exists st, o = MCResp st None /\ (st = st0 \/ st = 304 \/ st = 412).
Proof. exact if_range_failed_partial. Qed.
Print Assumptions C11_if_range_failed_partial.

Example C11_if_range_failed_example :
  if_range_decides pd12 (mk_env (S_ r_0_1) (S_ [49]) None None None) (S_ t_abc) = true
  /\ if_range_matches false pd12 (mk_env (S_ r_0_1) (S_ [49]) None None None) (S_ t_abc) (S_ [50]) = false
  /\ make_conditional pd12 (mk_env (S_ r_0_1) (S_ [49]) None None None) 200 (S_ t_abc) (S_ [50]) ATrue (Some 4%Z)
     = Ok (MCResp 200 None).
Proof. exact ex_if_range_failed. Qed.
Print Assumptions C11_if_range_failed_example.

Theorem C11_if_range_failed_refuted :
  ~ (forall pd env st0 etag lm acc cl o,
       if_range_matches true pd env etag lm = false ->
       make_conditional pd env st0 etag lm acc cl = Ok o ->
       exists st, o = MCResp st None).
Proof. exact if_range_refuted. Qed.
Print Assumptions C11_if_range_failed_refuted.

(* the two refuting classes: other validators overwrite a failed If-Range; weak tags compare equal *)
Theorem C11_if_range_refuted_witnesses :
  (exists pd env st0 etag lm acc cl p,
     if_range_matches true pd env etag lm = false /\ if_range_matches false pd env etag lm = false /\
     make_conditional pd env st0 etag lm acc cl = Ok (MCResp 206 (Some p)))
  /\ (exists pd env st0 etag lm acc cl p,
     if_range_decides pd env etag = true /\ if_range_matches true pd env etag lm = false /\
     make_conditional pd env st0 etag lm acc cl = Ok (MCResp 206 (Some p))).
Proof. exact (conj if_range_refuted_other_validators if_range_refuted_weak). Qed.
Print Assumptions C11_if_range_refuted_witnesses.

(* ---------------------------------------------------------------- 304 *)
(* only when the validators match: If-None-Match under the weak comparison when the response has an ETag and the
   header lists anything, otherwise Last-Modified <= If-Modified-Since at one-second resolution; GET/HEAD only *)
Theorem C11_304_sound : forall pd env st0 etag lm acc cl p,
  make_conditional pd env st0 etag lm acc cl = Ok (MCResp 304 p) -> st0 <> 304 ->
  cond_method env = true /\ p = None /\ validators_match pd env etag lm = Ok true
  /\ exists im, parse_etags (q_if_match env) = Ok im /\ etags_truthy im = false.
Proof. exact cond_304_sound. Qed.
Print Assumptions C11_304_sound.

Example C11_304_example :
  make_conditional pd0 (mk_env None None None (S_ [42]) None) 200 (S_ t_abc) None AFalse None = Ok (MCResp 304 None)
  /\ make_conditional pd12 (mk_env None None (S_ [50]) None None) 200 None (S_ [49]) AFalse None = Ok (MCResp 304 None)
  /\ make_conditional pd12 (mk_env None None (S_ [49]) None None) 200 None (S_ [50]) AFalse None = Ok (MCResp 200 None).
Proof. exact (conj ex_304 ex_304_dates). Qed.
Print Assumptions C11_304_example.

(* always when they do: false in general on the faithful model (a satisfiable Range is served first; an admitted
   If-Match overwrites the date result) - both are known findings; true when no range is served and there is no
   If-Match *)
Theorem C11_304_complete_partial : forall pd env st0 etag lm acc cl im,
  cond_method env = true ->
  range_request_skipped pd env etag lm acc cl = Ok true ->
  parse_etags (q_if_match env) = Ok im -> etags_truthy im = false ->
  validators_match pd env etag lm = Ok true ->
  make_conditional pd env st0 etag lm acc cl = Ok (MCResp 304 None).
Proof. exact cond_304_complete_partial. Qed.
Print Assumptions C11_304_complete_partial.

Theorem C11_304_complete_refuted :
  ~ (forall pd env st0 etag lm acc cl,
       cond_method env = true -> validators_match pd env etag lm = Ok true ->
       make_conditional pd env st0 etag lm acc cl = Ok (MCResp 304 None)).
Proof. exact complete_304_refuted. Qed.
Print Assumptions C11_304_complete_refuted.

Theorem C11_304_complete_refuted_witnesses :
  (exists pd env st0 etag lm acc cl,
     cond_method env = true /\ validators_match pd env etag lm = Ok true /\
     make_conditional pd env st0 etag lm acc cl =
       Ok (MCResp 206 (Some (Some 0%Z, Some 2%Z, content_range_text 0 2 4, AStr s_bytes))))
  /\ (exists pd env st0 etag lm acc cl im,
     cond_method env = true /\ validators_match pd env etag lm = Ok true /\
     range_request_skipped pd env etag lm acc cl = Ok true /\
     parse_etags (q_if_match env) = Ok im /\ admits im (current_tag etag) = true /\
     make_conditional pd env st0 etag lm acc cl = Ok (MCResp 200 None)).
Proof. exact (conj complete_304_refuted_range_first complete_304_refuted_if_match). Qed.
Print Assumptions C11_304_complete_refuted_witnesses.

(* ---------------------------------------------------------------- 412 *)
(* only with an If-Match header that lists something, and - against a response that carries an ETag - only when
   it does not admit the current tag (neither * nor a strong member with the same opaque tag) *)
Theorem C11_412_only_if : forall pd env st0 etag lm acc cl p,
  make_conditional pd env st0 etag lm acc cl = Ok (MCResp 412 p) -> st0 <> 412 ->
  cond_method env = true /\ p = None /\
  exists im, parse_etags (q_if_match env) = Ok im /\ etags_truthy im = true /\
             (str_truthy etag = true -> admits im (current_tag etag) = false).
Proof. exact cond_412_only_if. Qed.
Print Assumptions C11_412_only_if.

Example C11_412_example :
  make_conditional pd0 (mk_env None None None None (S_ t_zzz)) 200 (S_ t_abc) None AFalse None = Ok (MCResp 412 None)
  /\ make_conditional pd0 (mk_env None None None None (S_ [42])) 200 (S_ t_abc) None AFalse None = Ok (MCResp 200 None).
Proof. exact ex_412. Qed.
Print Assumptions C11_412_example.

(* ================================================================ the header grammars (F) *)
(* the parsers are total: parse_etags on any text without LF (fuel never runs out), parse_range_header always
   (Range.__init__ never rejects what the loop built) *)
Theorem C11_parse_etags_total : forall v,
  match v with Some s => mem LF s = false | None => True end -> exists e, parse_etags v = Ok e.
Proof. exact parse_etags_total. Qed.
Print Assumptions C11_parse_etags_total.

Theorem C11_parse_range_header_total : forall v, exists r, parse_range_header v = Ok r.
Proof. exact parse_range_header_total. Qed.
Print Assumptions C11_parse_range_header_total.

(* str(int) is read back by _plain_int: the numbers in Content-Range and Content-Length mean what they say *)
Theorem C11_decimal_roundtrip : forall n,
  plain_int (dec_N n) = Some (Z.of_N n) /\ plain_int (DASH :: dec_N n) = Some (- Z.of_N n)%Z.
Proof. exact (fun n => conj (plain_int_dec n) (plain_int_neg_dec n)). Qed.
Print Assumptions C11_decimal_roundtrip.

(* Range: bytes=a-b on a resource of L > 0 bytes, as the only conditional header of a GET:
   206 for [a, min(b+1, L)) when a < L, otherwise 416 *)
Theorem C11_range_first_last : forall pd a b L acc etag lm st0,
  a <= b -> 0 < L -> accept_truthy acc = true ->
  make_conditional pd (range_env (hdr_first_last a b)) st0 etag lm acc (Some (Z.of_N L)) =
  if a <? L then served (Z.of_N a) (Z.min (Z.of_N b + 1) (Z.of_N L)) (Z.of_N L) acc
  else Ok (MC416 (Some (Z.of_N L))).
Proof. exact grammar_first_last. Qed.
Print Assumptions C11_range_first_last.

(* Range: bytes=a- *)
Theorem C11_range_first_open : forall pd a L acc etag lm st0,
  0 < L -> accept_truthy acc = true ->
  make_conditional pd (range_env (hdr_first_open a)) st0 etag lm acc (Some (Z.of_N L)) =
  if a <? L then served (Z.of_N a) (Z.of_N L) (Z.of_N L) acc else Ok (MC416 (Some (Z.of_N L))).
Proof. exact grammar_first_open. Qed.
Print Assumptions C11_range_first_open.

(* Range: bytes=-n with n > 0: the last n bytes; a suffix longer than the resource is answered 416 (what the
   code does - the property does not pin that case) *)
Theorem C11_range_suffix : forall pd n L acc etag lm st0,
  0 < n -> 0 < L -> accept_truthy acc = true ->
  make_conditional pd (range_env (hdr_suffix n)) st0 etag lm acc (Some (Z.of_N L)) =
  if n <=? L then served (Z.of_N L - Z.of_N n) (Z.of_N L) (Z.of_N L) acc else Ok (MC416 (Some (Z.of_N L))).
Proof. exact grammar_suffix. Qed.
Print Assumptions C11_range_suffix.

(* entity-tag lists: a rendered list of (weak?, opaque) tags parses back to exactly those tags, and the
   rendering of one tag is inverted by unquote_etag *)
Theorem C11_etag_list_grammar : forall l,
  forallb tag_ok l = true ->
  parse_etags (Some (render_tags l)) = Ok (mk_etags (strongs l) (weaks l) false).
Proof. exact parse_etags_render. Qed.
Print Assumptions C11_etag_list_grammar.

Theorem C11_etag_unquote : forall w (t : str),
  forallb etagc t = true -> unquote_etag (Some (render_tag (w, t))) = (Some t, Some w).
Proof. exact unquote_render. Qed.
Print Assumptions C11_etag_unquote.

(* If-None-Match with a list of tags against ETag (w, cur): 304 exactly when a listed tag has the same opaque
   tag (weak comparison), whatever If-Modified-Since says; If-Match: 412 exactly when no strong listed tag has
   it; the star forms *)
Theorem C11_if_none_match_grammar : forall pd l w (cur : str) ims lm st0 acc cl,
  forallb tag_ok l = true -> l <> [] -> forallb etagc cur = true ->
  make_conditional pd (inm_env (render_tags l) ims) st0 (Some (render_tag (w, cur))) lm acc cl =
  Ok (MCResp (if existsb (fun t : tag => list_eqb cur (snd t)) l then 304 else st0) None).
Proof. exact grammar_if_none_match. Qed.
Print Assumptions C11_if_none_match_grammar.

Theorem C11_if_match_grammar : forall pd l w (cur : str) lm st0 acc cl,
  forallb tag_ok l = true -> l <> [] -> forallb etagc cur = true ->
  make_conditional pd (im_env (render_tags l) None) st0 (Some (render_tag (w, cur))) lm acc cl =
  Ok (MCResp (if existsb (fun t : tag => negb (fst t) && list_eqb cur (snd t)) l then st0 else 412) None).
Proof. exact grammar_if_match. Qed.
Print Assumptions C11_if_match_grammar.

Theorem C11_star_grammar : forall pd w (cur : str) ims lm st0 acc cl,
  forallb etagc cur = true ->
  make_conditional pd (inm_env [STAR] ims) st0 (Some (render_tag (w, cur))) lm acc cl = Ok (MCResp 304 None)
  /\ make_conditional pd (im_env [STAR] None) st0 (Some (render_tag (w, cur))) lm acc cl = Ok (MCResp st0 None).
Proof. exact grammar_star. Qed.
Print Assumptions C11_star_grammar.

(* ================================================================ second round *)
(* the comparisons, offsets and slice bounds of wsgi._RangeWrapper and of http.parse_range_header are regenerated
   (C11/GenArith.v, under a pinned statement skeleton); these two theorems say what the model and the proofs
   rely on - an off-by-one edit in the source changes a generated definition and they stop checking *)
Theorem C11_range_wrapper_arithmetic :
  (forall rl (c : bytes), adv rl c = (rl + length c)%nat)
  /\ (forall rl start, skip_more rl start = (rl <=? start)%nat)
  /\ (forall rl, is_first rl = (rl =? 0)%nat)
  /\ (forall rl e, range_done rl e = (e <=? rl)%nat)
  /\ (forall rl, crl_seek rl = rl /\ crl_skip rl = rl /\ crl_plain rl = rl /\ seek_pos rl = rl)
  /\ (forall start len, end_of start len = (start + len)%nat) /\ initial_rl = 0%nat
  /\ (forall c e, rw_retry c e = negb c && negb e)
  /\ (forall (c : bytes) start rl, (start < rl)%nat -> first_cut c start rl = skipn (length c - (rl - start)) c)
  /\ (forall (c : bytes) e crl, (crl <= e)%nat -> last_cut c e crl = firstn (e - crl) c).
Proof. exact wrapper_arithmetic. Qed.
Print Assumptions C11_range_wrapper_arithmetic.

Theorem C11_parse_range_arithmetic :
  (forall l, prh_suffix_blocked l = (l <? 0)%Z) /\ (forall b, prh_suffix_empty b = (b =? 0)%Z) /\
  (forall b l, prh_begin_blocked b l = ((b <? l)%Z || (l <? 0)%Z)) /\ (forall p, prh_end_of p = (p + 1)%Z) /\
  (forall b e, prh_empty_range b e = (b >=? e)%Z) /\
  prh_last_end_init = 0%Z /\ prh_last_end_suffix = (-1)%Z /\
  (forall e, prh_last_end_next (Some e) = e) /\ prh_last_end_next None = (-1)%Z.
Proof. exact prh_specs. Qed.
Print Assumptions C11_parse_range_arithmetic.

(* 416 from the header text: for every Range header text, 416 iff range processing applies (GET/HEAD, guard passed)
   and the text is unparsable, or parses to another unit, several ranges, or one range not satisfiable for the
   length; the classes are exhaustive with the satisfiable one, for which the answer is that range *)
Theorem C11_416_from_text : forall pd env st0 etag lm acc cl l,
  make_conditional pd env st0 etag lm acc cl = Ok (MC416 l) <->
  (cond_method env = true /\ range_request_skipped pd env etag lm acc cl = Ok false /\ l = cl /\
   (text_unparsable (q_range env) \/ text_bad_range (q_range env) cl)).
Proof. exact c416_from_text. Qed.
Print Assumptions C11_416_from_text.

Theorem C11_range_text_trichotomy : forall h cl,
  text_unparsable h \/ text_bad_range h cl \/
  exists r s e, parse_range_header h = Ok (Some r) /\ range_for_length r cl = Ok (Some (Some s, Some e)).
Proof. exact text_trichotomy. Qed.
Print Assumptions C11_range_text_trichotomy.

Theorem C11_206_from_text : forall pd env st0 etag lm acc cl r s e,
  cond_method env = true -> range_request_skipped pd env etag lm acc cl = Ok false ->
  parse_range_header (q_range env) = Ok (Some r) -> range_for_length r cl = Ok (Some (Some s, Some e)) ->
  exists L, cl = Some L /\ make_conditional pd env st0 etag lm acc cl = served s e L acc.
Proof. exact c206_from_text. Qed.
Print Assumptions C11_206_from_text.

(* without If-Range, processing applies iff accept_ranges is on, the length is known and not zero, Range is present *)
Theorem C11_range_applies_no_if_range : forall pd env etag lm acc cl,
  q_if_range env = None ->
  (range_request_skipped pd env etag lm acc cl = Ok false <->
   accept_truthy acc = true /\ (exists L, cl = Some L /\ L <> 0%Z) /\ q_range env <> None).
Proof. exact applies_no_if_range. Qed.
Print Assumptions C11_range_applies_no_if_range.

(* text-level instances: no = sign; bytes=a-b,c-d; unit=a-b for another unit *)
Theorem C11_range_text_instances :
  (forall h, forallb (fun c => negb (EQS =? c)) h = true -> text_unparsable (Some h))
  /\ (forall pd a b c d L acc etag lm st0,
        a <= b -> b < c -> c <= d -> 0 < L -> accept_truthy acc = true ->
        make_conditional pd (range_env (hdr_two a b c d)) st0 etag lm acc (Some (Z.of_N L)) = Ok (MC416 (Some (Z.of_N L))))
  /\ (forall pd u a b L acc etag lm st0,
        a <= b -> forallb (fun c => negb (EQS =? c)) u = true -> list_eqb (lower (ustrip u)) s_bytes = false ->
        0 < L -> accept_truthy acc = true ->
        make_conditional pd (range_env (hdr_unit_first_last u a b)) st0 etag lm acc (Some (Z.of_N L))
        = Ok (MC416 (Some (Z.of_N L)))).
Proof. exact (conj text_without_equals (conj grammar_two_ranges grammar_other_unit)). Qed.
Print Assumptions C11_range_text_instances.

(* 304 exactly: the two side conditions are the two known findings, nothing else is excluded *)
Theorem C11_304_iff : forall pd env st0 etag lm acc cl,
  st0 <> 304 -> cond_method env = true ->
  (make_conditional pd env st0 etag lm acc cl = Ok (MCResp 304 None) <->
   range_request_skipped pd env etag lm acc cl = Ok true /\
   (exists im, parse_etags (q_if_match env) = Ok im /\ etags_truthy im = false) /\
   validators_match pd env etag lm = Ok true).
Proof. exact cond_304_iff. Qed.
Print Assumptions C11_304_iff.

(* If-Range carrying a date (any date parser pd), no If-None-Match / If-Match: the range is processed iff
   processing applies and floor_second(Last-Modified) <= that date, whatever ETag and If-Modified-Since are *)
Theorem C11_if_range_date : forall pd env etag lm acc cl v d,
  q_if_range env = Some v -> v <> [] -> pd v = Some d ->
  q_if_none_match env = None -> q_if_match env = None ->
  (range_request_skipped pd env etag lm acc cl = Ok false <->
   range_applicable env acc cl = true /\ q_range env <> None /\
   match lm with
   | Some l => match pd l with Some t => (floor_second t <=? d)%Z = true | None => False end
   | None => False
   end).
Proof. exact if_range_date. Qed.
Print Assumptions C11_if_range_date.

(* send_file over a file holding d (statements pinned, block size regenerated): a ranged answer is the declared
   slice of d with agreeing headers; any other answer has Content-Length = size and the whole file as body *)
Theorem C11_send_file_206 : forall pd env etag lm d st h cl ar out,
  send_file_respond pd env etag lm d = Ok (WResp st (Some h) cl ar out) ->
  exists s e : Z,
    st = 206 /\ (0 <= s < e)%Z /\ (e <= Z.of_nat (length d))%Z /\
    h = content_range_text s e (Z.of_nat (length d)) /\ cl = Some (dec_Z (e - s)) /\ ar = Some (AStr s_bytes) /\
    (if list_eqb (q_method env) s_HEAD then out = []
     else concat out = firstn (Z.to_nat (e - s)) (skipn (Z.to_nat s) d) /\ Forall (fun c => c <> []) out).
Proof. exact send_file_206. Qed.
Print Assumptions C11_send_file_206.

Theorem C11_send_file_200 : forall pd env etag lm d st cl ar out,
  send_file_respond pd env etag lm d = Ok (WResp st None cl ar out) ->
  (st = 200 \/ st = 304 \/ st = 412) /\ cl = Some (dec_Z (Z.of_nat (length d))) /\
  (list_eqb (q_method env) s_HEAD || no_body_status st = false -> concat out = d).
Proof. exact send_file_200. Qed.
Print Assumptions C11_send_file_200.

(* FileWrapper.seekable (regenerated): the file's own seekable() when it has that method, otherwise whether it has a
   seek attribute - so a forward-only io object (seekable() False, seek raising) goes down _RangeWrapper's reading
   path; C11_206_slice covers the BWrap bodies that use this decision *)
Theorem C11_file_wrapper_seekable : forall has_seekable file_seekable has_seek,
  file_wrapper_seekable has_seekable file_seekable has_seek = Ok (if has_seekable then file_seekable else has_seek).
Proof. exact file_wrapper_seekable_spec. Qed.
Print Assumptions C11_file_wrapper_seekable.

(* ================================================================ third round: exact forms and tight guards *)
(* is_resource_modified (regenerated) in closed form, for every input: no guard, so a deviation inside a class that
   a _partial theorem leaves out still contradicts this statement *)
Theorem C11_is_resource_modified_exact : forall pd r ifr ims inm im etag lm ign,
  is_resource_modified pd r ifr ims inm im etag lm ign = irm_spec pd r ifr ims inm im etag lm ign.
Proof. exact irm_correct. Qed.
Print Assumptions C11_is_resource_modified_exact.

(* make_conditional as a whole in specification vocabulary: the guard, then either the validator decision
   (decide_spec: 412 / 304 / unchanged, with If-Match before If-None-Match before the dates) or the range answer *)
Theorem C11_make_conditional_exact : forall pd env st0 etag lm acc cl,
  make_conditional pd env st0 etag lm acc cl =
  if cond_method env then
    skip <- range_request_skipped pd env etag lm acc cl ;;
    if skip then decide_spec pd env st0 etag lm
    else
      parsed <- parse_range_header (q_range env) ;;
      match parsed with
      | None => Ok (MC416 cl)
      | Some r => match rfl_spec r cl, cl with
                  | Some (Some s, Some e), Some L => served s e L acc
                  | _, _ => Ok (MC416 cl)
                  end
      end
  else Ok (MCResp st0 None).
Proof. exact make_conditional_exact. Qed.
Print Assumptions C11_make_conditional_exact.

(* the If-Range decision for every request with If-Range and Range, known deviations included *)
Theorem C11_if_range_exact : forall pd env etag lm v rg,
  q_if_range env = Some v -> q_range env = Some rg ->
  is_range_request_processable pd env etag lm = if_range_effective pd env etag lm.
Proof. exact if_range_exact. Qed.
Print Assumptions C11_if_range_exact.

(* under the guard of C11_if_range_failed_partial the effective decision is the specified (lenient) comparison *)
Theorem C11_if_range_effective_when_decides : forall pd env etag lm,
  if_range_decides pd env etag = true -> q_if_range env <> None ->
  if_range_effective pd env etag lm = Ok (if_range_matches false pd env etag lm).
Proof. exact if_range_effective_when_decides. Qed.
Print Assumptions C11_if_range_effective_when_decides.

(* every conjunct of that guard is needed: four witnesses, each failing one conjunct only, If-Range not matching,
   a 206 served *)
Theorem C11_if_range_guard_needed :
  (exists pd env etag lm p,
     q_if_match env = None /\ q_if_modified_since env = None /\ q_if_none_match env <> None /\
     if_range_matches false pd env etag lm = false /\
     make_conditional pd env 200 etag lm ATrue (Some 4%Z) = Ok (MCResp 206 (Some p)))
  /\ (exists pd env etag lm p,
     q_if_none_match env = None /\ q_if_modified_since env = None /\ q_if_match env <> None /\
     if_range_matches false pd env etag lm = false /\
     make_conditional pd env 200 etag lm ATrue (Some 4%Z) = Ok (MCResp 206 (Some p)))
  /\ (exists pd env etag lm p,
     q_if_none_match env = None /\ q_if_match env = None /\ etag = None /\
     ifr_etag (parse_if_range_header pd (q_if_range env)) <> None /\
     if_range_matches false pd env etag lm = false /\
     make_conditional pd env 200 etag lm ATrue (Some 4%Z) = Ok (MCResp 206 (Some p)))
  /\ (exists pd env etag lm p,
     q_if_none_match env = None /\ q_if_match env = None /\ q_if_range env = Some [] /\
     if_range_matches false pd env etag lm = false /\
     make_conditional pd env 200 etag lm ATrue (Some 4%Z) = Ok (MCResp 206 (Some p))).
Proof. exact if_range_guard_needed. Qed.
Print Assumptions C11_if_range_guard_needed.

(* both conjuncts of the guard of C11_304_complete_partial are needed, each alone (C11_304_iff says nothing else is) *)
Theorem C11_304_complete_guard_needed :
  (exists pd env etag lm acc cl p,
     cond_method env = true /\ validators_match pd env etag lm = Ok true /\
     parse_etags (q_if_match env) = Ok (mk_etags [] [] false) /\
     range_request_skipped pd env etag lm acc cl = Ok false /\
     make_conditional pd env 200 etag lm acc cl = Ok (MCResp 206 (Some p)))
  /\ (exists pd env etag lm acc cl im,
     cond_method env = true /\ validators_match pd env etag lm = Ok true /\
     range_request_skipped pd env etag lm acc cl = Ok true /\
     parse_etags (q_if_match env) = Ok im /\ etags_truthy im = true /\
     make_conditional pd env 200 etag lm acc cl = Ok (MCResp 200 None)).
Proof. exact complete_304_guard_needed. Qed.
Print Assumptions C11_304_complete_guard_needed.

(* a 416 always carries Content-Range: bytes * / complete-length (the length is known and not zero there) *)
Theorem C11_416_content_range : forall pd env st0 etag lm acc cl l,
  make_conditional pd env st0 etag lm acc cl = Ok (MC416 l) ->
  exists L, l = Some L /\ L <> 0%Z /\ content_range_416 l = Some (s_bytes ++ SP :: STAR :: SLASH :: dec_Z L).
Proof. exact c416_content_range. Qed.
Print Assumptions C11_416_content_range.

(* what Response.get_wsgi_headers lets through (regenerated _entity_headers / allowed tables, stripping statement
   pinned): on 304 Content-Length, Content-Type, Content-Range, Content-Encoding, Content-Language, Content-MD5,
   Last-Modified and Allow go; ETag, Date, Expires, Content-Location, Cache-Control, Vary, Accept-Ranges stay;
   on any status from 200 on other than 204 and 304 nothing is stripped *)
Theorem C11_304_headers :
  forallb (fun n => negb (wsgi_header_kept 304 n))
    [hn [67; 111; 110; 116; 101; 110; 116; 45; 76; 101; 110; 103; 116; 104];
     hn [67; 111; 110; 116; 101; 110; 116; 45; 84; 121; 112; 101];
     hn [67; 111; 110; 116; 101; 110; 116; 45; 82; 97; 110; 103; 101];
     hn [67; 111; 110; 116; 101; 110; 116; 45; 69; 110; 99; 111; 100; 105; 110; 103];
     hn [67; 111; 110; 116; 101; 110; 116; 45; 76; 97; 110; 103; 117; 97; 103; 101];
     hn [67; 111; 110; 116; 101; 110; 116; 45; 77; 68; 53];
     hn [76; 97; 115; 116; 45; 77; 111; 100; 105; 102; 105; 101; 100];
     hn [65; 108; 108; 111; 119]] = true
  /\ forallb (wsgi_header_kept 304)
    [hn [69; 84; 97; 103]; hn [68; 97; 116; 101]; hn [69; 120; 112; 105; 114; 101; 115];
     hn [67; 111; 110; 116; 101; 110; 116; 45; 76; 111; 99; 97; 116; 105; 111; 110];
     hn [67; 97; 99; 104; 101; 45; 67; 111; 110; 116; 114; 111; 108]; hn [86; 97; 114; 121];
     hn [65; 99; 99; 101; 112; 116; 45; 82; 97; 110; 103; 101; 115]] = true
  /\ (forall st n, st <> 304 -> 200 <= st -> st <> 204 -> wsgi_header_kept st n = true)
  /\ (forall n, wsgi_header_kept 304 n = true <->
        (existsb (list_eqb (lower n)) entity_headers = false \/ existsb (list_eqb (lower n)) entity_allowed = true)).
Proof. exact headers_304. Qed.
Print Assumptions C11_304_headers.
