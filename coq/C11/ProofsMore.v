(* C11 proofs.  Part 9: exact characterisation of the 304 answer, the If-Range date path, send_file. *)
From Coq Require Import ZArith Lia ZifyBool ZifyN.
From Wz Require Import lib.Bytes lib.BytesFacts C11.GenArith C11.Base C11.Gen C11.Model C11.ProofsRange C11.ProofsWrapper
  C11.ProofsCond C11.ProofsResp C11.ProofsRefute C11.ProofsParse C11.ProofsGrammar.
Open Scope N_scope.

(* ------------------------------------------------------------------ 304, exactly *)
(* for GET / HEAD: 304 iff no range processing happens, If-Match lists nothing, and the validators match.
   The two conditions besides validators_match are exactly the two known findings. *)
Lemma cond_304_iff pd env st0 etag lm acc cl :
  st0 <> 304 -> cond_method env = true ->
  (make_conditional pd env st0 etag lm acc cl = Ok (MCResp 304 None) <->
   range_request_skipped pd env etag lm acc cl = Ok true /\
   (exists im, parse_etags (q_if_match env) = Ok im /\ etags_truthy im = false) /\
   validators_match pd env etag lm = Ok true).
Proof.
  intros Hst Hm. split.
  - intro H. destruct (cond_304_sound _ _ _ _ _ _ _ _ H Hst) as (_ & _ & Hv & Him).
    split; [|split; assumption].
    rewrite mc_unfold, Hm in H.
    destruct (process_range_request pd env etag lm acc cl) as [o|] eqn:E; cbn [bind] in H; [|discriminate].
    pose proof (prr_cases _ _ _ _ _ _ _ E) as Hc. destruct o; [exact Hc|discriminate|discriminate].
  - intros (Hs & (im & Him & Tim) & Hv). apply cond_304_complete_partial with im; assumption.
Qed.

(* ------------------------------------------------------------------ If-Range carrying a date *)
(* no If-None-Match / If-Match in the request, If-Range parses as the instant d: the range is processed iff
   processing applies and Last-Modified (parsed, floored to the second) is not later than d - whatever the
   response's ETag and the request's If-Modified-Since are *)
Lemma if_range_date pd env etag lm acc cl v d :
  q_if_range env = Some v -> v <> [] -> pd v = Some d ->
  q_if_none_match env = None -> q_if_match env = None ->
  (range_request_skipped pd env etag lm acc cl = Ok false <->
   range_applicable env acc cl = true /\ q_range env <> None /\
   match lm with
   | Some l => match pd l with Some t => (floor_second t <=? d)%Z = true | None => False end
   | None => False
   end).
Proof.
  intros Hv Hne Hd H1 H2.
  assert (Hp : parse_if_range_header pd (Some v) = {| ifr_etag := None; ifr_date := Some d |}).
  { unfold parse_if_range_header. destruct v; [congruence|]. rewrite Hd. reflexivity. }
  assert (Hdec : if_range_decides pd env etag = true).
  { unfold if_range_decides. rewrite H1, H2, Hv, Hp. cbn. rewrite orb_true_r. reflexivity. }
  rewrite (range_processed_iff _ _ _ _ _ _ Hdec). unfold if_range_matches. rewrite Hv, Hp. cbn [ifr_date].
  unfold date_match, lm_norm, lm_of_header.
  destruct lm as [l|]; cbn [option_map].
  - destruct (pd l) as [t|]; cbn [option_map]; split; intros (A & B & C); repeat split; try assumption; try discriminate;
      try contradiction.
  - split; intros (A & B & C); [discriminate|contradiction].
Qed.

(* ------------------------------------------------------------------ send_file *)
Lemma send_file_body d : concat (full_body (BFile d (N.to_nat file_wrapper_buffer_size))) = d.
Proof. cbn [full_body]. apply blocks_concat. unfold file_wrapper_buffer_size. lia. Qed.

(* a ranged answer of send_file: the declared slice of the file, Content-Length and Content-Range agreeing,
   Accept-Ranges: bytes *)
Lemma send_file_206 pd env etag lm d st h cl ar out :
  send_file_respond pd env etag lm d = Ok (WResp st (Some h) cl ar out) ->
  exists s e : Z,
    st = 206 /\ (0 <= s < e)%Z /\ (e <= Z.of_nat (length d))%Z /\
    h = content_range_text s e (Z.of_nat (length d)) /\ cl = Some (dec_Z (e - s)) /\ ar = Some (AStr s_bytes) /\
    (if list_eqb (q_method env) s_HEAD then out = []
     else concat out = firstn (Z.to_nat (e - s)) (skipn (Z.to_nat s) d) /\ Forall (fun c => c <> []) out).
Proof.
  unfold send_file_respond. intro H.
  match type of H with respond _ _ ?r _ _ = _ =>
    destruct (respond_206 pd env r ATrue d st h cl ar out (send_file_body d) H)
      as (s & e & H1 & H2 & H3 & H4 & H5 & H6 & H7 & _) end.
  exists s, e. repeat split; try assumption; try lia.
Qed.

(* any other answer of send_file: the size as Content-Length, the whole file as body (unless HEAD / 304) *)
Lemma send_file_200 pd env etag lm d st cl ar out :
  send_file_respond pd env etag lm d = Ok (WResp st None cl ar out) ->
  (st = 200 \/ st = 304 \/ st = 412) /\ cl = Some (dec_Z (Z.of_nat (length d))) /\
  (list_eqb (q_method env) s_HEAD || no_body_status st = false -> concat out = d).
Proof.
  unfold send_file_respond. intro H. pose proof (respond_200 _ _ _ _ _ _ _ _ _ H) as (_ & Hst & Hout).
  cbn [i_status i_body] in *. split; [exact Hst|]. split.
  - unfold respond in H.
    destruct (make_conditional pd env _ _ _ ATrue _) as [[l|st' [[[[a c] h'] ar']|]]|]; cbn [bind] in H; try discriminate.
    + destruct (to_nat_ a); cbn [bind] in H; [|discriminate]. destruct (to_nat_ c); cbn [bind] in H; [|discriminate].
      match type of H with context [bind ?m _] => destruct m end; cbn [bind] in H; discriminate.
    + cbn [i_content_length] in H. injection H as _ <- _ _. reflexivity.
  - intro Hb. rewrite Hout, Hb. apply send_file_body.
Qed.

(* the regenerated arithmetic of _RangeWrapper, gathered for C11/Props.v *)
Lemma wrapper_arithmetic :
  (forall rl (c : bytes), adv rl c = (rl + length c)%nat)
  /\ (forall rl start, skip_more rl start = (rl <=? start)%nat)
  /\ (forall rl, is_first rl = (rl =? 0)%nat)
  /\ (forall rl e, range_done rl e = (e <=? rl)%nat)
  /\ (forall rl, crl_seek rl = rl /\ crl_skip rl = rl /\ crl_plain rl = rl /\ seek_pos rl = rl)
  /\ (forall start len, end_of start len = (start + len)%nat) /\ initial_rl = 0%nat
  /\ (forall c e, rw_retry c e = negb c && negb e)
  /\ (forall (c : bytes) start rl, (start < rl)%nat -> first_cut c start rl = skipn (length c - (rl - start)) c)
  /\ (forall (c : bytes) e crl, (crl <= e)%nat -> last_cut c e crl = firstn (e - crl) c).
Proof.
  repeat split; intros;
    first [apply adv_spec | apply skip_more_spec | apply is_first_spec | apply range_done_spec | apply crl_specs
          | apply end_of_spec | apply first_cut_spec; assumption | apply last_cut_spec; assumption | reflexivity].
Qed.

(* ------------------------------------------------------------------ the decision in closed form, for every request *)
(* what make_conditional answers when no range is served, in specification vocabulary; no guard: every combination
   of If-None-Match / If-Match / If-Modified-Since / ETag / Last-Modified is covered, so a deviation inside a class
   that a _partial theorem excludes still contradicts this one *)
Definition decide_spec (pd : str -> option Z) (env : environ) (st0 : N) (etag lm : option str) : res mc_outcome :=
  if str_truthy etag then
    inm <- parse_etags (q_if_none_match env) ;;
    im <- parse_etags (q_if_match env) ;;
    let t := current_tag etag in
    let unmodified := if etags_truthy im then negb (admits im t)
                      else if etags_truthy inm then weak_match inm t else date_matches pd env lm in
    Ok (MCResp (if unmodified then (if etags_truthy im then 412 else 304) else st0) None)
  else if date_matches pd env lm then
    im <- parse_etags (q_if_match env) ;; Ok (MCResp (if etags_truthy im then 412 else 304) None)
  else Ok (MCResp st0 None).

Lemma decide_exact pd env st0 etag lm : decide pd env st0 etag lm = decide_spec pd env st0 etag lm.
Proof.
  unfold decide, decide_spec. rewrite irm_env_true. destruct (str_truthy etag).
  - destruct (parse_etags (q_if_none_match env)) as [inm|]; cbn [bind]; [|reflexivity].
    destruct (parse_etags (q_if_match env)) as [im|] eqn:Eim; cbn [bind]; [|reflexivity].
    rewrite contains_is_admits, contains_weak_is_weak_match.
    destruct (if etags_truthy im then negb (admits im (current_tag etag))
              else if etags_truthy inm then weak_match inm (current_tag etag) else date_matches pd env lm);
      cbn [negb bind]; [|reflexivity]. destruct (etags_truthy im); reflexivity.
  - destruct (date_matches pd env lm); cbn [negb bind]; [|reflexivity].
    destruct (parse_etags (q_if_match env)) as [im|]; cbn [bind]; [|reflexivity]. destruct (etags_truthy im); reflexivity.
Qed.

(* make_conditional as a whole *)
Lemma make_conditional_exact pd env st0 etag lm acc cl :
  make_conditional pd env st0 etag lm acc cl =
  if cond_method env then
    skip <- range_request_skipped pd env etag lm acc cl ;;
    if skip then decide_spec pd env st0 etag lm
    else
      parsed <- parse_range_header (q_range env) ;;
      match parsed with
      | None => Ok (MC416 cl)
      | Some r => match rfl_spec r cl, cl with
                  | Some (Some s, Some e), Some L => served s e L acc
                  | _, _ => Ok (MC416 cl)
                  end
      end
  else Ok (MCResp st0 None).
Proof.
  rewrite mc_unfold. destruct (cond_method env); [|reflexivity]. unfold process_range_request.
  destruct (range_request_skipped pd env etag lm acc cl) as [[|]|]; cbn [bind]; [apply decide_exact| |reflexivity].
  destruct (parse_range_header (q_range env)) as [[r|]|]; cbn [bind]; try reflexivity.
  unfold to_content_range_header. rewrite rfl_correct. cbn [bind].
  destruct (rfl_spec r cl) as [[a b]|] eqn:E; [|reflexivity].
  destruct (rfl_spec_shape _ _ _ _ E) as (L & s & e & -> & -> & -> & _ & _ & Hu).
  cbn [sub_ arith2 bind fmt_pint]. unfold served, content_range_text. rewrite Hu. destruct acc; reflexivity.
Qed.

(* the If-Range decision in closed form, for every request that carries If-Range and Range: this is what the code
   does, known deviations included (other validators step in when If-Range is a date or cannot be compared) *)
Definition if_range_effective (pd : str -> option Z) (env : environ) (etag lm : option str) : res bool :=
  let i := parse_if_range_header pd (q_if_range env) in
  let ms := match ifr_date i with Some d => Some d | None => parse_date_opt pd (q_if_modified_since env) end in
  let u0 := date_match ms (lm_norm pd (lm_of_header lm)) in
  if str_truthy etag then
    match ifr_etag i with
    | Some e => Ok (ostr_eqb (Some e) (current_tag etag))
    | None =>
      inm <- parse_etags (q_if_none_match env) ;;
      im <- parse_etags (q_if_match env) ;;
      Ok (if etags_truthy im then negb (admits im (current_tag etag))
          else if etags_truthy inm then weak_match inm (current_tag etag) else u0)
    end
  else Ok u0.

Lemma if_range_exact pd env etag lm v rg :
  q_if_range env = Some v -> q_range env = Some rg ->
  is_range_request_processable pd env etag lm = if_range_effective pd env etag lm.
Proof.
  intros Hv Hr. unfold is_range_request_processable, is_resource_modified_env, if_range_effective.
  rewrite Hv, Hr. cbn [is_none is_some or_ and_ bind]. rewrite irm_correct. unfold irm_spec. cbn [negb andb is_some is_none].
  destruct (parse_if_range_header pd (Some v)) as [[e|] [d|]]; cbn [ifr_date ifr_etag];
    destruct (str_truthy etag); cbn [bind not_ negb and_].
  all: try (destruct (parse_etags (q_if_none_match env)) as [inm|]; cbn [bind]; [|reflexivity]).
  all: try (destruct (parse_etags (q_if_match env)) as [im|]; cbn [bind]; [|reflexivity]).
  all: rewrite ?contains_is_admits, ?contains_weak_is_weak_match; unfold current_tag; cbn [and_ not_ bind].
  all: repeat match goal with
       | |- context [admits ?a ?b] => destruct (admits a b)
       | |- context [weak_match ?a ?b] => destruct (weak_match a b)
       | |- context [ostr_eqb ?a ?b] => destruct (ostr_eqb a b)
       | |- context [date_match ?a ?b] => destruct (date_match a b)
       | |- context [etags_truthy ?a] => destruct (etags_truthy a)
       end; reflexivity.
Qed.

(* where the guard of C11_if_range_failed_partial holds, the effective decision is the specified one *)
Lemma if_range_effective_when_decides pd env etag lm :
  if_range_decides pd env etag = true -> q_if_range env <> None ->
  if_range_effective pd env etag lm = Ok (if_range_matches false pd env etag lm).
Proof.
  unfold if_range_decides, if_range_effective, if_range_matches. intros Hd Hv.
  apply andb_prop in Hd. destruct Hd as [Hd H3]. apply andb_prop in Hd. destruct Hd as [H1 H2].
  destruct (q_if_none_match env); [discriminate|]. destruct (q_if_match env); [discriminate|].
  destruct (q_if_range env) as [v|]; [|congruence].
  destruct (parse_if_range_header pd (Some v)) as [[e|] [d|]] eqn:Ep; cbn [ifr_date ifr_etag is_some is_none negb orb andb] in *.
  - exfalso. exact (pih_not_both _ _ _ _ Ep).
  - destruct (str_truthy etag); cbn [andb].
    + rewrite andb_true_r. reflexivity.
    + rewrite orb_false_r in H3. destruct (q_if_modified_since env); [discriminate|]. reflexivity.
  - destruct (str_truthy etag); cbn [parse_etags mk_etags bind etags_truthy e_star e_strong e_weak nonempty_l orb]; reflexivity.
  - rewrite !orb_false_r in H3. destruct (q_if_modified_since env); [discriminate|].
    destruct (str_truthy etag); cbn [parse_etags mk_etags bind etags_truthy e_star e_strong e_weak nonempty_l orb parse_date_opt date_match];
      reflexivity.
Qed.

(* ------------------------------------------------------------------ every conjunct of the guards is needed *)
Definition t_e : str := [34; 34].
(* each witness: If-Range does not match (lenient), exactly one conjunct of if_range_decides fails, and a 206 is served *)
Lemma if_range_guard_needed :
  (* If-None-Match present *)
  (exists pd env etag lm p,
     q_if_match env = None /\ q_if_modified_since env = None /\ q_if_none_match env <> None /\
     if_range_matches false pd env etag lm = false /\
     make_conditional pd env 200 etag lm ATrue (Some 4%Z) = Ok (MCResp 206 (Some p)))
  (* If-Match present *)
  /\ (exists pd env etag lm p,
     q_if_none_match env = None /\ q_if_modified_since env = None /\ q_if_match env <> None /\
     if_range_matches false pd env etag lm = false /\
     make_conditional pd env 200 etag lm ATrue (Some 4%Z) = Ok (MCResp 206 (Some p)))
  (* If-Modified-Since present, entity-tag If-Range, response without ETag *)
  /\ (exists pd env etag lm p,
     q_if_none_match env = None /\ q_if_match env = None /\ etag = None /\
     ifr_etag (parse_if_range_header pd (q_if_range env)) <> None /\
     if_range_matches false pd env etag lm = false /\
     make_conditional pd env 200 etag lm ATrue (Some 4%Z) = Ok (MCResp 206 (Some p)))
  (* If-Modified-Since present, empty If-Range *)
  /\ (exists pd env etag lm p,
     q_if_none_match env = None /\ q_if_match env = None /\ q_if_range env = Some [] /\
     if_range_matches false pd env etag lm = false /\
     make_conditional pd env 200 etag lm ATrue (Some 4%Z) = Ok (MCResp 206 (Some p))).
Proof.
  split; [|split; [|split]].
  - exists pd12, (mk_env (S_ r_0_1) (S_ [49]) None (S_ t_abc) None), (S_ t_abc), (S_ [50]). eexists.
    repeat split; try discriminate; vm_compute; reflexivity.
  - exists pd12, (mk_env (S_ r_0_1) (S_ [49]) None None (S_ t_zzz)), (S_ t_abc), (S_ [50]). eexists.
    repeat split; try discriminate; vm_compute; reflexivity.
  - exists pd12, (mk_env (S_ r_0_1) (S_ t_abc) (S_ [50]) None None), None, (S_ [49]). eexists.
    repeat split; try discriminate; vm_compute; reflexivity.
  - exists pd12, (mk_env (S_ r_0_1) (S_ []) (S_ [50]) None None), None, (S_ [49]). eexists.
    repeat split; try discriminate; vm_compute; reflexivity.
Qed.

(* both conjuncts of the guard of C11_304_complete_partial are needed, each alone *)
Lemma complete_304_guard_needed :
  (exists pd env etag lm acc cl p,
     cond_method env = true /\ validators_match pd env etag lm = Ok true /\
     parse_etags (q_if_match env) = Ok (mk_etags [] [] false) /\
     range_request_skipped pd env etag lm acc cl = Ok false /\
     make_conditional pd env 200 etag lm acc cl = Ok (MCResp 206 (Some p)))
  /\ (exists pd env etag lm acc cl im,
     cond_method env = true /\ validators_match pd env etag lm = Ok true /\
     range_request_skipped pd env etag lm acc cl = Ok true /\
     parse_etags (q_if_match env) = Ok im /\ etags_truthy im = true /\
     make_conditional pd env 200 etag lm acc cl = Ok (MCResp 200 None)).
Proof.
  split.
  - exists pd0, (mk_env (S_ r_0_1) None None (S_ t_abc) None), (S_ t_abc), None, ATrue, (Some 4%Z). eexists.
    repeat split; vm_compute; reflexivity.
  - exists pd12, (mk_env None None (S_ [50]) None (S_ t_abc)), (S_ t_abc), (S_ [49]), AFalse, (Some 4%Z). eexists.
    repeat split; vm_compute; reflexivity.
Qed.

(* ------------------------------------------------------------------ headers around the status *)
Lemma skipped_false_length pd env etag lm acc cl :
  range_request_skipped pd env etag lm acc cl = Ok false -> exists L, cl = Some L /\ L <> 0%Z.
Proof.
  unfold range_request_skipped. destruct (accept_truthy acc); cbn [not_ or_ bind negb]; [|discriminate].
  destruct cl as [L|]; cbn [is_none or_ bind]; [|discriminate]. cbn [eq_ bind pint_eqb].
  destruct (Z.eqb_spec L 0); cbn [or_ bind]; [discriminate|]. intros _. exists L. split; [reflexivity|assumption].
Qed.

(* a 416 always carries Content-Range: bytes */<complete length> *)
Lemma c416_content_range pd env st0 etag lm acc cl l :
  make_conditional pd env st0 etag lm acc cl = Ok (MC416 l) ->
  exists L, l = Some L /\ L <> 0%Z /\ content_range_416 l = Some (s_bytes ++ SP :: STAR :: SLASH :: dec_Z L).
Proof.
  intro H. apply cond_416 in H. destruct H as (_ & Hs & -> & _).
  destruct (skipped_false_length _ _ _ _ _ _ Hs) as (L & -> & HL). exists L. repeat split; assumption.
Qed.

Definition hn (l : list N) : str := l.
(* on 304 the WSGI header list loses exactly the entity headers of the regenerated table, except Expires and
   Content-Location; the validators and everything else stay *)
Lemma headers_304 :
  forallb (fun n => negb (wsgi_header_kept 304 n))
    [hn [67; 111; 110; 116; 101; 110; 116; 45; 76; 101; 110; 103; 116; 104];        (* Content-Length *)
     hn [67; 111; 110; 116; 101; 110; 116; 45; 84; 121; 112; 101];                  (* Content-Type *)
     hn [67; 111; 110; 116; 101; 110; 116; 45; 82; 97; 110; 103; 101];              (* Content-Range *)
     hn [67; 111; 110; 116; 101; 110; 116; 45; 69; 110; 99; 111; 100; 105; 110; 103]; (* Content-Encoding *)
     hn [67; 111; 110; 116; 101; 110; 116; 45; 76; 97; 110; 103; 117; 97; 103; 101]; (* Content-Language *)
     hn [67; 111; 110; 116; 101; 110; 116; 45; 77; 68; 53];                         (* Content-MD5 *)
     hn [76; 97; 115; 116; 45; 77; 111; 100; 105; 102; 105; 101; 100];              (* Last-Modified *)
     hn [65; 108; 108; 111; 119]] = true                                            (* Allow *)
  /\ forallb (wsgi_header_kept 304)
    [hn [69; 84; 97; 103]; hn [68; 97; 116; 101]; hn [69; 120; 112; 105; 114; 101; 115];   (* ETag Date Expires *)
     hn [67; 111; 110; 116; 101; 110; 116; 45; 76; 111; 99; 97; 116; 105; 111; 110];        (* Content-Location *)
     hn [67; 97; 99; 104; 101; 45; 67; 111; 110; 116; 114; 111; 108]; hn [86; 97; 114; 121]; (* Cache-Control Vary *)
     hn [65; 99; 99; 101; 112; 116; 45; 82; 97; 110; 103; 101; 115]] = true                  (* Accept-Ranges *)
  /\ (forall st n, st <> 304 -> 200 <= st -> st <> 204 -> wsgi_header_kept st n = true)
  /\ (forall n, wsgi_header_kept 304 n = true <->
        (existsb (list_eqb (lower n)) entity_headers = false \/ existsb (list_eqb (lower n)) entity_allowed = true)).
Proof.
  split; [vm_compute; reflexivity|]. split; [vm_compute; reflexivity|]. split.
  - intros st n H1 H2 H3. unfold wsgi_header_kept.
    replace ((100 <=? st) && (st <? 200) || (st =? 204)) with false by lia.
    replace (st =? 304) with false by lia. reflexivity.
  - intro n. unfold wsgi_header_kept. cbn [N.leb N.ltb N.eqb Pos.eqb andb orb].
    change ((100 <=? 304) && (304 <? 200) || (304 =? 204)) with false. cbv iota.
    change (304 =? 304) with true. cbv iota.
    destruct (existsb (list_eqb (lower n)) entity_headers), (existsb (list_eqb (lower n)) entity_allowed); cbn; intuition discriminate.
Qed.
