(* C11 proofs.  Part 9: exact characterisation of the 304 answer, the If-Range date path, send_file. *)
From Coq Require Import ZArith Lia ZifyBool ZifyN.
From Wz Require Import lib.Bytes lib.BytesFacts C11.GenArith C11.Base C11.Gen C11.Model C11.ProofsRange C11.ProofsWrapper
  C11.ProofsCond C11.ProofsResp C11.ProofsRefute C11.ProofsParse C11.ProofsGrammar.
Open Scope N_scope.

(* ------------------------------------------------------------------ 304, exactly *)
(* for GET / HEAD: 304 iff no range processing happens, If-Match lists nothing, and the validators match.
   The two conditions besides validators_match are exactly the two known findings. *)
Lemma cond_304_iff pd env st0 etag lm acc cl :
  st0 <> 304 -> cond_method env = true ->
  (make_conditional pd env st0 etag lm acc cl = Ok (MCResp 304 None) <->
   range_request_skipped pd env etag lm acc cl = Ok true /\
   (exists im, parse_etags (q_if_match env) = Ok im /\ etags_truthy im = false) /\
   validators_match pd env etag lm = Ok true).
Proof.
  intros Hst Hm. split.
  - intro H. destruct (cond_304_sound _ _ _ _ _ _ _ _ H Hst) as (_ & _ & Hv & Him).
    split; [|split; assumption].
    rewrite mc_unfold, Hm in H.
    destruct (process_range_request pd env etag lm acc cl) as [o|] eqn:E; cbn [bind] in H; [|discriminate].
    pose proof (prr_cases _ _ _ _ _ _ _ E) as Hc. destruct o; [exact Hc|discriminate|discriminate].
  - intros (Hs & (im & Him & Tim) & Hv). apply cond_304_complete_partial with im; assumption.
Qed.

(* ------------------------------------------------------------------ If-Range carrying a date *)
(* no If-None-Match / If-Match in the request, If-Range parses as the instant d: the range is processed iff
   processing applies and Last-Modified (parsed, floored to the second) is not later than d - whatever the
   response's ETag and the request's If-Modified-Since are *)
Lemma if_range_date pd env etag lm acc cl v d :
  q_if_range env = Some v -> v <> [] -> pd v = Some d ->
  q_if_none_match env = None -> q_if_match env = None ->
  (range_request_skipped pd env etag lm acc cl = Ok false <->
   range_applicable env acc cl = true /\ q_range env <> None /\
   match lm with
   | Some l => match pd l with Some t => (floor_second t <=? d)%Z = true | None => False end
   | None => False
   end).
Proof.
  intros Hv Hne Hd H1 H2.
  assert (Hp : parse_if_range_header pd (Some v) = {| ifr_etag := None; ifr_date := Some d |}).
  { unfold parse_if_range_header. destruct v; [congruence|]. rewrite Hd. reflexivity. }
  assert (Hdec : if_range_decides pd env etag = true).
  { unfold if_range_decides. rewrite H1, H2, Hv, Hp. cbn. rewrite orb_true_r. reflexivity. }
  rewrite (range_processed_iff _ _ _ _ _ _ Hdec). unfold if_range_matches. rewrite Hv, Hp. cbn [ifr_date].
  unfold date_match, lm_norm, lm_of_header.
  destruct lm as [l|]; cbn [option_map].
  - destruct (pd l) as [t|]; cbn [option_map]; split; intros (A & B & C); repeat split; try assumption; try discriminate;
      try contradiction.
  - split; intros (A & B & C); [discriminate|contradiction].
Qed.

(* ------------------------------------------------------------------ send_file *)
Lemma send_file_body d : concat (full_body (BFile d (N.to_nat file_wrapper_buffer_size))) = d.
Proof. cbn [full_body]. apply blocks_concat. unfold file_wrapper_buffer_size. lia. Qed.

(* a ranged answer of send_file: the declared slice of the file, Content-Length and Content-Range agreeing,
   Accept-Ranges: bytes *)
Lemma send_file_206 pd env etag lm d st h cl ar out :
  send_file_respond pd env etag lm d = Ok (WResp st (Some h) cl ar out) ->
  exists s e : Z,
    st = 206 /\ (0 <= s < e)%Z /\ (e <= Z.of_nat (length d))%Z /\
    h = content_range_text s e (Z.of_nat (length d)) /\ cl = Some (dec_Z (e - s)) /\ ar = Some (AStr s_bytes) /\
    (if list_eqb (q_method env) s_HEAD then out = []
     else concat out = firstn (Z.to_nat (e - s)) (skipn (Z.to_nat s) d) /\ Forall (fun c => c <> []) out).
Proof.
  unfold send_file_respond. intro H.
  match type of H with respond _ _ ?r _ _ = _ =>
    destruct (respond_206 pd env r ATrue d st h cl ar out (send_file_body d) H)
      as (s & e & H1 & H2 & H3 & H4 & H5 & H6 & H7 & _) end.
  exists s, e. repeat split; try assumption; try lia.
Qed.

(* any other answer of send_file: the size as Content-Length, the whole file as body (unless HEAD / 304) *)
Lemma send_file_200 pd env etag lm d st cl ar out :
  send_file_respond pd env etag lm d = Ok (WResp st None cl ar out) ->
  (st = 200 \/ st = 304 \/ st = 412) /\ cl = Some (dec_Z (Z.of_nat (length d))) /\
  (list_eqb (q_method env) s_HEAD || no_body_status st = false -> concat out = d).
Proof.
  unfold send_file_respond. intro H. pose proof (respond_200 _ _ _ _ _ _ _ _ _ H) as (_ & Hst & Hout).
  cbn [i_status i_body] in *. split; [exact Hst|]. split.
  - unfold respond in H.
    destruct (make_conditional pd env _ _ _ ATrue _) as [[l|st' [[[[a c] h'] ar']|]]|]; cbn [bind] in H; try discriminate.
    + destruct (to_nat_ a); cbn [bind] in H; [|discriminate]. destruct (to_nat_ c); cbn [bind] in H; [|discriminate].
      match type of H with context [bind ?m _] => destruct m end; cbn [bind] in H; discriminate.
    + cbn [i_content_length] in H. injection H as _ <- _ _. reflexivity.
  - intro Hb. rewrite Hout, Hb. apply send_file_body.
Qed.

(* the regenerated arithmetic of _RangeWrapper, gathered for C11/Props.v *)
Lemma wrapper_arithmetic :
  (forall rl (c : bytes), adv rl c = (rl + length c)%nat)
  /\ (forall rl start, skip_more rl start = (rl <=? start)%nat)
  /\ (forall rl, is_first rl = (rl =? 0)%nat)
  /\ (forall rl e, range_done rl e = (e <=? rl)%nat)
  /\ (forall rl, crl_seek rl = rl /\ crl_skip rl = rl /\ crl_plain rl = rl /\ seek_pos rl = rl)
  /\ (forall start len, end_of start len = (start + len)%nat) /\ initial_rl = 0%nat
  /\ (forall c e, rw_retry c e = negb c && negb e)
  /\ (forall (c : bytes) start rl, (start < rl)%nat -> first_cut c start rl = skipn (length c - (rl - start)) c)
  /\ (forall (c : bytes) e crl, (crl <= e)%nat -> last_cut c e crl = firstn (e - crl) c).
Proof.
  repeat split; intros;
    first [apply adv_spec | apply skip_more_spec | apply is_first_spec | apply range_done_spec | apply crl_specs
          | apply end_of_spec | apply first_cut_spec; assumption | apply last_cut_spec; assumption | reflexivity].
Qed.
