(* C11: executable model of Range.to_content_range_header, Response._process_range_request,
   Response.make_conditional, wsgi.FileWrapper, wsgi._RangeWrapper and the body the WSGI response
   carries.  Definitions only.  The decision functions it calls (is_byte_range_valid,
   range_for_length, is_resource_modified, the processable / skipped guards, the method tuple and
   the status codes) come from C11/Gen.v, regenerated from /repo on every run. *)
From Coq Require Import ZArith.
From Wz Require Import lib.Bytes C11.GenArith C11.Base C11.Gen.
Open Scope N_scope.

(* f"{x}" of an int-or-None *)
Definition s_None : str := [78; 111; 110; 101].
Definition fmt_pint (p : pint) : str := match p with Some z => dec_Z z | None => s_None end.

(* datastructures.Range.to_content_range_header *)
Definition to_content_range_header (self : range) (length : pint) : res (option str) :=
  r <- range_for_length self length ;;
  match r with
  | None => Ok None
  | Some (a, b) =>
    b1 <- sub_ (Ok b) (Ok (Some 1%Z)) ;;
    Ok (Some (r_units self ++ SP :: fmt_pint a ++ DASH :: fmt_pint b1 ++ SLASH :: fmt_pint length))
  end.

(* ------------------------------------------------------------------ Response._process_range_request *)
Inductive range_outcome :=
| RSkip                                              (* return False *)
| R416 (complete_length : pint)                      (* raise RequestedRangeNotSatisfiable(complete_length) *)
| R206 (start content_length : pint) (content_range : str) (accept_ranges : accept).

Section Dates.
Variable parse_date : str -> option Z.

Definition process_range_request (env : environ) (etag last_modified : option str)
    (accept_ranges : accept) (complete_length : pint) : res range_outcome :=
  skip <- range_request_skipped parse_date env etag last_modified accept_ranges complete_length ;;
  if skip then Ok RSkip
  else
    let ar := match accept_ranges with ATrue => AStr s_bytes | x => x end in
    parsed <- parse_range_header (q_range env) ;;
    match parsed with
    | None => Ok (R416 complete_length)
    | Some r =>
      range_tuple <- range_for_length r complete_length ;;
      content_range_header <- to_content_range_header r complete_length ;;
      match range_tuple, content_range_header with
      | Some (a, b), Some h =>
        content_length <- sub_ (Ok b) (Ok a) ;;
        Ok (R206 a content_length h ar)
      | _, _ => Ok (R416 complete_length)
      end
    end.

(* ------------------------------------------------------------------ Response.make_conditional *)
Inductive mc_outcome :=
| MC416 (complete_length : pint)
| MCResp (status : N) (partial : option (pint * pint * str * accept)).   (* start, length, Content-Range, Accept-Ranges *)

Definition make_conditional (env : environ) (status0 : N) (etag last_modified : option str)
    (accept_ranges : accept) (complete_length : pint) : res mc_outcome :=
  if existsb (list_eqb (q_method env)) conditional_methods then
    pr <- process_range_request env etag last_modified accept_ranges complete_length ;;
    match pr with
    | R416 l => Ok (MC416 l)
    | R206 a cl h ar => Ok (MCResp status_partial_content (Some (a, cl, h, ar)))
    | RSkip =>
      modified <- is_resource_modified_env parse_date env etag (lm_of_header last_modified) true ;;
      if negb modified then
        im <- parse_etags (q_if_match env) ;;
        if etags_truthy im then Ok (MCResp status_precondition_failed None)
        else Ok (MCResp status_not_modified None)
      else Ok (MCResp status0 None)
    end
  else Ok (MCResp status0 None).
End Dates.

(* ------------------------------------------------------------------ bodies *)
(* wsgi.FileWrapper.__next__ over a file positioned at the start of d: blocks of bs bytes, the last
   one shorter, never empty; read(0) returns nothing, so bs = 0 yields no block *)
Fixpoint blocks_aux (bs : nat) (cur : bytes) (room : nat) (d : bytes) : list bytes :=
  match d with
  | [] => match cur with [] => [] | _ :: _ => [rev cur] end
  | x :: r =>
    match room with
    | S O => rev (x :: cur) :: blocks_aux bs [] bs r
    | _ => blocks_aux bs (x :: cur) (pred room) r
    end
  end.
Definition blocks (bs : nat) (d : bytes) : list bytes :=
  match bs with O => [] | S _ => blocks_aux bs [] bs d end.

Inductive body_src :=
| BList (chunks : list bytes)            (* a list, a generator, a wrapper without seek: iterated in order *)
| BFile (data : bytes) (bs : nat)        (* FileWrapper over a seekable file holding data, buffer_size bs *)
| BWrap (data : bytes) (bs : nat) (has_seekable file_seekable has_seek : bool).
  (* FileWrapper over any file object holding data: whether the object has a seekable() method, what it answers,
     whether it has a seek attribute; FileWrapper.seekable() (regenerated) decides which path _RangeWrapper takes *)

Definition full_body (b : body_src) : list bytes :=
  match b with BList c => c | BFile d bs => blocks bs d | BWrap d bs _ _ _ => blocks bs d end.

(* ------------------------------------------------------------------ wsgi._RangeWrapper *)
(* The statement structure of __init__ / _next_chunk / _first_iteration / _next / __next__ is pinned by the
   translator; every comparison, offset and slice bound below is a regenerated rw_* function of C11/GenArith.v
   (over Z, as in Python), reached through the wrappers of this block. *)
Record rw := { rw_it : list bytes; rw_rl : nat; rw_end : bool }.

(* Python slices chunk[k:] and chunk[:k] for any integer k *)
Definition py_from (c : bytes) (k : Z) : bytes :=
  if (k <? 0)%Z then skipn (Z.to_nat (Z.max 0 (Z.of_nat (length c) + k))) c else skipn (Z.to_nat k) c.
Definition py_to (c : bytes) (k : Z) : bytes :=
  if (k <? 0)%Z then firstn (Z.to_nat (Z.max 0 (Z.of_nat (length c) + k))) c else firstn (Z.to_nat k) c.

Definition adv (rl : nat) (c : bytes) : nat := rl + Z.to_nat (rw_advance (Z.of_nat (length c))).
Definition skip_more (rl start : nat) : bool := rw_skip_more (Z.of_nat rl) (Z.of_nat start).
Definition first_cut (c : bytes) (start rl : nat) : bytes := py_from c (rw_first_index (Z.of_nat start) (Z.of_nat rl)).
Definition is_first (rl : nat) : bool := rw_is_first (Z.of_nat rl).
Definition range_done (rl end_byte : nat) : bool := rw_range_done true (Z.of_nat rl) (Z.of_nat end_byte).
Definition last_cut (c : bytes) (end_byte crl : nat) : bytes := py_to c (rw_cut_index (Z.of_nat end_byte) (Z.of_nat crl)).
Definition crl_seek (rl : nat) : nat := Z.to_nat (rw_crl_seek (Z.of_nat rl)).
Definition crl_skip (start : nat) : nat := Z.to_nat (rw_crl_skip (Z.of_nat start)).
Definition crl_plain (rl : nat) : nat := Z.to_nat (rw_crl_plain (Z.of_nat rl)).
Definition seek_pos (start : nat) : nat := Z.to_nat (rw_seek_pos (Z.of_nat start)).
Definition end_of (start len : nat) : nat := Z.to_nat (rw_end_byte (Z.of_nat start) (Z.of_nat len)).
Definition initial_rl : nat := Z.to_nat rw_initial_read_length.

(* _next_chunk: None = StopIteration (end_reached set) *)
Definition next_chunk (s : rw) : option bytes * rw :=
  match rw_it s with
  | [] => (None, {| rw_it := []; rw_rl := rw_rl s; rw_end := true |})
  | c :: r => (Some c, {| rw_it := r; rw_rl := adv (rw_rl s) c; rw_end := rw_end s |})
  end.

(* the while loop of _first_iteration without seek: inl = loop left, inr = StopIteration *)
Fixpoint first_skip (it : list bytes) (rl start : nat) (chunk : option bytes) : (option bytes * rw) + rw :=
  if skip_more rl start then
    match it with
    | [] => inr {| rw_it := []; rw_rl := rl; rw_end := true |}
    | c :: r => first_skip r (adv rl c) start (Some c)
    end
  else inl (chunk, {| rw_it := it; rw_rl := rl; rw_end := false |}).

Section Wrapper.
Variable seekable : bool.
Variable seek : nat -> list bytes.  (* what the iterable yields after seek(p); tell() = p afterwards *)
Variable start_byte : nat.
Variable end_byte : nat.

(* _next: (None, s) = StopIteration *)
Definition next_ (s : rw) : option bytes * rw :=
  if rw_end s then (None, s)
  else
    let first :=
      if is_first (rw_rl s) then
        if seekable then
          let pos := seek_pos start_byte in
          let s1 := {| rw_it := seek pos; rw_rl := pos; rw_end := rw_end s |} in
          inl (None, crl_seek (rw_rl s1), s1)
        else match first_skip (rw_it s) (rw_rl s) start_byte None with
             | inl (ch, s') => inl (option_map (fun c => first_cut c start_byte (rw_rl s')) ch, crl_skip start_byte, s')
             | inr s' => inr s'
             end
      else inl (None, crl_plain (rw_rl s), s) in
    match first with
    | inr s' => (None, s')
    | inl (chunk, crl, s1) =>
      let '(chunk', s2) := match chunk with Some c => (Some c, s1) | None => next_chunk s1 end in
      match chunk' with
      | None => (None, s2)
      | Some c =>
        if range_done (rw_rl s2) end_byte
        then (Some (last_cut c end_byte crl), {| rw_it := rw_it s2; rw_rl := rw_rl s2; rw_end := true |})
        else (Some c, s2)
      end
    end.

(* __next__ called until StopIteration: the chunks yielded *)
Fixpoint drive (fuel : nat) (s : rw) : res (list bytes) :=
  match fuel with
  | O => Raise OutOfFuel
  | S f =>
    match next_ s with
    | (None, _) => Ok []
    | (Some c, s') =>
      if rw_retry (nonempty c) (rw_end s') then drive f s'      (* while not chunk and not self.end_reached *)
      else if nonempty c then r <- drive f s' ;; Ok (c :: r)
      else Ok []
    end
  end.
End Wrapper.

Definition rw_list (chunks : list bytes) (start len : nat) : res (list bytes) :=
  drive false (fun _ => []) start (end_of start len) (S (S (length chunks)))
    {| rw_it := chunks; rw_rl := initial_rl; rw_end := false |}.
Definition rw_file (d : bytes) (bs start len : nat) : res (list bytes) :=
  let it := blocks bs d in
  let sk := fun p => blocks bs (skipn p d) in
  drive true sk start (end_of start len) (S (S (length it + length (sk (seek_pos start)))))
    {| rw_it := it; rw_rl := initial_rl; rw_end := false |}.

Definition range_wrapper (b : body_src) (start len : nat) : res (list bytes) :=
  match b with
  | BList chunks => rw_list chunks start len
  | BFile d bs => rw_file d bs start len
  | BWrap d bs hs fs hk =>
    seekable <- file_wrapper_seekable hs fs hk ;;
    if seekable then rw_file d bs start len else rw_list (blocks bs d) start len
  end.

(* ------------------------------------------------------------------ the response as a whole *)
Record resp_in := {
  i_status : N;
  i_etag : option str;               (* ETag header *)
  i_last_modified : option str;      (* Last-Modified header *)
  i_content_length : option str;     (* Content-Length header set beforehand *)
  i_passthrough : bool;              (* direct_passthrough *)
  i_body : body_src }.

Inductive wsgi_out :=
| W416 (complete_length : pint)
| WResp (status : N) (content_range : option str) (content_length : option str)
        (accept_ranges : option accept) (body : list bytes).

Definition no_body_status (status : N) : bool :=
  ((100 <=? status) && (status <? 200)) || (status =? 204) || (status =? 304).
Definition s_HEAD : str := [72; 69; 65; 68].
Definition body_total (b : body_src) : Z := Z.of_nat (length (concat (full_body b))).
Definition to_nat_ (p : pint) : res nat :=
  match p with Some z => if (z <? 0)%Z then Raise ValueError else Ok (Z.to_nat z) | None => Raise TypeError end.

Section Respond.
Variable parse_date : str -> option Z.

Definition respond (env : environ) (r : resp_in) (accept_ranges : accept) (complete_length : pint) : res wsgi_out :=
  mc <- make_conditional parse_date env (i_status r) (i_etag r) (i_last_modified r) accept_ranges complete_length ;;
  let head := list_eqb (q_method env) s_HEAD in
  match mc with
  | MC416 l => Ok (W416 l)
  | MCResp status (Some (a, cl, h, ar)) =>
    start <- to_nat_ a ;; len <- to_nat_ cl ;;
    body <- (if head || no_body_status status then Ok [] else range_wrapper (i_body r) start len) ;;
    Ok (WResp status (Some h) (Some (fmt_pint cl)) (Some ar) body)
  | MCResp status None =>
    let cl := match i_content_length r with
              | Some v => Some v
              | None => if existsb (list_eqb (q_method env)) conditional_methods && negb (i_passthrough r)
                        then Some (dec_Z (body_total (i_body r))) else None
              end in
    Ok (WResp status None cl None (if head || no_body_status status then [] else full_body (i_body r)))
  end.
End Respond.

(* ------------------------------------------------------------------ utils.send_file(file, environ, etag=..., last_modified=..., conditional=True)
   for a file object holding d: Response(wrap_file(environ, file), direct_passthrough=True), content_length = size,
   then make_conditional(environ, accept_ranges=True, complete_length=size) - the statements are pinned by the
   translator, the block size is wrap_file's regenerated default.  etag / last_modified are the header texts
   send_file put on the response. *)
Definition send_file_respond (parse_date : str -> option Z) (env : environ) (etag last_modified : option str)
    (d : bytes) : res wsgi_out :=
  let size := Z.of_nat (length d) in
  respond parse_date env
    {| i_status := 200; i_etag := etag; i_last_modified := last_modified; i_content_length := Some (dec_Z size);
       i_passthrough := true; i_body := BFile d (N.to_nat file_wrapper_buffer_size) |}
    ATrue (Some size).

(* ------------------------------------------------------------------ headers around the status *)
(* RequestedRangeNotSatisfiable(length).get_headers(): Content-Range: <units> */<length> when the length is known *)
Definition content_range_416 (l : pint) : option str :=
  match l with
  | Some _ => Some (unsatisfiable_units ++ SP :: STAR :: SLASH :: fmt_pint l)
  | None => None
  end.

(* Response.get_wsgi_headers: is a header of the response (name compared in lower case) still there in the WSGI
   header list - entity headers go on 304 except the allowed ones, Content-Length goes on 1xx / 204 *)
Definition s_content_length : str := [99; 111; 110; 116; 101; 110; 116; 45; 108; 101; 110; 103; 116; 104].
Definition wsgi_header_kept (status : N) (name : str) : bool :=
  let n := lower name in
  if ((100 <=? status) && (status <? 200)) || (status =? 204) then negb (list_eqb n s_content_length)
  else if status =? 304 then negb (existsb (list_eqb n) entity_headers) || existsb (list_eqb n) entity_allowed
  else true.
