(* facts about the N-indexed list helpers of Base.v (shared with C19) *)
From Coq Require Import ZArith Lia ZifyBool ZifyN.
From Wz Require Import lib.Bytes C09.Base.
Open Scope N_scope.

Lemma lenN_nil : lenN [] = 0.
Proof. reflexivity. Qed.

Lemma lenN_cons x l : lenN (x :: l) = lenN l + 1.
Proof. unfold lenN. cbn [length]. lia. Qed.

Lemma lenN_app a b : lenN (a ++ b) = lenN a + lenN b.
Proof. unfold lenN. rewrite app_length. lia. Qed.

Lemma lenN_zero_iff l : lenN l = 0 <-> l = [].
Proof. unfold lenN. destruct l; cbn [length]; split; intro H; try reflexivity; try discriminate; lia. Qed.

Lemma takeN_dropN n l : takeN n l ++ dropN n l = l.
Proof. apply firstn_skipn. Qed.

Lemma lenN_takeN n l : lenN (takeN n l) = N.min n (lenN l).
Proof. unfold lenN, takeN. rewrite firstn_length. lia. Qed.

Lemma lenN_dropN n l : lenN (dropN n l) = lenN l - n.
Proof. unfold lenN, dropN. rewrite skipn_length. lia. Qed.

Lemma lenN_zerosN n : lenN (zerosN n) = n.
Proof. unfold lenN, zerosN. rewrite repeat_length. lia. Qed.

Lemma takeN_app_exact a b : takeN (lenN a) (a ++ b) = a.
Proof.
  unfold takeN, lenN. rewrite Nat2N.id. rewrite firstn_app, Nat.sub_diag, firstn_all.
  cbn [firstn]. apply app_nil_r.
Qed.

Lemma dropN_app_exact a b : dropN (lenN a) (a ++ b) = b.
Proof.
  unfold dropN, lenN. rewrite Nat2N.id. rewrite skipn_app, Nat.sub_diag, skipn_all.
  reflexivity.
Qed.

Lemma takeN_all n l : lenN l <= n -> takeN n l = l.
Proof. unfold takeN, lenN. intro H. apply firstn_all2. lia. Qed.

Lemma takeN_0 l : takeN 0 l = [].
Proof. reflexivity. Qed.

Lemma dropN_0 l : dropN 0 l = l.
Proof. reflexivity. Qed.

Lemma dropN_dropN a b l : dropN a (dropN b l) = dropN (b + a) l.
Proof.
  unfold dropN. replace (N.to_nat (b + a)) with (N.to_nat b + N.to_nat a)%nat by lia.
  generalize (N.to_nat b) as m. intro m. revert l.
  induction m as [|m IH]; intro l; cbn [Nat.add skipn]; [reflexivity|].
  destruct l as [|x l]; [destruct (N.to_nat a); reflexivity|]. apply IH.
Qed.

Lemma takeN_app_le n a b : n <= lenN a -> takeN n (a ++ b) = takeN n a.
Proof.
  unfold takeN, lenN. intro H. rewrite firstn_app.
  replace (N.to_nat n - length a)%nat with 0%nat by lia. cbn [firstn]. apply app_nil_r.
Qed.

Lemma dropN_all n l : lenN l <= n -> dropN n l = [].
Proof. unfold dropN, lenN. intro H. apply skipn_all2. lia. Qed.

(* the slice of D between offsets a and a + k, as used by the trace predicates *)
Lemma slice_app D t x r : D = t ++ x ++ r -> takeN (lenN x) (dropN (lenN t) D) = x.
Proof. intro H. subst D. rewrite dropN_app_exact. apply takeN_app_exact. Qed.
