(* C09 proofs.  The generated definitions of Gen.v are unfolded here: an edit of the source that
   changes a comparison, a hook, the slice source or a decision breaks these proofs. *)
From Coq Require Import ZArith Lia ZifyBool ZifyN.
From Wz Require Import lib.Bytes lib.BytesFacts C09.Base C09.BaseFacts C09.Gen C09.Model C09.GenRI.
Open Scope N_scope.

(* ------------------------------------------------------------------ pins *)
Lemma plain_int_pattern_pinned :
  list_eqb plain_int_re_text [45; 63; 92; 100; 43] && (plain_int_re_flags =? 256)
  && list_eqb te_literal [99; 104; 117; 110; 107; 101; 100] && (0 <? readall_chunk) = true.
Proof. vm_compute. reflexivity. Qed.

Lemma slice_fix_present : ri_slice_fix = true.
Proof. reflexivity. Qed.

Lemma chunk_pos : 0 < readall_chunk.
Proof. vm_compute. reflexivity. Qed.

Ltac spl := repeat match goal with |- _ /\ _ => split end.

(* ------------------------------------------------------------------ one readinto *)
Lemma hook_disc_false m k :
  hook (on_disconnect_gen m false) k = if m then k else CExn ClientDisconnected.
Proof. unfold hook, on_disconnect_gen. destruct m; reflexivity. Qed.

Lemma hook_disc_true m k : hook (on_disconnect_gen m true) k = CExn ClientDisconnected.
Proof. unfold hook, on_disconnect_gen. destruct m; reflexivity. Qed.

Lemma hook_exh m k :
  hook (on_exhausted_gen m) k = if m then CExn RequestEntityTooLarge else k.
Proof. unfold hook, on_exhausted_gen. destruct m; reflexivity. Qed.

Lemma lenN_cons_nz x d : (lenN (x :: d) =? 0) = false.
Proof. rewrite lenN_cons. lia. Qed.

Lemma core_eq s u kind size : readinto_core true s u kind size = core_spec s u size.
Proof.
  unfold readinto_core, core_spec. cbv zeta.
  unfold ri_exhausted, ri_remaining, ri_size, ri_fits, ri_tempsize, ri_readsize.
  rewrite hook_exh.
  replace (Z.of_N (limit s) - Z.of_N (pos s) <=? 0)%Z with (limit s <=? pos s) by lia.
  destruct (limit s <=? pos s) eqn:Hex; [reflexivity|].
  set (rem := limit s - pos s).
  assert (Hrem : Z.to_N (Z.of_N (limit s) - Z.of_N (pos s)) = rem) by (unfold rem; lia).
  destruct (u_has_readinto u).
  - destruct (Z.of_N size <=? Z.of_N (limit s) - Z.of_N (pos s))%Z eqn:Hfit.
    + replace (Z.to_N (Z.of_N size)) with (N.min size rem) by (unfold rem; lia).
      destruct (und_read u (N.min size rem)) as [[d|] u']; [|apply f_equal2; [|reflexivity]; apply f_equal2; [|reflexivity]; apply hook_disc_true].
      destruct d as [|x d].
      * cbn [lenN length N.of_nat N.eqb]. rewrite hook_disc_false. reflexivity.
      * rewrite lenN_cons_nz. reflexivity.
    + rewrite Hrem. replace rem with (N.min size rem) at 1 by (unfold rem; lia).
      destruct (und_read u (N.min size rem)) as [[d|] u'] eqn:Hr;
        [|apply f_equal2; [|reflexivity]; apply f_equal2; [|reflexivity]; apply hook_disc_true].
      destruct d as [|x d].
      * cbn [lenN length N.of_nat N.eqb]. rewrite hook_disc_false. reflexivity.
      * rewrite lenN_cons_nz. rewrite takeN_app_exact.
        unfold slice_assign_ok. destruct kind; [|rewrite N.eqb_refl]; rewrite ?lenN_cons_nz; reflexivity.
  - replace (Z.to_N (Z.min (Z.of_N size) (Z.of_N (limit s) - Z.of_N (pos s)))) with (N.min size rem)
      by (unfold rem; lia).
    destruct (und_read u (N.min size rem)) as [[d|] u'];
      [|apply f_equal2; [|reflexivity]; apply f_equal2; [|reflexivity]; apply hook_disc_true].
    unfold slice_assign_ok. destruct d as [|x d].
    + destruct kind; cbn [lenN length N.of_nat N.eqb]; rewrite hook_disc_false; reflexivity.
    + destruct kind; [|rewrite N.eqb_refl]; rewrite ?lenN_cons_nz; reflexivity.
Qed.

(* ------------------------------------------------------------------ the underlying stream *)
Lemma und_read_got u n d u' : und_read u n = (UGot d, u') ->
  u_taken u' = u_taken u ++ d /\ u_data u = d ++ u_data u' /\ lenN d <= n /\
  u_calls u' = u_calls u + 1 /\ u_has_readinto u' = u_has_readinto u /\
  (exists m, d = takeN m (u_data u) /\ m <= n /\
     (benign (u_sched u) = true -> 0 < n -> 0 < m) /\ (benign (u_sched u) = true -> benign (u_sched u') = true)).
Proof.
  unfold und_read, und_give. destruct (u_sched u) as [|[k|] r] eqn:Hs; intro H; inversion H; subst; clear H;
    cbn [u_taken u_data u_calls u_has_readinto u_sched].
  - split; [reflexivity|]. split; [symmetry; apply takeN_dropN|]. split; [rewrite lenN_takeN; lia|].
    split; [reflexivity|]. split; [reflexivity|].
    exists n. split; [reflexivity|]. split; [lia|]. split; auto.
  - split; [reflexivity|]. split; [symmetry; apply takeN_dropN|]. split; [rewrite lenN_takeN; lia|].
    split; [reflexivity|]. split; [reflexivity|].
    exists (N.min k n). cbn [benign forallb]. split; [reflexivity|]. split; [lia|]. split.
    + intros Hb Hn. apply andb_prop in Hb. destruct Hb as [Hk _]. lia.
    + intro Hb. apply andb_prop in Hb. apply Hb.
Qed.

Lemma und_read_err u n u' : und_read u n = (UErr, u') ->
  u_taken u' = u_taken u /\ u_data u' = u_data u /\ u_calls u' = u_calls u + 1 /\
  u_has_readinto u' = u_has_readinto u /\ benign (u_sched u) = false.
Proof.
  unfold und_read, und_give. destruct (u_sched u) as [|[k|] r] eqn:Hs; intro H; inversion H; subst; clear H.
  cbn [u_taken u_data u_calls u_has_readinto]. repeat split; reflexivity.
Qed.

(* ------------------------------------------------------------------ the invariant *)
Definition Inv (D : bytes) (s : ls) (u : und) : Prop :=
  u_taken u ++ u_data u = D /\ pos s = lenN (u_taken u) /\ pos s <= limit s.

Definition same_cfg (s s' : ls) (u u' : und) : Prop :=
  limit s' = limit s /\ is_max s' = is_max s /\ u_has_readinto u' = u_has_readinto u.

Lemma core_step D s u size c s' u' : Inv D s u -> core_spec s u size = (c, s', u') ->
  Inv D s' u' /\ same_cfg s s' u u' /\
  match c with
  | CWrite n src =>
      n = lenN src /\ src <> [] /\ u_taken u' = u_taken u ++ src /\ u_data u = src ++ u_data u' /\
      n <= size /\ pos s' = pos s + n /\ u_calls u' = u_calls u + 1 /\ pos s < limit s
  | CZero =>
      s' = s /\ u_taken u' = u_taken u /\ u_data u' = u_data u /\
      ((limit s <= pos s /\ is_max s = false /\ u' = u) \/
       (pos s < limit s /\ is_max s = true /\ u_calls u' = u_calls u + 1))
  | CExn e =>
      s' = s /\ u_taken u' = u_taken u /\ u_data u' = u_data u /\
      ((e = RequestEntityTooLarge /\ is_max s = true /\ limit s <= pos s /\ u' = u) \/
       (e = ClientDisconnected /\ pos s < limit s /\ u_calls u' = u_calls u + 1))
  end.
Proof.
  intros [Hd [Hp Hl]]. unfold core_spec, same_cfg, Inv.
  destruct (limit s <=? pos s) eqn:Hex.
  - destruct (is_max s) eqn:Hm; intro H; inversion H; subst; clear H; rewrite ?Hm; spl; auto.
    + left. spl; auto. lia.
    + left. spl; auto. lia.
  - destruct (und_read u (N.min size (limit s - pos s))) as [[d|] u1] eqn:Hr.
    + apply und_read_got in Hr. destruct Hr as [Ht [Hdat [Hlen [Hc [Hri _]]]]].
      destruct d as [|x d].
      * rewrite app_nil_r in Ht. cbn [app] in Hdat.
        destruct (is_max s) eqn:Hm; intro H; inversion H; subst; clear H; rewrite ?Hm; spl; auto;
          try congruence.
        -- right. spl; auto. lia.
        -- right. spl; auto. lia.
      * intro H; inversion H; subst; clear H. cbn [advance pos limit is_max].
        spl; auto; try lia; try discriminate.
        -- rewrite Ht, Hdat, <- app_assoc. reflexivity.
        -- rewrite Ht, lenN_app. lia.
    + apply und_read_err in Hr. destruct Hr as [Ht [Hdat [Hc [Hri _]]]].
      intro H; inversion H; subst; clear H.
      spl; auto; try congruence.
      right. spl; auto. lia.
Qed.

Lemma read_eq s u n : read s u n = read_spec s u n.
Proof.
  unfold read, read_g, read_spec. rewrite slice_fix_present, core_eq.
  unfold core_spec. destruct (limit s <=? pos s); [destruct (is_max s); reflexivity|].
  destruct (und_read u (N.min n (limit s - pos s))) as [[d|] u1]; [|reflexivity].
  destruct d as [|x d]; [destruct (is_max s); reflexivity|].
  rewrite takeN_all by lia. reflexivity.
Qed.

Lemma readinto_eq s u kind b : readinto s u kind b = readinto_spec s u b.
Proof. unfold readinto, readinto_g, readinto_spec. rewrite slice_fix_present, core_eq. reflexivity. Qed.

(* ------------------------------------------------------------------ operations keep the invariant *)
Lemma is_exhausted_eq s : is_exhausted s = (limit s <=? pos s).
Proof. unfold is_exhausted, is_exhausted_gen. lia. Qed.

(* one operation: invariant kept, configuration unchanged, x = the bytes newly taken from the
   underlying stream; a result that is not an exception yields exactly x *)
Definition good (D : bytes) (s : ls) (u : und) (r : out * ls * und) : Prop :=
  let '(o, s', u') := r in
  Inv D s' u' /\ same_cfg s s' u u' /\
  exists x, u_taken u' = u_taken u ++ x /\ u_data u = x ++ u_data u' /\
    match o with Exn e => allowed e | _ => delivered o = x end.

Lemma same_cfg_refl s u : same_cfg s s u u.
Proof. unfold same_cfg. auto. Qed.

Lemma same_cfg_trans s s1 s2 u u1 u2 : same_cfg s s1 u u1 -> same_cfg s1 s2 u1 u2 -> same_cfg s s2 u u2.
Proof. unfold same_cfg. intros [A [B C]] [A' [B' C']]. spl; congruence. Qed.

Lemma read_good D s u n : Inv D s u -> good D s u (read s u n).
Proof.
  intro HI. rewrite read_eq. unfold read_spec.
  destruct (core_spec s u n) as [[c s1] u1] eqn:Hc. apply (core_step D) in Hc; [|exact HI].
  destruct Hc as [HI1 [Hcfg Hc]]. destruct c as [k src| |e]; unfold good.
  - destruct Hc as [_ [_ [Ht [Hd _]]]]. spl; auto. exists src. auto.
  - destruct Hc as [_ [Ht [Hd _]]]. spl; auto. exists []. rewrite app_nil_r. cbn [app]. spl; auto.
  - destruct Hc as [_ [Ht [Hd He]]]. spl; auto. exists []. rewrite app_nil_r. cbn [app]. spl; auto.
    unfold allowed. destruct He as [[He _]|[He _]]; auto.
Qed.

Lemma readinto_good D s u kind b : Inv D s u -> good D s u (readinto s u kind b).
Proof.
  intro HI. rewrite readinto_eq. unfold readinto_spec.
  destruct (core_spec s u (lenN b)) as [[c s1] u1] eqn:Hc. apply (core_step D) in Hc; [|exact HI].
  destruct Hc as [HI1 [Hcfg Hc]]. destruct c as [k src| |e]; unfold good.
  - destruct Hc as [Hk [_ [Ht [Hd _]]]]. spl; auto. exists src. spl; auto.
    cbn [delivered]. subst k. apply takeN_app_exact.
  - destruct Hc as [_ [Ht [Hd _]]]. spl; auto. exists []. rewrite app_nil_r. cbn [app]. spl; auto.
  - destruct Hc as [_ [Ht [Hd He]]]. spl; auto. exists []. rewrite app_nil_r. cbn [app]. spl; auto.
    unfold allowed. destruct He as [[He _]|[He _]]; auto.
Qed.

(* the loop of readall: never out of fuel, never RequestEntityTooLarge from inside the loop, the
   number of underlying calls is bounded by the bytes remaining, and with a declared length a
   normal return means the limit was reached *)
Lemma readall_loop_good D : forall fuel s u acc, Inv D s u -> (length (u_data u) < fuel)%nat ->
  match readall_loop fuel s u acc with
  | (o, s', u') =>
    Inv D s' u' /\ same_cfg s s' u u' /\
    u_calls u' <= u_calls u + (limit s - pos s) /\
    exists x, u_taken u' = u_taken u ++ x /\ u_data u = x ++ u_data u' /\
      match o with
      | Exn e => e = ClientDisconnected
      | OkB d => d = acc ++ x /\ (is_max s = false -> pos s' = limit s')
      | _ => False
      end
  end.
Proof.
  induction fuel as [|f IH]; intros s u acc HI Hf; [inversion Hf|].
  cbn [readall_loop]. rewrite is_exhausted_eq. destruct (limit s <=? pos s) eqn:Hex.
  - destruct HI as [Hd [Hp Hl]]. spl; auto; try apply same_cfg_refl; try lia.
    + unfold Inv. auto.
    + exists []. rewrite !app_nil_r. spl; auto. intros _. lia.
  - rewrite read_eq. unfold read_spec.
    destruct (core_spec s u readall_chunk) as [[c s1] u1] eqn:Hc. apply (core_step D) in Hc; [|exact HI].
    destruct Hc as [HI1 [Hcfg Hc]]. destruct c as [k src| |e].
    + destruct Hc as [Hk [Hne [Ht [Hd [_ [Hpos [Hcalls Hlt]]]]]]].
      destruct src as [|y src']; [congruence|].
      specialize (IH s1 u1 (acc ++ y :: src') HI1).
      assert (Hf1 : (length (u_data u1) < f)%nat).
      { rewrite Hd, app_length in Hf. cbn [length] in Hf. lia. }
      specialize (IH Hf1).
      destruct (readall_loop f s1 u1 (acc ++ y :: src')) as [[o s2] u2].
      destruct IH as [HI2 [Hcfg2 [Hcalls2 [x [Ht2 [Hd2 Ho]]]]]].
      destruct HI1 as [_ [_ Hl1]]. destruct Hcfg as [Hlim [Hmax Hri]].
      spl; auto.
      * eapply same_cfg_trans; [|exact Hcfg2]. unfold same_cfg. auto.
      * rewrite Hlim in *. assert (1 <= k) by (subst k; rewrite lenN_cons; lia). lia.
      * exists ((y :: src') ++ x). rewrite Ht2, Ht, Hd, Hd2, <- !app_assoc. spl; auto.
        destruct o as [d| | |e]; auto. destruct Ho as [Ho1 Ho2]. rewrite <- app_assoc in Ho1.
        split; [exact Ho1|]. rewrite Hmax in Ho2. exact Ho2.
    + destruct Hc as [Hs [Ht [Hd Hor]]]. subst s1.
      destruct Hor as [[Hor _]|[Hlt [Hm Hcalls]]]; [lia|].
      spl; auto; try lia. exists []. rewrite !app_nil_r. cbn [app]. spl; auto.
      rewrite Hm. discriminate.
    + destruct Hc as [Hs [Ht [Hd Hor]]]. subst s1.
      destruct Hor as [[_ [_ [Hor _]]]|[He [Hlt Hcalls]]]; [lia|].
      spl; auto; try lia. exists []. rewrite !app_nil_r. cbn [app]. spl; auto.
Qed.

Lemma readall_good_full D s u : Inv D s u ->
  match readall s u with
  | (o, s', u') =>
    Inv D s' u' /\ same_cfg s s' u u' /\
    u_calls u' <= u_calls u + (limit s - pos s) /\
    exists x, u_taken u' = u_taken u ++ x /\ u_data u = x ++ u_data u' /\
      match o with
      | Exn e => (e = ClientDisconnected /\ pos s < limit s) \/
                 (e = RequestEntityTooLarge /\ is_max s = true /\ pos s' = limit s')
      | OkB d => d = x /\ (is_max s = false -> pos s' = limit s') /\ (is_max s = true -> pos s' < limit s')
      | _ => False
      end
  end.
Proof.
  intro HI. unfold readall, readall_g, readall_post. rewrite is_exhausted_eq. destruct (limit s <=? pos s) eqn:Hex.
  - unfold on_exhausted_gen. destruct HI as [Hd [Hp Hl]].
    destruct (is_max s) eqn:Hm; (spl; [unfold Inv; auto|apply same_cfg_refl|lia|]);
      exists []; rewrite !app_nil_r; cbn [app]; spl; auto.
    + right. spl; auto. lia.
    + intros _. lia.
    + intro Hc. discriminate.
  - pose proof (readall_loop_good D (S (length (u_data u))) s u [] HI (Nat.lt_succ_diag_r _)) as H.
    destruct (readall_loop (S (length (u_data u))) s u []) as [[o s1] u1].
    destruct H as [HI1 [Hcfg [Hcalls [x [Ht [Hd Ho]]]]]].
    destruct o as [d| | |e]; try contradiction.
    + destruct Ho as [Hdx Hnm]. cbn [app] in Hdx. destruct Hcfg as [Hlim [Hmax Hri]].
      rewrite is_exhausted_eq. unfold on_exhausted_gen. destruct HI1 as [HD1 [Hp1 Hl1]].
      destruct (is_max s1 && (limit s1 <=? pos s1)) eqn:Hpost.
      * apply andb_prop in Hpost. destruct Hpost as [Hm1 He1]. rewrite Hm1.
        spl; auto; [unfold Inv; auto|unfold same_cfg; auto|]. exists x. spl; auto.
        right. spl; auto; [congruence|lia].
      * spl; auto; [unfold Inv; auto|unfold same_cfg; auto|]. exists x. spl; auto.
        all: intro Hm; try (apply Hnm; exact Hm); rewrite Hmax, Hm in Hpost; cbn [andb] in Hpost; lia.
    + spl; auto. exists x. spl; auto. left. split; [exact Ho|lia].
Qed.

Lemma readall_good D s u : Inv D s u -> good D s u (readall s u).
Proof.
  intro HI. pose proof (readall_good_full D s u HI) as H.
  destruct (readall s u) as [[o s1] u1]. destruct H as [HI1 [Hcfg [_ [x [Ht [Hd Ho]]]]]].
  unfold good. spl; auto. exists x. spl; auto.
  destruct o as [d| | |e]; try contradiction.
  - cbn [delivered]. apply Ho.
  - unfold allowed. destruct Ho as [[Ho _]|[Ho _]]; auto.
Qed.

Lemma exhaust_good D s u : Inv D s u -> good D s u (exhaust s u).
Proof.
  intro HI. unfold exhaust. destruct (negb (is_exhausted s)); [apply readall_good; exact HI|].
  unfold good. spl; auto; try apply same_cfg_refl. exists []. rewrite app_nil_r. auto.
Qed.

Lemma readline_loop_good D : forall fuel lim s u acc, Inv D s u -> (length (u_data u) < fuel)%nat ->
  match readline_loop fuel lim s u acc with
  | (o, s', u') =>
    Inv D s' u' /\ same_cfg s s' u u' /\
    exists x, u_taken u' = u_taken u ++ x /\ u_data u = x ++ u_data u' /\
      match o with
      | Exn e => allowed e
      | OkB d => d = acc ++ x /\ (lim = None -> is_max s = false -> x = [] -> pos s' = limit s')
      | _ => False
      end
  end.
Proof.
  induction fuel as [|f IH]; intros lim s u acc HI Hf; [inversion Hf|].
  cbn [readline_loop].
  destruct (match lim with Some l => l <=? lenN acc | None => false end) eqn:Hlim.
  - spl; auto; try apply same_cfg_refl. exists []. rewrite !app_nil_r. spl; auto.
    intro Hn. subst lim. discriminate.
  - rewrite read_eq. unfold read_spec.
    destruct (core_spec s u 1) as [[c s1] u1] eqn:Hc. apply (core_step D) in Hc; [|exact HI].
    destruct Hc as [HI1 [Hcfg Hc]]. destruct c as [k src| |e].
    + destruct Hc as [Hk [Hne [Ht [Hd _]]]].
      destruct src as [|y src']; [congruence|].
      destruct (ends_lf (y :: src')).
      * spl; auto. exists (y :: src'). spl; auto. intros _ _ Hx. discriminate.
      * specialize (IH lim s1 u1 (acc ++ y :: src') HI1).
        assert (Hf1 : (length (u_data u1) < f)%nat).
        { rewrite Hd, app_length in Hf. cbn [length] in Hf. lia. }
        specialize (IH Hf1).
        destruct (readline_loop f lim s1 u1 (acc ++ y :: src')) as [[o s2] u2].
        destruct IH as [HI2 [Hcfg2 [x [Ht2 [Hd2 Ho]]]]].
        spl; auto.
        -- eapply same_cfg_trans; [exact Hcfg|exact Hcfg2].
        -- exists ((y :: src') ++ x). rewrite Ht2, Ht, Hd, Hd2, <- !app_assoc. spl; auto.
           destruct o as [d| | |e]; auto. destruct Ho as [Ho1 _]. rewrite <- app_assoc in Ho1.
           split; [exact Ho1|]. intros _ _ Hx. discriminate.
    + destruct Hc as [Hs [Ht [Hd Hor]]]. subst s1.
      spl; auto. exists []. rewrite !app_nil_r. cbn [app]. spl; auto.
      intros _ Hm _. destruct Hor as [[Hor _]|[_ [Hm' _]]]; [|congruence].
      destruct HI as [_ [_ Hl]]. lia.
    + destruct Hc as [Hs [Ht [Hd Hor]]]. subst s1.
      spl; auto. exists []. rewrite !app_nil_r. cbn [app]. spl; auto.
      unfold allowed. destruct Hor as [[He _]|[He _]]; auto.
Qed.

Lemma readline_good_full D lim s u : Inv D s u ->
  match readline lim s u with
  | (o, s', u') =>
    Inv D s' u' /\ same_cfg s s' u u' /\
    exists x, u_taken u' = u_taken u ++ x /\ u_data u = x ++ u_data u' /\
      match o with
      | Exn e => allowed e
      | OkB d => d = x /\ (lim = None -> is_max s = false -> x = [] -> pos s' = limit s')
      | _ => False
      end
  end.
Proof.
  intro HI. unfold readline.
  pose proof (readline_loop_good D (S (length (u_data u))) lim s u [] HI (Nat.lt_succ_diag_r _)) as H.
  destruct (readline_loop (S (length (u_data u))) lim s u []) as [[o s1] u1]. exact H.
Qed.

Lemma readline_good D lim s u : Inv D s u -> good D s u (readline lim s u).
Proof.
  intro HI. pose proof (readline_good_full D lim s u HI) as H.
  destruct (readline lim s u) as [[o s1] u1]. destruct H as [HI1 [Hcfg [x [Ht [Hd Ho]]]]].
  unfold good. spl; auto. exists x. spl; auto.
  destruct o as [d| | |e]; try contradiction; [|exact Ho]. cbn [delivered]. apply Ho.
Qed.

Lemma concat_snoc (acc : list bytes) l : concat (acc ++ [l]) = concat acc ++ l.
Proof. rewrite concat_app. cbn [concat]. rewrite app_nil_r. reflexivity. Qed.

Lemma readlines_loop_good D : forall fuel hint s u acc total, Inv D s u -> (length (u_data u) < fuel)%nat ->
  match readlines_loop fuel hint s u acc total with
  | (o, s', u') =>
    Inv D s' u' /\ same_cfg s s' u u' /\
    exists x, u_taken u' = u_taken u ++ x /\ u_data u = x ++ u_data u' /\
      match o with
      | Exn e => allowed e
      | OkLines l => concat l = concat acc ++ x /\ (hint = None -> is_max s = false -> pos s' = limit s')
      | _ => False
      end
  end.
Proof.
  induction fuel as [|f IH]; intros hint s u acc total HI Hf; [inversion Hf|].
  cbn [readlines_loop].
  pose proof (readline_good_full D None s u HI) as H.
  destruct (readline None s u) as [[o s1] u1]. destruct H as [HI1 [Hcfg [x [Ht [Hd Ho]]]]].
  destruct o as [d| | |e]; try contradiction.
  - destruct Ho as [Hdx Heof]. subst d. destruct x as [|y x'].
    + spl; auto. exists []. spl; auto; try (rewrite app_nil_r; reflexivity); try (intros _ Hm; apply Heof; auto).
    + destruct (match hint with Some h => h <? total + lenN (y :: x') | None => false end) eqn:Hh.
      * spl; auto. exists (y :: x'). spl; auto; [apply concat_snoc|].
        intro Hn. subst hint. discriminate.
      * assert (Hf1 : (length (u_data u1) < f)%nat).
        { rewrite Hd, app_length in Hf. cbn [length] in Hf. lia. }
        match goal with |- context [readlines_loop f hint s1 u1 ?a ?t] =>
          specialize (IH hint s1 u1 a t HI1 Hf1); destruct (readlines_loop f hint s1 u1 a t) as [[o s2] u2] end.
        destruct IH as [HI2 [Hcfg2 [x2 [Ht2 [Hd2 Ho]]]]].
        spl; auto.
        -- eapply same_cfg_trans; [exact Hcfg|exact Hcfg2].
        -- exists ((y :: x') ++ x2). rewrite Ht2, Ht, Hd, Hd2, <- !app_assoc. spl; auto.
           destruct o as [| |l|e]; auto. destruct Ho as [Ho1 Ho2]. rewrite concat_snoc, <- app_assoc in Ho1.
           split; [exact Ho1|]. destruct Hcfg as [_ [Hm _]]. rewrite Hm in Ho2. exact Ho2.
  - spl; auto. exists x. spl; auto.
Qed.

Lemma readlines_good_full D hint s u : Inv D s u ->
  match readlines hint s u with
  | (o, s', u') =>
    Inv D s' u' /\ same_cfg s s' u u' /\
    exists x, u_taken u' = u_taken u ++ x /\ u_data u = x ++ u_data u' /\
      match o with
      | Exn e => allowed e
      | OkLines l => concat l = x /\ (hint = None -> is_max s = false -> pos s' = limit s')
      | _ => False
      end
  end.
Proof.
  intro HI. unfold readlines.
  pose proof (readlines_loop_good D (S (length (u_data u))) hint s u [] 0 HI (Nat.lt_succ_diag_r _)) as H.
  destruct (readlines_loop (S (length (u_data u))) hint s u [] 0) as [[o s1] u1]. exact H.
Qed.

Lemma readlines_good D hint s u : Inv D s u -> good D s u (readlines hint s u).
Proof.
  intro HI. pose proof (readlines_good_full D hint s u HI) as H.
  destruct (readlines hint s u) as [[o s1] u1]. destruct H as [HI1 [Hcfg [x [Ht [Hd Ho]]]]].
  unfold good. spl; auto. exists x. spl; auto.
  destruct o as [| |l|e]; try contradiction; [|exact Ho]. cbn [delivered]. apply Ho.
Qed.

Lemma step_good D s u o : Inv D s u -> good D s u (step s u o).
Proof.
  intro HI. destruct o; cbn [step].
  - apply readinto_good; exact HI.
  - apply read_good; exact HI.
  - apply readall_good; exact HI.
  - apply exhaust_good; exact HI.
  - apply readline_good; exact HI.
  - apply readlines_good; exact HI.
  - apply readlines_good; exact HI.
Qed.

(* ------------------------------------------------------------------ operation sequences *)
Lemma run_good D : forall ops s u, Inv D s u ->
  match run s u ops with
  | (l, s', u') =>
    Inv D s' u' /\ limit s' = limit s /\
    trace_ok D (limit s) (lenN (u_taken u)) l /\
    (forallb no_exn (outs_of l) = true ->
     u_taken u' = u_taken u ++ concat (map delivered (outs_of l)))
  end.
Proof.
  induction ops as [|o ops IH]; intros s u HI; cbn [run].
  - spl; auto; [exact I|]. intros _. cbn [outs_of map concat]. rewrite app_nil_r. reflexivity.
  - pose proof (step_good D s u o HI) as Hs. destruct (step s u o) as [[res s1] u1].
    unfold good in Hs. destruct Hs as [HI1 [Hcfg [x [Ht [Hd Ho]]]]].
    specialize (IH s1 u1 HI1). destruct (run s1 u1 ops) as [[l s2] u2].
    destruct IH as [HI2 [Hlim2 [Htr Hpre]]]. destruct Hcfg as [Hlim [_ _]].
    spl; auto; [congruence| |].
    + cbn [trace_ok]. destruct HI1 as [HD1 [Hp1 Hl1]]. destruct HI as [HD [Hp Hl]].
      split; [exact Hp1|]. split; [rewrite Ht, lenN_app; lia|].
      split; [rewrite <- Hlim, <- Hp1; exact Hl1|]. split; [rewrite <- HD1, lenN_app; lia|].
      split; [|rewrite <- Hlim; exact Htr].
      assert (Hsl : takeN (lenN (u_taken u1) - lenN (u_taken u)) (dropN (lenN (u_taken u)) D) = x).
      { replace (lenN (u_taken u1) - lenN (u_taken u)) with (lenN x) by (rewrite Ht, lenN_app; lia).
        apply (slice_app D (u_taken u) x (u_data u1)). rewrite <- HD, Hd. reflexivity. }
      destruct res as [d|n b|ls|e]; [rewrite Hsl; exact Ho ..|exact Ho].
    + cbn [outs_of map fst forallb concat]. intro Hall. apply andb_prop in Hall. destruct Hall as [Hres Hall].
      fold (outs_of l) in *. rewrite (Hpre Hall), Ht, <- app_assoc. f_equal. f_equal.
      destruct res as [d|n b|ls|e]; [symmetry; exact Ho ..|discriminate].
Qed.

(* ------------------------------------------------------------------ top-level statements *)
Lemma wf_Inv s u : wf s u -> Inv (u_taken u ++ u_data u) s u.
Proof. intros [A B]. unfold Inv. auto. Qed.

Lemma init_Inv D lim m sched ri : Inv D (ls_init lim m) (und_init D sched ri).
Proof. unfold Inv, ls_init, und_init. cbn [u_taken u_data pos limit app lenN length N.of_nat]. spl; auto. lia. Qed.

Lemma invariant D lim m sched ri ops :
  match run (ls_init lim m) (und_init D sched ri) ops with
  | (l, s, u) =>
    u_taken u ++ u_data u = D /\ pos s = lenN (u_taken u) /\ pos s <= lim /\
    trace_ok D lim 0 l /\
    (forallb no_exn (outs_of l) = true -> concat (map delivered (outs_of l)) = takeN (pos s) D)
  end.
Proof.
  pose proof (run_good D ops _ _ (init_Inv D lim m sched ri)) as H.
  destruct (run (ls_init lim m) (und_init D sched ri) ops) as [[l s] u].
  destruct H as [[HD [Hp Hl]] [Hlim [Htr Hpre]]]. cbn [ls_init und_init limit u_taken lenN length N.of_nat] in *.
  spl; auto; [lia|]. intro Hall. specialize (Hpre Hall). cbn [app] in Hpre.
  rewrite Hp, <- Hpre, <- HD. symmetry. apply takeN_app_exact.
Qed.

Lemma buffer_kept s u kind b n b' s' u' : readinto s u kind b = (OkInto n b', s', u') ->
  lenN b' = lenN b /\ n <= lenN b /\ dropN n b' = dropN n b.
Proof.
  rewrite readinto_eq. unfold readinto_spec, core_spec.
  destruct (limit s <=? pos s).
  - destruct (is_max s); intro H; inversion H; subst. spl; auto. lia.
  - destruct (und_read u (N.min (lenN b) (limit s - pos s))) as [[d|] u1] eqn:Hr; [|intro H; inversion H].
    apply und_read_got in Hr. destruct Hr as [_ [_ [Hlen _]]].
    destruct d as [|x d].
    + destruct (is_max s); intro H; inversion H; subst. spl; auto. lia.
    + remember (x :: d) as src eqn:Esrc. assert (Hnz : lenN src <> 0) by (subst src; rewrite lenN_cons; lia).
      clear Esrc. destruct src as [|y src']; [exfalso; apply Hnz; reflexivity|].
      remember (y :: src') as src eqn:Esrc.
      replace (match src with [] => ((if is_max s then OkInto 0 b else Exn ClientDisconnected), s, u1)
                         | _ :: _ => (OkInto (lenN src) (src ++ dropN (lenN src) b), advance s (lenN src), u1) end)
        with (OkInto (lenN src) (src ++ dropN (lenN src) b), advance s (lenN src), u1) by (subst src; reflexivity).
      clear Esrc. intro H; inversion H; subst. spl.
      * rewrite lenN_app, lenN_dropN. lia.
      * lia.
      * apply dropN_app_exact.
Qed.

(* with a declared length, a result that signals the end of the stream means the limit was reached *)
Lemma no_silent_truncation s u : wf s u -> is_max s = false ->
  (forall d s' u', readall s u = (OkB d, s', u') -> pos s' = limit s') /\
  (forall d s' u', exhaust s u = (OkB d, s', u') -> pos s' = limit s') /\
  (forall l s' u', readlines None s u = (OkLines l, s', u') -> pos s' = limit s') /\
  (forall s' u', readline None s u = (OkB [], s', u') -> pos s' = limit s') /\
  (forall n s' u', 0 < n -> read s u n = (OkB [], s', u') -> pos s' = limit s').
Proof.
  intros Hwf Hm. pose proof (wf_Inv s u Hwf) as HI. set (D := u_taken u ++ u_data u) in HI. spl.
  - intros d s' u' H. pose proof (readall_good_full D s u HI) as G. rewrite H in G.
    destruct G as [_ [_ [_ [x [_ [_ [_ [G _]]]]]]]]. apply G. exact Hm.
  - intros d s' u' H. unfold exhaust in H. rewrite is_exhausted_eq in H.
    destruct (limit s <=? pos s) eqn:Hex; cbn [negb] in H.
    + inversion H; subst. destruct Hwf. lia.
    + pose proof (readall_good_full D s u HI) as G. rewrite H in G.
      destruct G as [_ [_ [_ [x [_ [_ [_ [G _]]]]]]]]. apply G. exact Hm.
  - intros l s' u' H. pose proof (readlines_good_full D None s u HI) as G. rewrite H in G.
    destruct G as [_ [_ [x [_ [_ [_ G]]]]]]. apply G; auto.
  - intros s' u' H. pose proof (readline_good_full D None s u HI) as G. rewrite H in G.
    destruct G as [_ [_ [x [_ [_ [Gx G]]]]]]. apply G; auto.
  - intros n s' u' Hn H. rewrite read_eq in H. unfold read_spec in H.
    destruct (core_spec s u n) as [[c s1] u1] eqn:Hc. apply (core_step D) in Hc; [|exact HI].
    destruct Hc as [_ [_ Hc]]. destruct c as [k src| |e]; inversion H; subst.
    + destruct Hc as [_ [Hne _]]. congruence.
    + destruct Hc as [Hs [_ [_ [[Hle _]|[_ [Hm' _]]]]]]; [|congruence]. subst s'. destruct Hwf. lia.
Qed.

Lemma short_body_disconnects D lim sched ri : lenN D < lim ->
  fst (fst (readall (ls_init lim false) (und_init D sched ri))) = Exn ClientDisconnected.
Proof.
  intro Hlt. pose proof (readall_good_full D _ _ (init_Inv D lim false sched ri)) as G.
  destruct (readall (ls_init lim false) (und_init D sched ri)) as [[o s1] u1]. cbn [fst].
  destruct G as [[HD [Hp _]] [[Hlim _] [_ [x [_ [_ G]]]]]]. cbn [ls_init limit is_max pos] in *.
  destruct o as [d| | |e]; try contradiction.
  - destruct G as [_ [G _]]. specialize (G eq_refl).
    assert (lenN (u_taken u1) <= lenN D) by (rewrite <- HD, lenN_app; lia). lia.
  - destruct G as [[G _]|[_ [G _]]]; [congruence|discriminate].
Qed.

Lemma readall_bound s u : wf s u ->
  match readall s u with
  | (o, s', u') =>
    u_calls u' <= u_calls u + (limit s - pos s) /\
    match o with OkB _ => True | Exn e => allowed e | _ => False end
  end.
Proof.
  intro Hwf. pose proof (readall_good_full _ s u (wf_Inv s u Hwf)) as G.
  destruct (readall s u) as [[o s1] u1]. destruct G as [_ [_ [Hc [x [_ [_ G]]]]]].
  split; [exact Hc|]. destruct o as [d| | |e]; auto. unfold allowed. destruct G as [[G _]|[G _]]; auto.
Qed.

(* at the maximum, every read raises RequestEntityTooLarge; at a declared length it is end of stream *)
Lemma at_limit s u n : limit s <= pos s ->
  read s u n = ((if is_max s then Exn RequestEntityTooLarge else OkB []), s, u).
Proof.
  intro H. rewrite read_eq. unfold read_spec, core_spec.
  replace (limit s <=? pos s) with true by lia. destruct (is_max s); reflexivity.
Qed.

(* ------------------------------------------------------------------ delivery on a benign schedule *)
Lemma takeN_app_ge n a b : lenN a <= n -> takeN n (a ++ b) = a ++ takeN (n - lenN a) b.
Proof.
  unfold takeN, lenN. intro H. rewrite firstn_app, firstn_all2 by lia. f_equal. f_equal. lia.
Qed.

Lemma takeN_nil_pos m l : 0 < m -> takeN m l = [] -> l = [].
Proof.
  unfold takeN. intros Hm H. destruct l as [|x l]; [reflexivity|].
  destruct (N.to_nat m) eqn:E; [lia|]. cbn [firstn] in H. discriminate.
Qed.

Lemma readall_loop_benign D : forall fuel s u acc, Inv D s u -> benign (u_sched u) = true ->
  (is_max s = true \/ limit s <= lenN D) -> (length (u_data u) < fuel)%nat ->
  fst (fst (readall_loop fuel s u acc)) = OkB (acc ++ takeN (limit s - pos s) (u_data u)).
Proof.
  induction fuel as [|f IH]; intros s u acc HI Hb Hor Hf; [inversion Hf|].
  cbn [readall_loop]. rewrite is_exhausted_eq. destruct (limit s <=? pos s) eqn:Hex.
  - cbn [fst]. replace (limit s - pos s) with 0 by lia. rewrite takeN_0, app_nil_r. reflexivity.
  - rewrite read_eq. unfold read_spec, core_spec. rewrite Hex.
    destruct (und_read u (N.min readall_chunk (limit s - pos s))) as [[d|] u1] eqn:Hr.
    + pose proof Hr as Hr'. apply und_read_got in Hr'.
      destruct Hr' as [Ht [Hd [Hlen [_ [Hri [m [Hdm [Hmn [Hpos Hb1]]]]]]]]].
      assert (Hm0 : 0 < m) by (apply Hpos; [exact Hb|pose proof chunk_pos; lia]).
      destruct d as [|y d'].
      * symmetry in Hdm. apply takeN_nil_pos in Hdm; [|exact Hm0].
        destruct HI as [HD [Hp Hl]].
        destruct Hor as [Hmax|Hle].
        -- rewrite Hmax. cbn [fst]. rewrite Hdm. unfold takeN. rewrite firstn_nil, app_nil_r. reflexivity.
        -- exfalso. rewrite <- HD, lenN_app, Hdm in Hle. cbn [lenN length N.of_nat] in Hle. lia.
      * assert (HI1 : Inv D (advance s (lenN (y :: d'))) u1).
        { destruct HI as [HD [Hp Hl]]. unfold Inv. cbn [advance pos limit]. spl.
          - rewrite Ht, Hd in *. rewrite <- app_assoc. exact HD.
          - rewrite Ht, lenN_app. lia.
          - lia. }
        assert (Hf1 : (length (u_data u1) < f)%nat).
        { rewrite Hd, app_length in Hf. cbn [length] in Hf. lia. }
        specialize (IH (advance s (lenN (y :: d'))) u1 (acc ++ y :: d') HI1 (Hb1 Hb) Hor Hf1).
        cbn [advance pos limit is_max] in IH. rewrite IH.
        rewrite Hd, takeN_app_ge by lia. rewrite <- !app_assoc. do 3 f_equal. apply f_equal2; [lia|reflexivity].
    + apply und_read_err in Hr. destruct Hr as [_ [_ [_ [_ Hr]]]]. congruence.
Qed.

Lemma readall_benign_outcome D lim m sched ri : benign sched = true -> (m = true \/ lim <= lenN D) ->
  fst (fst (readall (ls_init lim m) (und_init D sched ri)))
  = if m && (lim <=? lenN D) then Exn RequestEntityTooLarge else OkB (takeN lim D).
Proof.
  intros Hb Hor. unfold readall, readall_g, readall_post. rewrite is_exhausted_eq. cbn [ls_init limit pos is_max].
  destruct (lim <=? 0) eqn:H0.
  - assert (lim = 0) by lia. subst lim. unfold on_exhausted_gen. replace (0 <=? lenN D) with true by lia.
    destruct m; reflexivity.
  - pose proof (readall_loop_benign D (S (length D)) (ls_init lim m) (und_init D sched ri) []) as HB.
    pose proof (readall_loop_good D (S (length D)) (ls_init lim m) (und_init D sched ri) [] (init_Inv D lim m sched ri)) as HG.
    specialize (HB (init_Inv D lim m sched ri) Hb Hor (Nat.lt_succ_diag_r _)).
    specialize (HG (Nat.lt_succ_diag_r _)).
    change (u_data (und_init D sched ri)) with D.
    destruct (readall_loop (S (length D)) (ls_init lim m) (und_init D sched ri) []) as [[o s1] u1].
    cbn [und_init u_sched u_data u_taken ls_init limit pos is_max app fst] in HB, HG.
    rewrite N.sub_0_r in HB. rewrite HB in *.
    destruct HG as [[HD1 [Hp1 Hl1]] [[Hlim [Hmax _]] [_ [x [Ht [_ [Hx _]]]]]]].
    cbn [app ls_init limit is_max] in *. rewrite <- Hx in Ht. rewrite is_exhausted_eq, Hmax, Hlim, Hp1, Ht, lenN_takeN.
    replace (lim <=? N.min lim (lenN D)) with (lim <=? lenN D) by lia.
    unfold on_exhausted_gen. destruct m; cbn [andb fst]; [|reflexivity].
    destruct (lim <=? lenN D); reflexivity.
Qed.

Lemma readall_delivers D lim sched ri : benign sched = true -> lim <= lenN D ->
  fst (fst (readall (ls_init lim false) (und_init D sched ri))) = OkB (takeN lim D).
Proof. intros Hb Hl. rewrite readall_benign_outcome by auto. reflexivity. Qed.

Lemma max_body_too_large D lim sched ri : benign sched = true -> lim <= lenN D ->
  fst (fst (readall (ls_init lim true) (und_init D sched ri))) = Exn RequestEntityTooLarge.
Proof. intros Hb Hl. rewrite readall_benign_outcome by auto. cbn [andb]. replace (lim <=? lenN D) with true by lia. reflexivity. Qed.

(* the repaired defect (afe6d66): readall without the report of a reached maximum *)
Lemma max_readall_truncates_witness :
  readall_unrepaired (ls_init 2 true) (und_init [97; 98; 99] [] true)
  = (OkB [97; 98], {| pos := 2; limit := 2; is_max := true |},
     {| u_data := [99]; u_taken := [97; 98]; u_sched := []; u_has_readinto := true; u_calls := 1 |}).
Proof. vm_compute. reflexivity. Qed.

(* the repaired defect: the pre-repair slice assignment on a short underlying read *)
Lemma unrepaired_witness_memoryview :
  readinto_unrepaired (ls_init 4 false) (und_init [97; 98; 99; 100; 101; 102] [RBytes 1] true) KMemoryview (zerosN 10)
  = (Exn ValueErrorE, ls_init 4 false,
     {| u_data := [98; 99; 100; 101; 102]; u_taken := [97]; u_sched := []; u_has_readinto := true; u_calls := 1 |}).
Proof. vm_compute. reflexivity. Qed.

Lemma unrepaired_witness_bytearray :
  fst (fst (readinto_unrepaired (ls_init 4 false) (und_init [97; 98; 99; 100; 101; 102] [RBytes 1] true)
              KBytearray (zerosN 10)))
  = OkInto 1 (97 :: zerosN 12).
Proof. vm_compute. reflexivity. Qed.

(* ------------------------------------------------------------------ get_input_stream *)
Lemma plain_int_total v : exists r, plain_int_gen v = r /\ match r with Val _ => True | Raise e => e = ValueErrorE end.
Proof.
  unfold plain_int_gen. destruct (negb (plain_int_re_fullmatch (py_strip v))); eexists; split; try reflexivity; auto.
Qed.

Lemma content_length_total cl te :
  exists o, get_content_length_gen cl te = Val o /\
    (o = None <-> (opt_str_eqb te te_literal = true \/ cl = None)) /\
    (forall n, o = Some n -> (0 <= n)%Z).
Proof.
  unfold get_content_length_gen.
  destruct (opt_str_eqb te te_literal) eqn:Hte; cbn [orb].
  - exists None. spl; auto.
    + split; [intros _; left; reflexivity|reflexivity].
    + intros n H. discriminate.
  - destruct cl as [v|]; cbn [is_none].
    + destruct (plain_int_total v) as [r [Hr Hk]]. rewrite Hr. destruct r as [z|e].
      * exists (Some (Z.max 0 z)). spl; auto.
        -- split; [discriminate|]. intros [H|H]; discriminate.
        -- intros n H. inversion H. lia.
      * subst e. exists (Some 0%Z). spl; auto.
        -- split; [discriminate|]. intros [H|H]; discriminate.
        -- intros n H. inversion H. lia.
    + exists None. spl; auto.
      * split; [intros _; right; reflexivity|reflexivity].
      * intros n H. discriminate.
Qed.

Lemma wrapper_choice r cl : wsgi_get_content_length_gen r = Val cl ->
  get_input_stream_gen r = wrapper_spec cl r.
Proof.
  intro H. unfold get_input_stream_gen, wrapper_spec. rewrite H.
  unfold opt_gt, mk_limited, term_present, term_truthy.
  destruct cl as [n|]; destruct (e_mcl r) as [m|]; cbn [is_some is_none andb];
    try destruct (n >? m)%Z; destruct (e_term r) as [[|]|]; cbn [is_some]; try reflexivity.
Qed.

Lemma digit_not_ws c : is_digit c = true -> negb (uni_ws c) = true.
Proof. unfold is_digit, uni_ws. lia. Qed.

Lemma digits_strip ds : forallb is_digit ds = true -> py_strip ds = ds.
Proof.
  intro H. unfold py_strip. apply strip_none. eapply forallb_impl; [|exact H].
  intros c Hc. apply digit_not_ws. exact Hc.
Qed.

Lemma content_length_digits ds te : digits1 ds = true -> opt_str_eqb te te_literal = false ->
  get_content_length_gen (Some ds) te = Val (Some (Z.of_N (dec_val ds))).
Proof.
  intros Hd Hte. unfold get_content_length_gen, plain_int_gen. rewrite Hte. cbn [orb is_none].
  assert (Hall : forallb is_digit ds = true) by (destruct ds; [discriminate|exact Hd]).
  rewrite (digits_strip ds Hall).
  destruct ds as [|c r]; [discriminate|].
  assert (Hc : (c =? MINUS) = false).
  { cbn [forallb] in Hall. apply andb_prop in Hall. destruct Hall as [Hc _]. unfold is_digit, MINUS in *. lia. }
  unfold plain_int_re_fullmatch, py_int. rewrite Hc, Hd. cbn [negb]. f_equal. f_equal. lia.
Qed.

Lemma content_length_unparsable v te :
  plain_int_re_fullmatch (py_strip v) = false -> opt_str_eqb te te_literal = false ->
  get_content_length_gen (Some v) te = Val (Some 0%Z).
Proof.
  intros Hv Hte. unfold get_content_length_gen, plain_int_gen. rewrite Hte, Hv. reflexivity.
Qed.

Lemma wrapper_choice_full r :
  exists cl, wsgi_get_content_length_gen r = Val cl /\
    (cl = None <-> (opt_str_eqb (e_te r) te_literal = true \/ e_cl r = None)) /\
    (forall n, cl = Some n -> (0 <= n)%Z) /\
    get_input_stream_gen r = wrapper_spec cl r.
Proof.
  destruct (content_length_total (e_cl r) (e_te r)) as [cl [H [Hn Hp]]].
  exists cl. spl; auto. apply wrapper_choice. exact H.
Qed.

Lemma no_length_empty r :
  (e_cl r = None \/ opt_str_eqb (e_te r) te_literal = true) -> term_truthy r = false -> e_safe r = true ->
  get_input_stream_gen r = ChEmpty.
Proof.
  intros Hno Ht Hs. destruct (wrapper_choice_full r) as [cl [_ [Hn [_ H]]]]. rewrite H.
  assert (cl = None) by (apply Hn; tauto). subst cl. unfold wrapper_spec. rewrite Ht, Hs.
  destruct (e_mcl r); reflexivity.
Qed.

Lemma wrapper_sound r :
  (forall e, get_input_stream_gen r = ChRaise e -> e = RequestEntityTooLarge) /\
  (forall l m, get_input_stream_gen r = ChLimited l m ->
     (m = true -> e_mcl r = Some l /\ term_truthy r = true) /\
     (m = false -> (0 <= l)%Z /\ term_truthy r = false) /\
     (forall mx, e_mcl r = Some mx -> (l <= mx)%Z)).
Proof.
  destruct (wrapper_choice_full r) as [cl [_ [_ [Hp H]]]]. rewrite H. unfold wrapper_spec.
  destruct cl as [n|]; destruct (e_mcl r) as [mx|] eqn:Hm; try destruct (n >? mx)%Z eqn:Hgt;
    destruct (term_truthy r) eqn:Ht; try destruct (e_safe r); split;
    try (intros e He; inversion He; reflexivity);
    try (intros l m Hl; inversion Hl; subst; spl; try (intro; discriminate);
         try (intros _; spl; auto; apply Hp; reflexivity);
         try (intros mx' Hmx'; inversion Hmx'; subst; lia)).
Qed.

Lemma max_body_fits D lim sched ri : benign sched = true -> lenN D < lim ->
  fst (fst (readall (ls_init lim true) (und_init D sched ri))) = OkB D.
Proof.
  intros Hb Hlt. rewrite readall_benign_outcome by auto. cbn [andb]. replace (lim <=? lenN D) with false by lia.
  f_equal. apply takeN_all. lia.
Qed.


(* ------------------------------------------------------------------ the statement-by-statement translation of readinto *)
Definition embed (b : bytes) (r : cres * ls * und) : rr :=
  match r with
  | (CWrite n src, s', u') => RRet (Z.of_N n) (Z.of_N (pos s')) u' (src ++ dropN n b)
  | (CZero, s', u') => RRet 0 (Z.of_N (pos s')) u' b
  | (CExn e, s', u') => RRaise e (Z.of_N (pos s')) u' b
  end.

Lemma len_of_cons x d : truthy (len_of (x :: d)) = true.
Proof. unfold truthy, len_of. rewrite lenN_cons. lia. Qed.

Lemma tail_eq m (p0 : Z) u x d (bb : bytes) :
  (if negb (truthy (len_of (x :: d)))
   then do_on_disconnect m false p0 u bb (fun _ => RRet 0 p0 u bb)
   else RRet (len_of (x :: d)) (p0 + len_of (x :: d))%Z u bb)
  = RRet (len_of (x :: d)) (p0 + len_of (x :: d))%Z u bb.
Proof. rewrite len_of_cons. reflexivity. Qed.

Lemma disc_false m p0 u bb :
  do_on_disconnect m false p0 u bb (fun _ => RRet 0 p0 u bb) = if m then RRet 0 p0 u bb else RRaise ClientDisconnected p0 u bb.
Proof. unfold do_on_disconnect, on_disconnect_gen. destruct m; reflexivity. Qed.

Lemma disc_true m p0 u bb :
  do_on_disconnect m true p0 u bb (fun _ => RRet 0 p0 u bb) = RRaise ClientDisconnected p0 u bb.
Proof. unfold do_on_disconnect, on_disconnect_gen. destruct m; reflexivity. Qed.

Lemma dropN_zerosN k n : dropN k (zerosN n) = zerosN (n - k).
Proof.
  unfold dropN, zerosN. replace (N.to_nat (n - k)) with (N.to_nat n - N.to_nat k)%nat by lia.
  generalize (N.to_nat n) as a. generalize (N.to_nat k) as c. clear.
  induction c as [|c IH]; intro a; [rewrite Nat.sub_0_r; reflexivity|].
  destruct a as [|a]; [reflexivity|]. cbn [repeat skipn Nat.sub]. apply IH.
Qed.

Lemma readinto_gen_core s u kind b :
  readinto_gen (is_max s) (Z.of_N (limit s)) (Z.of_N (pos s)) kind u b
  = embed b (readinto_core ri_slice_fix s u kind (lenN b)).
Proof.
  rewrite slice_fix_present, core_eq. unfold readinto_gen, core_spec. cbv zeta.
  replace (Z.of_N (limit s) - Z.of_N (pos s) <=? 0)%Z with (limit s <=? pos s) by lia.
  destruct (limit s <=? pos s) eqn:Hex.
  - unfold do_on_exhausted, on_exhausted_gen, embed. destruct (is_max s); reflexivity.
  - set (rem := limit s - pos s).
    assert (Hrem : Z.to_N (Z.of_N (limit s) - Z.of_N (pos s)) = rem) by (unfold rem; lia).
    destruct (u_has_readinto u).
    + destruct (len_of b <=? Z.of_N (limit s) - Z.of_N (pos s))%Z eqn:Hfit.
      * unfold try_readinto. replace (N.min (lenN b) rem) with (lenN b) by (unfold rem, len_of in *; lia).
        destruct (und_read u (lenN b)) as [[d|] u1]; [|rewrite disc_true; reflexivity].
        destruct d as [|x d].
        -- cbn [lenN length N.of_nat app]. unfold len_of, truthy. cbn [lenN length N.of_nat Z.of_N Z.eqb negb].
           rewrite dropN_0, disc_false. unfold embed. destruct (is_max s); reflexivity.
        -- rewrite tail_eq. unfold embed, advance, len_of. cbn [pos]. f_equal. lia.
      * unfold try_readinto, bytearray. rewrite Hrem, lenN_zerosN.
        replace (N.min (lenN b) rem) with rem by (unfold rem, len_of in *; lia).
        destruct (und_read u rem) as [[d|] u1]; [|rewrite disc_true; reflexivity].
        destruct d as [|x d].
        -- unfold len_of, truthy. cbn [lenN length N.of_nat Z.of_N Z.eqb negb].
           rewrite disc_false. unfold embed. destruct (is_max s); reflexivity.
        -- rewrite len_of_cons. unfold slice_assign, take, len_of. rewrite N2Z.id, takeN_app_exact.
           unfold slice_assign_ok. replace (match kind with KBytearray => true | KMemoryview => lenN (x :: d) =? lenN (x :: d) end)
             with true by (destruct kind; [reflexivity|symmetry; apply N.eqb_refl]).
           cbn [negb]. unfold embed, advance. cbn [pos]. f_equal. lia.
    + unfold try_read. replace (Z.to_N (Z.min (len_of b) (Z.of_N (limit s) - Z.of_N (pos s)))) with (N.min (lenN b) rem)
        by (unfold rem, len_of; lia).
      destruct (und_read u (N.min (lenN b) rem)) as [[d|] u1]; [|rewrite disc_true; reflexivity].
      cbv zeta. unfold slice_assign, slice_assign_ok, len_of at 1. rewrite N2Z.id.
      replace (match kind with KBytearray => true | KMemoryview => lenN d =? lenN d end)
        with true by (destruct kind; [reflexivity|symmetry; apply N.eqb_refl]).
      destruct d as [|x d].
      * unfold len_of, truthy. cbn [lenN length N.of_nat Z.of_N Z.eqb negb app]. rewrite dropN_0, disc_false.
        unfold embed. destruct (is_max s); reflexivity.
      * rewrite tail_eq. unfold embed, advance, len_of. cbn [pos]. f_equal. lia.
Qed.


(* ------------------------------------------------------------------ tell, and a buffering wrapper as a consumer *)
Lemma tell_pos s : tell s = pos s.
Proof. unfold tell, tell_gen. lia. Qed.

Lemma wrun_good D : forall ops s u buf pre, Inv D s u -> u_taken u = pre ++ buf ->
  match wrun s u buf ops with
  | (outs, buf', e, s', u') =>
    Inv D s' u' /\ limit s' = limit s /\
    exists lost, u_taken u' = pre ++ concat outs ++ buf' ++ lost /\
      match e with Some e => allowed e | None => lost = [] end
  end.
Proof.
  induction ops as [|o ops IH]; intros s u buf pre HI Ht; cbn [wrun].
  - spl; auto. exists []. cbn [concat app]. rewrite app_nil_r. auto.
  - destruct o as [kind size| |n].
    + pose proof (readinto_good D s u kind (zerosN size) HI) as G.
      pose proof (readinto_eq s u kind (zerosN size)) as Hshape.
      destruct (readinto s u kind (zerosN size)) as [[o s1] u1]. unfold good in G.
      destruct G as [HI1 [[Hlim _] [x [Hx [_ Ho]]]]].
      destruct o as [d|k b|l|e].
      * exfalso. unfold readinto_spec in Hshape. destruct (core_spec s u (lenN (zerosN size))) as [[[? ?| |?] ?] ?]; discriminate.
      * cbn [delivered] in Ho. specialize (IH s1 u1 (buf ++ takeN k b) pre HI1).
        rewrite Hx, Ht, Ho, <- app_assoc in IH. specialize (IH eq_refl).
        rewrite Ho. destruct (wrun s1 u1 (buf ++ x) ops) as [[[[outs b'] e] s2] u2].
        destruct IH as [HI2 [Hl2 IH]]. split; [exact HI2|]. split; [congruence|exact IH].
      * exfalso. unfold readinto_spec in Hshape. destruct (core_spec s u (lenN (zerosN size))) as [[[? ?| |?] ?] ?]; discriminate.
      * spl; auto. exists x. cbn [concat app]. rewrite Hx, Ht, <- app_assoc. auto.
    + pose proof (readall_good_full D s u HI) as G. destruct (readall s u) as [[o s1] u1].
      destruct G as [HI1 [[Hlim _] [_ [x [Hx [_ Ho]]]]]].
      destruct o as [d|k b|l|e]; try contradiction.
      * destruct Ho as [Hd _]. subst d. specialize (IH s1 u1 (buf ++ x) pre HI1).
        rewrite Hx, Ht, <- app_assoc in IH. specialize (IH eq_refl).
        destruct (wrun s1 u1 (buf ++ x) ops) as [[[[outs b'] e] s2] u2].
        destruct IH as [HI2 [Hl2 IH]]. split; [exact HI2|]. split; [congruence|exact IH].
      * spl; auto. exists x. cbn [concat app]. rewrite Hx, Ht, <- app_assoc. split; [reflexivity|].
        unfold allowed. destruct Ho as [[Ho _]|[Ho _]]; auto.
    + specialize (IH s u (dropN n buf) (pre ++ takeN n buf) HI).
      rewrite <- app_assoc, takeN_dropN in IH. specialize (IH Ht).
      destruct (wrun s u (dropN n buf) ops) as [[[[outs b'] e] s2] u2].
      destruct IH as [HI2 [Hl2 [lost [Hl He]]]]. spl; auto. exists lost. split; [|exact He].
      cbn [concat]. rewrite Hl, <- !app_assoc. reflexivity.
Qed.

Lemma buffering_wrapper D lim m sched ri ops :
  match wrun (ls_init lim m) (und_init D sched ri) [] ops with
  | (outs, buf, e, s, u) =>
    u_taken u ++ u_data u = D /\ pos s = lenN (u_taken u) /\ lenN (u_taken u) <= lim /\
    exists lost, u_taken u = concat outs ++ buf ++ lost /\
      match e with Some e => allowed e | None => lost = [] end
  end.
Proof.
  pose proof (wrun_good D ops (ls_init lim m) (und_init D sched ri) [] [] (init_Inv D lim m sched ri) eq_refl) as H.
  destruct (wrun (ls_init lim m) (und_init D sched ri) [] ops) as [[[[outs buf] e] s] u].
  destruct H as [[HD [Hp Hl]] [Hlim H]]. cbn [ls_init limit app] in *. spl; auto. lia.
Qed.
