(* C09: executable model of wsgi.LimitedStream over an underlying stream given as data plus a
   schedule of responses, of io.RawIOBase.read / IOBase.readline / readlines on top of it, and of
   get_input_stream (generated, C09/Gen.v).  Definitions only.
   The comparisons / sizes / hooks used below (ri_*, on_*_gen, is_exhausted_gen, readall_chunk) are
   regenerated from /repo on every run. *)
From Wz Require Import C09.Base C09.Gen.
Open Scope N_scope.

(* ------------------------------------------------------------------ underlying stream *)
(* one scheduled response per call: at most k bytes, or an OSError / ValueError;
   after the schedule is used up the stream answers every request in full *)
Inductive resp := RBytes (k : N) | RFail.
Record und := { u_data : bytes;            (* not yet consumed *)
                u_taken : bytes;           (* consumed so far, in order *)
                u_sched : list resp;
                u_has_readinto : bool;
                u_calls : N }.
Inductive ures := UGot (d : bytes) | UErr.

Definition und_give (u : und) (m : N) (sched : list resp) : ures * und :=
  let d := takeN m (u_data u) in
  (UGot d, {| u_data := dropN m (u_data u); u_taken := u_taken u ++ d; u_sched := sched;
              u_has_readinto := u_has_readinto u; u_calls := u_calls u + 1 |}).

(* stream.read(n) / stream.readinto(buffer of n bytes) *)
Definition und_read (u : und) (n : N) : ures * und :=
  match u_sched u with
  | [] => und_give u n []
  | RBytes k :: r => und_give u (N.min k n) r
  | RFail :: r => (UErr, {| u_data := u_data u; u_taken := u_taken u; u_sched := r;
                            u_has_readinto := u_has_readinto u; u_calls := u_calls u + 1 |})
  end.

(* ------------------------------------------------------------------ LimitedStream *)
Record ls := { pos : N; limit : N; is_max : bool }.
Inductive bufkind := KBytearray | KMemoryview.

(* what one readinto call does to the caller's buffer b:
   CWrite n src: b becomes src ++ b[n:], n is returned;  CZero: 0 returned, buffer untouched *)
Inductive cres := CWrite (n : N) (src : bytes) | CZero | CExn (e : exn).

(* b[:n] = src on a buffer of `size` bytes (n <= size): a bytearray accepts any src (and is
   resized when the lengths differ), a memoryview raises ValueError unless len src = n *)
Definition slice_assign_ok (kind : bufkind) (n : N) (src : bytes) : bool :=
  match kind with KBytearray => true | KMemoryview => lenN src =? n end.

Definition hook (h : option exn) (k : cres) : cres := match h with Some e => CExn e | None => k end.
Definition advance (s : ls) (n : N) : ls := {| pos := pos s + n; limit := limit s; is_max := is_max s |}.

(* LimitedStream.readinto(b) with len(b) = size_b; fix_ = ri_slice_fix says whether the source
   slices temp_b before assigning it *)
Definition readinto_core (fix_ : bool) (s : ls) (u : und) (kind : bufkind) (size_b : N) : cres * ls * und :=
  let size := ri_size (Z.of_N size_b) in
  let remaining := ri_remaining (Z.of_N (limit s)) (Z.of_N (pos s)) in
  if ri_exhausted size remaining then (hook (on_exhausted_gen (is_max s)) CZero, s, u)
  else
    let finish (u' : und) (out_size : N) (src : bytes) :=
      if out_size =? 0 then (hook (on_disconnect_gen (is_max s) false) CZero, s, u')
      else (CWrite out_size src, advance s out_size, u') in
    let failed (u' : und) := (hook (on_disconnect_gen (is_max s) true) CZero, s, u') in
    if u_has_readinto u then
      if ri_fits size remaining then
        match und_read u (Z.to_N size) with
        | (UErr, u') => failed u'
        | (UGot d, u') => finish u' (lenN d) d          (* the stream wrote d into b[:len d] itself *)
        end
      else
        let tsz := Z.to_N (ri_tempsize size remaining) in
        match und_read u tsz with
        | (UErr, u') => failed u'
        | (UGot d, u') =>
          let temp := d ++ zerosN (tsz - lenN d) in
          let out_size := lenN d in
          if out_size =? 0 then finish u' 0 []
          else
            let src := if fix_ then takeN out_size temp else temp in
            if slice_assign_ok kind out_size src then finish u' out_size src
            else (CExn ValueErrorE, s, u')
        end
    else
      match und_read u (Z.to_N (ri_readsize size remaining)) with
      | (UErr, u') => failed u'
      | (UGot d, u') =>
        if slice_assign_ok kind (lenN d) d then finish u' (lenN d) d else (CExn ValueErrorE, s, u')
      end.

(* results of the operations an application can invoke *)
Inductive out :=
  | OkB (d : bytes)                 (* read / readall / exhaust / readline *)
  | OkInto (n : N) (b : bytes)      (* readinto: return value and the buffer afterwards *)
  | OkLines (l : list bytes)        (* readlines / iteration *)
  | Exn (e : exn).

Definition readinto_g (fix_ : bool) (s : ls) (u : und) (kind : bufkind) (b : bytes) : out * ls * und :=
  match readinto_core fix_ s u kind (lenN b) with
  | (CWrite n src, s', u') => (OkInto n (src ++ dropN n b), s', u')
  | (CZero, s', u') => (OkInto 0 b, s', u')
  | (CExn e, s', u') => (Exn e, s', u')
  end.
Definition readinto := readinto_g ri_slice_fix.

(* io.RawIOBase.read(n), n >= 0: b = bytearray(n); k = self.readinto(b); return bytes(b[:k])
   (the C implementation copies the first k bytes of the bytearray's storage).  Written without
   materialising the n zero bytes; Proofs.read_via_buffer relates it to readinto on bytearray(n). *)
Definition read_g (fix_ : bool) (s : ls) (u : und) (n : N) : out * ls * und :=
  match readinto_core fix_ s u KBytearray n with
  | (CWrite k src, s', u') => (OkB (takeN k src), s', u')
  | (CZero, s', u') => (OkB [], s', u')
  | (CExn e, s', u') => (Exn e, s', u')
  end.
Definition read := read_g ri_slice_fix.

Definition is_exhausted (s : ls) : bool := is_exhausted_gen (Z.of_N (pos s)) (Z.of_N (limit s)).

(* the while loop of LimitedStream.readall *)
Fixpoint readall_loop (fuel : nat) (s : ls) (u : und) (acc : bytes) : out * ls * und :=
  if is_exhausted s then (OkB acc, s, u)
  else match fuel with
       | O => (Exn OutOfFuel, s, u)
       | S f =>
         match read s u readall_chunk with
         | (OkB d, s', u') =>
           match d with
           | [] => (OkB acc, s', u')
           | _ => readall_loop f s' u' (acc ++ d)
           end
         | r => r
         end
       end.

(* LimitedStream.readall; post = the test of the statement after the loop
   (`if self._limit_is_max and self.is_exhausted: self.on_exhausted()`), readall_post in the source *)
Definition readall_g (post : bool -> bool -> bool) (s : ls) (u : und) : out * ls * und :=
  if is_exhausted s
  then (match on_exhausted_gen (is_max s) with Some e => Exn e | None => OkB [] end, s, u)
  else match readall_loop (S (length (u_data u))) s u [] with
       | (OkB acc, s', u') =>
         if post (is_max s') (is_exhausted s')
         then (match on_exhausted_gen (is_max s') with Some e => Exn e | None => OkB acc end, s', u')
         else (OkB acc, s', u')
       | r => r
       end.
Definition readall := readall_g readall_post.
(* the loop without the report of a reached maximum, as it was before the repair *)
Definition readall_unrepaired := readall_g (fun _ _ => false).

Definition exhaust (s : ls) (u : und) : out * ls * und :=
  if negb (is_exhausted s) then readall s u else (OkB [], s, u).

Definition LF : N := 10.
Definition ends_lf (d : bytes) : bool := match rev d with c :: _ => c =? LF | [] => false end.

(* io.IOBase.readline(limit) on an object without peek(): read(1) until LF, EOF or the limit *)
Fixpoint readline_loop (fuel : nat) (lim : option N) (s : ls) (u : und) (acc : bytes) : out * ls * und :=
  if match lim with Some l => l <=? lenN acc | None => false end then (OkB acc, s, u)
  else match fuel with
       | O => (Exn OutOfFuel, s, u)
       | S f =>
         match read s u 1 with
         | (OkB d, s', u') =>
           match d with
           | [] => (OkB acc, s', u')
           | _ => if ends_lf d then (OkB (acc ++ d), s', u') else readline_loop f lim s' u' (acc ++ d)
           end
         | r => r
         end
       end.
Definition readline (lim : option N) (s : ls) (u : und) : out * ls * und :=
  readline_loop (S (length (u_data u))) lim s u [].

(* io.IOBase.readlines(hint) / iteration: readline() until an empty line; with a positive hint,
   stop once the total length exceeds it *)
Fixpoint readlines_loop (fuel : nat) (hint : option N) (s : ls) (u : und) (acc : list bytes) (total : N)
  : out * ls * und :=
  match fuel with
  | O => (Exn OutOfFuel, s, u)
  | S f =>
    match readline None s u with
    | (OkB l, s', u') =>
      match l with
      | [] => (OkLines acc, s', u')
      | _ => let total' := total + lenN l in
             if match hint with Some h => h <? total' | None => false end
             then (OkLines (acc ++ [l]), s', u')
             else readlines_loop f hint s' u' (acc ++ [l]) total'
      end
    | r => r
    end
  end.
Definition readlines (hint : option N) (s : ls) (u : und) : out * ls * und :=
  readlines_loop (S (length (u_data u))) hint s u [] 0.

(* ------------------------------------------------------------------ operation sequences *)
Inductive op :=
  | OInto (kind : bufkind) (b : bytes)    (* readinto a buffer with these initial contents *)
  | ORead (n : N)                          (* read(n), n > 0 *)
  | OReadAll                               (* read() / read(-1) / readall() *)
  | OExhaust
  | OReadLine (lim : option N)
  | OReadLines (hint : option N)
  | OIter.                                 (* list(stream) / a for loop: __next__ = readline() until it returns nothing *)

Definition step (s : ls) (u : und) (o : op) : out * ls * und :=
  match o with
  | OInto kind b => readinto s u kind b
  | ORead n => read s u n
  | OReadAll => readall s u
  | OExhaust => exhaust s u
  | OReadLine lim => readline lim s u
  | OReadLines hint => readlines hint s u
  | OIter => readlines None s u
  end.

(* every operation is attempted, also after an exception (the stream object stays usable);
   each result is recorded with _pos, the number of bytes taken from the underlying stream and the
   number of calls made to it, all observed after the operation *)
Fixpoint run (s : ls) (u : und) (ops : list op) : list (out * N * N * N) * ls * und :=
  match ops with
  | [] => ([], s, u)
  | o :: r =>
    match step s u o with
    | (res, s', u') =>
      match run s' u' r with
      | (l, s'', u'') => ((res, pos s', lenN (u_taken u'), u_calls u') :: l, s'', u'')
      end
    end
  end.

Definition ls_init (lim : N) (m : bool) : ls := {| pos := 0; limit := lim; is_max := m |}.
Definition und_init (data : bytes) (sched : list resp) (ri : bool) : und :=
  {| u_data := data; u_taken := []; u_sched := sched; u_has_readinto := ri; u_calls := 0 |}.

(* bytes handed to the application by one result *)
Definition delivered (o : out) : bytes :=
  match o with
  | OkB d => d
  | OkInto n b => takeN n b
  | OkLines l => concat l
  | Exn _ => []
  end.

(* LimitedStream.tell() (generated body: C09/Gen.v) *)
Definition tell (s : ls) : N := Z.to_N (tell_gen (Z.of_N (pos s))).

(* ------------------------------------------------------------------ a buffering wrapper as a consumer
   io.BufferedReader / io.TextIOWrapper (and anything else written against io.RawIOBase) only ever
   call readinto with buffers of their own choosing and readall, keep what they obtained in a
   private buffer in order, and hand the application pieces from the front of that buffer.
   WFill: one raw readinto of the given size into either buffer kind (a result of 0 bytes is the
   end-of-stream signal of the RawIOBase contract; readinto never returns None here);
   WFillAll: raw.readall(); WTake n: deliver the first n buffered bytes to the application.
   The run stops at the first exception, which the wrapper propagates. *)
Inductive wop := WFill (kind : bufkind) (size : N) | WFillAll | WTake (n : N).
Fixpoint wrun (s : ls) (u : und) (buf : bytes) (ops : list wop)
  : list bytes * bytes * option exn * ls * und :=
  match ops with
  | [] => ([], buf, None, s, u)
  | WFill kind size :: r =>
    match readinto s u kind (zerosN size) with
    | (OkInto n b, s', u') => wrun s' u' (buf ++ takeN n b) r
    | (Exn e, s', u') => ([], buf, Some e, s', u')
    | (_, s', u') => ([], buf, Some TypeErrorE, s', u')       (* not a readinto result: unreachable *)
    end
  | WFillAll :: r =>
    match readall s u with
    | (OkB d, s', u') => wrun s' u' (buf ++ d) r
    | (Exn e, s', u') => ([], buf, Some e, s', u')
    | (_, s', u') => ([], buf, Some TypeErrorE, s', u')
    end
  | WTake n :: r =>
    match wrun s u (dropN n buf) r with
    | (l, b', e, s', u') => (takeN n buf :: l, b', e, s', u')
    end
  end.

(* the same run with the unrepaired slice assignment (b[:out_size] = temp_b), kept to state the
   refutation of the pre-repair code *)
Definition readinto_unrepaired := readinto_g false.

(* ------------------------------------------------------------------ spec side *)
(* the two errors the property allows *)
Definition allowed (e : exn) : Prop := e = ClientDisconnected \/ e = RequestEntityTooLarge.

(* what a single readinto on a buffer of `size` bytes must do, transcribed from the property:
   at the limit: RequestEntityTooLarge when the limit is a maximum, otherwise end of stream;
   before the limit: ask the underlying stream for min(size, remaining) bytes; a failure, or no
   bytes when the limit is a declared length, is ClientDisconnected; otherwise exactly the bytes
   obtained are handed on and _pos advances by their number *)
Definition core_spec (s : ls) (u : und) (size : N) : cres * ls * und :=
  if limit s <=? pos s
  then ((if is_max s then CExn RequestEntityTooLarge else CZero), s, u)
  else match und_read u (N.min size (limit s - pos s)) with
       | (UErr, u') => (CExn ClientDisconnected, s, u')
       | (UGot d, u') =>
         match d with
         | [] => ((if is_max s then CZero else CExn ClientDisconnected), s, u')
         | _ => (CWrite (lenN d) d, advance s (lenN d), u')
         end
       end.

Definition readinto_spec (s : ls) (u : und) (b : bytes) : out * ls * und :=
  match core_spec s u (lenN b) with
  | (CWrite n src, s', u') => (OkInto n (src ++ dropN n b), s', u')
  | (CZero, s', u') => (OkInto 0 b, s', u')
  | (CExn e, s', u') => (Exn e, s', u')
  end.

Definition read_spec (s : ls) (u : und) (n : N) : out * ls * und :=
  match core_spec s u n with
  | (CWrite _ src, s', u') => (OkB src, s', u')
  | (CZero, s', u') => (OkB [], s', u')
  | (CExn e, s', u') => (Exn e, s', u')
  end.

(* a trace of results (out, _pos, bytes consumed, calls) is consistent with the client's bytes D
   and the limit: _pos = consumed <= limit, and every result either is one of the two allowed
   errors (yielding nothing) or yields exactly the bytes of D between the previous and the new
   consumed offset *)
Fixpoint trace_ok (D : bytes) (lim t0 : N) (l : list (out * N * N * N)) : Prop :=
  match l with
  | [] => True
  | (o, p, t, _) :: r =>
    p = t /\ t0 <= t /\ t <= lim /\ t <= lenN D /\
    match o with
    | Exn e => allowed e
    | _ => delivered o = takeN (t - t0) (dropN t0 D)
    end /\ trace_ok D lim t r
  end.

Definition no_exn (o : out) : bool := match o with Exn _ => false | _ => true end.
Definition outs_of (l : list (out * N * N * N)) : list out := map (fun r => fst (fst (fst r))) l.

(* a schedule without failures and without zero-length responses *)
Definition benign (sched : list resp) : bool :=
  forallb (fun r => match r with RBytes k => negb (k =? 0) | RFail => false end) sched.

(* get_input_stream, read off its documentation and the property *)
Definition wrapper_spec (cl : option Z) (r : env) : choice :=
  let rest :=
    if term_truthy r
    then match e_mcl r with Some m => ChLimited m true | None => ChRaw end
    else match cl with
         | None => if e_safe r then ChEmpty else ChRaw
         | Some n => ChLimited n false
         end in
  match cl, e_mcl r with
  | Some n, Some m => if (n >? m)%Z then ChRaise RequestEntityTooLarge else rest
  | _, _ => rest
  end.

(* a LimitedStream / underlying stream pair as it can arise: _pos counts what was taken *)
Definition wf (s : ls) (u : und) : Prop := pos s = lenN (u_taken u) /\ pos s <= limit s.

(* ------------------------------------------------------------------ primitives of the statement-by-statement translation
   of LimitedStream.readinto (C09/GenRI.v, generated).  The translated function threads _pos, the
   underlying stream and the caller's buffer b; Proofs.readinto_gen_core ties it to readinto_core. *)
Inductive rr := RRet (ret pos : Z) (u : und) (b : bytes) | RRaise (e : exn) (pos : Z) (u : und) (b : bytes).
Definition len_of (x : bytes) : Z := Z.of_N (lenN x).
Definition bytearray (n : Z) : bytes := zerosN (Z.to_N n).
Definition take (x : bytes) (n : Z) : bytes := takeN (Z.to_N n) x.        (* x[:n] *)
Definition truthy (n : Z) : bool := negb (n =? 0)%Z.
(* self.on_exhausted() / self.on_disconnect(...) : raise or fall through *)
Definition do_on_exhausted (is_max : bool) (pos : Z) (u : und) (b : bytes) (k : unit -> rr) : rr :=
  match on_exhausted_gen is_max with Some e => RRaise e pos u b | None => k tt end.
Definition do_on_disconnect (is_max error_given : bool) (pos : Z) (u : und) (b : bytes) (k : unit -> rr) : rr :=
  match on_disconnect_gen is_max error_given with Some e => RRaise e pos u b | None => k tt end.
(* try: out_size = self._stream.readinto(buf)  except (OSError, ValueError): h *)
Definition try_readinto (u : und) (buf : bytes) (k : Z -> und -> bytes -> rr) (h : und -> rr) : rr :=
  match und_read u (lenN buf) with
  | (UGot d, u') => k (len_of d) u' (d ++ dropN (lenN d) buf)
  | (UErr, u') => h u'
  end.
(* try: data = self._stream.read(n)  except (OSError, ValueError): h *)
Definition try_read (u : und) (n : Z) (k : bytes -> und -> rr) (h : und -> rr) : rr :=
  match und_read u (Z.to_N n) with
  | (UGot d, u') => k d u'
  | (UErr, u') => h u'
  end.
(* b[:n] = src *)
Definition slice_assign (kind : bufkind) (b : bytes) (n : Z) (src : bytes) (pos : Z) (u : und) (k : bytes -> rr) : rr :=
  if slice_assign_ok kind (Z.to_N n) src then k (src ++ dropN (Z.to_N n) b) else RRaise ValueErrorE pos u b.
