(* decimal text of an extracted Z of any size (digit list arithmetic, least significant first) *)
let rec dbl_add ds carry = match ds with
  | [] -> if carry = 0 then [] else [carry]
  | d :: r -> let v = 2 * d + carry in (v mod 10) :: dbl_add r (v / 10)
let rec dec_of_pos p = match p with XH -> [1] | XO q -> dbl_add (dec_of_pos q) 0 | XI q -> dbl_add (dec_of_pos q) 1
let str_digits ds = String.concat "" (List.rev_map string_of_int ds)
let dec_of_z z = match z with Z0 -> "0" | Zpos p -> str_digits (dec_of_pos p) | Zneg p -> "-" ^ str_digits (dec_of_pos p)
let exn_s = function ClientDisconnected -> "CD" | RequestEntityTooLarge -> "413" | ValueErrorE -> "VE"
  | TypeErrorE -> "TE" | OutOfFuel -> "FUEL"
let out_s = function
  | OkB d -> "b:" ^ hex_of_nlist d
  | OkInto (n, b) -> "i:" ^ string_of_int (int_of_n n) ^ ":" ^ hex_of_nlist b
  | OkLines l -> "l:" ^ String.concat "," (List.map hex_of_nlist l)
  | Exn e -> "x:" ^ exn_s e
let optn s = if s = "-" then None else Some (n_of_int (int_of_string s))
let op_of s = match String.split_on_char ':' s with
  | ["i"; "b"; h] -> OInto (KBytearray, nlist_of_hex h)
  | ["i"; "m"; h] -> OInto (KMemoryview, nlist_of_hex h)
  | ["r"; n] -> ORead (n_of_int (int_of_string n))
  | ["a"] -> OReadAll
  | ["e"] -> OExhaust
  | ["l"; n] -> OReadLine (optn n)
  | ["L"; n] -> OReadLines (optn n)
  | ["it"] -> OIter
  | _ -> failwith "bad op"
let sched_of s = if s = "-" then [] else
  List.map (fun t -> if t = "F" then RFail else RBytes (n_of_int (int_of_string t))) (String.split_on_char ',' s)
let opt s = if s = "~" then None else Some (nlist_of_csv s)
let env_of cl te term mcl safe =
  { e_cl = opt cl; e_te = opt te; e_term = (if term = "~" then None else Some (term = "1"));
    e_mcl = (if mcl = "~" then None else Some (z_of_int (int_of_string mcl))); e_safe = (safe = "1") }
let () = iter_lines (fun line ->
  match fields line with
  | ["ls"; data; limit; ismax; hasri; sched; ops] ->
      let ops = List.map op_of (String.split_on_char ';' ops) in
      let ((l, _), _) = run (ls_init (n_of_int (int_of_string limit)) (ismax = "1"))
                            (und_init (nlist_of_hex data) (sched_of sched) (hasri = "1")) ops in
      String.concat "|" (List.map (fun (((o, p), t), c) ->
        Printf.sprintf "%s@%d/%d/%d" (out_s o) (int_of_n p) (int_of_n t) (int_of_n c)) l)
  | ["gis"; cl; te; term; mcl; safe] ->
      (match get_input_stream_gen (env_of cl te term mcl safe) with
       | ChRaise e -> "raise:" ^ exn_s e
       | ChLimited (l, m) -> "limited:" ^ dec_of_z l ^ ":" ^ (if m then "1" else "0")
       | ChRaw -> "raw" | ChEmpty -> "empty")
  | ["cl"; cl; te] ->
      (match get_content_length_gen (opt cl) (opt te) with
       | Val None -> "none" | Val (Some z) -> dec_of_z z | Raise e -> "raise:" ^ exn_s e)
  | ["pint"; s] ->
      (match plain_int_gen (nlist_of_csv s) with Val z -> dec_of_z z | Raise e -> "raise:" ^ exn_s e)
  | _ -> "bad-command")
