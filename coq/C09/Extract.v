From Coq Require Extraction ExtrOcamlBasic.
From Wz Require Import lib.Bytes lib.ExtractBase C09.Base C09.Gen C09.Model.
Extraction Language OCaml.
Extraction "C09/model_extracted.ml" force_types run ls_init und_init readinto_unrepaired readall_unrepaired
  get_input_stream_gen get_content_length_gen plain_int_gen.
