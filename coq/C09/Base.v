(* C09: types and primitive atoms the generated definitions of Gen.v are written over.
   Definitions only.  Also the N-indexed list helpers shared with C19. *)
From Coq Require Export ZArith.
From Wz Require Export lib.Bytes.
Open Scope N_scope.

(* ------------------------------------------------------------------ N-indexed list helpers *)
Definition lenN (l : list N) : N := N.of_nat (length l).
Definition takeN (n : N) (l : list N) : list N := firstn (N.to_nat n) l.
Definition dropN (n : N) (l : list N) : list N := skipn (N.to_nat n) l.
Definition zerosN (n : N) : list N := repeat 0 (N.to_nat n).

(* ------------------------------------------------------------------ exceptions and results *)
Inductive exn :=
  | ClientDisconnected | RequestEntityTooLarge   (* the two HTTP errors the property allows *)
  | ValueErrorE | TypeErrorE                      (* unrelated exceptions: proved unreachable *)
  | OutOfFuel.                                    (* fuel exhaustion: proved unreachable *)

Definition exn_eqb (a b : exn) : bool :=
  match a, b with
  | ClientDisconnected, ClientDisconnected | RequestEntityTooLarge, RequestEntityTooLarge
  | ValueErrorE, ValueErrorE | TypeErrorE, TypeErrorE | OutOfFuel, OutOfFuel => true
  | _, _ => false
  end.

Inductive res (A : Type) := Val (a : A) | Raise (e : exn).
Arguments Val {A} a.
Arguments Raise {A} e.

Definition is_some {A} (o : option A) : bool := match o with Some _ => true | None => false end.
Definition is_none {A} (o : option A) : bool := match o with Some _ => false | None => true end.

(* ------------------------------------------------------------------ environ view *)
(* what get_input_stream looks at: CONTENT_LENGTH, HTTP_TRANSFER_ENCODING (text, None = absent),
   wsgi.input_terminated (None = key absent, Some v = truth value of what is stored),
   max_content_length, safe_fallback *)
Record env := { e_cl : option str; e_te : option str; e_term : option bool;
                e_mcl : option Z; e_safe : bool }.
Definition term_present (r : env) : bool := is_some (e_term r).
Definition term_truthy (r : env) : bool := match e_term r with Some b => b | None => false end.

(* which object get_input_stream hands back *)
Inductive choice :=
  | ChRaise (e : exn) | ChLimited (limit : Z) (is_max : bool) | ChRaw | ChEmpty.

(* a > b on int | None: None models the TypeError of comparing with None *)
Definition opt_gt (a b : option Z) : option bool :=
  match a, b with Some x, Some y => Some (Z.gtb x y) | _, _ => None end.
(* LimitedStream(stream, limit, is_max) with an int | None limit *)
Definition mk_limited (o : option Z) (is_max : bool) : choice :=
  match o with Some l => ChLimited l is_max | None => ChRaise TypeErrorE end.
Definition opt_str_eqb (o : option str) (lit : str) : bool :=
  match o with Some s => list_eqb s lit | None => false end.

(* ------------------------------------------------------------------ _plain_int atoms *)
(* str.strip(): the interpreter's 29 white-space code points *)
Definition py_strip (s : str) : str := strip uni_ws s.
Definition MINUS : N := 45.
(* re.compile(r"-?\d+", re.ASCII).fullmatch(s) is not None *)
Definition digits1 (s : str) : bool := match s with [] => false | _ => forallb is_digit s end.
Definition plain_int_re_fullmatch (s : str) : bool :=
  match s with
  | c :: r => if c =? MINUS then digits1 r else digits1 s
  | [] => false
  end.
Definition dec_val (s : str) : N := fold_left (fun acc c => acc * 10 + (c - 48)) s 0.
(* int(s) for s matching -?\d+ (never raises there; CPython's 4300-digit limit is outside the domain) *)
Definition py_int (s : str) : Z :=
  match s with
  | c :: r => if c =? MINUS then (- Z.of_N (dec_val r))%Z else Z.of_N (dec_val s)
  | [] => 0%Z
  end.
