(* C09 property theorems.  Nothing but statements, each closed by `exact <lemma>.`, with
   Print Assumptions beneath.  Definitions: C09/Model.v (generated parts: C09/Gen.v, regenerated
   from wsgi.py, sansio/utils.py and _internal.py on every run); spec-side predicates
   (core_spec, readinto_spec, read_spec, trace_ok, benign, wrapper_spec, wf) at the end of Model.v. *)
From Wz Require Import lib.Bytes C09.Base C09.Gen C09.Model C09.GenRI C09.Proofs.
Open Scope N_scope.

(* the pattern the hand-written matcher stands for, the chunked literal, the slice repair and a
   positive readall chunk size are those of the current source *)
Theorem C09_source_pins :
  list_eqb plain_int_re_text [45; 63; 92; 100; 43] && (plain_int_re_flags =? 256)
  && list_eqb te_literal [99; 104; 117; 110; 107; 101; 100] && (0 <? readall_chunk) = true
  /\ ri_slice_fix = true /\ (forall m e, readall_post m e = m && e).
Proof. exact (conj plain_int_pattern_pinned (conj slice_fix_present (fun m e => eq_refl))). Qed.
Print Assumptions C09_source_pins.

(* error exactness, one readinto: for every state, underlying stream, buffer kind and buffer,
   LimitedStream.readinto does exactly what the property demands (readinto_spec): at the limit
   RequestEntityTooLarge iff the limit is a maximum, else end of stream; before the limit
   ClientDisconnected iff the underlying read fails or (declared length) returns nothing;
   otherwise exactly the bytes obtained for a request of min(len b, remaining); no other error *)
Theorem C09_readinto_exact : forall s u kind b, readinto s u kind b = readinto_spec s u b.
Proof. exact readinto_eq. Qed.
Print Assumptions C09_readinto_exact.

(* LimitedStream.readinto translated statement by statement (C09/GenRI.v: every assignment, test,
   try/except, hook call, slice assignment and the _pos update of the current source, threading
   _pos, the underlying stream and the caller's buffer) computes exactly what the model's
   readinto_core does: return value, new _pos, underlying stream and buffer contents, or the
   exception raised.  All theorems about readinto / read / readall therefore speak about the
   translated source text *)
Theorem C09_readinto_translated : forall s u kind b,
  readinto_gen (is_max s) (Z.of_N (limit s)) (Z.of_N (pos s)) kind u b
  = embed b (readinto_core ri_slice_fix s u kind (lenN b)).
Proof. exact readinto_gen_core. Qed.
Print Assumptions C09_readinto_translated.

Theorem C09_read_exact : forall s u n, read s u n = read_spec s u n.
Proof. exact read_eq. Qed.
Print Assumptions C09_read_exact.

(* the _pos invariant over every operation sequence (readinto on either buffer kind and any
   buffer, read(n), read(), exhaust, readline, readlines) and every underlying schedule:
   consumed ++ unread = the client's bytes, _pos = bytes consumed <= limit after every operation,
   every result is ClientDisconnected / RequestEntityTooLarge or yields exactly the client's bytes
   between the previous and the new offset (never OutOfFuel, never ValueError); without an
   exception the concatenation of everything yielded is the prefix of length _pos *)
Theorem C09_invariant : forall D lim m sched ri ops,
  match run (ls_init lim m) (und_init D sched ri) ops with
  | (l, s, u) =>
    u_taken u ++ u_data u = D /\ pos s = lenN (u_taken u) /\ pos s <= lim /\
    trace_ok D lim 0 l /\
    (forallb no_exn (outs_of l) = true -> concat (map delivered (outs_of l)) = takeN (pos s) D)
  end.
Proof. exact invariant. Qed.
Print Assumptions C09_invariant.

Example C09_invariant_example :
  outs_of (fst (fst (run (ls_init 4 false) (und_init [97; 10; 98; 99; 100; 101] [RBytes 1; RFail; RBytes 1] true)
            [OInto KMemoryview (zerosN 10); ORead 3; OReadLine None; OReadAll; OReadAll])))
  = [OkInto 1 (97 :: zerosN 9); Exn ClientDisconnected; OkB [10]; OkB [98; 99]; OkB []].
Proof. vm_compute. reflexivity. Qed.
Print Assumptions C09_invariant_example.

(* readinto never changes the length of the caller's buffer nor touches it past the bytes reported *)
Theorem C09_readinto_buffer_kept : forall s u kind b n b' s' u',
  readinto s u kind b = (OkInto n b', s', u') ->
  lenN b' = lenN b /\ n <= lenN b /\ dropN n b' = dropN n b.
Proof. exact buffer_kept. Qed.
Print Assumptions C09_readinto_buffer_kept.

(* the repaired defect (fixed: 9953c96): with b[:out_size] = temp_b the same call raises ValueError
   on a memoryview after one byte was consumed (_pos 0, consumed 1), and grows a bytearray *)
Theorem C09_unrepaired_readinto_refuted :
  exists s u b s' u', readinto_unrepaired s u KMemoryview b = (Exn ValueErrorE, s', u')
                      /\ pos s' <> lenN (u_taken u')
  /\ exists n b', fst (fst (readinto_unrepaired s u KBytearray b)) = OkInto n b' /\ lenN b' <> lenN b.
Proof.
  do 5 eexists. split; [exact unrepaired_witness_memoryview|]. split; [vm_compute; discriminate|].
  do 2 eexists. split; [exact unrepaired_witness_bytearray|]. vm_compute. discriminate.
Qed.
Print Assumptions C09_unrepaired_readinto_refuted.

(* never silent truncation: with a declared length, an operation that signals the end of the
   stream without raising has delivered up to the limit *)
Theorem C09_no_silent_truncation : forall s u, wf s u -> is_max s = false ->
  (forall d s' u', readall s u = (OkB d, s', u') -> pos s' = limit s') /\
  (forall d s' u', exhaust s u = (OkB d, s', u') -> pos s' = limit s') /\
  (forall l s' u', readlines None s u = (OkLines l, s', u') -> pos s' = limit s') /\
  (forall s' u', readline None s u = (OkB [], s', u') -> pos s' = limit s') /\
  (forall n s' u', 0 < n -> read s u n = (OkB [], s', u') -> pos s' = limit s').
Proof. exact no_silent_truncation. Qed.
Print Assumptions C09_no_silent_truncation.

Example C09_no_silent_truncation_example :
  wf (ls_init 3 false) (und_init [1; 2; 3; 4] [RBytes 2] false)
  /\ readall (ls_init 3 false) (und_init [1; 2; 3; 4] [RBytes 2] false)
     = (OkB [1; 2; 3], {| pos := 3; limit := 3; is_max := false |},
        {| u_data := [4]; u_taken := [1; 2; 3]; u_sched := []; u_has_readinto := false; u_calls := 2 |}).
Proof. split; [split; vm_compute; [reflexivity|discriminate]|vm_compute; reflexivity]. Qed.
Print Assumptions C09_no_silent_truncation_example.

(* a body shorter than declared surfaces as ClientDisconnected, whatever the schedule *)
Theorem C09_short_body_disconnects : forall D lim sched ri, lenN D < lim ->
  fst (fst (readall (ls_init lim false) (und_init D sched ri))) = Exn ClientDisconnected.
Proof. exact short_body_disconnects. Qed.
Print Assumptions C09_short_body_disconnects.

(* on a schedule without failures and zero-length responses, however it fragments the reads,
   read() on a declared length not longer than the body delivers exactly the first `limit` bytes *)
Theorem C09_readall_delivers : forall D lim sched ri, benign sched = true -> lim <= lenN D ->
  fst (fst (readall (ls_init lim false) (und_init D sched ri))) = OkB (takeN lim D).
Proof. exact readall_delivers. Qed.
Print Assumptions C09_readall_delivers.

Example C09_readall_delivers_example :
  benign [RBytes 1; RBytes 3; RBytes 1] = true /\
  fst (fst (readall (ls_init 5 false) (und_init [1; 2; 3; 4; 5; 6; 7] [RBytes 1; RBytes 3; RBytes 1] true)))
  = OkB [1; 2; 3; 4; 5].
Proof. split; vm_compute; reflexivity. Qed.
Print Assumptions C09_readall_delivers_example.

(* termination: readall never runs out of fuel and makes at most (limit - _pos) underlying reads *)
Theorem C09_readall_bound : forall s u, wf s u ->
  match readall s u with
  | (o, s', u') =>
    u_calls u' <= u_calls u + (limit s - pos s) /\
    match o with OkB _ => True | Exn e => allowed e | _ => False end
  end.
Proof. exact readall_bound. Qed.
Print Assumptions C09_readall_bound.

(* at the limit every read raises RequestEntityTooLarge when the limit is a maximum, and is a clean
   end of stream when it is a declared length; the underlying stream is not touched *)
Theorem C09_at_limit : forall s u n, limit s <= pos s ->
  read s u n = ((if is_max s then Exn RequestEntityTooLarge else OkB []), s, u).
Proof. exact at_limit. Qed.
Print Assumptions C09_at_limit.

(* a body that reaches the configured maximum surfaces as RequestEntityTooLarge from an unbounded
   read() as well (repaired: afe6d66; the underlying stream is not read past the maximum, see
   C09_invariant), however the input fragments its reads *)
Theorem C09_max_body_too_large : forall D lim sched ri, benign sched = true -> lim <= lenN D ->
  fst (fst (readall (ls_init lim true) (und_init D sched ri))) = Exn RequestEntityTooLarge.
Proof. exact max_body_too_large. Qed.
Print Assumptions C09_max_body_too_large.

(* and a body below the maximum is delivered whole *)
Theorem C09_max_body_fits : forall D lim sched ri, benign sched = true -> lenN D < lim ->
  fst (fst (readall (ls_init lim true) (und_init D sched ri))) = OkB D.
Proof. exact max_body_fits. Qed.
Print Assumptions C09_max_body_fits.

Example C09_max_body_example :
  fst (fst (readall (ls_init 3 true) (und_init [1; 2] [RBytes 1] false))) = OkB [1; 2]
  /\ fst (fst (readall (ls_init 2 true) (und_init [1; 2; 3] [RBytes 1] false))) = Exn RequestEntityTooLarge.
Proof. vm_compute. split; reflexivity. Qed.
Print Assumptions C09_max_body_example.

(* the repaired defect: without the statement after the loop, read() returned the first `lim` bytes
   of a longer body and no error *)
Theorem C09_unrepaired_readall_refuted : exists D lim sched ri, lim < lenN D /\
  fst (fst (readall_unrepaired (ls_init lim true) (und_init D sched ri))) = OkB (takeN lim D).
Proof.
  exists [97; 98; 99], 2, [], true. split; [vm_compute; reflexivity|].
  rewrite max_readall_truncates_witness. reflexivity.
Qed.
Print Assumptions C09_unrepaired_readall_refuted.

(* get_content_length never raises; None exactly for chunked or absent; otherwise non-negative *)
Theorem C09_content_length_total : forall cl te,
  exists o, get_content_length_gen cl te = Val o /\
    (o = None <-> (opt_str_eqb te te_literal = true \/ cl = None)) /\
    (forall n, o = Some n -> (0 <= n)%Z).
Proof. exact content_length_total. Qed.
Print Assumptions C09_content_length_total.

(* plain ASCII decimal digits are the declared length; anything _plain_int refuses is 0 *)
Theorem C09_content_length_digits : forall ds te, digits1 ds = true -> opt_str_eqb te te_literal = false ->
  get_content_length_gen (Some ds) te = Val (Some (Z.of_N (dec_val ds))).
Proof. exact content_length_digits. Qed.
Print Assumptions C09_content_length_digits.

Theorem C09_content_length_unparsable : forall v te,
  plain_int_re_fullmatch (py_strip v) = false -> opt_str_eqb te te_literal = false ->
  get_content_length_gen (Some v) te = Val (Some 0%Z).
Proof. exact content_length_unparsable. Qed.
Print Assumptions C09_content_length_unparsable.

(* 12 / -3 / non-numeric / full-width digits / chunked *)
Example C09_content_length_examples :
  get_content_length_gen (Some [32; 49; 50; 32]) None = Val (Some 12%Z)
  /\ get_content_length_gen (Some [45; 51]) None = Val (Some 0%Z)
  /\ get_content_length_gen (Some [97]) None = Val (Some 0%Z)
  /\ get_content_length_gen (Some [65297; 65298]) None = Val (Some 0%Z)
  /\ get_content_length_gen (Some [53]) (Some te_literal) = Val None.
Proof. vm_compute. repeat split. Qed.
Print Assumptions C09_content_length_examples.

(* the decision table of get_input_stream (generated from the source) is wrapper_spec *)
Theorem C09_wrapper_choice : forall r,
  exists cl, wsgi_get_content_length_gen r = Val cl /\
    (cl = None <-> (opt_str_eqb (e_te r) te_literal = true \/ e_cl r = None)) /\
    (forall n, cl = Some n -> (0 <= n)%Z) /\
    get_input_stream_gen r = wrapper_spec cl r.
Proof. exact wrapper_choice_full. Qed.
Print Assumptions C09_wrapper_choice.

(* no usable length on a server that does not terminate its input (key absent or false): empty stream *)
Theorem C09_no_length_empty : forall r,
  (e_cl r = None \/ opt_str_eqb (e_te r) te_literal = true) -> term_truthy r = false -> e_safe r = true ->
  get_input_stream_gen r = ChEmpty.
Proof. exact no_length_empty. Qed.
Print Assumptions C09_no_length_empty.

Example C09_no_length_empty_example :
  get_input_stream_gen {| e_cl := Some [53]; e_te := Some te_literal; e_term := Some false;
                          e_mcl := Some 4%Z; e_safe := true |} = ChEmpty.
Proof. vm_compute. reflexivity. Qed.
Print Assumptions C09_no_length_empty_example.

(* get_input_stream raises nothing but RequestEntityTooLarge; a limit-is-maximum stream is only
   built on a terminated input with exactly max_content_length; a declared-length stream has a
   non-negative limit; no limit exceeds max_content_length *)
Theorem C09_wrapper_sound : forall r,
  (forall e, get_input_stream_gen r = ChRaise e -> e = RequestEntityTooLarge) /\
  (forall l m, get_input_stream_gen r = ChLimited l m ->
     (m = true -> e_mcl r = Some l /\ term_truthy r = true) /\
     (m = false -> (0 <= l)%Z /\ term_truthy r = false) /\
     (forall mx, e_mcl r = Some mx -> (l <= mx)%Z)).
Proof. exact wrapper_sound. Qed.
Print Assumptions C09_wrapper_sound.

(* buffering wrappers (io.BufferedReader, io.TextIOWrapper, anything written against io.RawIOBase)
   as consumers: whatever sequence of raw readinto calls (any buffer kind, any buffer size of the
   wrapper's own choosing), raw readall calls and deliveries from the front of its private buffer a
   wrapper performs, up to the first exception it propagates: the UNDERLYING stream is never read
   past the limit although the wrapper reads ahead, _pos = bytes consumed, what the application
   received followed by what is still buffered is exactly what was consumed (a prefix of the
   client's bytes; only a raw readall that raises loses the bytes it had taken), and the only
   exceptions are ClientDisconnected / RequestEntityTooLarge *)
Theorem C09_buffering_wrapper : forall D lim m sched ri ops,
  match wrun (ls_init lim m) (und_init D sched ri) [] ops with
  | (outs, buf, e, s, u) =>
    u_taken u ++ u_data u = D /\ pos s = lenN (u_taken u) /\ lenN (u_taken u) <= lim /\
    exists lost, u_taken u = concat outs ++ buf ++ lost /\
      match e with Some e => allowed e | None => lost = [] end
  end.
Proof. exact buffering_wrapper. Qed.
Print Assumptions C09_buffering_wrapper.

(* a wrapper with an 8-byte buffer over a 5-byte declared body of a longer input: it asks for 8, 8, 8
   and can never take more than 5 *)
Example C09_buffering_wrapper_example :
  wrun (ls_init 5 false) (und_init [1; 2; 3; 4; 5; 6; 7] [RBytes 2] true) []
       [WFill KMemoryview 8; WTake 1; WFill KMemoryview 8; WFill KMemoryview 8; WTake 9]
  = ([[1]; [2; 3; 4; 5]], [], None, {| pos := 5; limit := 5; is_max := false |},
     {| u_data := [6; 7]; u_taken := [1; 2; 3; 4; 5]; u_sched := []; u_has_readinto := true; u_calls := 2 |}).
Proof. vm_compute. reflexivity. Qed.
Print Assumptions C09_buffering_wrapper_example.

(* tell() is _pos, hence (C09_invariant) the number of bytes consumed from the underlying stream *)
Theorem C09_tell : forall s, tell s = pos s.
Proof. exact tell_pos. Qed.
Print Assumptions C09_tell.
