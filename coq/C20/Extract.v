From Coq Require Extraction ExtrOcamlBasic.
From Wz Require Import lib.Bytes lib.ExtractBase C20.Types C20.Str C20.Gen C20.Model.
Extraction Language OCaml.
Extraction "C20/model_extracted.ml" force_types host_is_trusted get_host request_host wsgi_get_host strip_port parse_int run run_hist check_pin_trust creates_console_frame.
