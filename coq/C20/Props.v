(* C20 property theorems.  Nothing but statements, each closed by `exact <lemma>.`, with
   Print Assumptions beneath.  Definitions: C20/Types.v, C20/Model.v; the decision functions
   call / pin_auth / execute_command / display_console / log_pin_request / check_pin_trust /
   fail_count / lock_test and the constants are in C20/Gen.v, regenerated from the source of
   werkzeug.debug on every run; specifications (host_part, names, spec_trusted, is_fail,
   is_right, count_fail) are in C20/Proofs.v. *)
From Coq Require Import ZArith.
From Wz Require Import lib.Bytes C20.Types C20.Str C20.Gen C20.Model C20.Proofs C20.CookieHeader.
Open Scope N_scope.

(* What is an input of the model and not modelled:
   - hash_pin (sha1 of the PIN text plus a salt, first 12 hex digits): c_pin_hash cfg stands for
     hash_pin(self.pin); check_pin_trust compares the text after the first bar of the cookie with it
     by equality (atom p_hash_eq).  The statement of hash_pin - sha1 over the PIN text followed by the
     literal salt, 12 hex digits - is pinned by the translator (Gen.hash_pin_salt, hash_pin_hex_digits).  That sha1 is hard to invert or collide is not claimed; the source
     expression of hash_pin is pinned by the translator and its value is recomputed with hashlib by the
     harness.
   - parse_cookie (C13): q_cookie q is the value it returns for the PIN cookie name.
   - the per-process secret (gen_salt) and the PIN derivation (get_pin_and_cookie_name): c_secret, c_pin.
   - str.encode(idna) on non-ASCII text: the parameter idna_u, with the stated contract where needed.
   - time.time(): q_now q (whole seconds). *)

(* ---------------------------------------------------------------- C20_gate *)

(* evaluation (frame.eval is called) happens only for a debugger request carrying a command, with
   evalex on, a trusted Host, the secret, a known frame and check_pin_trust = True; it leaves the
   failure counter alone.  Finite: a sweep over all 61440 abstract requests and both values of the
   lock-out test, against the regenerated functions. *)
Theorem C20_gate : forall r count, fst (step r count) = OEval ->
  a_dbg r && negb (cmd_is (a_cmd r) CNone) && a_evalex r && a_host_trusted r && a_secret_ok r && a_frame r
  && trust_truthy (a_pin_trust r) = true /\ snd (step r count) = count.
Proof. exact gate_step. Qed.
Print Assumptions C20_gate.

Example C20_gate_reachable : fst (step ex_eval 0) = OEval.
Proof. vm_compute. reflexivity. Qed.
Print Assumptions C20_gate_reachable.

(* console page, pinauth, printpin (and evaluation) answer trusted hosts only: from an untrusted
   Host a request reaches the wrapped application, a static resource or a 400, nothing else, and
   cannot move the failure counter *)
Theorem C20_gate_endpoints : forall r count, a_host_trusted r = false ->
  (match fst (step r count) with OApp | OResource | OSecurityError => true | _ => false end) = true
  /\ snd (step r count) = count.
Proof. exact untrusted_step. Qed.
Print Assumptions C20_gate_endpoints.

(* what the other endpoints require.  The console page carries the secret and creates the console
   frame (frame 0): evalex, the console path, a trusted Host; its evalex_trusted flag is the PIN
   trust.  pinauth (incl. its KeyError on a missing pin argument) and printpin: the secret and a
   trusted Host; the PIN goes to the log only when logging is on and a PIN exists. *)
Theorem C20_gate_endpoint_requirements : forall r count,
  match fst (step r count) with
  | OConsole t => a_evalex r && a_host_trusted r && a_console_path_set r && a_path_is_console r && negb (a_dbg r)
                  && Bool.eqb t (trust_truthy (a_pin_trust r))
  | OPinAuth _ _ _ | ORaise _ => a_dbg r && a_secret_ok r && a_host_trusted r && cmd_is (a_cmd r) CPinauth
  | OPrintPin logged => a_dbg r && a_secret_ok r && a_host_trusted r && cmd_is (a_cmd r) CPrintpin
                        && implb logged (a_pin_logging r && negb (a_pin_is_none r))
  | _ => true
  end = true.
Proof. exact endpoint_step_full. Qed.
Print Assumptions C20_gate_endpoint_requirements.

(* the same gate on the concrete request: query arguments, Host header, PIN cookie.  idna_u is any
   function (no contract needed here). *)
Theorem C20_gate_concrete : forall idna_u cfg q count c s,
  run idna_u cfg q count = ROut OEval c s ->
  c_evalex cfg = true /\
  host_is_trusted idna_u (q_host q) (c_trusted cfg) = Ok true /\
  arg_get k_s (q_args q) = Some (c_secret cfg) /\
  arg_get k_debugger (q_args q) = Some k_yes /\
  (exists code, arg_get k_cmd (q_args q) = Some code) /\
  (exists f z, arg_get k_frm (q_args q) = Some f /\ parse_int f = IOk z /\ In z (c_frames cfg)) /\
  (c_pin cfg = None \/
   exists ts_str ts, q_cookie q = Some (ts_str ++ BAR :: c_pin_hash cfg) /\ mem BAR ts_str = false /\
     parse_int ts_str = IOk ts /\ (q_now q - PIN_TIME < ts)%Z) /\
  c = count /\ s = None.
Proof. exact gate_concrete. Qed.
Print Assumptions C20_gate_concrete.

Theorem C20_gate_untrusted_concrete : forall idna_u cfg q count o c s,
  host_is_trusted idna_u (q_host q) (c_trusted cfg) = Ok false ->
  run idna_u cfg q count = ROut o c s ->
  (match o with OApp | OResource | OSecurityError => true | _ => false end) = true /\ c = count /\ s = None.
Proof. exact untrusted_concrete. Qed.
Print Assumptions C20_gate_untrusted_concrete.

(* evaluation in the console frame (frames[0]).  The frames table is state: display_console adds frame
   0 when it answers; a traceback adds id(frame) for each of its frames.  Those ids are addresses of
   live objects, never 0, so the model takes them as positive numbers (ar_new_ids); that these two are
   the only stores into self.frames is pinned by the translator (frame_store_sites in Gen.v) and the
   harness checks on real tracebacks that every key is id(frame) <> 0.  For EVERY history of requests
   from a state without frame 0: if a request naming frame 0 is evaluated, the console page was served
   earlier in the history, to a trusted Host, with evalex. *)
Theorem C20_console_frame : forall h s q,
  ~ In 0%Z (d_frames s) ->
  ar_frm q = Some 0%Z -> fst (astep (arun s h) q) = OEval ->
  exists pre q' post, h = pre ++ q' :: post /\
    exists t, fst (astep (arun s pre) q') = OConsole t /\
              a_host_trusted (ar_atoms q') = true /\ a_evalex (ar_atoms q') = true.
Proof. exact console_eval_needs_page. Qed.
Print Assumptions C20_console_frame.

Example C20_console_frame_example :
  fst (astep (arun st0 [ex_console_page]) ex_eval_frame0) = OEval /\
  fst (astep (arun st0 []) ex_eval_frame0) = OApp.
Proof. vm_compute. split; reflexivity. Qed.
Print Assumptions C20_console_frame_example.

(* ---------------------------------------------------------------- the PIN cookie *)

(* check_pin_trust on EVERY cookie value (q_cookie q = what parse_cookie returns for the PIN cookie
   name; time.time() = q_now q is an input; hash_pin(pin) = c_pin_hash cfg is an input).  p is the
   record of atoms the model computes from the text (split at the first bar, int() of the first part):
   - True  iff the PIN is off, or the value is  <text int() accepts> | hash_pin(pin)  and the time
     stamp is less than PIN_TIME seconds old (now - PIN_TIME < ts);
   - None  iff the PIN is on and the value is  <text int() accepts> | <anything else>  - a stale hash,
     also when more bars follow (split("|", 1));
   - False in every other case: no cookie, empty, no bar, a time stamp int() refuses, expired. *)
Theorem C20_pin_cookie : forall cfg q p, pin_atoms cfg q = Some p ->
  (check_pin_trust p = TTrue <->
     c_pin cfg = None \/
     exists ts_str ts, q_cookie q = Some (ts_str ++ BAR :: c_pin_hash cfg) /\ mem BAR ts_str = false /\
       parse_int ts_str = IOk ts /\ (q_now q - PIN_TIME < ts)%Z) /\
  (check_pin_trust p = TNone <->
     c_pin cfg <> None /\
     exists ts_str rest ts, q_cookie q = Some (ts_str ++ BAR :: rest) /\ mem BAR ts_str = false /\
       parse_int ts_str = IOk ts /\ rest <> c_pin_hash cfg) /\
  (check_pin_trust p = TFalse <-> ~ pin_cookie_valid cfg q /\ ~ pin_cookie_stale cfg q).
Proof. exact pin_cookie_classes. Qed.
Print Assumptions C20_pin_cookie.

(* the only cookie values outside the model: a non-ASCII character in the time stamp field (int()
   also accepts Unicode digits and spaces) *)
Theorem C20_pin_cookie_domain : forall cfg q, pin_atoms cfg q = None ->
  exists ts_str rest, q_cookie q = Some (ts_str ++ BAR :: rest) /\ mem BAR ts_str = false /\ is_ascii_str ts_str = false.
Proof. exact pin_atoms_domain. Qed.
Print Assumptions C20_pin_cookie_domain.

(* composed with C13's model of http.parse_cookie: the same classification for every Cookie header in
   that model's domain; the first cookie of the name counts *)
Theorem C20_pin_cookie_header : forall cfg q name header v p,
  cookie_from_header name header = Some v -> pin_atoms cfg (with_cookie q v) = Some p ->
  (check_pin_trust p = TTrue <-> pin_cookie_valid cfg (with_cookie q v)) /\
  (check_pin_trust p = TNone <-> pin_cookie_stale cfg (with_cookie q v)) /\
  (check_pin_trust p = TFalse <-> ~ pin_cookie_valid cfg (with_cookie q v) /\ ~ pin_cookie_stale cfg (with_cookie q v)).
Proof. exact header_classes. Qed.
Print Assumptions C20_pin_cookie_header.

(* shapes: valid (first of two cookies of the name wins), other hash, several bars, no bar, non-integer
   time stamp, empty value, cookie absent, expired *)
Example C20_pin_cookie_shapes :
  map trust_of_header [hdr_valid; hdr_stale; hdr_bars; hdr_nobar; hdr_nonint; hdr_empty; hdr_absent; hdr_expired]
  = [Some TTrue; Some TNone; Some TNone; Some TFalse; Some TFalse; Some TFalse; Some TFalse; Some TFalse].
Proof. vm_compute. reflexivity. Qed.
Print Assumptions C20_pin_cookie_shapes.

(* pin_auth by cookie verdict, for a request that reaches it (debugger flag, cmd=pinauth, secret, trusted
   Host).  Stale cookie: counted as a failed attempt and the cookie is deleted - also while locked out,
   which is how the counter can pass 11.  Valid cookie: authenticated, cookie re-issued
   (int(time.time()) | hash_pin(pin), pinned by the translator), counter untouched.  Neither: the PIN
   entry decides; a refusal or failure neither sets nor deletes a cookie. *)
Theorem C20_pin_auth_cookie : forall r locked, reaches_pin_auth r = true ->
  match a_pin_trust r with
  | TNone => call r locked = (OPinAuth false false CkDelete, KFail)
  | TTrue => call r locked = (OPinAuth true false CkSet, KKeep)
  | TFalse =>
      call r locked =
        if locked then (OPinAuth false true CkNone, KKeep)
        else if negb (a_pin_present r) then (ORaise KeyError, KKeep)
        else if a_pin_matches r then (OPinAuth true false CkSet, KReset)
        else (OPinAuth false false CkNone, KFail)
  end.
Proof. exact pin_auth_by_cookie. Qed.
Print Assumptions C20_pin_auth_cookie.

(* the time dimension.  time.sleep itself (blocking the worker) is OUTSIDE the model; its argument is an
   output of the model (slept, regenerated from _fail_pin_auth: time.sleep(5.0 if count > 5 else 0.5))
   and is compared with the recorded argument on every harness request.  Exactly the counted failures
   sleep; an entry refused by the lock-out (exhausted) is answered without delay. *)
Theorem C20_fail_delay : forall k count,
  slept k count = match k with KFail => Some (if 5 <? count then 5000 else 500) | _ => None end.
Proof. exact delay_spec. Qed.
Print Assumptions C20_fail_delay.

(* ---------------------------------------------------------------- configurations *)

(* DebuggedApplication.__init__(app, evalex, request_key, console_path, console_init_func,
   show_hidden_frames, pin_security, pin_logging):
   - evalex            -> atom a_evalex            (dimension of every sweep; harness: both values)
   - console_path      -> atoms a_console_path_set, a_path_is_console (dimension; harness: None and two paths)
   - pin_security      -> atoms a_pin_is_none and a_pin_trust: False makes self.pin None, as does
                          WERKZEUG_DEBUG_PIN=off, and check_pin_trust is then True (dimension; harness: both)
   - pin_logging       -> atom a_pin_logging       (dimension; harness: both values)
   - request_key       -> stored, never read (translator: fixed, fails closed if it gains a reader)
   - show_hidden_frames-> read only by debug_application when rendering a traceback (fixed; pinned)
   - console_init_func -> read only inside the pinned console-frame block of display_console (fixed)
   - app               -> the wrapped application: outcome OApp
   C20_gate and the other sweeps quantify over all atoms, hence over every combination of the four
   flags that are dimensions.
   Per-instance state (followed in the code at this commit): trusted_hosts (a fresh list), frames (a
   fresh dict), _failed_pin_auth (a fresh multiprocessing.Value, so the counter is per
   DebuggedApplication instance; it is shared only with processes forked from that instance) and
   secret (gen_salt) are all created in __init__, which is statement-pinned; the model state (counter,
   frames) and configuration (c_trusted, c_secret) are those of ONE instance.  The PIN and the cookie
   name are derived from the wrapped application and the machine, so two instances around the same
   application share them by design.  That configuring or using one instance does not open another is
   checked on real instances by the harness (instance-isolation stage).
   Assigning app.pin on the server side (the pin setter) at this commit stores the value in _pin and
   does nothing else: the model step is  pin := value, counter unchanged  (c_pin is configuration, the
   counter is state; C20_lockout quantifies over the requests only, so an assignment between two
   requests leaves its conclusion intact).  One quirk of the code: pin_cookie_name derives
   (_pin, _pin_cookie) together when _pin_cookie does not exist yet, so an assignment made on a FRESH
   instance, before the cookie name was ever read, is overwritten by the derived PIN at the first
   request that checks the cookie; after that, assignments stick.  The harness assigns app.pin (the
   same and new values) at every position of the lock-out histories on the real instance: the
   counter does not move and the lock-out stays.
   What each switch rules out: *)
Theorem C20_config : forall r count,
  (a_evalex r = false -> match fst (step r count) with OEval | OConsole _ => False | _ => True end) /\
  (a_console_path_set r = false -> match fst (step r count) with OConsole _ => False | _ => True end) /\
  (a_pin_logging r = false \/ a_pin_is_none r = true -> fst (step r count) <> OPrintPin true).
Proof. exact config_step. Qed.
Print Assumptions C20_config.

Theorem C20_config_pin_off : forall p, p_pin_is_none p = true -> check_pin_trust p = TTrue.
Proof. exact pin_off_trust. Qed.
Print Assumptions C20_config_pin_off.

(* ---------------------------------------------------------------- C20_lockout *)

(* for EVERY history of requests of any kind (pre ++ w ++ post, from any counter value): if the
   window w contains more than ten failed attempts (wrong PIN, or cookie with a stale PIN hash) and
   no accepted-form correct PIN entry, then at the end the counter is above ten and an attempt that
   is not already authenticated by a valid cookie is refused - whatever came before and whatever
   comes after.  The counter is the byte the code uses: fail_count is (min (count + 1) 255) mod 256. *)
Theorem C20_lockout : forall c0 pre w post r,
  (forall x, In x w -> is_right x = false) -> 10 < count_fail w ->
  trust_truthy (a_pin_trust r) = false ->
  let c := run_hist c0 (pre ++ w ++ post) in
  10 < c /\ auth_of (fst (step r c)) = false.
Proof. exact lockout. Qed.
Print Assumptions C20_lockout.

(* the hypotheses are satisfiable, and below the threshold the correct PIN does authenticate *)
Example C20_lockout_example :
  (forall x, In x (repeat ex_wrong 6 ++ repeat ex_stale 5) -> is_right x = false) /\
  10 < count_fail (repeat ex_wrong 6 ++ repeat ex_stale 5) /\
  auth_of (fst (step ex_right (run_hist 0 (repeat ex_wrong 6 ++ repeat ex_stale 5)))) = false /\
  auth_of (fst (step ex_right (run_hist 0 (repeat ex_wrong 6 ++ repeat ex_stale 4)))) = true.
Proof.
  split; [|vm_compute; repeat split; reflexivity].
  intros x H. vm_compute in H. repeat (destruct H as [<-|H]; [reflexivity|]). destruct H.
Qed.
Print Assumptions C20_lockout_example.

Theorem C20_lockout_permanent : forall h c, 10 < c -> 10 < run_hist c h.
Proof. exact hist_locked. Qed.
Print Assumptions C20_lockout_permanent.

Theorem C20_correct_pin_accepted_below_threshold : forall r c, c <= 10 -> is_right r = true ->
  auth_of (fst (step r c)) = true /\ snd (step r c) = 0.
Proof. exact right_accepted_step. Qed.
Print Assumptions C20_correct_pin_accepted_below_threshold.

(* the stored value never reaches the modulus of the Value type: no wrap *)
Theorem C20_counter_no_wrap : (forall c, fail_count c = N.min (c + 1) 255) /\ value_modulus = 256 /\
  forall h c, c < 256 -> run_hist c h < 256.
Proof. exact (conj fail_count_value (conj eq_refl counter_byte)). Qed.
Print Assumptions C20_counter_no_wrap.

(* the increment as it was before the fix (fixed finding): 256 counted failures give 0 again *)
Theorem C20_lockout_wrapping_increment_refuted :
  exists n, (10 < n)%nat /\ Nat.iter n (fun c => (c + 1) mod 256) 0 = 0.
Proof. exact wrap_refuted. Qed.
Print Assumptions C20_lockout_wrapping_increment_refuted.

(* ---------------------------------------------------------------- C20_host *)

(* strip_port, host_is_trusted, get_host, request_host and wsgi_get_host are GENERATED (Gen.v) from
   the bodies of sansio.utils._strip_port / host_is_trusted / get_host, sansio.request.Request.host
   and wsgi.get_host: branch conditions, the order port strip -> IDNA -> comparison, the exception
   class of each handler, the None / list handling.  They are proved equal to the reference reading
   of Model.v, so a reordered or dropped step in the source breaks this theorem. *)
Theorem C20_generated_host_functions : forall idna_u,
  (forall h, strip_port h = strip_port_ref h) /\
  (forall h l, host_is_trusted idna_u h l = host_is_trusted_ref idna_u h l) /\
  (forall scheme hh server tr, get_host idna_u scheme hh server tr = get_host_ref idna_u scheme hh server tr).
Proof. exact (fun u => conj strip_port_eq (conj (host_is_trusted_eq u) (get_host_eq u))). Qed.
Print Assumptions C20_generated_host_functions.

(* request-level enforcement (sansio.request.Request.host; wsgi.get_host is the same function of its
   arguments): with trusted_hosts = None there is no validation; with a list - the empty list
   included, which therefore refuses every host - the assembled host is returned exactly when
   host_is_trusted is true, and the failure is SecurityError otherwise. *)
Theorem C20_request_host : forall idna_u scheme hh server,
  let h := assemble scheme hh server in
  request_host idna_u scheme hh server None = Ok h /\
  (forall l, exists b, host_is_trusted idna_u (Some h) l = Ok b /\
     request_host idna_u scheme hh server (Some l) = if b then Ok h else Err SecurityError) /\
  request_host idna_u scheme hh server (Some []) = Err SecurityError /\
  (forall tr, wsgi_get_host idna_u scheme hh server tr = request_host idna_u scheme hh server tr).
Proof. exact request_host_spec. Qed.
Print Assumptions C20_request_host.

(* strip_port computes the host part: port removed after the first colon, or after the closing
   bracket of an IPv6 literal *)
Theorem C20_host_part : forall h, host_part h (strip_port h).
Proof. exact strip_port_part_gen. Qed.
Print Assumptions C20_host_part.

(* host_is_trusted h l = true implies: the port-stripped, IDNA-encoded host equals the name of a
   listed entry, or is a true subdomain (non-empty prefix, then a dot) of a dot-prefixed entry.
   idna_u: str.encode(idna) on non-ASCII text, any function whose outputs have non-empty labels. *)
Theorem C20_host : forall idna_u,
  (forall s o, idna_u s = Some o -> ascii_labels_ok o 0 = true) ->
  forall h l, host_is_trusted idna_u (Some h) l = Ok true ->
  exists hn, names idna_u h hn /\ exists ref, In ref l /\
    ((starts_with [DOT] ref = false /\ names idna_u ref hn)
     \/ (exists ref' rn, ref = DOT :: ref' /\ names idna_u ref' rn /\
           (hn = rn \/ exists sub, sub <> [] /\ hn = sub ++ DOT :: rn))).
Proof. exact host_sound_gen. Qed.
Print Assumptions C20_host.

(* with the default list: localhost, a true subdomain of it, or 127.0.0.1 - never a look-alike *)
Theorem C20_host_default : forall idna_u,
  (forall s o, idna_u s = Some o -> ascii_labels_ok o 0 = true) ->
  forall h, host_is_trusted idna_u (Some h) default_trusted_hosts = Ok true ->
  exists hn, names idna_u h hn /\
    (hn = s_localhost \/ (exists sub, sub <> [] /\ hn = sub ++ DOT :: s_localhost) \/ hn = s_loopback).
Proof. exact default_list_sound_gen. Qed.
Print Assumptions C20_host_default.

Example C20_host_examples :
  host_is_trusted no_idna (Some s_sub_localhost_80) default_trusted_hosts = Ok true /\
  host_is_trusted no_idna (Some s_evillocalhost) default_trusted_hosts = Ok false /\
  host_is_trusted no_idna (Some s_v6_2_port) [s_v6_1] = Ok false /\
  host_is_trusted no_idna (Some s_v6_1) [s_v6_1] = Ok true /\
  host_is_trusted no_idna (Some s_a_dotdot_b) default_trusted_hosts = Ok false /\
  (forall s o, no_idna s = Some o -> ascii_labels_ok o 0 = true).
Proof. vm_compute. repeat split; try reflexivity. intros; discriminate. Qed.
Print Assumptions C20_host_examples.

(* no failure other than SecurityError: host_is_trusted always returns a boolean (absent, empty and
   malformed hosts included), get_host fails with SecurityError only, and what it returns under a
   trusted list satisfies the specification *)
Theorem C20_host_errors : forall idna_u,
  (forall h l, exists b, host_is_trusted idna_u h l = Ok b) /\
  (forall l, host_is_trusted idna_u None l = Ok false) /\
  (forall scheme hh server tr e, get_host idna_u scheme hh server tr = Err e -> e = SecurityError).
Proof. exact (fun u => conj (host_total_gen u) (conj (host_absent_gen u) (get_host_errors_gen u))). Qed.
Print Assumptions C20_host_errors.

Theorem C20_get_host_trusted : forall idna_u,
  (forall s o, idna_u s = Some o -> ascii_labels_ok o 0 = true) ->
  forall scheme hh server l v, get_host idna_u scheme hh server (Some l) = Ok v -> spec_trusted idna_u v l.
Proof. exact get_host_trusted_gen. Qed.
Print Assumptions C20_get_host_trusted.
