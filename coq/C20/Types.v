(* C20: types shared by the generated decision functions (C20/Gen.v) and the hand-written
   model (C20/Model.v).  Definitions only.

   atoms = the abstract request: one field per source expression of the debugger's gates
   (the atom table of tools/c20.py maps the normalised source text of each expression to
   the field named here). *)
From Coq Require Import ZArith.
From Wz Require Import lib.Bytes.
Open Scope N_scope.

Inductive cmdkind := CNone | CResource | CPinauth | CPrintpin | COther.
(* check_pin_trust returns True / False / None *)
Inductive trust := TTrue | TFalse | TNone.
Inductive exn := UnicodeError | KeyError | SecurityError.
Inductive res (A : Type) := Ok (a : A) | Err (e : exn).
Arguments Ok {A} a.
Arguments Err {A} e.

Definition cmd_is (a b : cmdkind) : bool :=
  match a, b with
  | CNone, CNone | CResource, CResource | CPinauth, CPinauth | CPrintpin, CPrintpin | COther, COther => true
  | _, _ => false
  end.
Definition trust_is_none (t : trust) : bool := match t with TNone => true | _ => false end.
(* truth value of the result in a boolean context *)
Definition trust_truthy (t : trust) : bool := match t with TTrue => true | _ => false end.
Definition trust_of_bool (b : bool) : trust := if b then TTrue else TFalse.

Record atoms := {
  a_dbg : bool;               (* request.args.get("__debugger__") == "yes" *)
  a_cmd : cmdkind;            (* cmd = request.args.get("cmd") : None / resource / pinauth / printpin / other text *)
  a_arg : bool;               (* truth value of arg = request.args.get("f") *)
  a_secret_ok : bool;         (* secret == self.secret *)
  a_frame : bool;             (* frame is not None, frame = self.frames.get(request.args.get("frm", type=int)) *)
  a_evalex : bool;            (* self.evalex *)
  a_console_path_set : bool;  (* self.console_path is not None *)
  a_path_is_console : bool;   (* request.path == self.console_path *)
  a_host_trusted : bool;      (* self.check_host_trust(environ) *)
  a_pin_trust : trust;        (* self.check_pin_trust(environ) *)
  a_pin_present : bool;       (* "pin" in request.args  (request.args["pin"] raises otherwise) *)
  a_pin_matches : bool;       (* entered_pin.strip().replace("-", "") == pin.replace("-", "") *)
  a_pin_logging : bool;       (* self.pin_logging *)
  a_pin_is_none : bool        (* self.pin is None *)
}.

(* the atoms of check_pin_trust *)
Record pinatoms := {
  p_pin_is_none : bool;       (* self.pin is None *)
  p_val_truthy : bool;        (* truth value of val = parse_cookie(environ).get(self.pin_cookie_name) *)
  p_bar_in_val : bool;        (* "|" in val *)
  p_ts : option Z;            (* int(ts_str): None = ValueError *)
  p_hash_eq : bool;           (* pin_hash == hash_pin(self.pin) *)
  p_now : Z                   (* time.time() *)
}.

Inductive cookie_act := CkNone | CkSet | CkDelete.

(* what a request does *)
Inductive outcome :=
| OApp                                   (* handed to the wrapped application *)
| OResource                              (* static debugger resource *)
| OSecurityError                         (* 400 *)
| OEval                                  (* frame.eval(command) is called *)
| OConsole (evalex_trusted : bool)       (* the console page (carries the secret) is rendered *)
| OPrintPin (logged : bool)              (* printpin answered; the PIN written to the log or not *)
| OPinAuth (auth exhausted : bool) (ck : cookie_act)
| ORaise (e : exn).

(* what a request does to the failure counter *)
Inductive cnt_action := KKeep | KReset | KFail.

Definition outcome_eqb (a b : outcome) : bool :=
  match a, b with
  | OApp, OApp | OResource, OResource | OSecurityError, OSecurityError | OEval, OEval => true
  | OConsole x, OConsole y | OPrintPin x, OPrintPin y => Bool.eqb x y
  | OPinAuth a1 e1 c1, OPinAuth a2 e2 c2 =>
      Bool.eqb a1 a2 && Bool.eqb e1 e2 &&
      match c1, c2 with CkNone, CkNone | CkSet, CkSet | CkDelete, CkDelete => true | _, _ => false end
  | ORaise e1, ORaise e2 =>
      match e1, e2 with UnicodeError, UnicodeError | KeyError, KeyError | SecurityError, SecurityError => true | _, _ => false end
  | _, _ => false
  end.
