(* C20: specifications and proofs.  The property theorems are restated in C20/Props.v. *)
From Coq Require Import ZArith Lia ZifyBool ZifyN.
From Wz Require Import lib.Bytes lib.BytesFacts C20.Types C20.Str C20.Gen C20.Model.
Open Scope N_scope.
Ltac Zify.zify_post_hook ::= Z.to_euclidean_division_equations.

(* ================================================================== finite sweeps *)
Definition fa_bool (P : bool -> bool) : bool := P true && P false.
Definition fa_cmd (P : cmdkind -> bool) : bool := P CNone && P CResource && P CPinauth && P CPrintpin && P COther.
Definition fa_trust (P : trust -> bool) : bool := P TTrue && P TFalse && P TNone.

Lemma fa_bool_ok P : fa_bool P = true -> forall b, P b = true.
Proof. unfold fa_bool. intros H b. apply andb_prop in H. destruct H. destruct b; assumption. Qed.
Lemma fa_cmd_ok P : fa_cmd P = true -> forall c, P c = true.
Proof.
  unfold fa_cmd. intros H c. repeat (apply andb_prop in H; destruct H as [H ?]). destruct c; assumption.
Qed.
Lemma fa_trust_ok P : fa_trust P = true -> forall c, P c = true.
Proof.
  unfold fa_trust. intros H c. repeat (apply andb_prop in H; destruct H as [H ?]). destruct c; assumption.
Qed.

(* every abstract request: 2^12 * 5 * 3 = 61440 records *)
Definition fa_atoms (P : atoms -> bool) : bool :=
  fa_bool (fun x1 => fa_cmd (fun x2 => fa_bool (fun x3 => fa_bool (fun x4 => fa_bool (fun x5 =>
  fa_bool (fun x6 => fa_bool (fun x7 => fa_bool (fun x8 => fa_bool (fun x9 => fa_trust (fun x10 =>
  fa_bool (fun x11 => fa_bool (fun x12 => fa_bool (fun x13 => fa_bool (fun x14 =>
    P (Build_atoms x1 x2 x3 x4 x5 x6 x7 x8 x9 x10 x11 x12 x13 x14))))))))))))))).

Lemma fa_atoms_ok P : fa_atoms P = true -> forall r, P r = true.
Proof.
  unfold fa_atoms. intros H [x1 x2 x3 x4 x5 x6 x7 x8 x9 x10 x11 x12 x13 x14].
  apply (fa_bool_ok _) with (b := x1) in H. apply (fa_cmd_ok _) with (c := x2) in H.
  apply (fa_bool_ok _) with (b := x3) in H. apply (fa_bool_ok _) with (b := x4) in H.
  apply (fa_bool_ok _) with (b := x5) in H. apply (fa_bool_ok _) with (b := x6) in H.
  apply (fa_bool_ok _) with (b := x7) in H. apply (fa_bool_ok _) with (b := x8) in H.
  apply (fa_bool_ok _) with (b := x9) in H. apply (fa_trust_ok _) with (c := x10) in H.
  apply (fa_bool_ok _) with (b := x11) in H. apply (fa_bool_ok _) with (b := x12) in H.
  apply (fa_bool_ok _) with (b := x13) in H. apply (fa_bool_ok _) with (b := x14) in H.
  exact H.
Qed.

(* a sweep over every abstract request and both values of the lock-out test *)
Lemma sweep_call (P : atoms -> bool -> bool) :
  fa_atoms (fun r => fa_bool (P r)) = true -> forall r locked, P r locked = true.
Proof. intros H r locked. apply (fa_bool_ok (P r)). apply (fa_atoms_ok _ H). Qed.

Lemma outcome_eqb_eq a b : a = b -> outcome_eqb a b = true.
Proof. intros <-. destruct a as [| | | | [] | [] | [] [] [] | []]; reflexivity. Qed.

(* ================================================================== the gates (C20_gate) *)

(* conjunction required for evaluation *)
Definition eval_conj (r : atoms) : bool :=
  a_dbg r && negb (cmd_is (a_cmd r) CNone) && a_evalex r && a_host_trusted r && a_secret_ok r && a_frame r
  && trust_truthy (a_pin_trust r).

Definition gate_ok (r : atoms) (locked : bool) : bool :=
  implb (outcome_eqb (fst (call r locked)) OEval) (eval_conj r && match snd (call r locked) with KKeep => true | _ => false end).

Lemma gate_sweep : fa_atoms (fun r => fa_bool (gate_ok r)) = true.
Proof. vm_compute. reflexivity. Qed.

Lemma gate_abstract : forall r locked, fst (call r locked) = OEval -> eval_conj r = true /\ snd (call r locked) = KKeep.
Proof.
  intros r locked H. pose proof (sweep_call gate_ok gate_sweep r locked) as G. unfold gate_ok in G.
  rewrite (outcome_eqb_eq _ _ H) in G. cbn [implb] in G. apply andb_prop in G. destruct G as [G1 G2].
  split; [exact G1|]. destruct (snd (call r locked)); [reflexivity|discriminate|discriminate].
Qed.

(* an untrusted Host reaches only the wrapped application, a static resource or a 400, and never
   moves the counter; so console page, pinauth, printpin and evaluation answer trusted hosts only *)
Definition harmless (o : outcome) : bool :=
  match o with OApp | OResource | OSecurityError => true | _ => false end.

Definition untrusted_ok (r : atoms) (locked : bool) : bool :=
  implb (negb (a_host_trusted r))
        (harmless (fst (call r locked)) && match snd (call r locked) with KKeep => true | _ => false end).

Lemma untrusted_sweep : fa_atoms (fun r => fa_bool (untrusted_ok r)) = true.
Proof. vm_compute. reflexivity. Qed.

Lemma untrusted_abstract : forall r locked, a_host_trusted r = false ->
  harmless (fst (call r locked)) = true /\ snd (call r locked) = KKeep.
Proof.
  intros r locked H. pose proof (sweep_call untrusted_ok untrusted_sweep r locked) as G. unfold untrusted_ok in G.
  rewrite H in G. cbn [negb implb] in G. apply andb_prop in G. destruct G as [G1 G2].
  split; [exact G1|]. destruct (snd (call r locked)); [reflexivity|discriminate|discriminate].
Qed.

(* what each debugger endpoint requires: the console page (which carries the secret and creates the
   console frame) needs evalex, the console path and a trusted Host and reports the PIN trust
   truthfully; pinauth and printpin need the secret and a trusted Host; printpin logs the PIN only
   when logging is on *)
Definition endpoint_req (r : atoms) (locked : bool) : bool :=
  match fst (call r locked) with
  | OConsole t => a_evalex r && a_host_trusted r && a_console_path_set r && a_path_is_console r && negb (a_dbg r)
                  && Bool.eqb t (trust_truthy (a_pin_trust r))
  | OPinAuth _ _ _ | ORaise _ => a_dbg r && a_secret_ok r && a_host_trusted r && cmd_is (a_cmd r) CPinauth
  | OPrintPin logged => a_dbg r && a_secret_ok r && a_host_trusted r && cmd_is (a_cmd r) CPrintpin
                        && implb logged (a_pin_logging r && negb (a_pin_is_none r))
  | _ => true
  end.
Lemma endpoint_sweep : fa_atoms (fun r => fa_bool (endpoint_req r)) = true.
Proof. vm_compute. reflexivity. Qed.

(* at the level of one step against the counter *)
Lemma step_fst r c : fst (step r c) = fst (call r (lock_test c)).
Proof. unfold step. destruct (call r (lock_test c)). reflexivity. Qed.
Lemma step_snd r c : snd (step r c) = apply_cnt (snd (call r (lock_test c))) c.
Proof. unfold step. destruct (call r (lock_test c)). reflexivity. Qed.

Lemma gate_step : forall r c, fst (step r c) = OEval -> eval_conj r = true /\ snd (step r c) = c.
Proof.
  intros r c H. rewrite step_fst in H. destruct (gate_abstract r _ H) as [G1 G2].
  split; [exact G1|]. rewrite step_snd, G2. reflexivity.
Qed.

Lemma endpoint_step : forall r c, endpoint_req r (lock_test c) = true.
Proof. intros r c. apply (sweep_call endpoint_req endpoint_sweep). Qed.

Lemma endpoint_step_full : forall r count,
  match fst (step r count) with
  | OConsole t => a_evalex r && a_host_trusted r && a_console_path_set r && a_path_is_console r && negb (a_dbg r)
                  && Bool.eqb t (trust_truthy (a_pin_trust r))
  | OPinAuth _ _ _ | ORaise _ => a_dbg r && a_secret_ok r && a_host_trusted r && cmd_is (a_cmd r) CPinauth
  | OPrintPin logged => a_dbg r && a_secret_ok r && a_host_trusted r && cmd_is (a_cmd r) CPrintpin
                        && implb logged (a_pin_logging r && negb (a_pin_is_none r))
  | _ => true
  end = true.
Proof. intros r count. rewrite step_fst. exact (endpoint_step r count). Qed.

Lemma untrusted_step : forall r c, a_host_trusted r = false ->
  harmless (fst (step r c)) = true /\ snd (step r c) = c.
Proof.
  intros r c H. destruct (untrusted_abstract r (lock_test c) H) as [G1 G2].
  rewrite step_fst, step_snd, G2. split; [exact G1|reflexivity].
Qed.

(* ================================================================== lock-out (C20_lockout) *)

Lemma lock_test_spec c : lock_test c = (10 <? c).
Proof. reflexivity. Qed.

(* the counter really is a byte: the increment saturates below the modulus, the store never wraps *)
Lemma fail_count_value c : fail_count c = N.min (c + 1) 255.
Proof. unfold fail_count, value_modulus. lia. Qed.

Lemma fail_count_locked c : 10 < c -> 10 < fail_count c.
Proof. rewrite fail_count_value. lia. Qed.

Lemma fail_count_small c : c <= 10 -> fail_count c = c + 1.
Proof. rewrite fail_count_value. lia. Qed.

Lemma fail_count_byte c : fail_count c < 256.
Proof. rewrite fail_count_value. lia. Qed.

Definition auth_of (o : outcome) : bool := match o with OPinAuth a _ _ => a | _ => false end.

(* attempt kinds, on the input *)
Definition reaches_pin_auth (r : atoms) : bool :=
  a_dbg r && cmd_is (a_cmd r) CPinauth && a_secret_ok r && a_host_trusted r.
Definition trust_is_false (t : trust) : bool := match t with TFalse => true | _ => false end.
(* the correct PIN, entered without a cookie that already authenticates *)
Definition is_right (r : atoms) : bool :=
  reaches_pin_auth r && trust_is_false (a_pin_trust r) && a_pin_present r && a_pin_matches r.
(* a failed attempt: a wrong PIN, or a cookie carrying a stale PIN hash *)
Definition is_fail (r : atoms) : bool :=
  reaches_pin_auth r &&
  (trust_is_none (a_pin_trust r) || (trust_is_false (a_pin_trust r) && a_pin_present r && negb (a_pin_matches r))).

(* sweeps over the regenerated pin_auth / call *)
Definition reset_only_right (r : atoms) (locked : bool) : bool :=
  match snd (call r locked) with
  | KReset => is_right r && negb locked
  | _ => true
  end.
Lemma reset_sweep : fa_atoms (fun r => fa_bool (reset_only_right r)) = true.
Proof. vm_compute. reflexivity. Qed.

Definition fail_counts (r : atoms) (locked : bool) : bool :=
  implb (is_fail r && negb locked) (match snd (call r locked) with KFail => true | _ => false end).
Lemma fail_sweep : fa_atoms (fun r => fa_bool (fail_counts r)) = true.
Proof. vm_compute. reflexivity. Qed.

Definition locked_refuses (r : atoms) (locked : bool) : bool :=
  implb (locked && negb (trust_truthy (a_pin_trust r))) (negb (auth_of (fst (call r locked)))).
Lemma refuse_sweep : fa_atoms (fun r => fa_bool (locked_refuses r)) = true.
Proof. vm_compute. reflexivity. Qed.

(* pin_auth as a function of the cookie verdict (check_pin_trust): a stale cookie (None) is counted as a
   failure and the cookie is deleted, whatever else the request carries and also while locked out; a valid
   cookie authenticates and is re-issued, the counter is not touched; without either, only the PIN entry
   decides, a refused or failed entry sets no cookie and deletes none *)
Definition cnt_eqb (a b : cnt_action) : bool :=
  match a, b with KKeep, KKeep | KReset, KReset | KFail, KFail => true | _, _ => false end.

Definition pin_auth_cookie_ok (r : atoms) (locked : bool) : bool :=
  implb (reaches_pin_auth r)
    (match a_pin_trust r with
     | TNone => outcome_eqb (fst (call r locked)) (OPinAuth false false CkDelete) && cnt_eqb (snd (call r locked)) KFail
     | TTrue => outcome_eqb (fst (call r locked)) (OPinAuth true false CkSet) && cnt_eqb (snd (call r locked)) KKeep
     | TFalse =>
         if locked then outcome_eqb (fst (call r locked)) (OPinAuth false true CkNone) && cnt_eqb (snd (call r locked)) KKeep
         else if negb (a_pin_present r) then outcome_eqb (fst (call r locked)) (ORaise KeyError) && cnt_eqb (snd (call r locked)) KKeep
         else if a_pin_matches r then outcome_eqb (fst (call r locked)) (OPinAuth true false CkSet) && cnt_eqb (snd (call r locked)) KReset
         else outcome_eqb (fst (call r locked)) (OPinAuth false false CkNone) && cnt_eqb (snd (call r locked)) KFail
     end).
Lemma pin_auth_cookie_sweep : fa_atoms (fun r => fa_bool (pin_auth_cookie_ok r)) = true.
Proof. vm_compute. reflexivity. Qed.

Lemma outcome_eqb_true a b : outcome_eqb a b = true -> a = b.
Proof.
  destruct a as [| | | | [] | [] | [] [] [] | []], b as [| | | | [] | [] | [] [] [] | []]; cbn; intro H; try discriminate; reflexivity.
Qed.
Lemma cnt_eqb_true a b : cnt_eqb a b = true -> a = b.
Proof. destruct a, b; cbn; intro H; try discriminate; reflexivity. Qed.

Lemma pin_auth_by_cookie r locked : reaches_pin_auth r = true ->
  match a_pin_trust r with
  | TNone => call r locked = (OPinAuth false false CkDelete, KFail)
  | TTrue => call r locked = (OPinAuth true false CkSet, KKeep)
  | TFalse =>
      call r locked =
        if locked then (OPinAuth false true CkNone, KKeep)
        else if negb (a_pin_present r) then (ORaise KeyError, KKeep)
        else if a_pin_matches r then (OPinAuth true false CkSet, KReset)
        else (OPinAuth false false CkNone, KFail)
  end.
Proof.
  intro R. pose proof (sweep_call pin_auth_cookie_ok pin_auth_cookie_sweep r locked) as G. unfold pin_auth_cookie_ok in G.
  rewrite R in G. cbn [implb] in G.
  assert (P : forall o k, outcome_eqb (fst (call r locked)) o && cnt_eqb (snd (call r locked)) k = true -> call r locked = (o, k)).
  { intros o k H. apply andb_prop in H. destruct H as [H1 H2]. apply outcome_eqb_true in H1. apply cnt_eqb_true in H2.
    destruct (call r locked). cbn [fst snd] in *. subst. reflexivity. }
  destruct (a_pin_trust r); [apply P; exact G| |apply P; exact G].
  destruct locked; [apply P; exact G|]. destruct (negb (a_pin_present r)); [apply P; exact G|].
  destruct (a_pin_matches r); apply P; exact G.
Qed.

(* the delay: time.sleep is outside the model; its argument is an output.  A counted failure sleeps
   5 s when more than five failures were counted before it, else 0.5 s; nothing else sleeps - in
   particular a PIN entry refused because of the lock-out is answered at once *)
Lemma delay_spec k c : slept k c = match k with KFail => Some (if 5 <? c then 5000 else 500) | _ => None end.
Proof. destruct k; reflexivity. Qed.

(* configuration flags as dimensions of the sweep *)
Definition config_ok (r : atoms) (locked : bool) : bool :=
  (* evalex off: no evaluation, no console page *)
  implb (negb (a_evalex r)) (match fst (call r locked) with OEval | OConsole _ => false | _ => true end)
  (* console_path None: no console page *)
  && implb (negb (a_console_path_set r)) (match fst (call r locked) with OConsole _ => false | _ => true end)
  (* pin_logging off, or no PIN: printpin logs nothing *)
  && implb (negb (a_pin_logging r) || a_pin_is_none r) (match fst (call r locked) with OPrintPin true => false | _ => true end).
Lemma config_sweep : fa_atoms (fun r => fa_bool (config_ok r)) = true.
Proof. vm_compute. reflexivity. Qed.

Lemma config_step r c :
  (a_evalex r = false -> match fst (step r c) with OEval | OConsole _ => False | _ => True end) /\
  (a_console_path_set r = false -> match fst (step r c) with OConsole _ => False | _ => True end) /\
  (a_pin_logging r = false \/ a_pin_is_none r = true -> fst (step r c) <> OPrintPin true).
Proof.
  pose proof (sweep_call config_ok config_sweep r (lock_test c)) as G. unfold config_ok in G.
  repeat (apply andb_prop in G; destruct G as [G ?]). rewrite step_fst.
  split; [|split].
  - intro E. rewrite E in G. cbn [negb implb] in G. destruct (fst (call r (lock_test c))); try exact I; discriminate.
  - intro E. rewrite E in H0. cbn [negb implb] in H0. destruct (fst (call r (lock_test c))); try exact I; discriminate.
  - intros E X. rewrite X in H. destruct E as [E|E]; rewrite E in H; cbn [negb orb implb] in H;
      [|rewrite orb_true_r in H; cbn [implb] in H]; discriminate.
Qed.

(* pin_security=False (or WERKZEUG_DEBUG_PIN=off): self.pin is None and check_pin_trust is True *)
Lemma pin_off_trust p : p_pin_is_none p = true -> check_pin_trust p = TTrue.
Proof. intro H. unfold check_pin_trust. rewrite H. reflexivity. Qed.

(* a correct PIN below the threshold authenticates and resets: the lock-out theorem is not vacuous *)
Definition right_accepted (r : atoms) (locked : bool) : bool :=
  implb (is_right r && negb locked)
        (auth_of (fst (call r locked)) && match snd (call r locked) with KReset => true | _ => false end).
Lemma right_sweep : fa_atoms (fun r => fa_bool (right_accepted r)) = true.
Proof. vm_compute. reflexivity. Qed.

Lemma lock_test_true c : lock_test c = true <-> 10 < c.
Proof. rewrite lock_test_spec. lia. Qed.
Lemma lock_test_false c : lock_test c = false <-> c <= 10.
Proof. rewrite lock_test_spec. lia. Qed.

(* once locked, always locked: no request of any kind brings the counter back under the threshold *)
Lemma step_locked r c : 10 < c -> 10 < snd (step r c).
Proof.
  intro H. rewrite step_snd.
  pose proof (sweep_call reset_only_right reset_sweep r (lock_test c)) as G. unfold reset_only_right in G.
  destruct (snd (call r (lock_test c))) eqn:E; cbn [apply_cnt].
  - exact H.
  - apply andb_prop in G. destruct G as [_ G]. apply lock_test_true in H. rewrite H in G. discriminate.
  - apply fail_count_locked. exact H.
Qed.

Lemma run_hist_app c h1 h2 : run_hist c (h1 ++ h2) = run_hist (run_hist c h1) h2.
Proof. unfold run_hist. apply fold_left_app. Qed.

Lemma run_hist_cons c r h : run_hist c (r :: h) = run_hist (snd (step r c)) h.
Proof. reflexivity. Qed.

Lemma hist_locked h : forall c, 10 < c -> 10 < run_hist c h.
Proof.
  induction h as [|r h IH]; intros c H; [exact H|].
  rewrite run_hist_cons. apply IH. apply step_locked. exact H.
Qed.

(* progress towards the lock-out: min(counter, 11) never drops while no correct PIN is entered,
   and every failed attempt raises it *)
Definition lvl (c : N) : N := N.min c 11.

Lemma step_lvl r c : is_right r = false ->
  lvl c + (if is_fail r then 1 else 0) <= lvl (snd (step r c)) \/ lvl (snd (step r c)) = 11.
Proof.
  intro HR. unfold lvl. destruct (lock_test c) eqn:L.
  - right. apply lock_test_true in L. pose proof (step_locked r c L). lia.
  - pose proof (sweep_call reset_only_right reset_sweep r (lock_test c)) as G. unfold reset_only_right in G.
    pose proof (sweep_call fail_counts fail_sweep r (lock_test c)) as F. unfold fail_counts in F.
    rewrite step_snd. rewrite L in *. apply lock_test_false in L.
    destruct (snd (call r false)) eqn:E; cbn [apply_cnt].
    + destruct (is_fail r); [discriminate F|]. left. lia.
    + rewrite HR in G. discriminate G.
    + rewrite (fail_count_small c L). left. destruct (is_fail r); lia.
Qed.

Fixpoint count_fail (w : list atoms) : N :=
  match w with
  | [] => 0
  | r :: w' => (if is_fail r then 1 else 0) + count_fail w'
  end.

Lemma window_lvl w : forall c, (forall r, In r w -> is_right r = false) ->
  N.min (lvl c + count_fail w) 11 <= lvl (run_hist c w).
Proof.
  induction w as [|r w IH]; intros c HR.
  - cbn [count_fail run_hist fold_left]. unfold lvl. lia.
  - rewrite run_hist_cons. cbn [count_fail].
    assert (HR' : forall x, In x w -> is_right x = false) by (intros x Hx; apply HR; right; exact Hx).
    specialize (IH (snd (step r c)) HR').
    destruct (step_lvl r c (HR r (or_introl eq_refl))) as [S|S]; unfold lvl in *; lia.
Qed.

Lemma locked_refuses_step r c : 10 < c -> trust_truthy (a_pin_trust r) = false -> auth_of (fst (step r c)) = false.
Proof.
  intros H T. rewrite step_fst. apply lock_test_true in H.
  pose proof (sweep_call locked_refuses refuse_sweep r (lock_test c)) as G. unfold locked_refuses in G.
  rewrite H in *. rewrite T in G. cbn [andb negb implb] in G. destruct (auth_of (fst (call r true))); [discriminate|reflexivity].
Qed.

Lemma lockout : forall c0 pre w post r,
  (forall x, In x w -> is_right x = false) -> 10 < count_fail w ->
  trust_truthy (a_pin_trust r) = false ->
  let c := run_hist c0 (pre ++ w ++ post) in
  10 < c /\ auth_of (fst (step r c)) = false.
Proof.
  intros c0 pre w post r HR HF T c.
  assert (L : 10 < c).
  { unfold c. rewrite !run_hist_app. apply hist_locked.
    pose proof (window_lvl w (run_hist c0 pre) HR) as W. unfold lvl in W. lia. }
  split; [exact L|]. apply locked_refuses_step; assumption.
Qed.

Lemma counter_byte h : forall c, c < 256 -> run_hist c h < 256.
Proof.
  induction h as [|r h IH]; intros c H; [exact H|].
  rewrite run_hist_cons. apply IH. rewrite step_snd.
  destruct (snd (call r (lock_test c))); cbn [apply_cnt]; [exact H|lia|apply fail_count_byte].
Qed.

(* non-vacuity: below the threshold the correct PIN is accepted and clears the counter *)
Lemma right_accepted_step r c : c <= 10 -> is_right r = true ->
  auth_of (fst (step r c)) = true /\ snd (step r c) = 0.
Proof.
  intros H R. apply lock_test_false in H.
  pose proof (sweep_call right_accepted right_sweep r (lock_test c)) as G. unfold right_accepted in G.
  rewrite step_fst, step_snd. rewrite H in *. rewrite R in G. cbn [andb negb implb] in G.
  apply andb_prop in G. destruct G as [G1 G2]. split; [exact G1|].
  destruct (snd (call r false)); try discriminate. reflexivity.
Qed.

(* the increment before the fix, (count + 1) mod 256: 256 counted failures bring the counter to 0 *)
Definition wrapping_inc (c : N) : N := (c + 1) mod 256.
Lemma wrap_refuted : exists n, (10 < n)%nat /\ Nat.iter n wrapping_inc 0 = 0.
Proof. exists 256%nat. split; [lia|]. vm_compute. reflexivity. Qed.

(* ================================================================== host trust (C20_host) *)

Lemma list_eqb_eq a : forall b, list_eqb a b = true -> a = b.
Proof.
  induction a as [|x a IH]; intros [|y b] H; cbn [list_eqb] in H; try discriminate; [reflexivity|].
  apply andb_prop in H. destruct H as [H1 H2]. apply N.eqb_eq in H1. subst y. f_equal. apply IH. exact H2.
Qed.

Lemma list_eqb_refl a : list_eqb a a = true.
Proof. induction a as [|x a IH]; cbn [list_eqb]; [reflexivity|]. rewrite N.eqb_refl, IH. reflexivity. Qed.

Lemma starts_with_spec p : forall s, starts_with p s = true -> exists y, s = p ++ y.
Proof.
  induction p as [|x p IH]; intros s H; cbn [starts_with] in H.
  - exists s. reflexivity.
  - destruct s as [|y s]; [discriminate|]. apply andb_prop in H. destruct H as [H1 H2].
    apply N.eqb_eq in H1. subst y. destruct (IH s H2) as [z ->]. exists z. reflexivity.
Qed.

Lemma ends_with_spec p s : ends_with p s = true -> exists x, s = x ++ p.
Proof.
  unfold ends_with. intro H. destruct (starts_with_spec _ _ H) as [y Hy]. exists (rev y).
  rewrite <- (rev_involutive s), Hy, rev_app_distr, rev_involutive. reflexivity.
Qed.

Lemma partition1_some x s : forall a b, partition1 x s = (a, Some b) -> s = a ++ x :: b /\ mem x a = false.
Proof.
  induction s as [|y s IH]; intros a b H; cbn [partition1] in H; [discriminate|].
  destruct (x =? y) eqn:E.
  - apply N.eqb_eq in E. subst y. injection H as <- <-. split; reflexivity.
  - destruct (partition1 x s) as [a' b'] eqn:P. injection H as <- ->. destruct (IH a' b eq_refl) as [-> M].
    split; [reflexivity|]. unfold mem in *. cbn [existsb]. rewrite E, M. reflexivity.
Qed.

Lemma partition1_none x s : forall a, partition1 x s = (a, None) -> a = s /\ mem x s = false.
Proof.
  induction s as [|y s IH]; intros a H; cbn [partition1] in H.
  - injection H as <-. split; reflexivity.
  - destruct (x =? y) eqn:E; [discriminate|]. destruct (partition1 x s) as [a' b'] eqn:P. injection H as <- ->.
    destruct (IH a' eq_refl) as [-> M]. split; [reflexivity|]. unfold mem in *. cbn [existsb]. rewrite E, M. reflexivity.
Qed.

(* host_part h n : n is the host h with its port removed (bracket-aware) *)
Definition starts_bracket (s : str) : bool := match s with c :: _ => c =? LBR | [] => false end.

Inductive host_part : str -> str -> Prop :=
| hp_plain n : starts_bracket n = false -> mem COLON n = false -> host_part n n
| hp_port n p : starts_bracket n = false -> mem COLON n = false -> host_part (n ++ COLON :: p) n
| hp_v6 a : mem RBR a = false -> host_part (LBR :: a ++ [RBR]) (LBR :: a ++ [RBR])
| hp_v6_port a p : mem RBR a = false -> host_part (LBR :: a ++ RBR :: COLON :: p) (LBR :: a ++ [RBR])
  (* a bracket that is never closed, or is followed by something that is not a port: no port is
     recognised and the whole text is the name (it then has to be listed literally to be trusted) *)
| hp_unclosed r : mem RBR r = false -> host_part (LBR :: r) (LBR :: r)
| hp_trailing a d rest : mem RBR a = false -> d <> COLON -> host_part (LBR :: a ++ RBR :: d :: rest) (LBR :: a ++ RBR :: d :: rest).

Lemma strip_port_part h : host_part h (strip_port_ref h).
Proof.
  destruct h as [|c r]; [apply hp_plain; reflexivity|].
  unfold strip_port_ref. destruct (c =? LBR) eqn:E.
  - apply N.eqb_eq in E. subst c. destruct (partition1 RBR r) as [a [rest|]] eqn:P.
    + destruct (partition1_some _ _ _ _ P) as [-> M]. destruct rest as [|d rest].
      * apply hp_v6. exact M.
      * destruct (d =? COLON) eqn:D.
        -- apply N.eqb_eq in D. subst d. apply hp_v6_port. exact M.
        -- apply hp_trailing; [exact M|]. intro. subst d. rewrite N.eqb_refl in D. discriminate.
    + destruct (partition1_none _ _ _ P) as [-> M]. apply hp_unclosed. exact M.
  - destruct (partition1 COLON (c :: r)) as [a [rest|]] eqn:P; cbn [fst].
    + destruct (partition1_some _ _ _ _ P) as [Hs M]. rewrite Hs. apply hp_port; [|exact M].
      destruct a as [|a0 a]; [reflexivity|]. cbn [app] in Hs. injection Hs as <- _. cbn [starts_bracket]. exact E.
    + destruct (partition1_none _ _ _ P) as [-> M]. apply hp_plain; [|exact M]. cbn [starts_bracket]. exact E.
Qed.

Section HostFacts.
Variable idna_u : str -> option str.
(* contract of the codec on non-ASCII input: labels of the output are non-empty (the last may be) *)
Hypothesis idna_u_labels : forall s o, idna_u s = Some o -> ascii_labels_ok o 0 = true.

(* n is the name an entry or a Host header stands for: port removed, IDNA-encoded *)
Definition names (text n : str) : Prop := exists p, host_part text p /\ idna_encode idna_u p = Some n.

Lemma norm_host_names t n : norm_host idna_u t = Some n -> names t n.
Proof. intro H. exists (strip_port_ref t). split; [apply strip_port_part|exact H]. Qed.

Lemma idna_encode_labels s o : idna_encode idna_u s = Some o -> ascii_labels_ok o 0 = true.
Proof.
  unfold idna_encode. destruct s as [|c s]; [intro H; injection H as <-; reflexivity|].
  destruct (is_ascii_str (c :: s)).
  - destruct (ascii_labels_ok (c :: s) 0) eqn:L; [|discriminate]. intro H. injection H as <-. exact L.
  - destruct (idna_u (c :: s)) as [o'|] eqn:U; [|discriminate]. destruct (is_ascii_str o'); [|discriminate].
    intro H. injection H as <-. apply (idna_u_labels _ _ U).
Qed.

Lemma idna_encode_no_leading_dot s x : idna_encode idna_u s = Some (DOT :: x) -> False.
Proof.
  intro H. apply idna_encode_labels in H. cbn [ascii_labels_ok] in H. rewrite N.eqb_refl in H.
  cbn in H. discriminate.
Qed.

(* what a trusted-list entry admits *)
Definition entry_admits (ref hn : str) : Prop :=
  (starts_with [DOT] ref = false /\ names ref hn)
  \/ (exists ref' rn, ref = DOT :: ref' /\ names ref' rn /\
        (hn = rn \/ exists sub, sub <> [] /\ hn = sub ++ DOT :: rn)).

Definition spec_trusted (h : str) (l : list str) : Prop :=
  exists hn, names h hn /\ exists ref, In ref l /\ entry_admits ref hn.

Lemma match_refs_sound hn : (exists h, idna_encode idna_u h = Some hn) ->
  forall l, match_refs idna_u hn l = Ok true -> exists ref, In ref l /\ entry_admits ref hn.
Proof.
  intros [h0 Hh0] l. induction l as [|ref l IH]; cbn [match_refs]; [discriminate|].
  destruct (split_dot ref) as [ref1 sm] eqn:SD.
  destruct (norm_host idna_u ref1) as [refn|] eqn:NH.
  2:{ discriminate. }
  destruct (list_eqb refn hn || (sm && ends_with (DOT :: refn) hn)) eqn:M.
  - intros _. exists ref. split; [left; reflexivity|].
    unfold split_dot in SD. destruct ref as [|c r].
    + injection SD as <- <-. left. split; [reflexivity|]. apply orb_prop in M. destruct M as [M|M]; [|discriminate].
      apply list_eqb_eq in M. subst hn. apply norm_host_names. exact NH.
    + destruct (c =? DOT) eqn:E.
      * apply N.eqb_eq in E. subst c. injection SD as <- <-. right. exists r, refn. split; [reflexivity|].
        split; [apply norm_host_names; exact NH|]. apply orb_prop in M. destruct M as [M|M].
        -- left. symmetry. apply list_eqb_eq. exact M.
        -- cbn [andb] in M. destruct (ends_with_spec _ _ M) as [sub Hs]. right. exists sub. split; [|exact Hs].
           intro. subst sub. cbn [app] in Hs. subst hn. exact (idna_encode_no_leading_dot _ _ Hh0).
      * injection SD as <- <-. left. split; [cbn [starts_with]; rewrite N.eqb_sym, E; reflexivity|].
        apply orb_prop in M. destruct M as [M|M]; [|discriminate]. apply list_eqb_eq in M. subst hn.
        apply norm_host_names. exact NH.
  - intro H. destruct (IH H) as [r [Hin Ha]]. exists r. split; [right; exact Hin|exact Ha].
Qed.

Lemma host_sound h l : host_is_trusted_ref idna_u (Some h) l = Ok true -> spec_trusted h l.
Proof.
  unfold host_is_trusted_ref. destruct h as [|c h]; [discriminate|].
  destruct (norm_host idna_u (c :: h)) as [hn|] eqn:NH.
  2:{ discriminate. }
  intro H. exists hn. split; [apply norm_host_names; exact NH|].
  apply match_refs_sound; [|exact H]. exists (strip_port_ref (c :: h)). exact NH.
Qed.

Lemma host_absent l : host_is_trusted_ref idna_u None l = Ok false.
Proof. reflexivity. Qed.

(* no failure of any kind: with the handlers as they are in the source (Gen.v), the result is a boolean *)
Lemma match_refs_total hn l : exists b, match_refs idna_u hn l = Ok b.
Proof.
  induction l as [|ref l IH]; cbn [match_refs]; [exists false; reflexivity|].
  destruct (split_dot ref) as [ref1 sm]. destruct (norm_host idna_u ref1) as [refn|].
  - destruct (list_eqb refn hn || (sm && ends_with (DOT :: refn) hn)); [exists true; reflexivity|exact IH].
  - exists false. reflexivity.
Qed.

Lemma host_total h l : exists b, host_is_trusted_ref idna_u h l = Ok b.
Proof.
  unfold host_is_trusted_ref. destruct h as [[|c h]|]; try (exists false; reflexivity).
  destruct (norm_host idna_u (c :: h)); [apply match_refs_total|exists false; reflexivity].
Qed.

Lemma get_host_errors scheme hh server tr e : get_host_ref idna_u scheme hh server tr = Err e -> e = SecurityError.
Proof.
  unfold get_host_ref. destruct tr as [l|]; [|discriminate].
  match goal with |- context [host_is_trusted_ref idna_u ?a ?b] => destruct (host_total a b) as [b' Hb]; rewrite Hb end.
  destruct b'; [discriminate|]. intro H. injection H as <-. reflexivity.
Qed.

(* a host returned under a trusted list satisfies the specification *)
Lemma get_host_trusted scheme hh server l v : get_host_ref idna_u scheme hh server (Some l) = Ok v -> spec_trusted v l.
Proof.
  unfold get_host_ref.
  set (host := assemble scheme hh server).
  destruct (host_is_trusted_ref idna_u (Some host) l) as [[|]|] eqn:H; try discriminate.
  intro E. injection E as <-. apply host_sound. exact H.
Qed.

(* the default list: localhost, its true subdomains, 127.0.0.1 - no look-alike *)
Definition s_localhost : str := [108; 111; 99; 97; 108; 104; 111; 115; 116].
Definition s_loopback : str := [49; 50; 55; 46; 48; 46; 48; 46; 49].

Lemma default_list_sound h : host_is_trusted_ref idna_u (Some h) default_trusted_hosts = Ok true ->
  exists hn, names h hn /\
    (hn = s_localhost \/ (exists sub, sub <> [] /\ hn = sub ++ DOT :: s_localhost) \/ hn = s_loopback).
Proof.
  unfold host_is_trusted_ref. destruct h as [|c h]; [discriminate|].
  destruct (norm_host idna_u (c :: h)) as [hn|] eqn:NH.
  2:{ discriminate. }
  intro H. exists hn. split; [apply norm_host_names; exact NH|].
  assert (E1 : norm_host idna_u s_localhost = Some s_localhost) by (vm_compute; reflexivity).
  assert (E2 : norm_host idna_u s_loopback = Some s_loopback) by (vm_compute; reflexivity).
  change default_trusted_hosts with [DOT :: s_localhost; s_loopback] in H.
  cbn [match_refs] in H. change (split_dot (DOT :: s_localhost)) with (s_localhost, true) in H.
  change (split_dot s_loopback) with (s_loopback, false) in H. cbv iota beta in H. rewrite E1, E2 in H.
  destruct (list_eqb s_localhost hn) eqn:A.
  - left. symmetry. apply list_eqb_eq. exact A.
  - cbn [orb andb] in H. destruct (ends_with (DOT :: s_localhost) hn) eqn:B.
    + right. left. destruct (ends_with_spec _ _ B) as [sub Hs]. exists sub. split; [|exact Hs].
      intro. subst sub. cbn [app] in Hs. subst hn. unfold norm_host in NH. exact (idna_encode_no_leading_dot _ _ NH).
    + destruct (list_eqb s_loopback hn) eqn:C; cbn [orb andb] in H; [|discriminate].
      right. right. symmetry. apply list_eqb_eq. exact C.
Qed.

End HostFacts.

(* ================================================================== generated host functions = reference reading *)
(* The functions of Gen.v (regenerated from sansio/utils.py: branch conditions, order of port strip /
   IDNA / comparison, handlers, None / empty-list handling) are proved equal to the reference
   definitions of Model.v.  A reordered or dropped step in the source changes Gen.v and one of
   these proofs stops compiling. *)

Lemma index_of_partition_some x s : forall a b, partition1 x s = (a, Some b) -> index_of x s = Some (length a).
Proof.
  induction s as [|y s IH]; intros a b H; cbn [partition1] in H; [discriminate|]. cbn [index_of].
  destruct (x =? y) eqn:E.
  - injection H as <- <-. reflexivity.
  - destruct (partition1 x s) as [a' b'] eqn:P. injection H as <- ->. rewrite (IH a' b eq_refl). reflexivity.
Qed.

Lemma index_of_partition_none x s : forall a, partition1 x s = (a, None) -> index_of x s = None.
Proof.
  induction s as [|y s IH]; intros a H; cbn [partition1] in H; cbn [index_of]; [reflexivity|].
  destruct (x =? y) eqn:E; [discriminate|]. destruct (partition1 x s) as [a' b'] eqn:P. injection H as <- ->.
  rewrite (IH a' eq_refl). reflexivity.
Qed.

Lemma firstn_app_exact (A : Type) (l1 l2 : list A) : firstn (length l1) (l1 ++ l2) = l1.
Proof. rewrite firstn_app, Nat.sub_diag, firstn_all. cbn [firstn]. apply app_nil_r. Qed.

Lemma skipn_app_exact (A : Type) (l1 l2 : list A) : skipn (length l1) (l1 ++ l2) = l2.
Proof. rewrite skipn_app, Nat.sub_diag, skipn_all. reflexivity. Qed.

(* s[:k] for 0 <= k <= len *)
Lemma py_slice_to_prefix pre post : py_slice (pre ++ post) None (Some (Z.of_nat (length pre))) = pre.
Proof.
  unfold py_slice, clamp_idx. rewrite app_length.
  destruct (Z.ltb_spec (Z.of_nat (length pre)) 0); [lia|].
  replace (Z.to_nat (Z.min (Z.of_nat (length pre)) (Z.of_nat (length pre + length post)) - 0)) with (length pre) by lia.
  cbn [Z.to_nat skipn]. apply firstn_app_exact.
Qed.

(* s[k:k+1] *)
Lemma py_slice_one pre post :
  py_slice (pre ++ post) (Some (Z.of_nat (length pre))) (Some (Z.of_nat (length pre) + 1)%Z)
  = match post with [] => [] | d :: _ => [d] end.
Proof.
  unfold py_slice, clamp_idx. rewrite app_length.
  destruct (Z.ltb_spec (Z.of_nat (length pre)) 0); [lia|].
  destruct (Z.ltb_spec (Z.of_nat (length pre) + 1) 0); [lia|].
  replace (Z.to_nat (Z.min (Z.of_nat (length pre)) (Z.of_nat (length pre + length post)))) with (length pre) by lia.
  rewrite skipn_app_exact. destruct post as [|d post].
  - apply firstn_nil.
  - cbn [length]. replace (Z.to_nat _) with 1%nat by lia. reflexivity.
Qed.

Lemma py_slice_from_1 c r : py_slice (c :: r) (Some 1%Z) None = r.
Proof.
  unfold py_slice, clamp_idx. cbn [length]. destruct (Z.ltb_spec 1 0); [lia|].
  replace (Z.to_nat (Z.min 1 (Z.of_nat (S (length r))))) with 1%nat by lia. cbn [skipn].
  replace (Z.to_nat _) with (length r) by lia. apply firstn_all.
Qed.

Lemma py_slice_first s : list_eqb (py_slice s (Some 0%Z) (Some 1%Z)) [LBR] = match s with c :: _ => c =? LBR | [] => false end.
Proof.
  destruct s as [|c r]; [reflexivity|]. unfold py_slice, clamp_idx.
  change (0 <? 0)%Z with false. change (1 <? 0)%Z with false. cbv iota.
  assert (E1 : Z.min 0 (Z.of_nat (length (c :: r))) = 0%Z) by (cbn [length]; lia).
  assert (E2 : Z.min 1 (Z.of_nat (length (c :: r))) = 1%Z) by (cbn [length]; lia).
  rewrite E1, E2. change (Z.to_nat (1 - 0)) with 1%nat. change (Z.to_nat 0) with 0%nat.
  cbn [skipn firstn list_eqb]. apply andb_true_r.
Qed.

Lemma py_slice_drop s n : (0 < n)%nat -> py_slice s None (Some (- Z.of_nat n)%Z) = drop_last n s.
Proof.
  intro Hn. unfold py_slice, clamp_idx, drop_last. destruct (Z.ltb_spec (- Z.of_nat n) 0); [|lia].
  cbn [Z.to_nat skipn]. f_equal. lia.
Qed.

Lemma strip_port_eq h : strip_port h = strip_port_ref h.
Proof.
  unfold strip_port, py_startswith. destruct h as [|c r]; [reflexivity|].
  cbn [starts_with]. rewrite andb_true_r. unfold strip_port_ref. rewrite (N.eqb_sym c LBR). change 91 with LBR.
  destruct (LBR =? c) eqn:E; [|reflexivity].
  apply N.eqb_eq in E. subst c. unfold py_find. cbn [index_of]. change 93 with RBR. change (RBR =? LBR) with false. cbv iota.
  destruct (partition1 RBR r) as [a [rest|]] eqn:P.
  - rewrite (index_of_partition_some _ _ _ _ P). cbn [option_map].
    destruct (partition1_some _ _ _ _ P) as [-> M].
    assert (NE : (Z.of_nat (S (length a)) =? -1)%Z = false) by lia. rewrite NE. cbn [negb andb].
    replace (Z.of_nat (S (length a)) + 1)%Z with (Z.of_nat (length (LBR :: a ++ [RBR]))) by (cbn [length]; rewrite app_length; cbn [length]; lia).
    replace (Z.of_nat (S (length a)) + 2)%Z with (Z.of_nat (length (LBR :: a ++ [RBR])) + 1)%Z by (cbn [length]; rewrite app_length; cbn [length]; lia).
    replace (LBR :: a ++ RBR :: rest) with ((LBR :: a ++ [RBR]) ++ rest) by (cbn [app]; rewrite <- app_assoc; reflexivity).
    rewrite py_slice_one, py_slice_to_prefix. destruct rest as [|d rest].
    + rewrite app_nil_r. reflexivity.
    + unfold str_in. cbn [existsb list_eqb]. rewrite andb_true_r, orb_false_r. change 58 with COLON.
      destruct (d =? COLON); reflexivity.
  - rewrite (index_of_partition_none _ _ _ P). cbn [option_map]. reflexivity.
Qed.

Lemma split_dot_eq ref :
  (if py_startswith ref [46] then (py_slice ref (Some 1%Z) None, true) else (ref, false)) = split_dot ref.
Proof.
  unfold py_startswith, split_dot. destruct ref as [|c r]; [reflexivity|]. cbn [starts_with].
  rewrite andb_true_r, (N.eqb_sym c DOT). change 46 with DOT. destruct (DOT =? c); [|reflexivity].
  rewrite py_slice_from_1. reflexivity.
Qed.

Section Equiv.
Variable idna_u : str -> option str.

Lemma hit_loop_eq hn l : host_is_trusted_loop idna_u hn l = match_refs idna_u hn l.
Proof.
  induction l as [|ref l IH]; [reflexivity|]. cbn [host_is_trusted_loop match_refs].
  pose proof (split_dot_eq ref) as SD.
  destruct (py_startswith ref [46]); rewrite <- SD; cbv iota beta; rewrite strip_port_eq; unfold norm_host;
    (destruct (idna_encode idna_u (strip_port_ref _)) as [refn|]; [|reflexivity]);
    unfold py_endswith; cbn [app]; change 46 with DOT; rewrite IH; reflexivity.
Qed.

Lemma host_is_trusted_eq h l : host_is_trusted idna_u h l = host_is_trusted_ref idna_u h l.
Proof.
  unfold host_is_trusted, host_is_trusted_ref. destruct h as [[|c r]|]; try reflexivity.
  cbn [str_truthy negb]. rewrite strip_port_eq. unfold norm_host.
  destruct (idna_encode idna_u (strip_port_ref (c :: r))); [apply hit_loop_eq|reflexivity].
Qed.

Lemma scheme_in_eq s a b : str_in s [a; b] = list_eqb s a || list_eqb s b.
Proof. unfold str_in. cbn [existsb]. rewrite orb_false_r. reflexivity. Qed.

Lemma get_host_eq scheme hh server tr : get_host idna_u scheme hh server tr = get_host_ref idna_u scheme hh server tr.
Proof.
  unfold get_host, get_host_ref. cbv zeta.
  match goal with |- context [host_is_trusted idna_u (Some ?H) _] => assert (HA : H = assemble scheme hh server) end.
  { unfold assemble. cbv zeta. rewrite !scheme_in_eq. unfold py_endswith.
    change [58; 56; 48] with s_80. change [58; 52; 52; 51] with s_443.
    change [104; 116; 116; 112] with s_http. change [119; 115] with s_ws.
    change [104; 116; 116; 112; 115] with s_https. change [119; 115; 115] with s_wss.
    change (-3)%Z with (- Z.of_nat 3)%Z. change (-4)%Z with (- Z.of_nat 4)%Z. rewrite !py_slice_drop by lia.
    destruct hh as [h|]; [reflexivity|]. destruct server as [[name port]|]; [|reflexivity]. cbn [fst snd].
    change [91] with [LBR]. rewrite py_slice_first. unfold py_contains. change 58 with COLON.
    destruct (mem COLON name && negb match name with [] => false | c :: _ => c =? LBR end); destruct port; reflexivity. }
  rewrite HA. destruct tr as [l|]; [|reflexivity].
  rewrite host_is_trusted_eq. destruct (host_is_trusted_ref idna_u (Some (assemble scheme hh server)) l) as [[|]|]; reflexivity.
Qed.
End Equiv.


(* ================================================================== the concrete gate *)

Lemma opt_eqb_eq a b : opt_eqb a b = true -> a = Some b.
Proof. destruct a as [x|]; cbn [opt_eqb]; [|discriminate]. intro H. apply list_eqb_eq in H. subst. reflexivity. Qed.

(* what check_pin_trust = True means for the concrete cookie *)
Definition pin_cookie_valid (cfg : config) (q : request) : Prop :=
  c_pin cfg = None \/
  exists ts_str ts, q_cookie q = Some (ts_str ++ BAR :: c_pin_hash cfg) /\ mem BAR ts_str = false /\
    parse_int ts_str = IOk ts /\ (q_now q - PIN_TIME < ts)%Z.

Lemma pin_atoms_true cfg q p : pin_atoms cfg q = Some p -> check_pin_trust p = TTrue -> pin_cookie_valid cfg q.
Proof.
  unfold pin_atoms, pin_cookie_valid.
  destruct (c_pin cfg) as [pin|]; [|intros; left; reflexivity].
  set (val := match q_cookie q with Some v => v | None => [] end).
  destruct (partition1 BAR val) as [ts_str [rest|]] eqn:P.
  - destruct (parse_int ts_str) as [z| |] eqn:PI; try discriminate.
    + intros E. injection E as <-. unfold check_pin_trust. cbn [p_pin_is_none p_val_truthy p_bar_in_val p_ts p_hash_eq p_now].
      destruct val as [|v0 val'] eqn:V; cbn [negb orb]; [discriminate|].
      destruct (list_eqb rest (c_pin_hash cfg)) eqn:HE; cbn [negb]; [|discriminate].
      destruct (q_now q - PIN_TIME <? z)%Z eqn:TS; cbn [trust_of_bool]; [|discriminate].
      intros _. right. exists ts_str, z. destruct (partition1_some _ _ _ _ P) as [Hv M].
      apply list_eqb_eq in HE. subst rest. split; [|split; [exact M|split; [exact PI|lia]]].
      unfold val in V. destruct (q_cookie q) as [v|]; [|discriminate]. subst v. rewrite Hv. reflexivity.
    + intros E. injection E as <-. unfold check_pin_trust. cbn [p_pin_is_none p_val_truthy p_bar_in_val p_ts p_hash_eq p_now].
      destruct val; cbn [negb orb]; discriminate.
  - intros E. injection E as <-. unfold check_pin_trust. cbn [p_pin_is_none p_val_truthy p_bar_in_val p_ts p_hash_eq p_now].
    destruct val; cbn [negb orb]; discriminate.
Qed.

(* ---- the PIN cookie, for every cookie text *)
Lemma mem_false_forallb x s : mem x s = false -> forallb (fun c => negb (x =? c)) s = true.
Proof.
  unfold mem. induction s as [|a s IH]; cbn [existsb forallb]; intro H; [reflexivity|].
  apply orb_false_iff in H. destruct H as [H1 H2]. rewrite H1, (IH H2). reflexivity.
Qed.

Definition mk_pinatoms (cfg : config) (rest : str) (now : Z) (ts : option Z) : pinatoms :=
  {| p_pin_is_none := match c_pin cfg with None => true | Some _ => false end;
     p_val_truthy := true; p_bar_in_val := true; p_ts := ts;
     p_hash_eq := list_eqb rest (c_pin_hash cfg); p_now := now |}.

(* a cookie value with a bar: split at the first one *)
Lemma pin_atoms_shape cfg q ts_str rest :
  q_cookie q = Some (ts_str ++ BAR :: rest) -> mem BAR ts_str = false ->
  pin_atoms cfg q = match parse_int ts_str with
                    | IOk z => Some (mk_pinatoms cfg rest (q_now q) (Some z))
                    | IValueError => Some (mk_pinatoms cfg rest (q_now q) None)
                    | IUnsupported => None
                    end.
Proof.
  intros C M. unfold pin_atoms. rewrite C.
  rewrite (partition1_app_stop BAR ts_str rest (mem_false_forallb _ _ M)).
  assert (V : match ts_str ++ BAR :: rest with [] => false | _ :: _ => true end = true) by (destruct ts_str; reflexivity).
  unfold mk_pinatoms. destruct (parse_int ts_str); try reflexivity; rewrite V; reflexivity.
Qed.

(* what a cookie carrying another PIN hash looks like: a time stamp that int() accepts, a bar, and
   anything but hash_pin(pin) after it (further bars included: split("|", 1)) *)
Definition pin_cookie_stale (cfg : config) (q : request) : Prop :=
  c_pin cfg <> None /\
  exists ts_str rest ts, q_cookie q = Some (ts_str ++ BAR :: rest) /\ mem BAR ts_str = false /\
    parse_int ts_str = IOk ts /\ rest <> c_pin_hash cfg.

Lemma pin_atoms_true_conv cfg q p : pin_atoms cfg q = Some p -> pin_cookie_valid cfg q -> check_pin_trust p = TTrue.
Proof.
  intros H [N|[ts_str [ts [C [M [PI T]]]]]].
  - assert (P : p_pin_is_none p = true).
    { revert H. unfold pin_atoms. rewrite N. set (val := match q_cookie q with Some v => v | None => [] end).
      destruct (partition1 BAR val) as [a [b|]];
        cbv beta iota zeta; [destruct (parse_int a)|]; intro H; try discriminate; injection H as <-; reflexivity. }
    unfold check_pin_trust. rewrite P. reflexivity.
  - rewrite (pin_atoms_shape cfg q ts_str _ C M), PI in H. injection H as <-.
    unfold check_pin_trust, mk_pinatoms. cbn [p_pin_is_none p_val_truthy p_bar_in_val p_ts p_hash_eq p_now].
    rewrite list_eqb_refl. destruct (c_pin cfg); [|reflexivity]. cbn [negb orb].
    assert (L : (q_now q - PIN_TIME <? ts)%Z = true) by lia. rewrite L. reflexivity.
Qed.

Lemma pin_atoms_none_iff cfg q p : pin_atoms cfg q = Some p -> (check_pin_trust p = TNone <-> pin_cookie_stale cfg q).
Proof.
  intro H. split.
  - unfold pin_atoms in H. unfold pin_cookie_stale.
    set (val := match q_cookie q with Some v => v | None => [] end) in *.
    destruct (partition1 BAR val) as [ts_str [rest|]] eqn:P.
    + destruct (parse_int ts_str) as [z| |] eqn:PI; try discriminate; injection H as <-; unfold check_pin_trust;
        cbn [p_pin_is_none p_val_truthy p_bar_in_val p_ts p_hash_eq p_now].
      * destruct (c_pin cfg) as [pin|]; [|discriminate].
        destruct val as [|v0 val'] eqn:V; cbn [negb orb]; [discriminate|].
        destruct (list_eqb rest (c_pin_hash cfg)) eqn:HE; cbn [negb].
        -- destruct (q_now q - PIN_TIME <? z)%Z; discriminate.
        -- intros _. split; [discriminate|]. exists ts_str, rest, z. destruct (partition1_some _ _ _ _ P) as [Hv M].
           split; [|split; [exact M|split; [exact PI|]]].
           ++ unfold val in V. destruct (q_cookie q) as [v|]; [|discriminate]. subst v. rewrite Hv. reflexivity.
           ++ intro. subst rest. rewrite list_eqb_refl in HE. discriminate.
      * destruct (c_pin cfg); [|discriminate]. destruct val; cbn [negb orb]; discriminate.
    + injection H as <-. unfold check_pin_trust. cbn [p_pin_is_none p_val_truthy p_bar_in_val p_ts p_hash_eq p_now].
      destruct (c_pin cfg); [|discriminate]. destruct val; cbn [negb orb]; discriminate.
  - intros [N [ts_str [rest [ts [C [M [PI NE]]]]]]].
    rewrite (pin_atoms_shape cfg q ts_str rest C M), PI in H. injection H as <-.
    unfold check_pin_trust, mk_pinatoms. cbn [p_pin_is_none p_val_truthy p_bar_in_val p_ts p_hash_eq p_now].
    destruct (c_pin cfg); [|contradiction]. cbn [negb orb].
    destruct (list_eqb rest (c_pin_hash cfg)) eqn:HE; [apply list_eqb_eq in HE; contradiction|reflexivity].
Qed.

(* the whole classification: trusted iff valid, None (counted, cookie deleted) iff stale, False otherwise *)
Lemma pin_cookie_classes cfg q p : pin_atoms cfg q = Some p ->
  (check_pin_trust p = TTrue <-> pin_cookie_valid cfg q) /\
  (check_pin_trust p = TNone <-> pin_cookie_stale cfg q) /\
  (check_pin_trust p = TFalse <-> ~ pin_cookie_valid cfg q /\ ~ pin_cookie_stale cfg q).
Proof.
  intro H. pose proof (pin_atoms_none_iff cfg q p H) as S.
  assert (V : check_pin_trust p = TTrue <-> pin_cookie_valid cfg q)
    by (split; [apply (pin_atoms_true cfg q p H)|apply (pin_atoms_true_conv cfg q p H)]).
  split; [exact V|]. split; [exact S|]. split.
  - intro F. split; intro X; [apply V in X|apply S in X]; rewrite X in F; discriminate.
  - intros [NV NS]. destruct (check_pin_trust p) eqn:E; [exfalso; apply NV, V; reflexivity|reflexivity|exfalso; apply NS, S; reflexivity].
Qed.

(* outside the model: only a time stamp field with a non-ASCII character (int() accepts Unicode digits) *)
Lemma pin_atoms_domain cfg q : pin_atoms cfg q = None ->
  exists ts_str rest, q_cookie q = Some (ts_str ++ BAR :: rest) /\ mem BAR ts_str = false /\ is_ascii_str ts_str = false.
Proof.
  unfold pin_atoms. set (val := match q_cookie q with Some v => v | None => [] end).
  destruct (partition1 BAR val) as [ts_str [rest|]] eqn:P; [|discriminate].
  destruct (parse_int ts_str) eqn:PI; try discriminate. intros _.
  destruct (partition1_some _ _ _ _ P) as [Hv M]. exists ts_str, rest. split; [|split; [exact M|]].
  - unfold val in Hv. destruct (q_cookie q) as [v|]; [subst v; reflexivity|destruct ts_str; discriminate].
  - unfold parse_int in PI. destruct (is_ascii_str ts_str); [|reflexivity]. cbn [negb] in PI.
    destruct (strip ascii_ws ts_str) as [|c r]; [discriminate|].
    destruct (c =? DASH); [destruct (int_digits r 0 false); discriminate|].
    destruct (c =? PLUS); [destruct (int_digits r 0 false); discriminate|].
    destruct (int_digits (c :: r) 0 false); discriminate.
Qed.

Definition frame_valid (cfg : config) (q : request) : Prop :=
  exists f z, arg_get k_frm (q_args q) = Some f /\ parse_int f = IOk z /\ In z (c_frames cfg).

Lemma frame_known_true frames a : frame_known frames a = Some true ->
  exists f z, a = Some f /\ parse_int f = IOk z /\ In z frames.
Proof.
  unfold frame_known. destruct a as [f|]; [|discriminate]. destruct (parse_int f) as [z| |] eqn:PI; try discriminate.
  intro H. injection H as H. apply existsb_exists in H. destruct H as [z' [Hin Hz]]. apply Z.eqb_eq in Hz. subst z'.
  exists f, z. split; [reflexivity|split; [exact PI|exact Hin]].
Qed.

Section Concrete.
Variable idna_u : str -> option str.

Lemma gate_concrete cfg q count c s : run idna_u cfg q count = ROut OEval c s ->
  c_evalex cfg = true /\ host_is_trusted idna_u (q_host q) (c_trusted cfg) = Ok true /\
  arg_get k_s (q_args q) = Some (c_secret cfg) /\ arg_get k_debugger (q_args q) = Some k_yes /\
  (exists code, arg_get k_cmd (q_args q) = Some code) /\
  frame_valid cfg q /\ pin_cookie_valid cfg q /\ c = count /\ s = None.
Proof.
  unfold run. destruct (host_is_trusted idna_u (q_host q) (c_trusted cfg)) as [ht|e] eqn:HT; [|discriminate].
  destruct (abstract cfg q ht) as [r|] eqn:AB; [|discriminate].
  destruct (call r (lock_test count)) as [o k] eqn:CL. intro H. injection H as -> <- <-.
  assert (F : fst (call r (lock_test count)) = OEval) by (rewrite CL; reflexivity).
  destruct (gate_abstract r _ F) as [G K]. rewrite CL in K. cbn [snd] in K. subst k.
  unfold abstract in AB. destruct (pin_atoms cfg q) as [p|] eqn:PA; [|discriminate].
  destruct (frame_known (c_frames cfg) (arg_get k_frm (q_args q))) as [fk|] eqn:FK; [|discriminate].
  injection AB as <-. unfold eval_conj in G.
  cbn [a_dbg a_cmd a_evalex a_host_trusted a_secret_ok a_frame a_pin_trust] in G.
  repeat (apply andb_prop in G; destruct G as [G ?]).
  subst ht fk. repeat split; try assumption; try reflexivity.
  - apply opt_eqb_eq. assumption.
  - apply opt_eqb_eq. assumption.
  - destruct (arg_get k_cmd (q_args q)) as [code|]; [exists code; reflexivity|]. cbn [cmd_of cmd_is negb] in *. discriminate.
  - destruct (frame_known_true _ _ FK) as [f [z [A [B C]]]]. exists f, z. repeat split; assumption.
  - apply (pin_atoms_true cfg q p PA). destruct (check_pin_trust p); [reflexivity|discriminate|discriminate].
Qed.

(* an untrusted (or absent, or malformed) Host never gets past a 400, the wrapped application or a
   static file, and never touches the counter *)
Lemma untrusted_concrete cfg q count o c s :
  host_is_trusted idna_u (q_host q) (c_trusted cfg) = Ok false ->
  run idna_u cfg q count = ROut o c s -> harmless o = true /\ c = count /\ s = None.
Proof.
  unfold run. intros HT. rewrite HT. destruct (abstract cfg q false) as [r|] eqn:AB; [|discriminate].
  assert (HR : a_host_trusted r = false).
  { unfold abstract in AB. destruct (pin_atoms cfg q); [|discriminate].
    destruct (frame_known (c_frames cfg) (arg_get k_frm (q_args q))); [|discriminate]. injection AB as <-. reflexivity. }
  destruct (untrusted_abstract r (lock_test count) HR) as [A B].
  destruct (call r (lock_test count)) as [o' k]. cbn [fst snd] in A, B. subst k.
  intro H. injection H as <- <- <-. repeat split; [exact A].
Qed.

End Concrete.

(* ================================================================== witnesses used by the Examples of Props.v *)
Definition ex_base : atoms :=
  {| a_dbg := true; a_cmd := CPinauth; a_arg := false; a_secret_ok := true; a_frame := false; a_evalex := true;
     a_console_path_set := true; a_path_is_console := false; a_host_trusted := true; a_pin_trust := TFalse;
     a_pin_present := true; a_pin_matches := false; a_pin_logging := true; a_pin_is_none := false |}.
Definition ex_wrong : atoms := ex_base.
Definition ex_right : atoms :=
  {| a_dbg := true; a_cmd := CPinauth; a_arg := false; a_secret_ok := true; a_frame := false; a_evalex := true;
     a_console_path_set := true; a_path_is_console := false; a_host_trusted := true; a_pin_trust := TFalse;
     a_pin_present := true; a_pin_matches := true; a_pin_logging := true; a_pin_is_none := false |}.
Definition ex_stale : atoms :=
  {| a_dbg := true; a_cmd := CPinauth; a_arg := false; a_secret_ok := true; a_frame := false; a_evalex := true;
     a_console_path_set := true; a_path_is_console := false; a_host_trusted := true; a_pin_trust := TNone;
     a_pin_present := false; a_pin_matches := false; a_pin_logging := true; a_pin_is_none := false |}.
Definition ex_eval : atoms :=
  {| a_dbg := true; a_cmd := COther; a_arg := false; a_secret_ok := true; a_frame := true; a_evalex := true;
     a_console_path_set := true; a_path_is_console := false; a_host_trusted := true; a_pin_trust := TTrue;
     a_pin_present := false; a_pin_matches := false; a_pin_logging := true; a_pin_is_none := false |}.
Definition no_idna (_ : str) : option str := None.
Definition s_sub_localhost_80 : str := [115; 117; 98; 46; 108; 111; 99; 97; 108; 104; 111; 115; 116; 58; 56; 48].
Definition s_evillocalhost : str := [101; 118; 105; 108; 108; 111; 99; 97; 108; 104; 111; 115; 116].
Definition s_v6_1 : str := [91; 58; 58; 49; 93].
Definition s_v6_2_port : str := [91; 58; 58; 50; 93; 58; 56; 48].
Definition s_a_dotdot_b : str := [97; 46; 46; 98].

(* ================================================================== the generated host functions: transferred results *)
Section Generated.
Variable idna_u : str -> option str.
Hypothesis idna_u_labels : forall s o, idna_u s = Some o -> ascii_labels_ok o 0 = true.

Lemma strip_port_part_gen h : host_part h (strip_port h).
Proof. rewrite strip_port_eq. apply strip_port_part. Qed.

Lemma host_sound_gen h l : host_is_trusted idna_u (Some h) l = Ok true -> spec_trusted idna_u h l.
Proof. rewrite host_is_trusted_eq. apply host_sound. exact idna_u_labels. Qed.

Lemma default_list_sound_gen h : host_is_trusted idna_u (Some h) default_trusted_hosts = Ok true ->
  exists hn, names idna_u h hn /\
    (hn = s_localhost \/ (exists sub, sub <> [] /\ hn = sub ++ DOT :: s_localhost) \/ hn = s_loopback).
Proof. rewrite host_is_trusted_eq. apply default_list_sound. exact idna_u_labels. Qed.

Lemma get_host_trusted_gen scheme hh server l v : get_host idna_u scheme hh server (Some l) = Ok v -> spec_trusted idna_u v l.
Proof. rewrite get_host_eq. apply get_host_trusted. exact idna_u_labels. Qed.
End Generated.

Section GeneratedTotal.
Variable idna_u : str -> option str.

Lemma host_total_gen h l : exists b, host_is_trusted idna_u h l = Ok b.
Proof. rewrite host_is_trusted_eq. apply host_total. Qed.

Lemma host_absent_gen l : host_is_trusted idna_u None l = Ok false.
Proof. reflexivity. Qed.

Lemma host_empty_list_gen h : host_is_trusted idna_u h [] = Ok false.
Proof.
  rewrite host_is_trusted_eq. unfold host_is_trusted_ref. destruct h as [[|c r]|]; try reflexivity.
  destruct (norm_host idna_u (c :: r)); reflexivity.
Qed.

Lemma get_host_errors_gen scheme hh server tr e : get_host idna_u scheme hh server tr = Err e -> e = SecurityError.
Proof. rewrite get_host_eq. apply get_host_errors. Qed.

(* request-level enforcement: sansio.request.Request.host and wsgi.get_host hand their trusted_hosts
   to get_host unchanged.  None: no validation.  A list (the empty list included): the assembled host
   is returned exactly when host_is_trusted says true, otherwise SecurityError. *)
Lemma get_host_spec scheme hh server :
  let h := assemble scheme hh server in
  get_host idna_u scheme hh server None = Ok h /\
  (forall l, exists b, host_is_trusted idna_u (Some h) l = Ok b /\
     get_host idna_u scheme hh server (Some l) = if b then Ok h else Err SecurityError) /\
  get_host idna_u scheme hh server (Some []) = Err SecurityError.
Proof.
  intro h. split; [rewrite get_host_eq; reflexivity|]. split.
  - intro l. destruct (host_total_gen (Some h) l) as [b Hb]. exists b. split; [exact Hb|].
    rewrite get_host_eq. unfold get_host_ref. fold h. rewrite <- host_is_trusted_eq, Hb. destruct b; reflexivity.
  - rewrite get_host_eq. unfold get_host_ref. rewrite <- host_is_trusted_eq, host_empty_list_gen. reflexivity.
Qed.

Lemma request_host_spec scheme hh server :
  let h := assemble scheme hh server in
  request_host idna_u scheme hh server None = Ok h /\
  (forall l, exists b, host_is_trusted idna_u (Some h) l = Ok b /\
     request_host idna_u scheme hh server (Some l) = if b then Ok h else Err SecurityError) /\
  request_host idna_u scheme hh server (Some []) = Err SecurityError /\
  (forall tr, wsgi_get_host idna_u scheme hh server tr = request_host idna_u scheme hh server tr).
Proof.
  intro h. destruct (get_host_spec scheme hh server) as [A [B C]].
  split; [exact A|]. split; [exact B|]. split; [exact C|]. intro tr. reflexivity.
Qed.
End GeneratedTotal.

(* ================================================================== the frames table across requests *)

Definition served_console (s : dstate) (q : areq) : Prop :=
  exists t, fst (astep s q) = OConsole t /\ a_host_trusted (ar_atoms q) = true /\ a_evalex (ar_atoms q) = true.

Lemma zpos_not_zero ids : ~ In 0%Z (map Zpos ids).
Proof. intro H. apply in_map_iff in H. destruct H as [p [Hp _]]. discriminate. Qed.

Lemma astep_frames s q : In 0%Z (d_frames (snd (astep s q))) -> In 0%Z (d_frames s) \/ served_console s q.
Proof.
  unfold served_console, astep.
  pose proof (sweep_call endpoint_req endpoint_sweep (atoms_in s q) (lock_test (d_count s))) as E. unfold endpoint_req in E.
  destruct (call (atoms_in s q) (lock_test (d_count s))) as [o k]. cbn [fst snd d_frames] in *.
  destruct o; cbn [creates_console_frame]; intro H; try (left; exact H).
  - apply in_app_or in H. destruct H as [H|H]; [exfalso; exact (zpos_not_zero _ H)|left; exact H].
  - right. exists evalex_trusted. split; [reflexivity|].
    repeat (apply andb_prop in E; destruct E as [E ?]). cbn [atoms_in with_frame a_host_trusted a_evalex] in *.
    split; assumption.
Qed.

Lemma arun_cons s q h : arun s (q :: h) = arun (snd (astep s q)) h.
Proof. reflexivity. Qed.

Lemma arun_frames h : forall s, In 0%Z (d_frames (arun s h)) ->
  In 0%Z (d_frames s) \/ exists pre q post, h = pre ++ q :: post /\ served_console (arun s pre) q.
Proof.
  induction h as [|q h IH]; intros s H; [left; exact H|].
  rewrite arun_cons in H.
  destruct (IH (snd (astep s q)) H) as [H1|[pre [q' [post [E S]]]]].
  - destruct (astep_frames s q H1) as [H2|H2]; [left; exact H2|].
    right. exists [], q, h. split; [reflexivity|exact H2].
  - right. exists (q :: pre), q', post. split; [cbn [app]; rewrite E; reflexivity|]. rewrite arun_cons. exact S.
Qed.

(* evaluation in the console frame (frame 0) is impossible before the console page has been served to
   a trusted Host with evalex on - for every history of requests *)
Lemma console_eval_needs_page : forall h s q,
  ~ In 0%Z (d_frames s) ->
  ar_frm q = Some 0%Z -> fst (astep (arun s h) q) = OEval ->
  exists pre q' post, h = pre ++ q' :: post /\ served_console (arun s pre) q'.
Proof.
  intros h s q H0 F E. unfold astep in E.
  destruct (call (atoms_in (arun s h) q) (lock_test (d_count (arun s h)))) as [o k] eqn:C. cbn [fst] in E. subst o.
  assert (G : fst (call (atoms_in (arun s h) q) (lock_test (d_count (arun s h)))) = OEval) by (rewrite C; reflexivity).
  destruct (gate_abstract _ _ G) as [G1 _]. unfold eval_conj in G1.
  repeat (apply andb_prop in G1; destruct G1 as [G1 ?]).
  cbn [atoms_in with_frame a_frame] in *. rewrite F in *. cbn [frame_in] in *.
  match goal with HF : existsb _ _ = true |- _ => apply existsb_exists in HF; destruct HF as [z [Hin Hz]] end.
  apply Z.eqb_eq in Hz. subst z.
  destruct (arun_frames h s Hin) as [X|X]; [contradiction|exact X].
Qed.

Definition ex_console_page : areq :=
  {| ar_atoms := {| a_dbg := false; a_cmd := CNone; a_arg := false; a_secret_ok := false; a_frame := false; a_evalex := true;
                    a_console_path_set := true; a_path_is_console := true; a_host_trusted := true; a_pin_trust := TTrue;
                    a_pin_present := false; a_pin_matches := false; a_pin_logging := true; a_pin_is_none := false |};
     ar_frm := None; ar_new_ids := [] |}.
Definition ex_eval_frame0 : areq := {| ar_atoms := ex_eval; ar_frm := Some 0%Z; ar_new_ids := [] |}.
Definition st0 : dstate := {| d_count := 0; d_frames := [] |}.
