(* C20: executable model.  Definitions only.
   - host part: sansio.utils._strip_port / host_is_trusted / get_host, with str.encode(idna)
     modelled on ASCII input (the codec's fast path) and a Section variable for the rest;
   - debugger part: the concrete request (query arguments, path, Host, PIN cookie) is abstracted
     to the atoms of C20/Types.v and fed to the decision functions of C20/Gen.v, which are
     regenerated from debug/__init__.py on every run; the failure counter is a number that
     every store reduces modulo value_modulus. *)
From Coq Require Import ZArith.
From Wz Require Import lib.Bytes C20.Types C20.Str C20.Gen.
Open Scope N_scope.

(* ------------------------------------------------------------------ _strip_port *)
(* reference reading of _strip_port; the function the model runs is Gen.strip_port, regenerated from
   the source and proved equal to this one (Proofs.strip_port_eq) *)
Definition strip_port_ref (h : str) : str :=
  match h with
  | [] => []
  | c :: r =>
      if c =? LBR then
        match partition1 RBR r with
        | (a, Some rest) =>
            match rest with
            | [] => LBR :: a ++ [RBR]
            | d :: _ => if d =? COLON then LBR :: a ++ [RBR] else h
            end
        | (_, None) => h
        end
      else fst (partition1 COLON h)
  end.

Section Host.
(* str.encode("idna") on text with a non-ASCII character: Some bytes, or None for UnicodeError *)
Variable idna_u : str -> option str.

Definition norm_host (h : str) : option str := idna_encode idna_u (strip_port_ref h).

(* ref.startswith(".") -> (ref[1:], True) *)
Definition split_dot (ref : str) : str * bool :=
  match ref with
  | c :: r => if c =? DOT then (r, true) else (ref, false)
  | [] => (ref, false)
  end.

Fixpoint match_refs (hostname : str) (l : list str) : res bool :=
  match l with
  | [] => Ok false
  | ref :: rest =>
      let '(ref1, suffix_match) := split_dot ref in
      match norm_host ref1 with
      | None => Ok false
      | Some refn =>
          if list_eqb refn hostname || (suffix_match && ends_with (DOT :: refn) hostname)
          then Ok true else match_refs hostname rest
      end
  end.

(* hostname : None = no Host header *)
(* reference reading of host_is_trusted (the generated Gen.host_is_trusted is proved equal to it) *)
Definition host_is_trusted_ref (hostname : option str) (l : list str) : res bool :=
  match hostname with
  | None => Ok false
  | Some [] => Ok false
  | Some h => match norm_host h with
              | None => Ok false
              | Some hn => match_refs hn l
              end
  end.

(* ------------------------------------------------------------------ get_host *)
Definition s_http : str := [104; 116; 116; 112].
Definition s_ws : str := [119; 115].
Definition s_https : str := [104; 116; 116; 112; 115].
Definition s_wss : str := [119; 115; 115].
Definition s_80 : str := [58; 56; 48].
Definition s_443 : str := [58; 52; 52; 51].

Definition drop_last (n : nat) (s : str) : str := firstn (length s - n) s.

(* the host get_host works with: the Host header, else SERVER_NAME (bracketed when it is a bare IPv6
   address) and port; only the default port suffix of the scheme is removed.
   server = (name, port); the port arrives rendered as decimal text (None for a unix socket) *)
Definition assemble (scheme : str) (host_header : option str) (server : option (str * option str)) : str :=
  let host0 :=
    match host_header with
    | Some h => h
    | None =>
        match server with
        | None => []
        | Some (name, port) =>
            let h1 := if mem COLON name && negb (match name with c :: _ => c =? LBR | [] => false end)
                      then LBR :: name ++ [RBR] else name in
            match port with Some p => h1 ++ COLON :: p | None => h1 end
        end
    end in
  if (list_eqb scheme s_http || list_eqb scheme s_ws) && ends_with s_80 host0 then drop_last 3 host0
  else if (list_eqb scheme s_https || list_eqb scheme s_wss) && ends_with s_443 host0 then drop_last 4 host0
  else host0.

(* reference reading of get_host (Gen.get_host is proved equal to it): trusted = None means no
   validation; Some l (the empty list included) means the host must be trusted by l *)
Definition get_host_ref (scheme : str) (host_header : option str) (server : option (str * option str))
                        (trusted : option (list str)) : res str :=
  let host := assemble scheme host_header server in
  match trusted with
  | None => Ok host
  | Some l => match host_is_trusted_ref (Some host) l with
              | Ok true => Ok host
              | Ok false => Err SecurityError
              | Err e => Err e
              end
  end.

(* ------------------------------------------------------------------ int(text) *)
Inductive int_res := IOk (z : Z) | IValueError | IUnsupported.

(* digits with single underscores between them; acc = value so far; prev_digit = the previous
   character was a digit *)
Fixpoint int_digits (s : str) (acc : Z) (prev_digit : bool) : option Z :=
  match s with
  | [] => if prev_digit then Some acc else None
  | c :: r =>
      if is_digit c then int_digits r (acc * 10 + Z.of_N (c - 48))%Z true
      else if (c =? USCORE) && prev_digit then
             match r with
             | d :: _ => if is_digit d then int_digits r acc false else None
             | [] => None
             end
      else None
  end.

(* int(s) for a str of ASCII characters: C white space (09-0D, 20) stripped, optional sign,
   decimal digits with single underscores between them.  With a non-ASCII character present
   CPython first maps Unicode spaces and decimal digits to ASCII; that is outside the model
   (IUnsupported). *)
Definition parse_int (s : str) : int_res :=
  if negb (is_ascii_str s) then IUnsupported
  else match strip ascii_ws s with
       | [] => IValueError
       | c :: r =>
           if c =? DASH then match int_digits r 0%Z false with Some z => IOk (- z)%Z | None => IValueError end
           else if c =? PLUS then match int_digits r 0%Z false with Some z => IOk z | None => IValueError end
           else match int_digits (c :: r) 0%Z false with Some z => IOk z | None => IValueError end
       end.

(* ------------------------------------------------------------------ the debugger *)
Record config := {
  c_evalex : bool;
  c_console_path : option str;
  c_secret : str;
  c_frames : list Z;              (* keys of self.frames *)
  c_pin : option str;             (* None = PIN switched off *)
  c_pin_hash : str;               (* hash_pin(self.pin): sha1 is not modelled *)
  c_pin_logging : bool;
  c_trusted : list str            (* self.trusted_hosts *)
}.

Record request := {
  q_args : list (str * str);      (* query arguments in order *)
  q_path : str;
  q_host : option str;            (* environ.get("HTTP_HOST") *)
  q_cookie : option str;          (* parse_cookie(environ).get(self.pin_cookie_name) *)
  q_now : Z                       (* time.time() *)
}.

(* MultiDict.get: first value *)
Fixpoint arg_get (k : str) (l : list (str * str)) : option str :=
  match l with
  | [] => None
  | (k', v) :: r => if list_eqb k k' then Some v else arg_get k r
  end.

Definition k_debugger : str := [95; 95; 100; 101; 98; 117; 103; 103; 101; 114; 95; 95].
Definition k_yes : str := [121; 101; 115].
Definition k_cmd : str := [99; 109; 100].
Definition k_f : str := [102].
Definition k_s : str := [115].
Definition k_frm : str := [102; 114; 109].
Definition k_pin : str := [112; 105; 110].
Definition k_resource : str := [114; 101; 115; 111; 117; 114; 99; 101].
Definition k_pinauth : str := [112; 105; 110; 97; 117; 116; 104].
Definition k_printpin : str := [112; 114; 105; 110; 116; 112; 105; 110].

Definition opt_eqb (a : option str) (b : str) : bool :=
  match a with Some x => list_eqb x b | None => false end.

Definition cmd_of (a : option str) : cmdkind :=
  match a with
  | None => CNone
  | Some s => if list_eqb s k_resource then CResource
              else if list_eqb s k_pinauth then CPinauth
              else if list_eqb s k_printpin then CPrintpin else COther
  end.

(* request.args.get("frm", type=int): a ValueError gives None; frames.get(None) is None *)
Definition frame_known (frames : list Z) (a : option str) : option bool :=
  match a with
  | None => Some false
  | Some s => match parse_int s with
              | IOk z => Some (existsb (Z.eqb z) frames)
              | IValueError => Some false
              | IUnsupported => None
              end
  end.

Definition remove_dash (s : str) : str := filter (fun c => negb (c =? DASH)) s.

(* entered_pin.strip().replace("-", "") == pin.replace("-", "") *)
Definition pin_matches (entered : str) (pin : str) : bool :=
  list_eqb (remove_dash (strip uni_ws entered)) (remove_dash pin).

(* val.split("|", 1) when "|" in val *)
Definition pin_atoms (cfg : config) (q : request) : option pinatoms :=
  let val := match q_cookie q with Some v => v | None => [] end in
  let '(ts_str, rest) := partition1 BAR val in
  let pin_hash := match rest with Some h => h | None => [] end in
  let has_bar := match rest with Some _ => true | None => false end in
  let mk ts := {| p_pin_is_none := match c_pin cfg with None => true | Some _ => false end;
                  p_val_truthy := match val with [] => false | _ => true end;
                  p_bar_in_val := has_bar;
                  p_ts := ts;
                  p_hash_eq := list_eqb pin_hash (c_pin_hash cfg);
                  p_now := q_now q |} in
  if has_bar then
    match parse_int ts_str with
    | IOk z => Some (mk (Some z))
    | IValueError => Some (mk None)
    | IUnsupported => None
    end
  else Some (mk None).

(* the abstraction; None = outside the modelled domain (non-ASCII digits handed to int()) *)
Definition abstract (cfg : config) (q : request) (host_trusted : bool) : option atoms :=
  match pin_atoms cfg q, frame_known (c_frames cfg) (arg_get k_frm (q_args q)) with
  | Some p, Some fk =>
      Some {| a_dbg := opt_eqb (arg_get k_debugger (q_args q)) k_yes;
              a_cmd := cmd_of (arg_get k_cmd (q_args q));
              a_arg := match arg_get k_f (q_args q) with Some (_ :: _) => true | _ => false end;
              a_secret_ok := opt_eqb (arg_get k_s (q_args q)) (c_secret cfg);
              a_frame := fk;
              a_evalex := c_evalex cfg;
              a_console_path_set := match c_console_path cfg with Some _ => true | None => false end;
              a_path_is_console := match c_console_path cfg with Some p => list_eqb (q_path q) p | None => false end;
              a_host_trusted := host_trusted;
              a_pin_trust := check_pin_trust p;
              a_pin_present := match arg_get k_pin (q_args q) with Some _ => true | None => false end;
              a_pin_matches := match arg_get k_pin (q_args q), c_pin cfg with
                               | Some e, Some pin => pin_matches e pin
                               | _, _ => false
                               end;
              a_pin_logging := c_pin_logging cfg;
              a_pin_is_none := match c_pin cfg with None => true | Some _ => false end |}
  | _, _ => None
  end.

(* the counter after a request *)
Definition apply_cnt (k : cnt_action) (count : N) : N :=
  match k with KKeep => count | KReset => 0 | KFail => fail_count count end.

(* time.sleep duration in ms, if any *)
Definition slept (k : cnt_action) (count : N) : option N :=
  match k with
  | KFail => Some (if fail_sleep_long count then sleep_long_ms else sleep_short_ms)
  | _ => None
  end.

(* one abstract request against the counter *)
Definition step (r : atoms) (count : N) : outcome * N :=
  let '(o, k) := call r (lock_test count) in (o, apply_cnt k count).

Definition run_hist (count : N) (h : list atoms) : N :=
  fold_left (fun c r => snd (step r c)) h count.

(* display_console creates the console frame (frames[0]) when it answers *)
Definition creates_console_frame (o : outcome) : bool := match o with OConsole _ => true | _ => false end.

(* ---- the frames table as state (cross-request facts).  A request is its atoms (a_frame is
   recomputed from the state), the frame id it names (frm, parsed) and the ids the traceback would
   register if the wrapped application raised while handling it. *)
Record dstate := { d_count : N; d_frames : list Z }.
(* ar_new_ids: the keys debug_application stores are id(frame) of live objects - addresses, never 0
   (the only store sites into self.frames are pinned by the translator: frames[id(frame)] in
   debug_application, frames[0] in display_console); so they are positive numbers here *)
Record areq := { ar_atoms : atoms; ar_frm : option Z; ar_new_ids : list positive }.

Definition with_frame (r : atoms) (b : bool) : atoms :=
  {| a_dbg := a_dbg r; a_cmd := a_cmd r; a_arg := a_arg r; a_secret_ok := a_secret_ok r; a_frame := b;
     a_evalex := a_evalex r; a_console_path_set := a_console_path_set r; a_path_is_console := a_path_is_console r;
     a_host_trusted := a_host_trusted r; a_pin_trust := a_pin_trust r; a_pin_present := a_pin_present r;
     a_pin_matches := a_pin_matches r; a_pin_logging := a_pin_logging r; a_pin_is_none := a_pin_is_none r |}.

Definition frame_in (frames : list Z) (f : option Z) : bool :=
  match f with Some z => existsb (Z.eqb z) frames | None => false end.

(* the atoms the dispatcher sees in state s *)
Definition atoms_in (s : dstate) (q : areq) : atoms := with_frame (ar_atoms q) (frame_in (d_frames s) (ar_frm q)).

Definition astep (s : dstate) (q : areq) : outcome * dstate :=
  let '(o, k) := call (atoms_in s q) (lock_test (d_count s)) in
  (o, {| d_count := apply_cnt k (d_count s);
         d_frames := if creates_console_frame o then 0%Z :: d_frames s
                     else match o with OApp => map Zpos (ar_new_ids q) ++ d_frames s | _ => d_frames s end |}).

Definition arun (s : dstate) (h : list areq) : dstate := fold_left (fun s q => snd (astep s q)) h s.

Inductive run_res := RUnsupported | ROut (o : outcome) (count : N) (sleep : option N).

(* DebuggedApplication.__call__ on a concrete request *)
Definition run (cfg : config) (q : request) (count : N) : run_res :=
  match host_is_trusted idna_u (q_host q) (c_trusted cfg) with
  | Err e => ROut (ORaise e) count None
  | Ok ht =>
      match abstract cfg q ht with
      | None => RUnsupported
      | Some r => let '(o, k) := call r (lock_test count) in ROut o (apply_cnt k count) (slept k count)
      end
  end.

End Host.
