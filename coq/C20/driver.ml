let opt s = if s = "~" then None else Some (nlist_of_csv s)
let split c s = if s = "_" then [] else String.split_on_char c s
let strs s = List.map nlist_of_csv (split '|' s)
(* idna table: in>out|in>! ; the Section variable idna_u of the model is a lookup in it *)
let idna tbl = let l = List.map (fun e -> match String.split_on_char '>' e with
    | [a; b] -> (nlist_of_csv a, if b = "!" then None else Some (nlist_of_csv b)) | _ -> failwith "idna") (split '|' tbl) in
  fun s -> (try List.assoc s l with Not_found -> failwith "idna-miss")
let exn_s = function UnicodeError -> "UnicodeError" | KeyError -> "KeyError" | SecurityError -> "SecurityError"
let b s = (s = "1")
let bs x = if x then "1" else "0"
let outcome_s = function
  | OApp -> "app" | OResource -> "resource" | OSecurityError -> "secerr" | OEval -> "eval"
  | OConsole t -> "console:" ^ bs t | OPrintPin l -> "printpin:" ^ bs l
  | OPinAuth (a, e, ck) -> "pin:" ^ bs a ^ "," ^ bs e ^ "," ^ (match ck with CkNone -> "none" | CkSet -> "set" | CkDelete -> "delete")
  | ORaise e -> "raise:" ^ exn_s e
let () = iter_lines (fun line ->
  match fields line with
  | ["hit"; h; l; tbl] ->
      (match host_is_trusted (idna tbl) (opt h) (strs l) with Ok v -> "ok " ^ bs v | Err e -> "exn:" ^ exn_s e)
  | ["sp"; h] -> csv_of_nlist (strip_port (nlist_of_csv h))
  | ["int"; s] -> (match parse_int (nlist_of_csv s) with IOk z -> "ok " ^ string_of_int (int_of_z z) | IValueError -> "ValueError" | IUnsupported -> "unsupported")
  | [("gh" | "rh" | "wgh") as which; scheme; hh; sn; sp; tr; tbl] ->
      let server = match opt sn with None -> None | Some n -> Some (n, opt sp) in
      let trusted = if tr = "~~" then None else Some (strs tr) in
      let f = if which = "gh" then get_host else if which = "rh" then request_host else wsgi_get_host in
      (match f (idna tbl) (nlist_of_csv scheme) (opt hh) server trusted with Ok v -> "ok " ^ csv_of_nlist v | Err e -> "exn:" ^ exn_s e)
  | ["run"; evalex; cpath; secret; frames; pin; pinhash; plog; trusted; args; path; host; cookie; now; count; tbl] ->
      let cfg = { c_evalex = b evalex; c_console_path = opt cpath; c_secret = nlist_of_csv secret;
                  c_frames = List.map (fun x -> z_of_int (int_of_string x)) (split ',' frames);
                  c_pin = opt pin; c_pin_hash = nlist_of_csv pinhash; c_pin_logging = b plog; c_trusted = strs trusted } in
      let arg e = match String.split_on_char '=' e with [k; v] -> (nlist_of_csv k, nlist_of_csv v) | _ -> failwith "arg" in
      let q = { q_args = List.map arg (split '|' args); q_path = nlist_of_csv path; q_host = opt host; q_cookie = opt cookie;
                q_now = z_of_int (int_of_string now) } in
      (match run (idna tbl) cfg q (n_of_int (int_of_string count)) with
       | RUnsupported -> "unsupported"
       | ROut (o, c, s) -> outcome_s o ^ " c=" ^ string_of_int (int_of_n c) ^ " s=" ^ (match s with None -> "-" | Some ms -> string_of_int (int_of_n ms))
                           ^ " f0=" ^ bs (creates_console_frame o))
  | _ -> "bad-command")
