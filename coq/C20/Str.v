(* C20: the str primitives the generated host functions (C20/Gen.v) are written in: one Gallina
   function per Python str operation that occurs in sansio.utils._strip_port / host_is_trusted /
   get_host.  Hand-written, executable, compared with CPython through those functions.
   Definitions only. *)
From Coq Require Import ZArith.
From Wz Require Import lib.Bytes C20.Types.
Open Scope N_scope.

Definition COLON : N := 58.
Definition DOT : N := 46.
Definition LBR : N := 91.
Definition RBR : N := 93.
Definition BAR : N := 124.
Definition DASH : N := 45.
Definition PLUS : N := 43.
Definition USCORE : N := 95.

Definition is_ascii_str (s : str) : bool := forallb (fun c => c <? 128) s.

(* s.startswith(p), s.endswith(p) *)
Definition py_startswith (s p : str) : bool := starts_with p s.
Definition ends_with (p s : str) : bool := starts_with (rev p) (rev s).
Definition py_endswith (s p : str) : bool := ends_with p s.

(* s.find(c) for a one-character c: index of the first occurrence, -1 when absent *)
Definition py_find (s : str) (c : N) : Z :=
  match index_of c s with Some n => Z.of_nat n | None => (-1)%Z end.

(* a slice bound as Python clamps it *)
Definition clamp_idx (len i : Z) : Z := if (i <? 0)%Z then Z.max 0 (len + i) else Z.min i len.

(* s[a:b] (step 1); None = bound omitted *)
Definition py_slice (s : str) (a b : option Z) : str :=
  let len := Z.of_nat (length s) in
  let a' := match a with Some x => clamp_idx len x | None => 0%Z end in
  let b' := match b with Some x => clamp_idx len x | None => len end in
  firstn (Z.to_nat (b' - a')) (skipn (Z.to_nat a') s).

(* s.partition(c)[0] for a one-character c *)
Definition py_partition0 (s : str) (c : N) : str := fst (partition1 c s).

(* c in s for a one-character c *)
Definition py_contains (s : str) (c : N) : bool := mem c s.

(* x in {lit, ...} *)
Definition str_in (x : str) (set : list str) : bool := existsb (list_eqb x) set.

(* truth value of a str *)
Definition str_truthy (s : str) : bool := match s with [] => false | _ => true end.

(* X or None for a list-valued option: a falsy (empty) list becomes None *)
Definition or_none {A : Type} (x : option (list A)) : option (list A) :=
  match x with Some [] => None | o => o end.

(* ------------------------------------------------------------------ str.encode("idna") *)
(* ASCII fast path of encodings.idna: every label but the last has 1..63 characters, the last
   0..63.  n is the length of the label being scanned. *)
Fixpoint ascii_labels_ok (s : str) (n : N) : bool :=
  match s with
  | [] => n <? 64
  | c :: r => if c =? DOT then (0 <? n) && (n <? 64) && ascii_labels_ok r 0
              else ascii_labels_ok r (n + 1)
  end.

(* s.encode("idna").decode("ascii") ; None = UnicodeError.  idna_u is the codec on text with a
   non-ASCII character (not modelled: a parameter of everything that uses it). *)
Definition idna_encode (idna_u : str -> option str) (s : str) : option str :=
  match s with
  | [] => Some []
  | _ => if is_ascii_str s then (if ascii_labels_ok s 0 then Some s else None)
         else match idna_u s with
              | Some o => if is_ascii_str o then Some o else None
              | None => None
              end
  end.
