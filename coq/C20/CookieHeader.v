(* C20: the PIN cookie read from a Cookie header - composition with C13's model of http.parse_cookie
   (coq/C13/Model.v, validated there).  parse_cookie(environ).get(name) is the first value stored
   under the name.  Everything in C20/Model.v takes that value (q_cookie) as its input; this file
   only states what the composition gives. *)
From Coq Require Import ZArith.
From Wz Require Import lib.Bytes C13.Model C20.Types C20.Str C20.Gen C20.Model C20.Proofs.
Open Scope N_scope.

(* None = the header is outside C13's model (or raises there) *)
Definition cookie_from_header (name header : str) : option (option str) :=
  match parse_cookie_environ header with
  | EOk l => Some (arg_get name l)
  | _ => None
  end.

Definition with_cookie (q : request) (v : option str) : request :=
  {| q_args := q_args q; q_path := q_path q; q_host := q_host q; q_cookie := v; q_now := q_now q |}.

(* for every Cookie header in the domain of C13's model: the request is PIN-trusted iff the first
   cookie of that name is  <int text> | hash_pin(pin)  with the time stamp inside the window *)
Lemma header_classes cfg q name header v p :
  cookie_from_header name header = Some v -> pin_atoms cfg (with_cookie q v) = Some p ->
  (check_pin_trust p = TTrue <-> pin_cookie_valid cfg (with_cookie q v)) /\
  (check_pin_trust p = TNone <-> pin_cookie_stale cfg (with_cookie q v)) /\
  (check_pin_trust p = TFalse <-> ~ pin_cookie_valid cfg (with_cookie q v) /\ ~ pin_cookie_stale cfg (with_cookie q v)).
Proof. intros _ H. apply pin_cookie_classes. exact H. Qed.

(* witnesses: name "w", hash "ab", PIN "1", now = 1000 *)
Definition ex_cfg : config :=
  {| c_evalex := true; c_console_path := None; c_secret := [115]; c_frames := []; c_pin := Some [49];
     c_pin_hash := [97; 98]; c_pin_logging := true; c_trusted := [] |}.
Definition ex_q : request := {| q_args := []; q_path := []; q_host := None; q_cookie := None; q_now := 1000%Z |}.
Definition trust_of_header (header : str) : option trust :=
  match cookie_from_header [119] header with
  | Some v => option_map check_pin_trust (pin_atoms ex_cfg (with_cookie ex_q v))
  | None => None
  end.
(* "x=1; w=999|ab; w=5|zz" *)
Definition hdr_valid : str := [120; 61; 49; 59; 32; 119; 61; 57; 57; 57; 124; 97; 98; 59; 32; 119; 61; 53; 124; 122; 122].
(* "w=999|zz" : another hash *)
Definition hdr_stale : str := [119; 61; 57; 57; 57; 124; 122; 122].
(* "w=999|ab|x" : several bars - the hash part is "ab|x" *)
Definition hdr_bars : str := [119; 61; 57; 57; 57; 124; 97; 98; 124; 120].
(* "w=999ab" no bar; "w=9x9|ab" non-integer; "w=" empty; "x=1" absent; "w=-604000|ab" expired *)
Definition hdr_nobar : str := [119; 61; 57; 57; 57; 97; 98].
Definition hdr_nonint : str := [119; 61; 57; 120; 57; 124; 97; 98].
Definition hdr_empty : str := [119; 61].
Definition hdr_absent : str := [120; 61; 49].
Definition hdr_expired : str := [119; 61; 45; 54; 48; 52; 48; 48; 48; 124; 97; 98].
