(* C15: the EnvironBuilder -> Request round trip, composed from the quote / dance / get_host /
   get_current_url models and from C02's urlencode round trip. *)
From Coq Require Import ZArith Lia ZifyBool ZifyN.
From Wz Require C02.Gen C02.Model C02.Proofs.
From Wz Require Import lib.Bytes lib.BytesFacts lib.Utf8 lib.Utf8Facts C15.LibPercent C15.Gen C15.Model C15.Proofs
  C15.BuilderModel.
Open Scope N_scope.
Ltac Zify.zify_post_hook ::= Z.to_euclidean_division_equations.

Lemma unquote_rp_aux_ascii x : forall run, forallb ascii x = true ->
  unquote_rp_aux x run = unquote_run_rp (rev run ++ x).
Proof.
  induction x as [|c r IH]; intros run H; cbn [unquote_rp_aux].
  - rewrite app_nil_r. reflexivity.
  - cbn [forallb] in H. apply andb_prop in H. destruct H as [Hc Hr]. unfold ascii in Hc. rewrite Hc.
    rewrite (IH _ Hr). cbn [rev]. rewrite <- app_assoc. reflexivity.
Qed.

Lemma unquote_rp_ascii x : forallb ascii x = true -> unquote_rp x = unquote_run_rp x.
Proof. intro H. unfold unquote_rp. rewrite (unquote_rp_aux_ascii x [] H). reflexivity. Qed.

Lemma esc_pct_app a b : esc_pct (a ++ b) = esc_pct a ++ esc_pct b.
Proof. apply flat_map_app. Qed.

Lemma valid_text_esc X : valid_text X = true -> valid_text (esc_pct X) = true.
Proof.
  unfold valid_text. induction X as [|c X IH]; cbn [forallb]; intro H; [reflexivity|].
  apply andb_prop in H. destruct H as [Hc HX]. cbn [esc_pct flat_map]. rewrite forallb_app. fold (esc_pct X).
  rewrite (IH HX), andb_true_r. destruct (c =? 37); [reflexivity|]. cbn [forallb]. rewrite Hc. reflexivity.
Qed.

Lemma Q_single_stays safe a : stays safe a = true -> (a <? 128) = true -> Q safe [a] = [a].
Proof.
  intros Hs Ha. unfold Q, utf8_encode, quote_bytes. cbn [flat_map]. rewrite (app_nil_r (enc1 a)).
  unfold enc1. rewrite Ha. cbn [flat_map]. rewrite app_nil_r.
  destruct (quote_byte_cases safe a) as [[-> _]|[_ Hn]]; [reflexivity|congruence].
Qed.

Lemma Q_single safe c : Q safe [c] = quote_bytes safe (enc1 c).
Proof. unfold Q, utf8_encode. cbn [flat_map]. rewrite app_nil_r. reflexivity. Qed.

Lemma enc1_no_pct c : (c =? 37) = false -> mem PCT (enc1 c) = false.
Proof.
  intro H. destruct (mem PCT (enc1 c)) eqn:E; [|reflexivity]. unfold mem in E. apply existsb_exists in E.
  destruct E as [b [Hb Hpb]]. apply N.eqb_eq in Hpb. subst b. destruct (enc1_ascii c PCT Hb) as [_ Hc]; [unfold PCT; lia|].
  subst c. discriminate.
Qed.

(* percent-decoding the quoted, percent-escaped text gives the UTF-8 of the text *)
Lemma unq_Q_esc safe X rest : stays safe 37 = true -> valid_text X = true ->
  unq_bytes (Q safe (esc_pct X) ++ rest) = utf8_encode X ++ unq_bytes rest.
Proof.
  intros Hs. unfold valid_text. induction X as [|c X IH]; cbn [forallb]; intro H; [reflexivity|].
  apply andb_prop in H. destruct H as [Hc HX]. change (c :: X) with ([c] ++ X).
  rewrite esc_pct_app, Q_app, utf8_encode_app, <- !app_assoc. destruct (c =? 37) eqn:E.
  - apply N.eqb_eq in E. subst c. change (esc_pct [37]) with ([37] ++ [50] ++ [53]). rewrite !Q_app.
    rewrite (Q_single_stays safe 37 Hs eq_refl), (Q_single_stays safe 50 eq_refl eq_refl), (Q_single_stays safe 53 eq_refl eq_refl).
    change (([37] ++ [50] ++ [53]) ++ Q safe (esc_pct X) ++ rest) with (pct 37 ++ Q safe (esc_pct X) ++ rest).
    rewrite (unq_bytes_pct 37 _ ltac:(lia)), (IH HX). reflexivity.
  - assert (He : esc_pct [c] = [c]) by (cbn [esc_pct flat_map]; rewrite E; reflexivity).
    rewrite He, Q_single.
    rewrite unq_bytes_quote_app; [rewrite (IH HX); unfold utf8_encode; cbn [flat_map]; rewrite app_nil_r; reflexivity| |apply enc1_no_pct; exact E].
    apply Forall_forall. intros b Hb. exact (enc1_bytes c b Hc Hb).
Qed.

Lemma Q_esc_ascii safe X : valid_text X = true -> forallb ascii (Q safe (esc_pct X)) = true.
Proof. intro H. apply Q_ascii. apply valid_text_esc. exact H. Qed.

(* _path_encode then the decoding dance give the text back *)
Lemma path_encode_roundtrip safe X : stays safe 37 = true -> valid_text X = true ->
  wsgi_decoding_dance_replace (path_encode (Q safe (esc_pct X))) = Some X.
Proof.
  intros Hs Hv. unfold path_encode. rewrite (unquote_rp_ascii _ (Q_esc_ascii safe X Hv)). unfold unquote_run_rp.
  rewrite <- (app_nil_r (Q safe (esc_pct X))), (unq_Q_esc safe X [] Hs Hv). cbn [unq_bytes]. rewrite app_nil_r.
  rewrite (utf8_decode_replace_encode X Hv). apply dance_roundtrip. exact Hv.
Qed.

(* the quoted text ends with a slash only if the text does *)
Lemma Q_esc_last safe z : valid_cp z = true -> (z =? 47) = false ->
  exists A w, Q safe (esc_pct [z]) = A ++ [w] /\ (47 =? w) = false.
Proof.
  intros Hv Hz. destruct (z =? 37) eqn:E.
  - apply N.eqb_eq in E. subst z. change (esc_pct [37]) with ([37; 50] ++ [53]). rewrite Q_app, (Q_single_stays safe 53 eq_refl eq_refl).
    exists (Q safe [37; 50]), 53. split; reflexivity.
  - assert (He : esc_pct [z] = [z]) by (cbn [esc_pct flat_map]; rewrite E; reflexivity).
    rewrite He, Q_single.
    assert (Hne : enc1 z <> []) by (unfold enc1; destruct (z <? 128); [discriminate|]; destruct (z <? 2048); [discriminate|]; destruct (z <? 65536); discriminate).
    destruct (exists_last Hne) as [bs [b Hb]]. rewrite Hb. unfold quote_bytes. rewrite flat_map_app. cbn [flat_map]. rewrite app_nil_r.
    assert (Hin : In b (enc1 z)) by (rewrite Hb; apply in_or_app; right; left; reflexivity).
    pose proof (enc1_bytes z b Hv Hin) as Hb256.
    destruct (quote_byte_cases safe b) as [[-> Hst]|[-> _]].
    + exists (flat_map (quote_byte safe) bs), b. split; [reflexivity|].
      destruct (47 =? b) eqn:E47; [|reflexivity]. apply N.eqb_eq in E47. subst b.
      destruct (enc1_ascii z 47 Hin) as [_ Hc]; [lia|]. subst z. discriminate.
    + unfold pct. exists (flat_map (quote_byte safe) bs ++ [PCT; hex_digit (b / 16)]), (hex_digit (b mod 16)).
      split; [rewrite <- app_assoc; reflexivity|].
      destruct (hex_digit_facts (b mod 16)) as [Hh _]; [lia|].
      destruct (47 =? hex_digit (b mod 16)) eqn:E47; [|reflexivity]. apply N.eqb_eq in E47. rewrite <- E47 in Hh. discriminate.
Qed.

Lemma rstrip_Q_esc safe R : valid_text R = true -> no_trailing_slash R = true ->
  rstrip_char 47 (Q safe (esc_pct R)) = Q safe (esc_pct R).
Proof.
  intros Hv Hn. destruct (rev R) as [|z t] eqn:Er.
  - assert (R = []) by (rewrite <- (rev_involutive R), Er; reflexivity). subst R. reflexivity.
  - assert (HR : R = rev t ++ [z]) by (rewrite <- (rev_involutive R), Er; reflexivity).
    unfold no_trailing_slash, ends_with in Hn. rewrite Er in Hn. cbn [rev app starts_with] in Hn.
    rewrite andb_true_r in Hn. assert (Hz : (z =? 47) = false) by (rewrite N.eqb_sym; destruct (47 =? z); [discriminate|reflexivity]).
    assert (Hvz : valid_cp z = true).
    { unfold valid_text in Hv. rewrite HR, forallb_app in Hv. apply andb_prop in Hv. destruct Hv as [_ Hv]. cbn [forallb] in Hv.
      apply andb_prop in Hv. tauto. }
    destruct (Q_esc_last safe z Hvz Hz) as [A [w [HA Hw]]].
    rewrite HR, esc_pct_app, Q_app, HA, app_assoc. unfold rstrip_char. apply rstrip_last. exact Hw.
Qed.

(* ------------------------------------------------------------------ the query string of a mapping *)

Definition qstay (c : N) : bool := stays gcu_safe_query c.

Lemma pass_sweep :
  forallb (fun c => implb (in_ranges c C02.Gen.urlencode_pass) (qstay c)) (nat_range 128) = true.
Proof. vm_compute. reflexivity. Qed.
Lemma pass_bound : forallb (fun r => snd r <? 128) C02.Gen.urlencode_pass = true.
Proof. vm_compute. reflexivity. Qed.
Lemma q43 : qstay 43 = true. Proof. vm_compute. reflexivity. Qed.
Lemma q38 : qstay 38 = true. Proof. vm_compute. reflexivity. Qed.
Lemma q61 : qstay 61 = true. Proof. vm_compute. reflexivity. Qed.
Lemma q37 : qstay 37 = true. Proof. vm_compute. reflexivity. Qed.

Lemma pass_stays c : in_ranges c C02.Gen.urlencode_pass = true -> qstay c = true.
Proof.
  intro H. pose proof (in_ranges_bound _ 128 c pass_bound H) as Hb.
  pose proof (sweep128 _ pass_sweep c Hb) as Hc. cbv beta in Hc. rewrite H in Hc. exact Hc.
Qed.

Lemma hexchar_stays n : n < 16 -> qstay (C02.Model.hexchar n) = true.
Proof.
  intro H. change (C02.Model.hexchar n) with (hex_digit n). destruct (hex_digit_facts n H) as [_ [Ha _]].
  unfold qstay, stays. rewrite Ha. reflexivity.
Qed.

Lemma qp_byte_stays b : b < 256 -> forallb qstay (C02.Model.qp_byte b) = true.
Proof.
  intro H. unfold C02.Model.qp_byte. destruct (b =? C02.Model.SPC).
  - cbn [forallb]. change C02.Model.PLUS with 43. rewrite q43. reflexivity.
  - destruct (in_ranges b C02.Gen.urlencode_pass) eqn:E.
    + cbn [forallb]. rewrite (pass_stays b E). reflexivity.
    + unfold C02.Model.pct_escape. cbn [forallb]. change C02.Model.PCT with 37.
      rewrite q37, (hexchar_stays (b / 16)), (hexchar_stays (b mod 16)) by lia. reflexivity.
Qed.

Lemma quote_plus_stays s : valid_text s = true -> forallb qstay (C02.Model.quote_plus s) = true.
Proof.
  intro Hv. unfold C02.Model.quote_plus. pose proof (utf8_encode_bytes_forall s Hv) as Hb.
  induction Hb as [|b bs Hb _ IH]; [reflexivity|]. cbn [flat_map]. rewrite forallb_app, (qp_byte_stays b Hb), IH. reflexivity.
Qed.

Lemma urlencode_stays items : forallb C02.Proofs.valid_pair items = true ->
  forallb qstay (C02.Model.urlencode items) = true.
Proof.
  unfold C02.Model.urlencode. induction items as [|kv items IH]; cbn [forallb]; intro Hv; [reflexivity|].
  apply andb_prop in Hv. destruct Hv as [Hkv Hv]. unfold C02.Proofs.valid_pair in Hkv. apply andb_prop in Hkv. destruct Hkv as [Hk Hw].
  cbn [map C02.Model.join_amp].
  assert (Hone : forallb qstay (C02.Model.quote_plus (fst kv) ++ C02.Model.EQS :: C02.Model.quote_plus (snd kv)) = true).
  { rewrite forallb_app. cbn [forallb]. change C02.Model.EQS with 61.
    rewrite (quote_plus_stays _ Hk), (quote_plus_stays _ Hw), q61. reflexivity. }
  destruct (map _ items) as [|x r] eqn:Em; [exact Hone|].
  rewrite forallb_app, Hone. cbn [forallb andb]. change C02.Model.AMP with 38. rewrite q38. cbn [andb]. apply IH. exact Hv.
Qed.

(* get_current_url leaves the query string of a mapping as it is *)
Lemma urlencode_fixed items : forallb C02.Proofs.valid_pair items = true ->
  quote_bytes gcu_safe_query (C02.Model.urlencode items) = C02.Model.urlencode items.
Proof. intro H. apply quote_bytes_fixed. exact (urlencode_stays items H). Qed.

(* ------------------------------------------------------------------ the round trip *)

Lemma i2u_path_pct : stays (i2u_safe CPath) 37 = true.
Proof. vm_compute. reflexivity. Qed.

Lemma ascii_dance q : forallb ascii q = true ->
  wsgi_encoding_dance q = q /\ latin1_encode q = Some q /\ utf8_decode q = Some q.
Proof.
  intro H. unfold wsgi_encoding_dance, latin1_decode. rewrite (utf8_encode_ascii q H).
  split; [reflexivity|]. split.
  - unfold latin1_encode. replace (forallb (fun c => c <? 256) q) with true; [reflexivity|]. symmetry.
    eapply forallb_impl; [|exact H]. intros c Hc. unfold ascii in Hc. lia.
  - rewrite <- (utf8_encode_ascii q H) at 1. apply utf8_decode_encode. apply ascii_valid_text. exact H.
Qed.

Theorem builder_request scheme netloc R P items :
  valid_text R = true -> valid_text P = true -> no_trailing_slash R = true ->
  forallb C02.Proofs.valid_pair items = true ->
  exists e, builder_environ scheme netloc (esc_pct R) (esc_pct P) items = Some e
    /\ request_path e = Some P
    /\ request_root e = Some R
    /\ request_args e = Some items
    /\ request_host e = strip_default_port scheme netloc
    /\ request_uri e = current_uri scheme (strip_default_port scheme netloc) (Some R) (Some P)
                                   (Some (C02.Model.urlencode items)).
Proof.
  intros HR HP Hn Hi. unfold builder_environ, i2u, quote.
  rewrite (valid_text_esc P HP), (valid_text_esc R HR).
  fold (Q (i2u_safe CPath) (esc_pct P)) (Q (i2u_safe CPath) (esc_pct R)).
  rewrite (rstrip_Q_esc _ R HR Hn).
  eexists. split; [reflexivity|].
  pose proof (path_encode_roundtrip (i2u_safe CPath) P i2u_path_pct HP) as EP.
  pose proof (path_encode_roundtrip (i2u_safe CPath) R i2u_path_pct HR) as ER.
  assert (Hq : forallb ascii (C02.Model.urlencode items) = true) by (apply C02.Proofs.urlencode_ascii; exact Hi).
  destruct (ascii_dance _ Hq) as [Hd [Hl Hu]].
  unfold request_path, request_root, request_args, request_host, request_uri. cbn [e_path e_script e_query e_host e_scheme].
  split; [exact EP|]. split; [exact ER|]. rewrite Hd, Hl.
  split; [cbn [option_map]; rewrite Hu; cbn [option_map]; f_equal; apply C02.Proofs.urlencoded_roundtrip; exact Hi|].
  split; [reflexivity|].
  unfold wsgi_current_uri, wsgi_url_takes_root, wsgi_url_takes_path, wsgi_url_takes_query. cbn [negb andb].
  rewrite EP, ER, Hl. reflexivity.
Qed.

(* ... and the reconstructed URL: it splits into the scheme, the host without its default port, the
   quoted root / path and the urlencoded pairs, from which C02's parse_qsl gives the pairs back *)
Theorem builder_request_url scheme netloc R P items :
  valid_text R = true -> valid_text P = true -> no_trailing_slash R = true ->
  forallb C02.Proofs.valid_pair items = true ->
  mem 58 scheme = false -> forallb not_delim (strip_default_port scheme netloc) = true ->
  bounded R = true ->
  exists e u qr qp,
    builder_environ scheme netloc (esc_pct R) (esc_pct P) items = Some e
    /\ request_uri e = Some u
    /\ quote gcu_safe_root R = Some qr /\ quote gcu_safe_path (lstrip_char 47 P) = Some qp
    /\ split_uri u = Some (scheme, strip_default_port scheme netloc, qr ++ 47 :: qp,
                           match C02.Model.urlencode items with [] => None | q => Some q end)
    /\ C02.Model.parse_qsl (C02.Model.urlencode items) = items
    /\ (mem PCT R = false -> mem PCT P = false ->
        utf8_decode (unq_bytes (qr ++ 47 :: qp)) = Some (R ++ 47 :: lstrip_char 47 P)).
Proof.
  intros HR HP Hn Hi Hs Hh Hb.
  destruct (builder_request scheme netloc R P items HR HP Hn Hi) as [e [He [_ [_ [_ [_ Hu]]]]]].
  assert (Hrs : rstrip_char 47 R = R).
  { unfold no_trailing_slash, ends_with in Hn. unfold rstrip_char.
    destruct (rev R) as [|z t] eqn:Er.
    - assert (R = []) by (rewrite <- (rev_involutive R), Er; reflexivity). subst R. reflexivity.
    - assert (HR' : R = rev t ++ [z]) by (rewrite <- (rev_involutive R), Er; reflexivity).
      cbn [rev app starts_with] in Hn. rewrite andb_true_r in Hn. rewrite HR'. apply rstrip_last.
      destruct (47 =? z); [discriminate|reflexivity]. }
  assert (HvL : valid_text (lstrip_char 47 P) = true).
  { unfold lstrip_char, valid_text in *. clear -HP. induction P as [|c P IH]; [reflexivity|].
    cbn [forallb] in HP. apply andb_prop in HP. destruct HP as [Hc HP]. cbn [drop_while].
    destruct (47 =? c); [apply IH; exact HP|]. cbn [forallb]. rewrite Hc. exact HP. }
  destruct (quote_defined gcu_safe_root R HR) as [qr Hqr]. destruct (quote_defined gcu_safe_path _ HvL) as [qp Hqp].
  assert (Hq256 : Forall (fun b => b < 256) (C02.Model.urlencode items)).
  { pose proof (C02.Proofs.urlencode_ascii items Hi) as Ha. apply Forall_forall. intros b Hb'.
    rewrite forallb_forall in Ha. specialize (Ha b Hb'). lia. }
  destruct (current_uri_resplit scheme (strip_default_port scheme netloc) R P (Some (C02.Model.urlencode items)) qr qp
              Hs Hh ltac:(rewrite Hrs; exact Hb) ltac:(rewrite Hrs; exact Hqr) Hqp Hq256) as [u [Hcu Hsp]].
  exists e, u, qr, qp. split; [exact He|]. split; [rewrite Hu; exact Hcu|]. split; [exact Hqr|]. split; [exact Hqp|].
  split.
  - rewrite Hsp. unfold query_part. destruct (C02.Model.urlencode items) as [|c r] eqn:Eq; [reflexivity|].
    rewrite <- Eq, (urlencode_fixed items Hi). reflexivity.
  - split; [apply C02.Proofs.urlencoded_roundtrip; exact Hi|].
    intros H1 H2. apply current_url_path_meaning; try assumption.
    unfold lstrip_char. clear -H2. unfold mem in *. induction P as [|c P IH]; [reflexivity|].
    cbn [existsb] in H2. apply orb_false_elim in H2. destruct H2 as [Hc H2]. cbn [drop_while].
    destruct (47 =? c); [apply IH; exact H2|]. cbn [existsb]. rewrite Hc. exact H2.
Qed.

(* rebuilding an environ string that came from the encoding dance gives it back *)
Lemma from_environ_identity x : valid_text x = true ->
  from_environ_string (wsgi_encoding_dance x) = Some (wsgi_encoding_dance x).
Proof. intro H. unfold from_environ_string. rewrite (dance_roundtrip x H). reflexivity. Qed.

(* ... and in general the rebuilt string is read by the request as the original is *)
Lemma from_environ_same_reading s s' : from_environ_string s = Some s' ->
  wsgi_decoding_dance_replace s' = wsgi_decoding_dance_replace s.
Proof.
  unfold from_environ_string. destruct (wsgi_decoding_dance_replace s) as [t|] eqn:E; [|discriminate].
  cbn [option_map]. intro H. inversion H; subst s'. clear H.
  unfold wsgi_decoding_dance_replace in E. destruct (latin1_encode s) as [b|] eqn:El; [|discriminate].
  cbn [option_map] in E. inversion E; subst t. clear E.
  assert (Hv : valid_text (utf8_decode_replace b) = true).
  { clear. unfold valid_text. revert b.
    assert (G : forall n bs, (length bs <= n)%nat -> forallb valid_cp (utf8_decode_replace bs) = true).
    { induction n as [|n IH]; intros bs Hl; [destruct bs; [reflexivity|cbn [length] in Hl; lia]|].
      destruct bs as [|b0 r0]; [reflexivity|]. cbn [length] in Hl.
      assert (R : valid_cp REPL = true) by reflexivity.
      cbn [utf8_decode_replace].
      repeat match goal with
             | |- context [if ?c then _ else _] => destruct c eqn:?
             | |- context [match ?l with [] => _ | _ :: _ => _ end] => is_var l; destruct l
             | |- forallb valid_cp (_ :: _) = true => cbn [forallb]; apply andb_true_intro; split
             | |- forallb valid_cp [] = true => reflexivity
             | |- forallb valid_cp (utf8_decode_replace _) = true => apply IH; cbn [length] in *; lia
             | |- valid_cp REPL = true => exact R
             end;
      unfold valid_cp, second_ok, is_cont in *;
      repeat match goal with H : context [if ?c then _ else _] |- _ => destruct c eqn:? end; lia. }
    intro b. apply (G (length b) b (le_n _)). }
  rewrite (dance_roundtrip _ Hv). reflexivity.
Qed.
