(* C15: the types of the dispatcher model (hand-written; the loop itself is generated into
   C15/GenDispatch.v from DispatcherMiddleware.__call__).  Definitions only. *)
From Wz Require Import lib.Bytes.
Open Scope N_scope.

Fixpoint lookup (k : str) (m : list (str * N)) : option N :=
  match m with
  | [] => None
  | (k', v) :: r => if list_eqb k k' then Some v else lookup k r
  end.

Inductive dres :=
| DOk (app : N) (script path_info : str)
| DOutOfFuel          (* the model's loop bound was too small (proved unreachable) *)
| DUnpackError.       (* rsplit returned one field (proved unreachable) *)

