(* Percent-encoding as urllib.parse does it, over lists of N.  Definitions only.
   Hand-written from CPython 3.12 urllib/parse.py (quote, quote_from_bytes, _Quoter, unquote,
   _unquote_impl, _generate_unquoted_parts) and from the UTF-8 decoder's error ranges (the
   maximal invalid subpart, as lib/Utf8.utf8_decode_replace); validated differentially
   against the running interpreter by tools/c15.py on every run. *)
From Wz Require Import lib.Bytes lib.Utf8.
Open Scope N_scope.

Definition PCT : N := 37.

(* '%{:02X}'.format(b) *)
Definition hex_digit (n : N) : N := if n <? 10 then 48 + n else 55 + n.
Definition pct (b : N) : list N := [PCT; hex_digit (b / 16); hex_digit (b mod 16)].

(* urllib.parse._ALWAYS_SAFE: letters, digits, and _ . - ~ *)
Definition always_safe (c : N) : bool :=
  is_alpha c || is_digit c || (c =? 95) || (c =? 46) || (c =? 45) || (c =? 126).

(* quote_from_bytes: safe is normalised by dropping non-ASCII characters *)
Definition norm_safe (safe : list N) : list N := filter (fun c => c <? 128) safe.
Definition quote_byte (safe : list N) (b : N) : list N :=
  if always_safe b || mem b (norm_safe safe) then [b] else pct b.
Definition quote_bytes (safe : list N) (bs : bytes) : str := flat_map (quote_byte safe) bs.

(* quote(str, safe): None models the UnicodeEncodeError of str.encode on a lone surrogate *)
Definition quote (safe : list N) (s : str) : option str :=
  if valid_text s then Some (quote_bytes safe (utf8_encode s)) else None.

(* _unquote_impl on an ASCII run: %hh with two hex digits becomes a byte, any other
   percent sign stays *)
Fixpoint unq_bytes (s : list N) : bytes :=
  match s with
  | [] => []
  | c :: r =>
      if c =? PCT then
        match r with
        | h1 :: r1 =>
            match r1 with
            | h2 :: r2 =>
                if is_hex h1 && is_hex h2 then (hex_val h1 * 16 + hex_val h2) :: unq_bytes r2
                else c :: unq_bytes r
            | [] => c :: unq_bytes r
            end
        | [] => c :: unq_bytes r
        end
      else c :: unq_bytes r
  end.

(* bytes.decode("utf-8", "werkzeug.url_quote"): every maximal invalid subpart is replaced by
   quote(those bytes, safe="") and decoding resumes after it *)
Fixpoint utf8_decode_requote (b : bytes) : str :=
  match b with
  | [] => []
  | b0 :: r0 =>
    if b0 <? 128 then b0 :: utf8_decode_requote r0
    else if b0 <? 194 then pct b0 ++ utf8_decode_requote r0
    else if b0 <? 224 then
      match r0 with
      | b1 :: r1 =>
        if is_cont b1 then ((b0 - 192) * 64 + (b1 - 128)) :: utf8_decode_requote r1
        else pct b0 ++ utf8_decode_requote r0
      | [] => pct b0
      end
    else if b0 <? 240 then
      match r0 with
      | b1 :: r1 =>
        if second_ok b0 b1 then
          match r1 with
          | b2 :: r2 =>
            if is_cont b2
            then ((b0 - 224) * 4096 + (b1 - 128) * 64 + (b2 - 128)) :: utf8_decode_requote r2
            else pct b0 ++ pct b1 ++ utf8_decode_requote r1
          | [] => pct b0 ++ pct b1
          end
        else pct b0 ++ utf8_decode_requote r0
      | [] => pct b0
      end
    else if b0 <? 245 then
      match r0 with
      | b1 :: r1 =>
        if second_ok b0 b1 then
          match r1 with
          | b2 :: r2 =>
            if is_cont b2 then
              match r2 with
              | b3 :: r3 =>
                if is_cont b3
                then ((b0 - 240) * 262144 + (b1 - 128) * 4096 + (b2 - 128) * 64 + (b3 - 128))
                       :: utf8_decode_requote r3
                else pct b0 ++ pct b1 ++ pct b2 ++ utf8_decode_requote r2
              | [] => pct b0 ++ pct b1 ++ pct b2
              end
            else pct b0 ++ pct b1 ++ utf8_decode_requote r1
          | [] => pct b0 ++ pct b1
          end
        else pct b0 ++ utf8_decode_requote r0
      | [] => pct b0
      end
    else pct b0 ++ utf8_decode_requote r0
  end.

(* one maximal ASCII run of unquote(string, "utf-8", "werkzeug.url_quote") *)
Definition unquote_run (run : list N) : str := utf8_decode_requote (unq_bytes run).

(* unquote(string, "utf-8", "werkzeug.url_quote"): maximal ASCII runs are unquoted and
   decoded, everything else is copied.  run holds the current ASCII run, last character first *)
Fixpoint unquote_rq_aux (s : str) (run : list N) : str :=
  match s with
  | [] => unquote_run (rev run)
  | c :: r => if c <? 128 then unquote_rq_aux r (c :: run)
              else unquote_run (rev run) ++ c :: unquote_rq_aux r []
  end.
Definition unquote_rq (s : str) : str := unquote_rq_aux s [].

(* str.rstrip(ch) / str.lstrip(ch) for one character *)
Definition lstrip_char (x : N) (s : str) : str := drop_while (N.eqb x) s.
Definition rstrip_char (x : N) (s : str) : str := rstrip (N.eqb x) s.

(* str.rsplit(x, 1) when x occurs: (before the last x, after it); None when x does not occur *)
Fixpoint rsplit1 (x : N) (s : list N) : option (list N * list N) :=
  match s with
  | [] => None
  | c :: r =>
      match rsplit1 x r with
      | Some (a, b) => Some (c :: a, b)
      | None => if c =? x then Some ([], r) else None
      end
  end.
