(* C15: EnvironBuilder.__init__ / get_environ (the parts that carry the URL) and what
   wrappers.Request reads back.  Definitions only.  urlsplit (of the path argument and of
   iri_to_uri(base_url)) and IDNA are outside: the builder model starts from the path component,
   and from the scheme, netloc and path of the already converted base URL.  The query string of a
   mapping is C02's urlencode (werkzeug.urls._urlencode), parsed back with C02's parse_qsl. *)
From Wz Require C02.Gen C02.Model.
From Wz Require Import lib.Bytes lib.Utf8 C15.LibPercent C15.Gen C15.Model.
Open Scope N_scope.

(* urllib.parse.unquote(x) with its default errors="replace", as _path_encode calls it *)
Definition unquote_run_rp (run : list N) : str := utf8_decode_replace (unq_bytes run).
Fixpoint unquote_rp_aux (s : str) (run : list N) : str :=
  match s with
  | [] => unquote_run_rp (rev run)
  | c :: r => if c <? 128 then unquote_rp_aux r (c :: run)
              else unquote_run_rp (rev run) ++ c :: unquote_rp_aux r []
  end.
Definition unquote_rp (s : str) : str := unquote_rp_aux s [].

(* the environ entries that carry the URL *)
Record benv := { e_scheme : str; e_host : str; e_script : str; e_path : str; e_query : str }.

(* _path_encode *)
Definition path_encode (x : str) : str := wsgi_encoding_dance (unquote_rp x).

(* path: the path component of the `path` argument; base_path: the path component of
   iri_to_uri(base_url) is i2u CPath of the given one; items: the query mapping.
   None models UnicodeEncodeError (a lone surrogate) *)
Definition builder_environ (scheme netloc base_path path : str) (items : list (str * str)) : option benv :=
  match i2u CPath path, i2u CPath base_path with
  | Some self_path, Some bp =>
      let script_root := rstrip_char 47 bp in
      Some {| e_scheme := scheme; e_host := netloc;
              e_script := path_encode script_root;
              e_path := path_encode self_path;
              e_query := wsgi_encoding_dance (C02.Model.urlencode items) |}
  | _, _ => None
  end.

(* wrappers.Request *)
Definition request_path (e : benv) : option str := wsgi_decoding_dance_replace (e_path e).
Definition request_root (e : benv) : option str := wsgi_decoding_dance_replace (e_script e).
Definition request_host (e : benv) : str := get_host (e_scheme e) (Some (e_host e)) None.
(* Request.args: parse_qsl(query_string.decode(), ...); None models a UnicodeError *)
Definition request_args (e : benv) : option (list (str * str)) :=
  match latin1_encode (e_query e) with
  | Some b => option_map C02.Model.parse_qsl (utf8_decode b)
  | None => None
  end.
(* the URI behind Request.url (before uri_to_iri) *)
Definition request_uri (e : benv) : option str :=
  wsgi_current_uri false false false (e_scheme e) (Some (e_host e)) None (e_script e) (e_path e) (e_query e).

(* how a caller writes a literal percent sign into a URL path *)
Definition esc_pct (s : str) : str := flat_map (fun c => if c =? 37 then [37; 50; 53] else [c]) s.
Definition no_trailing_slash (s : str) : bool := negb (ends_with [47] s).

(* EnvironBuilder.from_environ: PATH_INFO, SCRIPT_NAME and QUERY_STRING are decoded with the WSGI
   dance and handed to the constructor, which encodes them again; None models a string outside latin-1 *)
Definition from_environ_string (s : str) : option str :=
  option_map wsgi_encoding_dance (wsgi_decoding_dance_replace s).
