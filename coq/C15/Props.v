(* C15 property theorems.  Nothing but statements, each closed by `exact <lemma>.`, with
   Print Assumptions beneath.  Definitions: C15/Model.v, C15/LibPercent.v (urllib quote and
   unquote), lib/Utf8.v (codecs, the dance), C15/Gen.v (regenerated: i2u_safe_*, u2i_keep_*,
   gcu_safe_*, dispatch_sep). *)
From Wz Require Import lib.Bytes lib.Utf8 C15.LibPercent C15.Gen C15.Model C15.Proofs C15.Fixpoint C15.BuilderModel C15.Builder.
From Wz Require C02.Model C02.Proofs.
Open Scope N_scope.

(* DispatcherMiddleware, for every mount table, default application and request path: the
   loop ends normally (neither the fuel bound nor the unpacking error is reachable);
   script ++ path_info is the original PATH_INFO; path_info is empty or starts at a slash;
   the application is the mount registered under script, or the default one when script is
   not a mount; no longer slash-bounded prefix of the path is a mount; and the default
   application is chosen only when no slash-bounded prefix at all is a mount. *)
Theorem C15_dispatch : forall mounts default path,
  exists app script rest,
    dispatch mounts default path = DOk app script rest
    /\ script ++ rest = path /\ bounded rest = true
    /\ app = chosen mounts default script
    /\ (forall s' r', s' ++ r' = path -> bounded r' = true -> (length script < length s')%nat ->
                      lookup s' mounts = None)
    /\ (lookup script mounts = None ->
        forall s' r', s' ++ r' = path -> bounded r' = true -> lookup s' mounts = None).
Proof. exact dispatch_correct. Qed.
Print Assumptions C15_dispatch.

Theorem C15_dispatch_example :
  dispatch [([47; 97], 1); ([47; 97; 47; 98], 2)] 0 [47; 97; 47; 98; 47; 99] = DOk 2 [47; 97; 47; 98] [47; 99].
Proof. exact dispatch_example. Qed.
Print Assumptions C15_dispatch_example.

(* the latin-1 dance is lossless on every string of Unicode scalar values:
   decode(dance^-1(dance(encode s))) = s, with errors=replace never triggered *)
Theorem C15_dance : forall s, valid_text s = true ->
  wsgi_decoding_dance_replace (wsgi_encoding_dance s) = Some s.
Proof. exact dance_roundtrip. Qed.
Print Assumptions C15_dance.

(* quote, for every safe string: defined on every string of scalar values, output pure ASCII *)
Theorem C15_uri_ascii : forall safe s,
  (valid_text s = true -> exists q, quote safe s = Some q)
  /\ (forall q, quote safe s = Some q -> forallb ascii q = true).
Proof. exact quote_total_ascii. Qed.
Print Assumptions C15_uri_ascii.

(* quoting again changes nothing as soon as the percent sign is safe ... *)
Theorem C15_i2u_idempotent : forall safe s q, mem PCT safe = true ->
  quote safe s = Some q -> quote safe q = Some q.
Proof. exact quote_idempotent. Qed.
Print Assumptions C15_i2u_idempotent.

(* ... which it is in each of the five safe strings of iri_to_uri and the three of
   get_current_url in the current source; hence per component *)
Theorem C15_safe_strings_have_percent :
  mem PCT i2u_safe_path && mem PCT i2u_safe_query && mem PCT i2u_safe_fragment
  && mem PCT i2u_safe_username && mem PCT i2u_safe_password
  && mem PCT gcu_safe_root && mem PCT gcu_safe_path && mem PCT gcu_safe_query = true.
Proof. exact safe_sets_have_pct. Qed.
Print Assumptions C15_safe_strings_have_percent.

Theorem C15_i2u_component : forall c s q, i2u c s = Some q ->
  forallb ascii q = true /\ i2u c q = Some q.
Proof. exact i2u_component. Qed.
Print Assumptions C15_i2u_component.

Theorem C15_i2u_example :
  i2u CPath [47; 233; 32; 37; 52; 49] = Some [47; 37; 67; 51; 37; 65; 57; 37; 50; 48; 37; 52; 49].
Proof. exact i2u_example. Qed.
Print Assumptions C15_i2u_example.

(* uri_to_iri per component.  The full claim -- forall c s, u2i c (u2i c s) = u2i c s -- is
   FALSE on the faithful model: percent 4 percent 4 1 gives percent 4 A and then J *)
Theorem C15_u2i_fixpoint_refuted :
  exists s, u2i CPath s = [37; 52; 65] /\ u2i CPath (u2i CPath s) = [74]
            /\ u2i CPath (u2i CPath s) <> u2i CPath s.
Proof. exact u2i_fixpoint_refuted. Qed.
Print Assumptions C15_u2i_fixpoint_refuted.

(* PARTIAL, guard = no stray percent sign: on every text in which each percent sign starts an
   escape (wf_pct: two hex digits follow), uri_to_iri is a fixpoint after one step -- whatever the
   escapes decode to (valid UTF-8, truncated or overlong sequences, lone continuation bytes,
   reserved characters in either hex case) and whatever raw characters surround them.
   The refuting class (a stray percent sign followed by text that unquotes to hex digits) is
   inside the excluded class; inputs like 100 percent are excluded although they are fixpoints. *)
Theorem C15_u2i_fixpoint_partial : forall c s, wf_pct s = true -> u2i c (u2i c s) = u2i c s.
Proof. exact u2i_fixpoint_wf. Qed.
Print Assumptions C15_u2i_fixpoint_partial.

(* the guard is necessary: the refuting input violates it *)
Theorem C15_u2i_fixpoint_guard_needed :
  exists s, wf_pct s = false /\ u2i CPath (u2i CPath s) <> u2i CPath s.
Proof. exact u2i_fixpoint_guard_needed. Qed.
Print Assumptions C15_u2i_fixpoint_guard_needed.

(* PARTIAL (same guard): iri_to_uri is undone by uri_to_iri up to normalisation, also for text
   that already contains escapes -- uri_to_iri (iri_to_uri s) is uri_to_iri s, except that a
   character which iri_to_uri quotes and uri_to_iri keeps quoted for this component (controls,
   space, DEL and the reserved characters of the component that are not in the safe string)
   appears as its escape *)
Theorem C15_i2u_u2i_partial : forall c s, valid_text s = true -> wf_pct s = true ->
  exists q, i2u c s = Some q /\ u2i c q = iri_normal c (u2i c s).
Proof. exact u2i_of_i2u_wf. Qed.
Print Assumptions C15_i2u_u2i_partial.

(* for text without any percent sign uri_to_iri s is s itself, and the normal form is a fixpoint *)
Theorem C15_i2u_u2i_plain_text : forall c s, valid_text s = true -> mem PCT s = false ->
  (exists q, i2u c s = Some q /\ u2i c q = iri_normal c s)
  /\ u2i c (iri_normal c s) = iri_normal c s.
Proof. exact i2u_u2i_partial. Qed.
Print Assumptions C15_i2u_u2i_plain_text.

(* what unquote with the re-quoting handler computes: percent-decode to bytes (escapes become
   bytes, everything else its UTF-8), then decode with the handler -- the ASCII-run splitting of
   urllib is invisible *)
Theorem C15_unquote_is_decode : forall x, valid_text x = true ->
  unquote_rq x = utf8_decode_requote (tbytes x).
Proof. exact unquote_rq_tbytes. Qed.
Print Assumptions C15_unquote_is_decode.

(* component-specific reserved characters stay quoted: every escape of a code point in the
   component's table (either hex case, alone or between two letters) is left as it is *)
Theorem C15_u2i_reserved_stay_quoted : forall c b, mem b (u2i_keep c) = true ->
  u2i c (120 :: pct b ++ [121]) = 120 :: pct b ++ [121]
  /\ u2i c (120 :: pct_lower b ++ [121]) = 120 :: pct_lower b ++ [121]
  /\ u2i c (pct b) = pct b.
Proof. exact u2i_reserved_stay_quoted. Qed.
Print Assumptions C15_u2i_reserved_stay_quoted.

(* invalid escapes are left quoted rather than reinterpreted: a lone escaped byte 128..255 is
   never valid UTF-8 and comes back as its upper-case escape *)
Theorem C15_u2i_invalid_stay_quoted : forall c b, 128 <= b -> b < 256 ->
  u2i c (pct b) = pct b /\ u2i c (120 :: pct_lower b ++ [121]) = 120 :: pct b ++ [121].
Proof. exact u2i_invalid_stay_quoted. Qed.
Print Assumptions C15_u2i_invalid_stay_quoted.

Theorem C15_u2i_example :
  u2i CPath [47; 37; 67; 51; 37; 65; 57; 37; 50; 48; 37; 50; 70; 37; 52; 49] = [47; 233; 37; 50; 48; 37; 50; 70; 65].
Proof. exact u2i_example. Qed.
Print Assumptions C15_u2i_example.

(* get_host removes nothing but the default port of the scheme: the result is the host itself,
   or the host is the result followed by exactly colon 8 0 (scheme http or ws) or colon 4 4 3
   (scheme https or wss); the rules are those regenerated from the source *)
Theorem C15_get_host_port : forall scheme host,
  let r := strip_default_port scheme host in
  r = host
  \/ (host = r ++ P80 /\ (scheme = HTTP \/ scheme = WS))
  \/ (host = r ++ P443 /\ (scheme = HTTPS \/ scheme = WSS)).
Proof. exact strip_default_port_sound. Qed.
Print Assumptions C15_get_host_port.

(* ... and it does remove it, whatever the host in front of it ends with *)
Theorem C15_get_host_port_removed : forall h,
  strip_default_port HTTP (h ++ P80) = h /\ strip_default_port WS (h ++ P80) = h
  /\ strip_default_port HTTPS (h ++ P443) = h /\ strip_default_port WSS (h ++ P443) = h.
Proof. exact strip_default_port_complete. Qed.
Print Assumptions C15_get_host_port_removed.

Theorem C15_get_host_example :
  get_host HTTP (Some [49; 48; 46; 48; 46; 48; 46; 56; 48; 58; 56; 48]) None = [49; 48; 46; 48; 46; 48; 46; 56; 48]
  /\ get_host HTTPS None (Some ([50; 48; 48; 49; 58; 58; 56], Some [52; 52; 51])) = [91; 50; 48; 48; 49; 58; 58; 56; 93].
Proof. exact get_host_example. Qed.
Print Assumptions C15_get_host_example.

(* get_current_url re-splits into what it was built from (the EnvironBuilder -> Request.url
   clause on the modelled URL subset): for a scheme without a colon, a host without slash,
   question mark or hash, a root path that is empty or starts with a slash, any path and any
   query bytes, the URI handed to uri_to_iri splits (split_uri: urlsplit on this subset) into
   the same scheme and host, the path quote(root.rstrip) / quote(path.lstrip), and the quoted
   query (absent when the query string is empty or not given) *)
Theorem C15_current_url_resplit : forall scheme host root path qs qr qp,
  mem 58 scheme = false -> forallb not_delim host = true ->
  bounded (rstrip_char 47 root) = true ->
  quote gcu_safe_root (rstrip_char 47 root) = Some qr ->
  quote gcu_safe_path (lstrip_char 47 path) = Some qp ->
  match qs with Some q => Forall (fun b => b < 256) q | None => True end ->
  exists u, current_uri scheme host (Some root) (Some path) qs = Some u
            /\ split_uri u = Some (scheme, host, qr ++ 47 :: qp, query_part qs).
Proof. exact current_uri_resplit. Qed.
Print Assumptions C15_current_url_resplit.

(* PARTIAL (guard: no percent sign in root and path): percent-decoding the re-split path gives
   root / path back exactly *)
Theorem C15_current_url_path_partial : forall root path qr qp,
  mem PCT root = false -> mem PCT path = false ->
  quote gcu_safe_root root = Some qr -> quote gcu_safe_path path = Some qp ->
  utf8_decode (unq_bytes (qr ++ 47 :: qp)) = Some (root ++ 47 :: path).
Proof. exact current_url_path_meaning. Qed.
Print Assumptions C15_current_url_path_partial.

(* the guard is necessary: the percent sign is safe in get_current_url, so the decoded path
   a percent 4 1 is rebuilt as a URL whose path decodes to a A (known finding
   request-url-literal-percent-escape) *)
Theorem C15_current_url_path_refuted :
  exists path qp, quote gcu_safe_path path = Some qp
    /\ utf8_decode (unq_bytes (47 :: qp)) = Some [47; 97; 65]
    /\ [47; 97; 65] <> 47 :: path.
Proof. exact current_url_path_refuted. Qed.
Print Assumptions C15_current_url_path_refuted.

(* wsgi.get_current_url: host_only stops after the host, root_only after the root path,
   strip_querystring before the query (conditions regenerated from the nested ifs) *)
Theorem C15_wsgi_url_flags : forall scheme hh server script path_info qs,
  wsgi_current_uri false false true scheme hh server script path_info qs
    = Some ((scheme ++ [58; 47; 47] ++ get_host scheme hh server) ++ [47])
  /\ (forall r, wsgi_decoding_dance_replace script = Some r ->
        wsgi_current_uri true false false scheme hh server script path_info qs
        = current_uri scheme (get_host scheme hh server) (Some r) None None)
  /\ (forall r p, wsgi_decoding_dance_replace script = Some r -> wsgi_decoding_dance_replace path_info = Some p ->
        wsgi_current_uri false true false scheme hh server script path_info qs
        = current_uri scheme (get_host scheme hh server) (Some r) (Some p) None).
Proof. exact wsgi_url_flags. Qed.
Print Assumptions C15_wsgi_url_flags.

Theorem C15_current_url_example :
  current_uri [104; 116; 116; 112] [104] (Some [47; 114; 47]) (Some [47; 233; 32]) (Some [97; 61; 35])
  = Some [104; 116; 116; 112; 58; 47; 47; 104; 47; 114; 47; 37; 67; 51; 37; 65; 57; 37; 50; 48; 63; 97; 61; 37; 50; 51]
  /\ split_uri [104; 116; 116; 112; 58; 47; 47; 104; 47; 114; 47; 37; 67; 51; 37; 65; 57; 37; 50; 48; 63; 97; 61; 37; 50; 51]
     = Some ([104; 116; 116; 112], [104], [47; 114; 47; 37; 67; 51; 37; 65; 57; 37; 50; 48], Some [97; 61; 37; 50; 51]).
Proof. exact current_url_example. Qed.
Print Assumptions C15_current_url_example.

(* EnvironBuilder -> Request, composed: for every Unicode script root R (not ending in a slash),
   path P and list of query pairs -- the caller writes a literal percent sign of R and P as
   percent 2 5 (esc_pct), everything else raw -- the environ that EnvironBuilder builds
   (iri_to_uri, rstrip of the base path, _path_encode = dance of unquote, urlencode of the pairs)
   is read back by Request as exactly that path, root path and list of pairs (C02's parse_qsl of
   C02's urlencode: C02_urlencoded_roundtrip), the host without the scheme's default port, and the
   URL is rebuilt from exactly (scheme, host, R, P, urlencode pairs) *)
Theorem C15_builder_request : forall scheme netloc R P items,
  valid_text R = true -> valid_text P = true -> no_trailing_slash R = true ->
  forallb C02.Proofs.valid_pair items = true ->
  exists e, builder_environ scheme netloc (esc_pct R) (esc_pct P) items = Some e
    /\ request_path e = Some P
    /\ request_root e = Some R
    /\ request_args e = Some items
    /\ request_host e = strip_default_port scheme netloc
    /\ request_uri e = current_uri scheme (strip_default_port scheme netloc) (Some R) (Some P)
                                   (Some (C02.Model.urlencode items)).
Proof. exact builder_request. Qed.
Print Assumptions C15_builder_request.

(* ... and the reconstructed URL (before the final uri_to_iri) splits into the scheme, that host,
   the quoted root / path, and the urlencoded pairs unchanged (get_current_url's quote leaves
   them alone), from which the pairs come back.  PARTIAL in its last clause: the path decodes to
   R / P when neither holds a percent sign (C15_current_url_path_refuted otherwise) *)
Theorem C15_builder_request_url_partial : forall scheme netloc R P items,
  valid_text R = true -> valid_text P = true -> no_trailing_slash R = true ->
  forallb C02.Proofs.valid_pair items = true ->
  mem 58 scheme = false -> forallb not_delim (strip_default_port scheme netloc) = true ->
  bounded R = true ->
  exists e u qr qp,
    builder_environ scheme netloc (esc_pct R) (esc_pct P) items = Some e
    /\ request_uri e = Some u
    /\ quote gcu_safe_root R = Some qr /\ quote gcu_safe_path (lstrip_char 47 P) = Some qp
    /\ split_uri u = Some (scheme, strip_default_port scheme netloc, qr ++ 47 :: qp,
                           match C02.Model.urlencode items with [] => None | q => Some q end)
    /\ C02.Model.parse_qsl (C02.Model.urlencode items) = items
    /\ (mem PCT R = false -> mem PCT P = false ->
        utf8_decode (unq_bytes (qr ++ 47 :: qp)) = Some (R ++ 47 :: lstrip_char 47 P)).
Proof. exact builder_request_url. Qed.
Print Assumptions C15_builder_request_url_partial.

(* EnvironBuilder.from_environ (Client.open(environ), redirect following): decoding PATH_INFO /
   SCRIPT_NAME / QUERY_STRING with the dance and encoding them again is the identity on every
   string the encoding dance produces, and in general the rebuilt string is read by the request
   exactly as the original one *)
Theorem C15_from_environ_identity : forall x, valid_text x = true ->
  from_environ_string (wsgi_encoding_dance x) = Some (wsgi_encoding_dance x).
Proof. exact from_environ_identity. Qed.
Print Assumptions C15_from_environ_identity.

Theorem C15_from_environ_same_reading : forall s s', from_environ_string s = Some s' ->
  wsgi_decoding_dance_replace s' = wsgi_decoding_dance_replace s.
Proof. exact from_environ_same_reading. Qed.
Print Assumptions C15_from_environ_same_reading.
