let opt s = if s = "~" then None else Some (nlist_of_csv s)
let comp_of = function "path" -> CPath | "query" -> CQuery | "fragment" -> CFragment | "user" -> CUser
                     | "password" -> CPassword | _ -> failwith "component"
let so = function Some s -> "ok " ^ csv_of_nlist s | None -> "exn"
let () = iter_lines (fun line ->
  match fields line with
  | ["quote"; safe; s] -> so (quote (nlist_of_csv safe) (nlist_of_csv s))
  | ["quoteb"; safe; h] -> "ok " ^ csv_of_nlist (quote_bytes (nlist_of_csv safe) (nlist_of_hex h))
  | ["unquote"; s] -> "ok " ^ csv_of_nlist (unquote_rq (nlist_of_csv s))
  | ["i2u"; c; s] -> so (i2u (comp_of c) (nlist_of_csv s))
  | ["u2i"; c; s] -> "ok " ^ csv_of_nlist (u2i (comp_of c) (nlist_of_csv s))
  | ["enc"; s] -> "ok " ^ csv_of_nlist (wsgi_encoding_dance (nlist_of_csv s))
  | ["dec"; s] -> so (wsgi_decoding_dance_replace (nlist_of_csv s))
  | ["cururi"; scheme; host; root; path; qs] ->
      so (current_uri (nlist_of_csv scheme) (nlist_of_csv host) (opt root) (opt path)
            (if qs = "~" then None else Some (nlist_of_hex qs)))
  | ["wcururi"; flags; scheme; hh; name; port; script; path; qs] ->
      (* flags: three characters 0/1 = root_only strip_querystring host_only *)
      let server = if name = "~" then None else Some (nlist_of_csv name, opt port) in
      so (wsgi_current_uri (flags.[0] = '1') (flags.[1] = '1') (flags.[2] = '1') (nlist_of_csv scheme) (opt hh) server
            (nlist_of_csv script) (nlist_of_csv path) (nlist_of_csv qs))
  | "benv" :: scheme :: netloc :: base_path :: path :: items ->
      let its = List.map (fun kv -> match String.split_on_char '=' kv with
                                    | [k; v] -> (nlist_of_csv k, nlist_of_csv v) | _ -> failwith "item") items in
      (match builder_environ (nlist_of_csv scheme) (nlist_of_csv netloc) (nlist_of_csv base_path) (nlist_of_csv path) its with
       | Some e -> "ok " ^ csv_of_nlist e.e_script ^ " " ^ csv_of_nlist e.e_path ^ " " ^ csv_of_nlist e.e_query
       | None -> "exn")
  | ["tbytes"; s] -> "ok " ^ hex_of_nlist (tbytes (nlist_of_csv s)) ^ (if wf_pct (nlist_of_csv s) then " wf" else " stray")
  | ["spliturl"; u] ->
      (match split_uri (nlist_of_csv u) with
       | None -> "none"
       | Some (((sch, auth), path), q) ->
           Printf.sprintf "ok %s %s %s %s" (csv_of_nlist sch) (csv_of_nlist auth) (csv_of_nlist path)
             (match q with Some x -> csv_of_nlist x | None -> "~"))
  | ["ghost"; scheme; hh; name; port] ->
      (* host header, or ~ ; server name or ~ ; port as decimal text or ~ *)
      let server = if name = "~" then None else Some (nlist_of_csv name, opt port) in
      "ok " ^ csv_of_nlist (get_host (nlist_of_csv scheme) (opt hh) server)
  | "disp" :: path :: mounts ->
      (* mounts: key=id pairs *)
      let ms = List.map (fun kv -> match String.split_on_char '=' kv with
                                   | [k; v] -> (nlist_of_csv k, n_of_int (int_of_string v))
                                   | _ -> failwith "mount") mounts in
      (match dispatch ms (n_of_int 0) (nlist_of_csv path) with
       | DOk (a, script, rest) -> Printf.sprintf "ok %d %s %s" (int_of_n a) (csv_of_nlist script) (csv_of_nlist rest)
       | DOutOfFuel -> "fuel" | DUnpackError -> "unpack-error")
  | _ -> "bad-command")
