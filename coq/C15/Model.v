(* C15: executable models of the per-component functions of urls.iri_to_uri / uri_to_iri
   (_make_unquote_part), the PEP 3333 latin-1 dance (lib/Utf8), the URI assembly of
   sansio.utils.get_current_url, and DispatcherMiddleware.__call__.  Definitions only.
   Safe strings and protected tables come from C15/Gen.v, regenerated from /repo on every run;
   urllib.parse.quote / unquote are modelled in C15/LibPercent.v. *)
From Wz Require Import lib.Bytes lib.Utf8 C15.LibPercent C15.Gen.
From Wz Require Export C15.DispatchBase C15.GenDispatch.
Open Scope N_scope.

Definition SL : N := dispatch_sep.

(* ------------------------------------------------------------------ iri_to_uri, per component *)
Inductive comp := CPath | CQuery | CFragment | CUser | CPassword.

Definition i2u_safe (c : comp) : list N :=
  match c with
  | CPath => i2u_safe_path | CQuery => i2u_safe_query | CFragment => i2u_safe_fragment
  | CUser => i2u_safe_username | CPassword => i2u_safe_password
  end.
Definition i2u (c : comp) (s : str) : option str := quote (i2u_safe c) s.

(* ------------------------------------------------------------------ uri_to_iri, per component *)
Definition u2i_keep (c : comp) : list N :=
  match c with
  | CPath => u2i_keep_path | CQuery => u2i_keep_query | CFragment => u2i_keep_fragment
  | CUser => u2i_keep_user | CPassword => u2i_keep_user
  end.

(* does an escape the pattern protects start here?  re.I: the hex digits match in either case *)
Definition protected (tbl : list N) (c h1 h2 : N) : bool :=
  (c =? PCT) && is_hex h1 && is_hex h2 && mem (hex_val h1 * 16 + hex_val h2) tbl.

(* _unquote_partial: pattern.split(value) alternates text and runs of protected escapes; the
   text is unquoted with the re-quoting error handler, the runs are copied.
   text holds the current unprotected text, last character first *)
Fixpoint u2i_scan (tbl : list N) (s : str) (text : list N) : str :=
  match s with
  | [] => unquote_rq (rev text)
  | c :: r =>
      match r with
      | h1 :: r1 =>
          match r1 with
          | h2 :: r2 =>
              if protected tbl c h1 h2
              then unquote_rq (rev text) ++ c :: h1 :: h2 :: u2i_scan tbl r2 []
              else u2i_scan tbl r (c :: text)
          | [] => u2i_scan tbl r (c :: text)
          end
      | [] => u2i_scan tbl r (c :: text)
      end
  end.
Definition unquote_partial (tbl : list N) (s : str) : str := u2i_scan tbl s [].
Definition u2i (c : comp) (s : str) : str := unquote_partial (u2i_keep c) s.

(* ------------------------------------------------------------------ get_current_url *)
(* the URI that get_current_url hands to uri_to_iri; None models UnicodeEncodeError *)
Definition current_uri (scheme host : str) (root_path path : option str) (qs : option bytes)
  : option str :=
  let base := scheme ++ [58; 47; 47] ++ host in
  match root_path with
  | None => Some (base ++ [47])
  | Some rp =>
      match quote gcu_safe_root (rstrip_char 47 rp) with
      | None => None
      | Some qr =>
          let u := base ++ qr ++ [47] in
          match path with
          | None => Some u
          | Some p =>
              match quote gcu_safe_path (lstrip_char 47 p) with
              | None => None
              | Some qp =>
                  Some (u ++ qp ++
                        match qs with
                        | Some q => match q with [] => [] | _ :: _ => 63 :: quote_bytes gcu_safe_query q end
                        | None => []
                        end)
              end
          end
      end
  end.

(* ------------------------------------------------------------------ DispatcherMiddleware *)
(* lookup, dres: C15/DispatchBase.v; dispatch_loop: C15/GenDispatch.v, generated from the source of
   DispatcherMiddleware.__call__ on every run *)
Definition dispatch (mounts : list (str * N)) (default : N) (path : str) : dres :=
  dispatch_loop (S (length path)) mounts default path [].

(* ------------------------------------------------------------------ dispatcher spec *)
(* a remainder is /-bounded when it is empty or starts at a separator *)
Definition bounded (rest : str) : bool := match rest with [] => true | c :: _ => c =? SL end.
Definition chosen (mounts : list (str * N)) (default : N) (script : str) : N :=
  match lookup script mounts with Some a => a | None => default end.

(* ------------------------------------------------------------------ normal form of a component *)
(* iri_to_uri followed by uri_to_iri leaves a character alone unless iri_to_uri quotes it and
   uri_to_iri keeps that escape *)
Definition quoted_and_kept (c : comp) (ch : N) : bool :=
  (ch <? 128) && negb (always_safe ch || mem ch (norm_safe (i2u_safe c))) && mem ch (u2i_keep c).
Definition iri_normal (c : comp) (s : str) : str :=
  flat_map (fun ch => if quoted_and_kept c ch then pct ch else [ch]) s.

(* ------------------------------------------------------------------ sansio.utils.get_host *)
Definition ends_with (suf s : list N) : bool := starts_with (rev suf) (rev s).

(* the if / elif chain: the first branch whose scheme set holds the scheme and whose suffix ends
   the host cuts k characters (host[:-k]); rules come from Gen.default_port_rules *)
Fixpoint strip_rules (rules : list (list (list N) * list N * nat)) (scheme host : str) : str :=
  match rules with
  | [] => host
  | (schemes, suf, k) :: r =>
      if existsb (list_eqb scheme) schemes && ends_with suf host
      then firstn (length host - k) host
      else strip_rules r scheme host
  end.
Definition strip_default_port (scheme host : str) : str := strip_rules default_port_rules scheme host.

(* get_host without trusted_hosts; the server port arrives as its decimal text (str(port)) *)
Definition get_host (scheme : str) (host_header : option str) (server : option (str * option str)) : str :=
  let host :=
    match host_header with
    | Some h => h
    | None =>
        match server with
        | Some (name, port) =>
            let h := if mem 58 name && negb (starts_with [91] name) then 91 :: name ++ [93] else name in
            match port with Some p => h ++ 58 :: p | None => h end
        | None => []
        end
    end in
  strip_default_port scheme host.

(* ------------------------------------------------------------------ wsgi.get_current_url *)
(* the URI that wsgi.get_current_url(environ, root_only, strip_querystring, host_only) hands to
   uri_to_iri; None models UnicodeEncodeError (an environ string outside latin-1, or a lone
   surrogate after decoding) *)
Definition wsgi_current_uri (root_only strip_querystring host_only : bool)
  (scheme : str) (host_header : option str) (server : option (str * option str))
  (script_name path_info query_string : str) : option str :=
  let host := get_host scheme host_header server in
  let root := if wsgi_url_takes_root root_only strip_querystring host_only
              then option_map Some (wsgi_decoding_dance_replace script_name) else Some None in
  let path := if wsgi_url_takes_path root_only strip_querystring host_only
              then option_map Some (wsgi_decoding_dance_replace path_info) else Some None in
  let qs := if wsgi_url_takes_query root_only strip_querystring host_only
            then option_map Some (latin1_encode query_string) else Some None in
  match root, path, qs with
  | Some r, Some p, Some q => current_uri scheme host r p q
  | _, _, _ => None
  end.

(* ------------------------------------------------------------------ splitting a URI again *)
(* urlsplit on the subset scheme://authority path [?query] [#fragment] *)
Definition is_delim (c : N) : bool := (c =? 47) || (c =? 63) || (c =? 35).
Definition not_delim (c : N) : bool := negb (is_delim c).
Definition not_qf (c : N) : bool := negb ((c =? 63) || (c =? 35)).
Definition not_frag (c : N) : bool := negb (c =? 35).

Definition split_uri (u : str) : option (str * str * str * option str) :=
  match find_sub [58; 47; 47] u with
  | None => None
  | Some (scheme, rest) =>
      let auth := take_while not_delim rest in
      let r1 := drop_while not_delim rest in
      let path := take_while not_qf r1 in
      let r2 := drop_while not_qf r1 in
      let query := match r2 with
                   | c :: r3 => if c =? 63 then Some (take_while not_frag r3) else None
                   | [] => None
                   end in
      Some (scheme, auth, path, query)
  end.

(* ------------------------------------------------------------------ spec vocabulary for the uri_to_iri laws *)
(* every percent sign starts an escape (two hex digits follow) *)
Fixpoint wf_pct (s : str) : bool :=
  match s with
  | [] => true
  | c :: r =>
      if c =? PCT then
        match r with
        | h1 :: r1 => match r1 with
                      | h2 :: r2 => is_hex h1 && is_hex h2 && wf_pct r2
                      | [] => false
                      end
        | [] => false
        end
      else wf_pct r
  end.


(* urllib.parse.unquote_to_bytes on text: escapes become bytes, everything else its UTF-8 *)
Fixpoint tbytes (s : str) : bytes :=
  match s with
  | [] => []
  | c :: r =>
      if c =? PCT then
        match r with
        | h1 :: r1 =>
            match r1 with
            | h2 :: r2 =>
                if is_hex h1 && is_hex h2 then (hex_val h1 * 16 + hex_val h2) :: tbytes r2
                else c :: tbytes r
            | [] => c :: tbytes r
            end
        | [] => c :: tbytes r
        end
      else enc1 c ++ tbytes r
  end.

