(* C15: uri_to_iri is a fixpoint after one step on every input without a stray percent sign.
   The argument: the UTF-8 decoder with the re-quoting handler proceeds in steps (an ASCII byte,
   a valid sequence, or a maximal invalid part); steps are not affected by what follows once the
   next byte is not a continuation byte; hence decoding the re-quoted output again reproduces it. *)
From Coq Require Import ZArith Lia ZifyBool ZifyN.
From Wz Require Import lib.Bytes lib.BytesFacts lib.Utf8 lib.Utf8Facts C15.LibPercent C15.Gen C15.Model C15.Proofs.
Open Scope N_scope.
Ltac Zify.zify_post_hook ::= Z.to_euclidean_division_equations.

Notation D := utf8_decode_requote.

Definition cp2 (b0 b1 : N) : N := (b0 - 192) * 64 + (b1 - 128).
Definition cp3 (b0 b1 b2 : N) : N := (b0 - 224) * 4096 + (b1 - 128) * 64 + (b2 - 128).
Definition cp4 (b0 b1 b2 b3 : N) : N :=
  (b0 - 240) * 262144 + (b1 - 128) * 4096 + (b2 - 128) * 64 + (b3 - 128).

(* one step of the decoder: (output, bytes consumed, bytes left) *)
Definition step (b : bytes) : option (str * bytes * bytes) :=
  match b with
  | [] => None
  | b0 :: r0 =>
    if b0 <? 128 then Some ([b0], [b0], r0)
    else if b0 <? 194 then Some (pct b0, [b0], r0)
    else if b0 <? 224 then
      match r0 with
      | b1 :: r1 => if is_cont b1 then Some ([cp2 b0 b1], [b0; b1], r1) else Some (pct b0, [b0], r0)
      | [] => Some (pct b0, [b0], [])
      end
    else if b0 <? 240 then
      match r0 with
      | b1 :: r1 =>
        if second_ok b0 b1 then
          match r1 with
          | b2 :: r2 => if is_cont b2 then Some ([cp3 b0 b1 b2], [b0; b1; b2], r2)
                        else Some (pct b0 ++ pct b1, [b0; b1], r1)
          | [] => Some (pct b0 ++ pct b1, [b0; b1], [])
          end
        else Some (pct b0, [b0], r0)
      | [] => Some (pct b0, [b0], [])
      end
    else if b0 <? 245 then
      match r0 with
      | b1 :: r1 =>
        if second_ok b0 b1 then
          match r1 with
          | b2 :: r2 =>
            if is_cont b2 then
              match r2 with
              | b3 :: r3 => if is_cont b3 then Some ([cp4 b0 b1 b2 b3], [b0; b1; b2; b3], r3)
                            else Some (pct b0 ++ pct b1 ++ pct b2, [b0; b1; b2], r2)
              | [] => Some (pct b0 ++ pct b1 ++ pct b2, [b0; b1; b2], [])
              end
            else Some (pct b0 ++ pct b1, [b0; b1], r1)
          | [] => Some (pct b0 ++ pct b1, [b0; b1], [])
          end
        else Some (pct b0, [b0], r0)
      | [] => Some (pct b0, [b0], [])
      end
    else Some (pct b0, [b0], r0)
  end.

Lemma D_unfold b0 r0 :
  D (b0 :: r0) =
    if b0 <? 128 then b0 :: D r0
    else if b0 <? 194 then pct b0 ++ D r0
    else if b0 <? 224 then
      match r0 with
      | b1 :: r1 => if is_cont b1 then cp2 b0 b1 :: D r1 else pct b0 ++ D r0
      | [] => pct b0
      end
    else if b0 <? 240 then
      match r0 with
      | b1 :: r1 =>
        if second_ok b0 b1 then
          match r1 with
          | b2 :: r2 => if is_cont b2 then cp3 b0 b1 b2 :: D r2 else pct b0 ++ pct b1 ++ D r1
          | [] => pct b0 ++ pct b1
          end
        else pct b0 ++ D r0
      | [] => pct b0
      end
    else if b0 <? 245 then
      match r0 with
      | b1 :: r1 =>
        if second_ok b0 b1 then
          match r1 with
          | b2 :: r2 =>
            if is_cont b2 then
              match r2 with
              | b3 :: r3 => if is_cont b3 then cp4 b0 b1 b2 b3 :: D r3
                            else pct b0 ++ pct b1 ++ pct b2 ++ D r2
              | [] => pct b0 ++ pct b1 ++ pct b2
              end
            else pct b0 ++ pct b1 ++ D r1
          | [] => pct b0 ++ pct b1
          end
        else pct b0 ++ D r0
      | [] => pct b0
      end
    else pct b0 ++ D r0.
Proof. reflexivity. Qed.

Ltac crush :=
  repeat match goal with
         | H : Some _ = Some _ |- _ => inversion H; subst; clear H
         | H : None = Some _ |- _ => discriminate H
         | H : context [if ?c then _ else _] |- _ => destruct c eqn:?
         | H : context [match ?l with [] => _ | _ :: _ => _ end] |- _ => is_var l; destruct l
         | _ => progress (cbv beta iota in * )
         end.

Lemma D_step B out pre rest : step B = Some (out, pre, rest) ->
  B = pre ++ rest /\ D B = out ++ D rest.
Proof.
  intro H. destruct B as [|b0 r0]; [discriminate|]. rewrite D_unfold. unfold step in H.
  crush; (split; [reflexivity|]); cbn [app]; rewrite <- ?app_assoc; rewrite ?app_nil_r; reflexivity.
Qed.

Definition nc (Y : bytes) : bool := match Y with [] => true | y :: _ => negb (is_cont y) end.

Lemma second_ok_cont b0 y : second_ok b0 y = true -> is_cont y = true.
Proof.
  unfold second_ok, is_cont.
  destruct (b0 =? 224); [lia|]. destruct (b0 =? 237); [lia|]. destruct (b0 =? 240); [lia|].
  destruct (b0 =? 244); [lia|]. tauto.
Qed.

Lemma step_some B : B <> [] -> exists out pre rest, step B = Some (out, pre, rest).
Proof.
  destruct B as [|b0 r0]; [contradiction|]. intros _. unfold step.
  repeat match goal with
         | |- context [if ?c then _ else _] => destruct c
         | |- context [match ?l with [] => _ | _ :: _ => _ end] => is_var l; destruct l
         end; eauto.
Qed.

(* the three kinds of step *)
Lemma step_kind B out pre rest : step B = Some (out, pre, rest) ->
  (exists b0, b0 < 128 /\ out = [b0] /\ pre = [b0])
  \/ (exists cp, 128 <= cp /\ out = [cp] /\ nc B = true)
  \/ (out = flat_map pct pre /\ pre <> [] /\ Forall (fun b => 128 <= b) pre).
Proof.
  intro H. destruct B as [|b0 r0]; [discriminate|]. unfold step in H.
  crush.
  all: try (left; eexists; split; [|split; reflexivity]; lia).
  all: try (right; right; split; [cbn [flat_map app]; rewrite ?app_nil_r, <- ?app_assoc; reflexivity|];
            split; [discriminate|];
            repeat constructor;
            repeat match goal with H : second_ok _ _ = true |- _ => apply second_ok_cont in H end;
            unfold is_cont in *; lia).
  all: right; left; eexists; split; [|split; [reflexivity|unfold nc, is_cont; lia]].
  all: unfold cp2, cp3, cp4, second_ok, is_cont in *;
       repeat match goal with H : context [if ?c then _ else _] |- _ => destruct c eqn:? end; lia.
Qed.

(* a step does not depend on what follows, as long as that does not start with a continuation byte *)
Lemma step_local X Y out pre rest : step X = Some (out, pre, rest) -> nc Y = true ->
  step (X ++ Y) = Some (out, pre, rest ++ Y).
Proof.
  intros H HY. destruct X as [|b0 r0]; [discriminate|]. unfold step in H.
  crush; cbn [app]; unfold step; cbv beta iota;
    repeat match goal with H : _ = _ |- _ => rewrite H end; cbv beta iota; try reflexivity.
  all: destruct Y as [|y ry]; cbn [app]; try reflexivity.
  all: cbn [nc] in HY; destruct (is_cont y) eqn:Hc; [discriminate|].
  all: assert (Hs : forall b, second_ok b y = false)
         by (intro b; destruct (second_ok b y) eqn:S; [apply second_ok_cont in S; congruence|reflexivity]).
  all: rewrite ?Hs; reflexivity.
Qed.

Lemma step_pre_nonempty B out pre rest : step B = Some (out, pre, rest) -> pre <> [].
Proof. intro H. destruct B as [|b0 r0]; [discriminate|]. unfold step in H. crush; discriminate. Qed.

(* Lemma A: decoding splits at any point where the next byte is not a continuation byte *)
Lemma D_split n : forall X Y, (length X <= n)%nat -> nc Y = true -> D (X ++ Y) = D X ++ D Y.
Proof.
  induction n as [|n IH]; intros X Y Hl HY.
  - destruct X; [reflexivity|cbn [length] in Hl; lia].
  - destruct X as [|b0 r0] eqn:EX; [reflexivity|]. rewrite <- EX in *.
    destruct (step_some X) as [out [pre [rest Hs]]]; [subst; discriminate|].
    destruct (D_step _ _ _ _ Hs) as [HX HD].
    pose proof (step_local X Y _ _ _ Hs HY) as Hs2. destruct (D_step _ _ _ _ Hs2) as [_ HD2].
    pose proof (step_pre_nonempty _ _ _ _ Hs) as Hp.
    rewrite HD2, HD, IH, app_assoc; [reflexivity| |exact HY].
    rewrite HX, app_length in Hl. destruct pre; [contradiction|]. cbn [length] in Hl. lia.
Qed.

(* ------------------------------------------------------------------ the second pass over a decoded run *)

Inductive tk := TA (c : N) | TQ (b : N).
Definition render1 (t : tk) : list N := match t with TA c => [c] | TQ b => pct b end.
Definition val1 (t : tk) : N := match t with TA c => c | TQ b => b end.
Definition render (ts : list tk) : list N := flat_map render1 ts.
Definition vals (ts : list tk) : list N := map val1 ts.
(* an ASCII character other than the percent sign, or a re-quoted byte that is not ASCII *)
Definition good_tk (t : tk) : bool :=
  match t with TA c => (c <? 128) && negb (c =? PCT) | TQ b => (128 <=? b) && (b <? 256) end.

Lemma render_app a b : render (a ++ b) = render a ++ render b.
Proof. apply flat_map_app. Qed.
Lemma vals_app a b : vals (a ++ b) = vals a ++ vals b.
Proof. apply map_app. Qed.

Lemma render_ascii ts : forallb good_tk ts = true -> forallb ascii (render ts) = true.
Proof.
  induction ts as [|t ts IH]; cbn [forallb]; intro H; [reflexivity|].
  apply andb_prop in H. destruct H as [Ht Hts]. cbn [render flat_map]. rewrite forallb_app. fold (render ts).
  rewrite (IH Hts), andb_true_r. destruct t as [c|b]; cbn [good_tk render1] in *.
  - cbn [forallb]. unfold ascii. lia.
  - apply pct_ascii. lia.
Qed.

Lemma unq_render ts x : forallb good_tk ts = true -> unq_bytes (render ts ++ x) = vals ts ++ unq_bytes x.
Proof.
  induction ts as [|t ts IH]; cbn [forallb]; intro H; [reflexivity|].
  apply andb_prop in H. destruct H as [Ht Hts]. cbn [render flat_map vals map]. fold (render ts) (vals ts).
  rewrite <- app_assoc. destruct t as [c|b]; cbn [good_tk render1 val1] in *.
  - cbn [app]. rewrite unq_bytes_nonpct by lia. rewrite (IH Hts). reflexivity.
  - rewrite unq_bytes_pct by lia. rewrite (IH Hts). reflexivity.
Qed.

Lemma aux_push x : forall y run, forallb ascii x = true ->
  unquote_rq_aux (x ++ y) run = unquote_rq_aux y (rev x ++ run).
Proof.
  induction x as [|c x IH]; intros y run H; [reflexivity|].
  cbn [forallb] in H. apply andb_prop in H. destruct H as [Hc Hx]. unfold ascii in Hc.
  cbn [app unquote_rq_aux]. rewrite Hc, (IH _ _ Hx). cbn [rev]. rewrite <- app_assoc. reflexivity.
Qed.

Definition no37 (B : bytes) : bool := forallb (fun b => negb (b =? PCT)) B.

Lemma second_pass n : forall B ts, (length B <= n)%nat -> no37 B = true -> Forall (fun b => b < 256) B ->
  forallb good_tk ts = true -> D (vals ts ++ B) = render ts ++ D B ->
  unquote_rq_aux (D B) (rev (render ts)) = render ts ++ D B.
Proof.
  induction n as [|n IH]; intros B ts Hl H37 H256 Hts Hctx.
  - destruct B; [|cbn [length] in Hl; lia]. cbn [utf8_decode_requote unquote_rq_aux] in *.
    rewrite rev_involutive, app_nil_r in *. unfold unquote_run.
    rewrite <- (app_nil_r (render ts)), (unq_render ts [] Hts). cbn [unq_bytes]. rewrite app_nil_r. exact Hctx.
  - destruct B as [|b0 r0] eqn:EB.
    { cbn [utf8_decode_requote unquote_rq_aux] in *. rewrite rev_involutive, app_nil_r in *. unfold unquote_run.
      rewrite <- (app_nil_r (render ts)), (unq_render ts [] Hts). cbn [unq_bytes]. rewrite app_nil_r. exact Hctx. }
    rewrite <- EB in *.
    destruct (step_some B) as [out [pre [rest Hs]]]; [subst; discriminate|].
    destruct (D_step _ _ _ _ Hs) as [HB HD].
    pose proof (step_pre_nonempty _ _ _ _ Hs) as Hp.
    assert (Hlr : (length rest <= n)%nat).
    { rewrite HB, app_length in Hl. destruct pre; [contradiction|]. cbn [length] in Hl. lia. }
    assert (H37r : no37 rest = true /\ no37 pre = true).
    { unfold no37 in *. rewrite HB, forallb_app in H37. apply andb_prop in H37. tauto. }
    assert (H256r : Forall (fun b => b < 256) rest /\ Forall (fun b => b < 256) pre).
    { rewrite HB in H256. apply Forall_app in H256. tauto. }
    destruct H37r as [H37r H37p]. destruct H256r as [H256r H256p].
    destruct (step_kind _ _ _ _ Hs) as [[a [Ha [-> ->]]]|[[cp [Hcp [-> Hnc]]]|[-> [_ Hhi]]]].
    + (* an ASCII byte joins the pending run *)
      rewrite HD. cbn [app unquote_rq_aux]. replace (a <? 128) with true by lia.
      assert (Ha37 : (a =? PCT) = false).
      { unfold no37 in H37p. cbn [forallb] in H37p. destruct (a =? PCT); [discriminate|reflexivity]. }
      assert (Hts' : forallb good_tk (ts ++ [TA a]) = true).
      { rewrite forallb_app, Hts. cbn [forallb good_tk]. rewrite Ha37. replace (a <? 128) with true by lia. reflexivity. }
      replace (a :: rev (render ts)) with (rev (render (ts ++ [TA a])))
        by (rewrite render_app, rev_app_distr; reflexivity).
      rewrite (IH rest (ts ++ [TA a]) Hlr H37r H256r Hts').
      * rewrite render_app, <- app_assoc. reflexivity.
      * rewrite vals_app, render_app, <- !app_assoc. cbn [vals map val1 render flat_map render1 app].
        change (a :: rest) with ([a] ++ rest). rewrite <- HB, Hctx, HD. reflexivity.
    + (* a decoded non-ASCII character flushes the pending run *)
      rewrite HD. cbn [app unquote_rq_aux]. replace (cp <? 128) with false by lia.
      rewrite rev_involutive. unfold unquote_run.
      rewrite <- (app_nil_r (render ts)), (unq_render ts [] Hts). cbn [unq_bytes]. rewrite !app_nil_r.
      assert (Hdv : D (vals ts) = render ts).
      { rewrite (D_split (length (vals ts)) (vals ts) B (le_n _) Hnc) in Hctx. apply app_inv_tail in Hctx. exact Hctx. }
      rewrite Hdv. change [] with (rev (render [])).
      rewrite (IH rest [] Hlr H37r H256r eq_refl eq_refl). reflexivity.
    + (* re-quoted bytes join the pending run *)
      rewrite HD.
      assert (Hq : forallb good_tk (map TQ pre) = true).
      { clear -Hhi H256p. induction pre as [|b pre IH]; [reflexivity|]. inversion Hhi; inversion H256p; subst.
        cbn [map forallb good_tk]. rewrite IH by assumption. lia. }
      assert (Hr : render (map TQ pre) = flat_map pct pre).
      { clear. induction pre as [|b pre IH]; [reflexivity|]. cbn [map render flat_map render1]. fold (render (map TQ pre)).
        rewrite IH. reflexivity. }
      assert (Hv : vals (map TQ pre) = pre).
      { clear. induction pre as [|b pre IH]; [reflexivity|]. cbn [map vals val1]. fold (vals (map TQ pre)). rewrite IH. reflexivity. }
      rewrite aux_push by (rewrite <- Hr; apply render_ascii; exact Hq).
      assert (Hts' : forallb good_tk (ts ++ map TQ pre) = true) by (rewrite forallb_app, Hts, Hq; reflexivity).
      replace (rev (flat_map pct pre) ++ rev (render ts)) with (rev (render (ts ++ map TQ pre)))
        by (rewrite render_app, rev_app_distr, Hr; reflexivity).
      rewrite (IH rest (ts ++ map TQ pre) Hlr H37r H256r Hts').
      * rewrite render_app, Hr, <- app_assoc. reflexivity.
      * rewrite vals_app, render_app, Hv, Hr, <- !app_assoc, <- HB, Hctx, HD. reflexivity.
Qed.

(* decoding the decoder's output again changes nothing *)
Lemma unquote_rq_D B : no37 B = true -> Forall (fun b => b < 256) B -> unquote_rq (D B) = D B.
Proof.
  intros H1 H2. unfold unquote_rq. change [] with (rev (render [])).
  rewrite (second_pass (length B) B [] (le_n _) H1 H2 eq_refl eq_refl). reflexivity.
Qed.

(* ------------------------------------------------------------------ text without a stray percent sign *)

(* ... and no escape of the percent sign itself (those are protected in every component) *)
Fixpoint okt (s : str) : bool :=
  match s with
  | [] => true
  | c :: r =>
      if c =? PCT then
        match r with
        | h1 :: r1 => match r1 with
                      | h2 :: r2 => is_hex h1 && is_hex h2 && negb (hex_val h1 * 16 + hex_val h2 =? PCT) && okt r2
                      | [] => false
                      end
        | [] => false
        end
      else okt r
  end.

Lemma okt_cons c r : (c =? PCT) = false -> okt (c :: r) = okt r.
Proof. intro H. cbn [okt]. rewrite H. reflexivity. Qed.

Lemma okt_esc h1 h2 r : okt (PCT :: h1 :: h2 :: r) =
  is_hex h1 && is_hex h2 && negb (hex_val h1 * 16 + hex_val h2 =? PCT) && okt r.
Proof. reflexivity. Qed.

Lemma okt_app n : forall x y, (length x <= n)%nat -> okt x = true -> okt (x ++ y) = okt y.
Proof.
  induction n as [|n IH]; intros x y Hl Hx.
  - destruct x; [reflexivity|cbn [length] in Hl; lia].
  - destruct x as [|c r]; [reflexivity|]. cbn [length] in Hl. destruct (c =? PCT) eqn:Ec.
    + apply N.eqb_eq in Ec. subst c. destruct r as [|h1 [|h2 r2]]; try discriminate.
      rewrite okt_esc in Hx. apply andb_prop in Hx. destruct Hx as [Hh Hr].
      cbn [app]. rewrite okt_esc, Hh. cbn [andb]. apply IH; [cbn [length] in Hl; lia|exact Hr].
    + cbn [app]. rewrite okt_cons in * by exact Ec. apply IH; [lia|exact Hx].
Qed.

Lemma is_hex_not_pct h : is_hex h = true -> (h =? PCT) = false.
Proof. unfold is_hex, is_digit, PCT. lia. Qed.

Lemma is_hex_ascii h : is_hex h = true -> h < 128.
Proof. unfold is_hex, is_digit. lia. Qed.

Lemma hex_val_bound h : is_hex h = true -> hex_val h < 16.
Proof. unfold is_hex, hex_val, is_digit. intro H. destruct ((48 <=? h) && (h <=? 57)) eqn:E; [lia|].
  destruct ((65 <=? h) && (h <=? 70)) eqn:E2; lia. Qed.

(* an ASCII text that is okt unquotes to bytes below 256 without the percent byte *)
Lemma okt_unq n : forall x, (length x <= n)%nat -> okt x = true -> forallb ascii x = true ->
  no37 (unq_bytes x) = true /\ Forall (fun b => b < 256) (unq_bytes x).
Proof.
  induction n as [|n IH]; intros x Hl Ho Ha.
  - destruct x; [split; [reflexivity|constructor]|cbn [length] in Hl; lia].
  - destruct x as [|c r]; [split; [reflexivity|constructor]|]. cbn [length] in Hl.
    cbn [forallb] in Ha. apply andb_prop in Ha. destruct Ha as [Hc Ha]. unfold ascii in Hc.
    destruct (c =? PCT) eqn:Ec.
    + apply N.eqb_eq in Ec. subst c. destruct r as [|h1 [|h2 r2]]; try discriminate.
      rewrite okt_esc in Ho. apply andb_prop in Ho. destruct Ho as [Ho Hr]. apply andb_prop in Ho. destruct Ho as [Ho Hv].
      apply andb_prop in Ho. destruct Ho as [H1 H2].
      cbn [forallb] in Ha. apply andb_prop in Ha. destruct Ha as [_ Ha]. apply andb_prop in Ha. destruct Ha as [_ Ha].
      cbn [unq_bytes]. rewrite N.eqb_refl, H1, H2. cbn [andb].
      destruct (IH r2) as [G1 G2]; [cbn [length] in Hl; lia|exact Hr|exact Ha|].
      split; [unfold no37 in *; cbn [forallb]; rewrite Hv; exact G1|].
      constructor; [|exact G2]. pose proof (hex_val_bound h1 H1). pose proof (hex_val_bound h2 H2). lia.
    + rewrite okt_cons in Ho by exact Ec. rewrite unq_bytes_nonpct by exact Ec.
      destruct (IH r) as [G1 G2]; [lia|exact Ho|exact Ha|].
      split; [unfold no37 in *; cbn [forallb]; rewrite Ec; exact G1|]. constructor; [lia|exact G2].
Qed.

(* unquote is compositional at a non-ASCII character *)
Lemma aux_split x : forall c y run, (c <? 128) = false ->
  unquote_rq_aux (x ++ c :: y) run = unquote_rq_aux x run ++ c :: unquote_rq_aux y [].
Proof.
  induction x as [|a x IH]; intros c y run Hc.
  - cbn [app unquote_rq_aux]. rewrite Hc. reflexivity.
  - cbn [app unquote_rq_aux]. destruct (a <? 128).
    + apply IH. exact Hc.
    + rewrite (IH c y [] Hc), <- app_assoc. reflexivity.
Qed.

Lemma unquote_rq_split x c y : (c <? 128) = false ->
  unquote_rq (x ++ c :: y) = unquote_rq x ++ c :: unquote_rq y.
Proof. intro H. unfold unquote_rq. apply aux_split. exact H. Qed.

Lemma okt_split n : forall x c y, (length x <= n)%nat -> (c <? 128) = false ->
  okt (x ++ c :: y) = true -> okt x = true /\ okt y = true.
Proof.
  induction n as [|n IH]; intros x c y Hl Hc H.
  - destruct x; [|cbn [length] in Hl; lia]. cbn [app] in H. rewrite okt_cons in H by (unfold PCT; lia). auto.
  - destruct x as [|a r].
    { cbn [app] in H. rewrite okt_cons in H by (unfold PCT; lia). auto. }
    cbn [length] in Hl. assert (Hch : is_hex c = false) by (unfold is_hex, is_digit; lia).
    destruct (a =? PCT) eqn:Ea.
    + apply N.eqb_eq in Ea. subst a. destruct r as [|h1 [|h2 r2]]; cbn [app] in H.
      * cbn [okt] in H. rewrite N.eqb_refl, Hch in H. destruct y; discriminate.
      * rewrite okt_esc, Hch, andb_false_r in H. discriminate.
      * rewrite okt_esc in H. apply andb_prop in H. destruct H as [Hh Hr].
        destruct (IH r2 c y) as [G1 G2]; [cbn [length] in Hl; lia|exact Hc|exact Hr|].
        rewrite okt_esc, Hh, G1. auto.
    + cbn [app] in H. rewrite okt_cons in * by exact Ea. apply (IH r c y); [lia|exact Hc|exact H].
Qed.

Lemma take_drop_while (p : N -> bool) s : s = take_while p s ++ drop_while p s.
Proof. induction s as [|a s IH]; [reflexivity|]. cbn [take_while drop_while]. destruct (p a); [cbn [app]; f_equal; exact IH|reflexivity]. Qed.

Lemma take_while_forallb (p : N -> bool) s : forallb p (take_while p s) = true.
Proof. induction s as [|a s IH]; [reflexivity|]. cbn [take_while]. destruct (p a) eqn:E; [cbn [forallb]; rewrite E; exact IH|reflexivity]. Qed.

Lemma drop_while_head (q : N -> bool) s :
  match drop_while q s with x :: _ => q x = false | [] => True end.
Proof.
  induction s as [|x r IH]; cbn [drop_while]; [exact I|]. destruct (q x) eqn:E; [exact IH|exact E].
Qed.

(* unquote is idempotent on such text *)
Lemma unquote_rq_idem n : forall T, (length T <= n)%nat -> okt T = true ->
  unquote_rq (unquote_rq T) = unquote_rq T.
Proof.
  induction n as [|n IH]; intros T Hl Ho.
  - destruct T; [reflexivity|cbn [length] in Hl; lia].
  - pose proof (take_drop_while ascii T) as HT. pose proof (take_while_forallb ascii T) as Hx.
    pose proof (drop_while_head ascii T) as Hd.
    set (x := take_while ascii T) in *. destruct (drop_while ascii T) as [|c y] eqn:Ed.
    + rewrite app_nil_r in HT. rewrite HT, (unquote_rq_ascii x Hx). unfold unquote_run.
      rewrite HT in Ho. destruct (okt_unq (length x) x (le_n _) Ho Hx) as [G1 G2].
      apply unquote_rq_D; assumption.
    + unfold ascii in Hd. rewrite HT in Ho.
      destruct (okt_split (length x) x c y (le_n _) Hd Ho) as [Hox Hoy].
      rewrite HT, (unquote_rq_split x c y Hd), (unquote_rq_split _ c _ Hd).
      rewrite (unquote_rq_ascii x Hx). unfold unquote_run.
      destruct (okt_unq (length x) x (le_n _) Hox Hx) as [G1 G2].
      rewrite (unquote_rq_D _ G1 G2). rewrite (IH y); [reflexivity| |exact Hoy].
      rewrite HT, app_length in Hl. cbn [length] in Hl. lia.
Qed.

(* ------------------------------------------------------------------ the output has nothing left to unquote *)

(* any character but the percent sign, or a re-quoted non-ASCII byte *)
Definition goodc (t : tk) : bool :=
  match t with TA c => negb (c =? PCT) | TQ b => (128 <=? b) && (b <? 256) end.
Definition clean (x : str) : Prop := exists ts, forallb goodc ts = true /\ x = render ts.

Lemma clean_app x y : clean x -> clean y -> clean (x ++ y).
Proof.
  intros [a [Ha ->]] [b [Hb ->]]. exists (a ++ b). rewrite forallb_app, Ha, Hb, render_app. auto.
Qed.

Lemma D_clean n : forall B, (length B <= n)%nat -> no37 B = true -> Forall (fun b => b < 256) B -> clean (D B).
Proof.
  induction n as [|n IH]; intros B Hl H37 H256.
  - destruct B; [exists []; auto|cbn [length] in Hl; lia].
  - destruct B as [|b0 r0] eqn:EB; [exists []; auto|]. rewrite <- EB in *.
    destruct (step_some B) as [out [pre [rest Hs]]]; [subst; discriminate|].
    destruct (D_step _ _ _ _ Hs) as [HB HD]. pose proof (step_pre_nonempty _ _ _ _ Hs) as Hp.
    assert (Hlr : (length rest <= n)%nat).
    { rewrite HB, app_length in Hl. destruct pre; [contradiction|]. cbn [length] in Hl. lia. }
    assert (H37r : no37 rest = true /\ no37 pre = true).
    { unfold no37 in *. rewrite HB, forallb_app in H37. apply andb_prop in H37. tauto. }
    assert (H256r : Forall (fun b => b < 256) rest /\ Forall (fun b => b < 256) pre).
    { rewrite HB in H256. apply Forall_app in H256. tauto. }
    destruct H37r as [H37r H37p]. destruct H256r as [H256r H256p].
    rewrite HD. apply clean_app; [|apply IH; assumption].
    destruct (step_kind _ _ _ _ Hs) as [[a [Ha [-> ->]]]|[[cp [Hcp [-> Hnc]]]|[-> [_ Hhi]]]].
    + exists [TA a]. split; [|reflexivity]. cbn [forallb goodc]. unfold no37 in H37p. cbn [forallb] in H37p.
      rewrite andb_true_r in *. exact H37p.
    + exists [TA cp]. split; [|reflexivity]. cbn [forallb goodc]. unfold PCT. lia.
    + exists (map TQ pre). split.
      * clear -Hhi H256p. induction pre as [|b pre IH]; [reflexivity|]. inversion Hhi; inversion H256p; subst.
        cbn [map forallb goodc]. rewrite IH by assumption. lia.
      * clear. induction pre as [|b pre IH]; [reflexivity|]. cbn [map render flat_map render1]. fold (render (map TQ pre)).
        rewrite <- IH. reflexivity.
Qed.

Lemma unquote_rq_clean n : forall T, (length T <= n)%nat -> okt T = true -> clean (unquote_rq T).
Proof.
  induction n as [|n IH]; intros T Hl Ho.
  - destruct T; [exists []; auto|cbn [length] in Hl; lia].
  - pose proof (take_drop_while ascii T) as HT. pose proof (take_while_forallb ascii T) as Hx.
    pose proof (drop_while_head ascii T) as Hd.
    set (x := take_while ascii T) in *. destruct (drop_while ascii T) as [|c y] eqn:Ed.
    + rewrite app_nil_r in HT. rewrite HT, (unquote_rq_ascii x Hx). unfold unquote_run.
      rewrite HT in Ho. destruct (okt_unq (length x) x (le_n _) Ho Hx) as [G1 G2].
      apply (D_clean (length (unq_bytes x))); [apply le_n|assumption|assumption].
    + unfold ascii in Hd. rewrite HT in Ho.
      destruct (okt_split (length x) x c y (le_n _) Hd Ho) as [Hox Hoy].
      rewrite HT, (unquote_rq_split x c y Hd). rewrite (unquote_rq_ascii x Hx). unfold unquote_run.
      destruct (okt_unq (length x) x (le_n _) Hox Hx) as [G1 G2].
      apply clean_app; [apply (D_clean (length (unq_bytes x))); [apply le_n|assumption|assumption]|].
      change (c :: unquote_rq y) with ([c] ++ unquote_rq y). apply clean_app.
      * exists [TA c]. split; [|reflexivity]. cbn [forallb goodc]. unfold PCT. lia.
      * apply IH; [|exact Hoy]. rewrite HT, app_length in Hl. cbn [length] in Hl. lia.
Qed.

Section Scan.
  Variable tbl : list N.
  Hypothesis tbl_ascii : forall b, mem b tbl = true -> b < 128.
  Hypothesis tbl_pct : mem PCT tbl = true.

  Lemma clean_push ts : forall r text, forallb goodc ts = true ->
    u2i_scan tbl (render ts ++ r) text = u2i_scan tbl r (rev (render ts) ++ text).
  Proof.
    induction ts as [|t ts IH]; intros r text H; [reflexivity|].
    cbn [forallb] in H. apply andb_prop in H. destruct H as [Ht Hts].
    cbn [render flat_map]. fold (render ts). rewrite <- app_assoc. destruct t as [c|b]; cbn [goodc render1] in *.
    - cbn [app]. rewrite scan_nonpct by (destruct (c =? PCT); [discriminate|reflexivity]).
      rewrite (IH _ _ Hts). cbn [rev]. rewrite <- !app_assoc. reflexivity.
    - assert (Hm : mem b tbl = false).
      { destruct (mem b tbl) eqn:E; [|reflexivity]. pose proof (tbl_ascii b E). lia. }
      rewrite (scan_triple_unprotected tbl b _ _ ltac:(lia) Hm), (IH _ _ Hts), rev_app_distr, <- app_assoc. reflexivity.
  Qed.

  (* scanning clean text again, with nothing pending, reproduces it when it is followed by
     nothing or by more scan output *)
  Lemma rescan_clean X : okt X = true ->
    u2i_scan tbl (unquote_rq X) [] = unquote_rq X.
  Proof.
    intro Ho. destruct (unquote_rq_clean (length X) X (le_n _) Ho) as [ts [Hts E]].
    rewrite E at 1. rewrite <- (app_nil_r (render ts)), (clean_push ts [] [] Hts).
    cbn [u2i_scan]. rewrite app_nil_r, rev_involutive, <- E. apply (unquote_rq_idem (length X)); [apply le_n|exact Ho].
  Qed.

  Lemma scan_fix n : forall s text, (length s <= n)%nat -> wf_pct s = true -> okt (rev text) = true ->
    u2i_scan tbl (u2i_scan tbl s text) [] = u2i_scan tbl s text.
  Proof.
    induction n as [|n IH]; intros s text Hl Hw Ht.
    - destruct s; [|cbn [length] in Hl; lia]. cbn [u2i_scan]. apply rescan_clean. exact Ht.
    - destruct s as [|c r]; [cbn [u2i_scan]; apply rescan_clean; exact Ht|]. cbn [length] in Hl.
      destruct (c =? PCT) eqn:Ec.
      + apply N.eqb_eq in Ec. subst c. destruct r as [|h1 [|h2 r2]]; try discriminate.
        cbn [wf_pct] in Hw. rewrite N.eqb_refl in Hw. apply andb_prop in Hw. destruct Hw as [Hh Hw].
        apply andb_prop in Hh. destruct Hh as [H1 H2]. cbn [length] in Hl.
        rewrite scan_unfold3. destruct (protected tbl PCT h1 h2) eqn:Ep.
        * (* a protected escape: flush, copy, go on *)
          destruct (unquote_rq_clean (length (rev text)) (rev text) (le_n _) Ht) as [ts [Hts E]].
          rewrite E at 1. rewrite (clean_push ts _ [] Hts), scan_unfold3, Ep, app_nil_r, rev_involutive, <- E.
          rewrite (unquote_rq_idem (length (rev text)) _ (le_n _) Ht).
          rewrite (IH r2 []); [reflexivity|lia|exact Hw|reflexivity].
        * (* an escape that will be unquoted: it joins the pending text *)
          rewrite (scan_nonpct tbl h1) by (apply is_hex_not_pct; exact H1).
          rewrite (scan_nonpct tbl h2) by (apply is_hex_not_pct; exact H2).
          apply IH; [lia|exact Hw|]. cbn [rev]. rewrite <- !app_assoc. cbn [app].
          rewrite (okt_app (length (rev text)) _ _ (le_n _) Ht), okt_esc, H1, H2. cbn [andb okt].
          rewrite andb_true_r. unfold protected in Ep. rewrite N.eqb_refl, H1, H2 in Ep. cbn [andb] in Ep.
          destruct (hex_val h1 * 16 + hex_val h2 =? PCT) eqn:Ev; [|reflexivity].
          apply N.eqb_eq in Ev. rewrite Ev in Ep. congruence.
      + cbn [wf_pct] in Hw. rewrite Ec in Hw. rewrite scan_nonpct by exact Ec.
        apply IH; [lia|exact Hw|]. cbn [rev]. rewrite (okt_app (length (rev text)) _ _ (le_n _) Ht).
        apply okt_cons. exact Ec.
  Qed.
End Scan.

(* uri_to_iri, per component, is a fixpoint after one step on every text in which each percent
   sign starts an escape *)
Lemma u2i_fixpoint_wf c s : wf_pct s = true -> u2i c (u2i c s) = u2i c s.
Proof.
  intro H. unfold u2i, unquote_partial.
  apply (scan_fix (u2i_keep c) (keep_ascii c) (keep_has_pct c) (length s) s [] (le_n _) H eq_refl).
Qed.

(* the guard is necessary: the refuting input has a stray percent sign *)
Lemma u2i_fixpoint_guard_needed :
  exists s, wf_pct s = false /\ u2i CPath (u2i CPath s) <> u2i CPath s.
Proof. exists [37; 52; 37; 52; 49]. split; [reflexivity|]. vm_compute. discriminate. Qed.

(* ================================================================== iri_to_uri then uri_to_iri, with escapes *)

Lemma tbytes_nonpct c r : (c =? PCT) = false -> tbytes (c :: r) = enc1 c ++ tbytes r.
Proof. intro H. cbn [tbytes]. rewrite H. reflexivity. Qed.

Lemma tbytes_esc h1 h2 r : is_hex h1 = true -> is_hex h2 = true ->
  tbytes (PCT :: h1 :: h2 :: r) = (hex_val h1 * 16 + hex_val h2) :: tbytes r.
Proof. intros H1 H2. cbn [tbytes]. rewrite N.eqb_refl, H1, H2. reflexivity. Qed.

Lemma enc1_ascii_byte c : (c <? 128) = true -> enc1 c = [c].
Proof. intro H. unfold enc1. rewrite H. reflexivity. Qed.

Lemma tbytes_ascii n : forall x, (length x <= n)%nat -> forallb ascii x = true -> tbytes x = unq_bytes x.
Proof.
  induction n as [|n IH]; intros x Hl Ha.
  - destruct x; [reflexivity|cbn [length] in Hl; lia].
  - destruct x as [|c r]; [reflexivity|]. cbn [length] in Hl.
    cbn [forallb] in Ha. apply andb_prop in Ha. destruct Ha as [Hc Ha]. unfold ascii in Hc.
    cbn [tbytes unq_bytes]. destruct (c =? PCT).
    + destruct r as [|h1 [|h2 r2]]; [reflexivity|f_equal; apply IH; [cbn [length] in *; lia|exact Ha]|].
      destruct (is_hex h1 && is_hex h2).
      * cbn [forallb] in Ha. apply andb_prop in Ha. destruct Ha as [_ Ha]. apply andb_prop in Ha. destruct Ha as [_ Ha].
        rewrite (IH r2); [reflexivity|cbn [length] in Hl; lia|exact Ha].
      * rewrite (IH (h1 :: h2 :: r2)); [reflexivity|cbn [length] in *; lia|exact Ha].
    + rewrite (enc1_ascii_byte c Hc), (IH r); [reflexivity|lia|exact Ha].
Qed.

Lemma tbytes_app_okt n : forall X Y, (length X <= n)%nat -> okt X = true -> tbytes (X ++ Y) = tbytes X ++ tbytes Y.
Proof.
  induction n as [|n IH]; intros X Y Hl Ho.
  - destruct X; [reflexivity|cbn [length] in Hl; lia].
  - destruct X as [|c r]; [reflexivity|]. cbn [length] in Hl. destruct (c =? PCT) eqn:Ec.
    + apply N.eqb_eq in Ec. subst c. destruct r as [|h1 [|h2 r2]]; try discriminate.
      rewrite okt_esc in Ho. apply andb_prop in Ho. destruct Ho as [Ho Hr]. apply andb_prop in Ho. destruct Ho as [Ho _].
      apply andb_prop in Ho. destruct Ho as [H1 H2]. cbn [app]. rewrite !tbytes_esc by assumption.
      rewrite (IH r2); [reflexivity|cbn [length] in Hl; lia|exact Hr].
    + rewrite okt_cons in Ho by exact Ec. cbn [app]. rewrite !tbytes_nonpct by exact Ec.
      rewrite (IH r); [rewrite app_assoc; reflexivity|lia|exact Ho].
Qed.

Lemma tbytes_pct_unfold r :
  tbytes (PCT :: r) =
  match r with
  | h1 :: h2 :: r2 => if is_hex h1 && is_hex h2 then (hex_val h1 * 16 + hex_val h2) :: tbytes r2
                      else PCT :: tbytes r
  | _ => PCT :: tbytes r
  end.
Proof. cbn [tbytes]. rewrite N.eqb_refl. destruct r as [|h1 [|h2 r2]]; reflexivity. Qed.

(* a non-ASCII character ends whatever came before it *)
Lemma tbytes_split_nonascii n : forall R c r, (length R <= n)%nat -> (c <? 128) = false ->
  tbytes (R ++ c :: r) = tbytes R ++ enc1 c ++ tbytes r.
Proof.
  induction n as [|n IH]; intros R c r Hl Hc.
  - destruct R; [|cbn [length] in Hl; lia]. cbn [app]. apply tbytes_nonpct. unfold PCT. lia.
  - assert (Hcp : (c =? PCT) = false) by (unfold PCT; lia).
    assert (Hch : is_hex c = false) by (unfold is_hex, is_digit; lia).
    destruct R as [|a R']; [cbn [app]; apply tbytes_nonpct; exact Hcp|]. cbn [length] in Hl.
    destruct (a =? PCT) eqn:Ea.
    + apply N.eqb_eq in Ea. subst a. destruct R' as [|h1 [|h2 R2]]; cbn [app].
      * rewrite (tbytes_pct_unfold (c :: r)), (tbytes_pct_unfold []).
        destruct r as [|h2 r2]; [|rewrite Hch; cbn [andb]]; rewrite tbytes_nonpct by exact Hcp; reflexivity.
      * rewrite (tbytes_pct_unfold (h1 :: c :: r)), (tbytes_pct_unfold [h1]), Hch, andb_false_r.
        change (h1 :: c :: r) with ([h1] ++ c :: r). rewrite (IH [h1] c r) by (cbn [length] in *; lia || exact Hc).
        reflexivity.
      * cbn [length] in Hl. rewrite (tbytes_pct_unfold (h1 :: h2 :: R2 ++ c :: r)), (tbytes_pct_unfold (h1 :: h2 :: R2)).
        destruct (is_hex h1 && is_hex h2) eqn:Eh.
        -- rewrite (IH R2 c r) by (lia || exact Hc). reflexivity.
        -- change (h1 :: h2 :: R2 ++ c :: r) with ((h1 :: h2 :: R2) ++ c :: r).
           rewrite (IH (h1 :: h2 :: R2) c r) by (cbn [length]; lia || exact Hc). reflexivity.
    + cbn [app]. rewrite !tbytes_nonpct by exact Ea. rewrite (IH R' c r) by (lia || exact Hc).
      rewrite app_assoc. reflexivity.
Qed.

Lemma enc1_head_nc c rest : valid_cp c = true -> (c <? 128) = false -> nc (enc1 c ++ rest) = true.
Proof.
  intros Hv Hc. unfold valid_cp in Hv. unfold enc1. rewrite Hc.
  destruct (c <? 2048) eqn:E1; [cbn [app nc]; unfold is_cont; lia|].
  destruct (c <? 65536) eqn:E2; cbn [app nc]; unfold is_cont; lia.
Qed.

(* unquote with the re-quoting handler is: unquote to bytes, then decode with that handler *)
Lemma unquote_is_decode x : forall R, forallb ascii R = true -> valid_text x = true ->
  unquote_rq_aux x (rev R) = D (tbytes (R ++ x)).
Proof.
  induction x as [|c r IH]; intros R HR Hv.
  - cbn [unquote_rq_aux]. rewrite rev_involutive, app_nil_r. unfold unquote_run.
    rewrite (tbytes_ascii (length R) R (le_n _) HR). reflexivity.
  - unfold valid_text in Hv. cbn [forallb] in Hv. apply andb_prop in Hv. destruct Hv as [Hc Hv].
    cbn [unquote_rq_aux]. destruct (c <? 128) eqn:Ec.
    + replace (c :: rev R) with (rev (R ++ [c])) by (rewrite rev_app_distr; reflexivity).
      rewrite IH; [rewrite <- app_assoc; reflexivity| |exact Hv].
      rewrite forallb_app, HR. cbn [forallb]. unfold ascii. rewrite Ec. reflexivity.
    + rewrite rev_involutive. unfold unquote_run. change [] with (@rev N []).
      rewrite (IH [] eq_refl Hv). cbn [app].
      rewrite (tbytes_split_nonascii (length R) R c r (le_n _) Ec).
      rewrite (tbytes_ascii (length R) R (le_n _) HR).
      rewrite (D_split (length (unq_bytes R)) _ _ (le_n _) (enc1_head_nc c _ Hc Ec)).
      rewrite dec_requote_enc1 by exact Hc. reflexivity.
Qed.

Lemma unquote_rq_tbytes x : valid_text x = true -> unquote_rq x = D (tbytes x).
Proof. intro H. unfold unquote_rq. change [] with (@rev N []). rewrite (unquote_is_decode x [] eq_refl H). reflexivity. Qed.

Lemma tbytes_pct b Y : b < 256 -> tbytes (pct b ++ Y) = b :: tbytes Y.
Proof.
  intro H. unfold pct. cbn [app].
  destruct (hex_digit_facts (b / 16)) as [H1 _]; [lia|]. destruct (hex_digit_facts (b mod 16)) as [H2 _]; [lia|].
  rewrite tbytes_esc by assumption. rewrite (pct_value b H). reflexivity.
Qed.

Lemma okt_pct b : b < 256 -> (b =? PCT) = false -> okt (pct b) = true.
Proof.
  intros H Hb. unfold pct. rewrite okt_esc.
  destruct (hex_digit_facts (b / 16)) as [H1 _]; [lia|]. destruct (hex_digit_facts (b mod 16)) as [H2 _]; [lia|].
  rewrite H1, H2, (pct_value b H), Hb. reflexivity.
Qed.

Lemma is_hex_always_safe h : is_hex h = true -> always_safe h = true.
Proof. unfold is_hex, always_safe, is_alpha, is_upper, is_lower, is_digit. lia. Qed.

Definition pend (X : str) : Prop := okt X = true /\ valid_text X = true.

Lemma pend_nil : pend [].
Proof. split; reflexivity. Qed.

Lemma pend_app X Y : pend X -> pend Y -> pend (X ++ Y).
Proof.
  intros [H1 H2] [H3 H4]. split; [rewrite (okt_app (length X) X Y (le_n _) H1); exact H3|].
  rewrite valid_text_app, H2, H4. reflexivity.
Qed.

Lemma pend_lit c : (c =? PCT) = false -> valid_cp c = true -> pend [c].
Proof. intros H Hv. split; [rewrite okt_cons by exact H; reflexivity|]. unfold valid_text. cbn [forallb]. rewrite Hv. reflexivity. Qed.

Lemma pend_pct b : b < 256 -> (b =? PCT) = false -> pend (pct b).
Proof. intros H Hb. split; [apply okt_pct; assumption|]. apply ascii_valid_text. apply pct_ascii. exact H. Qed.

Lemma pend_esc h1 h2 : is_hex h1 = true -> is_hex h2 = true -> (hex_val h1 * 16 + hex_val h2 =? PCT) = false ->
  pend [PCT; h1; h2].
Proof.
  intros H1 H2 Hv. split; [rewrite okt_esc, H1, H2, Hv; reflexivity|].
  apply ascii_valid_text. cbn [forallb]. unfold ascii, PCT.
  pose proof (is_hex_ascii h1 H1). pose proof (is_hex_ascii h2 H2). lia.
Qed.

Lemma tbytes_app X Y : pend X -> tbytes (X ++ Y) = tbytes X ++ tbytes Y.
Proof. intros [H _]. apply (tbytes_app_okt (length X)); [apply le_n|exact H]. Qed.

Section Normal.
  Variable safe tbl : list N.
  Hypothesis tbl_ascii : forall b, mem b tbl = true -> b < 128.
  Hypothesis tbl_pct : mem PCT tbl = true.
  Hypothesis safe_pct : stays safe PCT = true.

  Notation qk := (qk safe tbl).
  Notation normal := (normal safe tbl).
  Definition nq (ch : N) : bool := negb (qk ch).
  Definition nsafe (B : bytes) : bool := forallb nq B.

  Lemma normal_app x y : normal (x ++ y) = normal x ++ normal y.
  Proof. apply flat_map_app. Qed.

  Lemma normal_fixed x : forallb nq x = true -> normal x = x.
  Proof.
    induction x as [|c x IH]; cbn [forallb]; intro H; [reflexivity|].
    apply andb_prop in H. destruct H as [Hc Hx]. unfold nq in Hc.
    change (normal (c :: x)) with ((if qk c then pct c else [c]) ++ normal x).
    destruct (qk c); [discriminate|]. rewrite (IH Hx). reflexivity.
  Qed.

  Lemma normal_qk c : qk c = true -> normal [c] = pct c.
  Proof. intro H. change (normal [c]) with ((if qk c then pct c else [c]) ++ []). rewrite H. apply app_nil_r. Qed.

  Lemma nq_stays c : stays safe c = true -> nq c = true.
  Proof. intro H. unfold nq, Proofs.qk. rewrite H. cbn [negb]. rewrite andb_false_r. reflexivity. Qed.

  Lemma nq_high c : (c <? 128) = false -> nq c = true.
  Proof. intro H. unfold nq, Proofs.qk. rewrite H. reflexivity. Qed.

  Lemma nq_not_kept c : mem c tbl = false -> nq c = true.
  Proof. intro H. unfold nq, Proofs.qk. rewrite H, andb_false_r. reflexivity. Qed.

  Lemma nq_hex h : is_hex h = true -> nq h = true.
  Proof. intro H. apply nq_stays. unfold stays. rewrite (is_hex_always_safe h H). reflexivity. Qed.

  Lemma nq_pct b : b < 256 -> forallb nq (pct b) = true.
  Proof.
    intro H. unfold pct. cbn [forallb].
    destruct (hex_digit_facts (b / 16)) as [H1 _]; [lia|]. destruct (hex_digit_facts (b mod 16)) as [H2 _]; [lia|].
    rewrite (nq_stays PCT safe_pct), (nq_hex _ H1), (nq_hex _ H2). reflexivity.
  Qed.

  Lemma D_nq n : forall B, (length B <= n)%nat -> nsafe B = true -> Forall (fun b => b < 256) B ->
    forallb nq (D B) = true.
  Proof.
    induction n as [|n IH]; intros B Hl Hn H256.
    - destruct B; [reflexivity|cbn [length] in Hl; lia].
    - destruct B as [|b0 r0] eqn:EB; [reflexivity|]. rewrite <- EB in *.
      destruct (step_some B) as [out [pre [rest Hs]]]; [subst; discriminate|].
      destruct (D_step _ _ _ _ Hs) as [HB HD]. pose proof (step_pre_nonempty _ _ _ _ Hs) as Hp.
      assert (Hlr : (length rest <= n)%nat).
      { rewrite HB, app_length in Hl. destruct pre; [contradiction|]. cbn [length] in Hl. lia. }
      assert (Hnr : nsafe rest = true /\ nsafe pre = true).
      { unfold nsafe in *. rewrite HB, forallb_app in Hn. apply andb_prop in Hn. tauto. }
      assert (H256r : Forall (fun b => b < 256) rest /\ Forall (fun b => b < 256) pre).
      { rewrite HB in H256. apply Forall_app in H256. tauto. }
      destruct Hnr as [Hnr Hnp]. destruct H256r as [H256r H256p].
      rewrite HD, forallb_app, (IH rest Hlr Hnr H256r), andb_true_r.
      destruct (step_kind _ _ _ _ Hs) as [[a [Ha [-> ->]]]|[[cp [Hcp [-> Hnc]]]|[-> [_ Hhi]]]].
      + exact Hnp.
      + cbn [forallb]. rewrite nq_high by lia. reflexivity.
      + assert (Hq : forall l, Forall (fun b => b < 256) l -> forallb nq (flat_map pct l) = true).
        { intros l Hf. induction Hf as [|b l Hb _ IHp]; [reflexivity|].
          cbn [flat_map]. rewrite forallb_app, (nq_pct b Hb), IHp. reflexivity. }
        apply Hq. exact H256p.
  Qed.

  Lemma normal_D B : nsafe B = true -> Forall (fun b => b < 256) B -> normal (D B) = D B.
  Proof. intros H1 H2. apply normal_fixed. apply (D_nq (length B)); [apply le_n|assumption|assumption]. Qed.

  Lemma tbytes_256 n : forall X, (length X <= n)%nat -> valid_text X = true -> Forall (fun b => b < 256) (tbytes X).
  Proof.
    induction n as [|n IH]; intros X Hl Hv.
    - destruct X; [constructor|cbn [length] in Hl; lia].
    - destruct X as [|c r]; [constructor|]. cbn [length] in Hl.
      unfold valid_text in Hv. cbn [forallb] in Hv. apply andb_prop in Hv. destruct Hv as [Hc Hv].
      destruct (c =? PCT) eqn:Ec.
      + apply N.eqb_eq in Ec. subst c. rewrite tbytes_pct_unfold.
        assert (Hr : Forall (fun b => b < 256) (PCT :: tbytes r)) by (constructor; [unfold PCT; lia|apply IH; [lia|exact Hv]]).
        destruct r as [|h1 [|h2 r2]]; try exact Hr. destruct (is_hex h1 && is_hex h2) eqn:Eh; [|exact Hr].
        apply andb_prop in Eh. destruct Eh as [H1 H2]. constructor.
        * pose proof (hex_val_bound h1 H1). pose proof (hex_val_bound h2 H2). lia.
        * apply IH; [cbn [length] in Hl; lia|]. cbn [forallb] in Hv. apply andb_prop in Hv. destruct Hv as [_ Hv].
          apply andb_prop in Hv. tauto.
      + rewrite tbytes_nonpct by exact Ec. apply Forall_app. split; [|apply IH; [lia|exact Hv]].
        apply Forall_forall. intros b Hb. exact (enc1_bytes c b Hc Hb).
  Qed.

  (* flushing pending text *)
  Lemma flush X : pend X -> unquote_rq X = D (tbytes X).
  Proof. intros [_ H]. apply unquote_rq_tbytes. exact H. Qed.

  Lemma flush_split_ascii X a Y : pend X -> pend Y -> (a <? 128) = true -> (a =? PCT) = false ->
    unquote_rq (X ++ a :: Y) = D (tbytes X) ++ a :: unquote_rq Y.
  Proof.
    intros HX HY Ha Hp.
    assert (Hva : valid_cp a = true) by (unfold valid_cp; lia).
    assert (HP : pend (X ++ a :: Y)) by (apply pend_app; [exact HX|change (a :: Y) with ([a] ++ Y); apply pend_app; [apply pend_lit; assumption|exact HY]]).
    rewrite (flush _ HP), (flush _ HY), (tbytes_app X _ HX), (tbytes_nonpct a Y Hp), (enc1_ascii_byte a Ha).
    cbn [app]. rewrite (D_split (length (tbytes X)) _ _ (le_n _)) by (cbn [nc]; unfold is_cont; lia).
    rewrite D_unfold, Ha. reflexivity.
  Qed.

  (* an ASCII character in the pending text separates what is before it from what follows *)
  Lemma scan_pending_split n : forall r X a Y, (length r <= n)%nat -> wf_pct r = true -> valid_text r = true ->
    pend X -> pend Y -> (a <? 128) = true -> (a =? PCT) = false ->
    u2i_scan tbl r (rev (X ++ a :: Y)) = D (tbytes X) ++ a :: u2i_scan tbl r (rev Y).
  Proof.
    induction n as [|n IH]; intros r X a Y Hl Hw Hv HX HY Ha Hp.
    - destruct r; [|cbn [length] in Hl; lia]. cbn [u2i_scan]. rewrite !rev_involutive. apply flush_split_ascii; assumption.
    - destruct r as [|c r']; [cbn [u2i_scan]; rewrite !rev_involutive; apply flush_split_ascii; assumption|].
      cbn [length] in Hl. unfold valid_text in Hv. cbn [forallb] in Hv. apply andb_prop in Hv. destruct Hv as [Hc Hv].
      destruct (c =? PCT) eqn:Ec.
      + apply N.eqb_eq in Ec. subst c. destruct r' as [|h1 [|h2 r2]]; try discriminate.
        cbn [wf_pct] in Hw. rewrite N.eqb_refl in Hw. apply andb_prop in Hw. destruct Hw as [Hh Hw].
        apply andb_prop in Hh. destruct Hh as [H1 H2]. cbn [length] in Hl.
        cbn [forallb] in Hv. apply andb_prop in Hv. destruct Hv as [_ Hv]. apply andb_prop in Hv. destruct Hv as [_ Hv].
        rewrite !scan_unfold3. destruct (protected tbl PCT h1 h2) eqn:Ep.
        * rewrite !rev_involutive, (flush_split_ascii X a Y HX HY Ha Hp), <- app_assoc. reflexivity.
        * rewrite !(scan_nonpct tbl h1) by (apply is_hex_not_pct; exact H1).
          rewrite !(scan_nonpct tbl h2) by (apply is_hex_not_pct; exact H2).
          assert (Hv37 : (hex_val h1 * 16 + hex_val h2 =? PCT) = false).
          { unfold protected in Ep. rewrite N.eqb_refl, H1, H2 in Ep. cbn [andb] in Ep.
            destruct (hex_val h1 * 16 + hex_val h2 =? PCT) eqn:Ev; [|reflexivity]. apply N.eqb_eq in Ev. rewrite Ev in Ep. congruence. }
          replace (h2 :: h1 :: PCT :: rev (X ++ a :: Y)) with (rev (X ++ a :: (Y ++ [PCT; h1; h2])))
            by (rewrite !rev_app_distr; cbn [rev app]; rewrite !rev_app_distr; cbn [rev app]; rewrite <- ?app_assoc; reflexivity).
          replace (h2 :: h1 :: PCT :: rev Y) with (rev (Y ++ [PCT; h1; h2])) by (rewrite rev_app_distr; reflexivity).
          apply IH; try assumption; [lia|]. apply pend_app; [exact HY|apply pend_esc; assumption].
      + cbn [wf_pct] in Hw. rewrite Ec in Hw. rewrite !scan_nonpct by exact Ec.
        replace (c :: rev (X ++ a :: Y)) with (rev (X ++ a :: (Y ++ [c])))
          by (rewrite !rev_app_distr; cbn [rev app]; rewrite !rev_app_distr; cbn [rev app]; rewrite <- ?app_assoc; reflexivity).
        replace (c :: rev Y) with (rev (Y ++ [c])) by (rewrite rev_app_distr; reflexivity).
        apply IH; try assumption; [lia|]. apply pend_app; [exact HY|apply pend_lit; assumption].
  Qed.

  Lemma tbytes_high_quoted bs Y : Forall (fun b => 128 <= b /\ b < 256) bs ->
    tbytes (quote_bytes safe bs ++ Y) = bs ++ tbytes Y /\ pend (quote_bytes safe bs).
  Proof.
    intro H. induction H as [|b bs [Hlo Hhi] _ [IH1 IH2]]; [split; [reflexivity|apply pend_nil]|].
    unfold quote_bytes in *. cbn [flat_map].
    assert (Hs : stays safe b = false).
    { destruct (stays safe b) eqn:E; [|reflexivity]. pose proof (stays_ascii safe b E). lia. }
    destruct (quote_byte_cases safe b) as [[_ Hc]|[-> _]]; [congruence|].
    split.
    - rewrite <- app_assoc, (tbytes_pct b _ Hhi), IH1. reflexivity.
    - apply pend_app; [apply pend_pct; [exact Hhi|unfold PCT; lia]|exact IH2].
  Qed.

  (* iri_to_uri followed by uri_to_iri, in lockstep with uri_to_iri alone.
     X / Xq are the texts pending in the two scans: they stand for the same bytes *)
  Lemma scan_quoted n : forall s X Xq, (length s <= n)%nat -> wf_pct s = true -> valid_text s = true ->
    pend X -> pend Xq -> tbytes Xq = tbytes X -> nsafe (tbytes X) = true ->
    u2i_scan tbl (Q safe s) (rev Xq) = normal (u2i_scan tbl s (rev X)).
  Proof.
    induction n as [|n IH]; intros s X Xq Hl Hw Hv HX HXq Htb Hns.
    - destruct s; [|cbn [length] in Hl; lia]. change (Q safe []) with (@nil N). cbn [u2i_scan]. rewrite !rev_involutive.
      rewrite (flush _ HX), (flush _ HXq), Htb. symmetry. apply normal_D; [exact Hns|].
      apply (tbytes_256 (length X)); [apply le_n|apply HX].
    - destruct s as [|c r].
      { change (Q safe []) with (@nil N). cbn [u2i_scan]. rewrite !rev_involutive. rewrite (flush _ HX), (flush _ HXq), Htb. symmetry.
        apply normal_D; [exact Hns|]. apply (tbytes_256 (length X)); [apply le_n|apply HX]. }
      cbn [length] in Hl. unfold valid_text in Hv. cbn [forallb] in Hv. apply andb_prop in Hv. destruct Hv as [Hc Hv].
      change (c :: r) with ([c] ++ r). rewrite Q_app. cbn [app].
      destruct (c =? PCT) eqn:Ec.
      + (* an escape: iri_to_uri leaves its three characters alone *)
        apply N.eqb_eq in Ec. subst c. destruct r as [|h1 [|h2 r2]]; try discriminate.
        cbn [wf_pct] in Hw. rewrite N.eqb_refl in Hw. apply andb_prop in Hw. destruct Hw as [Hh Hw].
        apply andb_prop in Hh. destruct Hh as [H1 H2]. cbn [length] in Hl.
        cbn [forallb] in Hv. apply andb_prop in Hv. destruct Hv as [Hv1 Hv]. apply andb_prop in Hv. destruct Hv as [Hv2 Hv].
        assert (HQ3 : Q safe [PCT] ++ Q safe (h1 :: h2 :: r2) = PCT :: h1 :: h2 :: Q safe r2).
        { change (h1 :: h2 :: r2) with ([h1] ++ [h2] ++ r2). rewrite !Q_app.
          assert (Hq1 : forall a, stays safe a = true -> (a <? 128) = true -> Q safe [a] = [a]).
          { intros a Hs Ha. unfold Q, utf8_encode, quote_bytes. cbn [flat_map]. rewrite (enc1_ascii_byte a Ha). cbn [app flat_map].
            destruct (quote_byte_cases safe a) as [[-> _]|[_ Hn]]; [reflexivity|congruence]. }
          rewrite (Hq1 PCT safe_pct eq_refl).
          rewrite (Hq1 h1) by (try (unfold stays; rewrite (is_hex_always_safe h1 H1); reflexivity); pose proof (is_hex_ascii h1 H1); lia).
          rewrite (Hq1 h2) by (try (unfold stays; rewrite (is_hex_always_safe h2 H2); reflexivity); pose proof (is_hex_ascii h2 H2); lia).
          reflexivity. }
        rewrite HQ3, !scan_unfold3. destruct (protected tbl PCT h1 h2) eqn:Ep.
        * rewrite !rev_involutive, !normal_app. rewrite (flush _ HX), (flush _ HXq), Htb.
          rewrite (normal_D _ Hns (tbytes_256 (length X) X (le_n _) (proj2 HX))).
          change (PCT :: h1 :: h2 :: u2i_scan tbl r2 []) with ([PCT; h1; h2] ++ u2i_scan tbl r2 []).
          rewrite normal_app, (normal_fixed [PCT; h1; h2])
            by (cbn [forallb]; rewrite (nq_stays PCT safe_pct), (nq_hex _ H1), (nq_hex _ H2); reflexivity).
          cbn [app]. do 4 f_equal. change [] with (@rev N []).
          apply (IH r2 [] []); try assumption; try reflexivity; [lia|apply pend_nil|apply pend_nil].
        * rewrite !(scan_nonpct tbl h1) by (apply is_hex_not_pct; exact H1).
          rewrite !(scan_nonpct tbl h2) by (apply is_hex_not_pct; exact H2).
          assert (Hmem : mem (hex_val h1 * 16 + hex_val h2) tbl = false).
          { unfold protected in Ep. rewrite N.eqb_refl, H1, H2 in Ep. exact Ep. }
          assert (Hv37 : (hex_val h1 * 16 + hex_val h2 =? PCT) = false).
          { destruct (hex_val h1 * 16 + hex_val h2 =? PCT) eqn:Ev; [|reflexivity]. apply N.eqb_eq in Ev. rewrite Ev in Hmem. congruence. }
          pose proof (pend_esc h1 h2 H1 H2 Hv37) as Pe.
          replace (h2 :: h1 :: PCT :: rev Xq) with (rev (Xq ++ [PCT; h1; h2])) by (rewrite rev_app_distr; reflexivity).
          replace (h2 :: h1 :: PCT :: rev X) with (rev (X ++ [PCT; h1; h2])) by (rewrite rev_app_distr; reflexivity).
          apply IH; try assumption; [lia|apply pend_app; assumption|apply pend_app; assumption| |].
          -- rewrite (tbytes_app X _ HX), (tbytes_app Xq _ HXq), Htb. reflexivity.
          -- rewrite (tbytes_app X _ HX), (tbytes_esc h1 h2 [] H1 H2). unfold nsafe in *. rewrite forallb_app, Hns.
             cbn [tbytes forallb]. rewrite (nq_not_kept _ Hmem). reflexivity.
      + cbn [wf_pct] in Hw. rewrite Ec in Hw. rewrite (scan_nonpct tbl c) by exact Ec.
        pose proof (pend_lit c Ec Hc) as Pc.
        destruct (c <? 128) eqn:Ea.
        * assert (HQ : Q safe [c] = quote_byte safe c).
          { unfold Q, quote_bytes, utf8_encode. cbn [flat_map]. rewrite (enc1_ascii_byte c Ea). cbn [flat_map app].
            apply app_nil_r. }
          rewrite HQ. destruct (quote_byte_cases safe c) as [[-> Hs]|[-> Hs]].
          -- (* kept as it is *)
             cbn [app]. rewrite (scan_nonpct tbl c) by exact Ec.
             replace (c :: rev Xq) with (rev (Xq ++ [c])) by (rewrite rev_app_distr; reflexivity).
             replace (c :: rev X) with (rev (X ++ [c])) by (rewrite rev_app_distr; reflexivity).
             apply IH; try assumption; [lia|apply pend_app; assumption|apply pend_app; assumption| |].
             ++ rewrite (tbytes_app X _ HX), (tbytes_app Xq _ HXq), Htb. reflexivity.
             ++ rewrite (tbytes_app X _ HX), (tbytes_nonpct c [] Ec), (enc1_ascii_byte c Ea). unfold nsafe in *.
                rewrite forallb_app, Hns. cbn [app tbytes forallb]. rewrite (nq_stays c Hs). reflexivity.
          -- destruct (mem c tbl) eqn:Em.
             ++ (* quoted by iri_to_uri and kept by uri_to_iri: the one place where the two differ *)
                rewrite (scan_triple_protected tbl c _ _ ltac:(lia) Em), rev_involutive.
                replace (c :: rev X) with (rev (X ++ c :: [])) by (rewrite rev_app_distr; reflexivity).
                rewrite (scan_pending_split (length r) r X c [] (le_n _) Hw Hv HX pend_nil Ea Ec).
                change (c :: u2i_scan tbl r (rev [])) with ([c] ++ u2i_scan tbl r (rev [])).
                rewrite !normal_app, (normal_D _ Hns (tbytes_256 (length X) X (le_n _) (proj2 HX))).
                rewrite normal_qk by (unfold Proofs.qk; rewrite Ea, Hs, Em; reflexivity).
                rewrite (flush _ HXq), Htb. do 2 f_equal. change [] with (@rev N []) at 1.
                apply (IH r [] []); try assumption; try reflexivity; [lia|apply pend_nil|apply pend_nil].
             ++ (* quoted, then unquoted again *)
                rewrite (scan_triple_unprotected tbl c _ _ ltac:(lia) Em).
                replace (rev (pct c) ++ rev Xq) with (rev (Xq ++ pct c)) by (rewrite rev_app_distr; reflexivity).
                replace (c :: rev X) with (rev (X ++ [c])) by (rewrite rev_app_distr; reflexivity).
                assert (Pp : pend (pct c)) by (apply pend_pct; [lia|exact Ec]).
                apply IH; try assumption; [lia|apply pend_app; assumption|apply pend_app; assumption| |].
                ** rewrite (tbytes_app X _ HX), (tbytes_app Xq _ HXq), Htb.
                   rewrite <- (app_nil_r (pct c)), (tbytes_pct c [] ltac:(lia)), (tbytes_nonpct c [] Ec), (enc1_ascii_byte c Ea). reflexivity.
                ** rewrite (tbytes_app X _ HX), (tbytes_nonpct c [] Ec), (enc1_ascii_byte c Ea). unfold nsafe in *.
                   rewrite forallb_app, Hns. cbn [app tbytes forallb]. rewrite (nq_not_kept c Em). reflexivity.
        * (* a non-ASCII character: its bytes are quoted, and unquoted again *)
          assert (Hhigh : Forall (fun b => 128 <= b /\ b < 256) (enc1 c)) by (apply enc1_high; assumption).
          assert (HQ : Q safe [c] = quote_bytes safe (enc1 c)).
          { unfold Q, utf8_encode. cbn [flat_map]. rewrite app_nil_r. reflexivity. }
          rewrite HQ, (scan_high_bytes safe tbl tbl_ascii (enc1 c) _ _ Hhigh).
          destruct (tbytes_high_quoted (enc1 c) [] Hhigh) as [Ht Pq]. rewrite app_nil_r in Ht. cbn [tbytes] in Ht. rewrite app_nil_r in Ht.
          replace (rev (quote_bytes safe (enc1 c)) ++ rev Xq) with (rev (Xq ++ quote_bytes safe (enc1 c))) by (rewrite rev_app_distr; reflexivity).
          replace (c :: rev X) with (rev (X ++ [c])) by (rewrite rev_app_distr; reflexivity).
          apply IH; try assumption; [lia|apply pend_app; assumption|apply pend_app; assumption| |].
          -- rewrite (tbytes_app X _ HX), (tbytes_app Xq _ HXq), Htb, Ht, (tbytes_nonpct c [] Ec). cbn [tbytes]. rewrite app_nil_r. reflexivity.
          -- rewrite (tbytes_app X _ HX), (tbytes_nonpct c [] Ec). cbn [tbytes]. rewrite app_nil_r. unfold nsafe in *.
             rewrite forallb_app, Hns. cbn [andb]. apply forallb_forall. intros b Hb. apply nq_high.
             rewrite Forall_forall in Hhigh. specialize (Hhigh b Hb). lia.
  Qed.
End Normal.

(* iri_to_uri then uri_to_iri = uri_to_iri then the component's normalisation, for every text
   in which each percent sign starts an escape *)
Lemma u2i_of_i2u_wf c s : valid_text s = true -> wf_pct s = true ->
  exists q, i2u c s = Some q /\ u2i c q = iri_normal c (u2i c s).
Proof.
  intros Hv Hw. exists (Q (i2u_safe c) s). split; [unfold i2u, quote; rewrite Hv; reflexivity|].
  unfold u2i, unquote_partial. rewrite <- normal_iri_normal.
  change [] with (@rev N []).
  apply (scan_quoted (i2u_safe c) (u2i_keep c) (keep_ascii c) (keep_has_pct c)) with (n := length s);
    try assumption; try reflexivity; try apply pend_nil; try apply le_n.
  unfold stays. rewrite (proj2 (mem_norm_safe PCT (i2u_safe c)) (conj eq_refl (i2u_safe_has_pct c))). apply orb_true_r.
Qed.
