(* C15 proofs: dispatcher, the latin-1 dance, quote (ASCII, idempotent), and the component
   laws of uri_to_iri.  Facts about the generated safe strings and tables are re-proved by
   vm_compute against Gen.v on every run. *)
From Coq Require Import ZArith Lia ZifyBool ZifyN.
From Wz Require Import lib.Bytes lib.BytesFacts lib.Utf8 lib.Utf8Facts C15.LibPercent C15.Gen C15.Model.
Open Scope N_scope.
Ltac Zify.zify_post_hook ::= Z.to_euclidean_division_equations.

Lemma list_eqb_eq a b : list_eqb a b = true -> a = b.
Proof.
  revert b. induction a as [|x a IH]; destruct b as [|y b]; cbn [list_eqb]; intro H;
    try discriminate; [reflexivity|].
  apply andb_prop in H. destruct H as [Hx Hab]. apply N.eqb_eq in Hx. subst y.
  f_equal. apply IH. exact Hab.
Qed.

Lemma list_eqb_refl a : list_eqb a a = true.
Proof. induction a as [|x a IH]; cbn [list_eqb]; [reflexivity|]. rewrite N.eqb_refl, IH. reflexivity. Qed.

(* ------------------------------------------------------------------ rsplit *)

Lemma rsplit1_spec x s a b : rsplit1 x s = Some (a, b) -> s = a ++ x :: b /\ mem x b = false.
Proof.
  revert a b. induction s as [|c r IH]; intros a b H; cbn [rsplit1] in H; [discriminate|].
  destruct (rsplit1 x r) as [[a' b']|] eqn:E.
  - inversion H; subst. destruct (IH a' b eq_refl) as [-> Hm]. split; [reflexivity|exact Hm].
  - destruct (c =? x) eqn:Ec; [|discriminate]. inversion H; subst. apply N.eqb_eq in Ec. subst c.
    split; [reflexivity|].
    clear -E. induction b as [|y b IH]; [reflexivity|]. cbn [rsplit1] in E.
    destruct (rsplit1 x b) as [[? ?]|]; [discriminate|]. destruct (y =? x) eqn:Ey; [discriminate|].
    unfold mem. cbn [existsb]. rewrite N.eqb_sym, Ey. apply IH. reflexivity.
Qed.

Lemma rsplit1_some x s : mem x s = true -> exists a b, rsplit1 x s = Some (a, b).
Proof.
  unfold mem. induction s as [|c r IH]; cbn [existsb]; intro H; [discriminate|]. cbn [rsplit1].
  destruct (rsplit1 x r) as [[a b]|] eqn:E; [eauto|].
  destruct (existsb (N.eqb x) r) eqn:Er; [destruct (IH eq_refl) as [a [b Hab]]; discriminate|].
  rewrite orb_false_r in H. rewrite N.eqb_sym in H. rewrite H. eauto.
Qed.

(* ------------------------------------------------------------------ dispatcher *)

Definition no_longer_mount (mounts : list (str * N)) (path script : str) : Prop :=
  forall s' r', s' ++ r' = path -> bounded r' = true -> (length script < length s')%nat ->
                lookup s' mounts = None.

Lemma mem_app_l x (a b : list N) : mem x a = true -> mem x (a ++ b) = true.
Proof. unfold mem. rewrite existsb_app. intros ->. reflexivity. Qed.

Lemma dispatch_loop_correct mounts default path : forall fuel script pi,
  script ++ pi = path -> bounded pi = true -> (length script < fuel)%nat ->
  no_longer_mount mounts path script ->
  exists app script' pi',
    dispatch_loop fuel mounts default script pi = DOk app script' pi'
    /\ script' ++ pi' = path /\ bounded pi' = true
    /\ app = chosen mounts default script'
    /\ no_longer_mount mounts path script'
    /\ (lookup script' mounts = None -> mem SL script' = false).
Proof.
  induction fuel as [|f IH]; intros script pi Hcat Hb Hlen Hno; [lia|].
  cbn [dispatch_loop]. change 47 with SL. destruct (mem SL script) eqn:Hm.
  - destruct (lookup script mounts) as [a|] eqn:Hl.
    + exists a, script, pi.
      split; [reflexivity|]. split; [exact Hcat|]. split; [exact Hb|].
      split; [unfold chosen; rewrite Hl; reflexivity|]. split; [exact Hno|].
      intro H. rewrite Hl in H. discriminate.
    + destruct (rsplit1_some SL script Hm) as [a [b Hr]]. rewrite Hr.
      destruct (rsplit1_spec SL script a b Hr) as [Hs Hnb].
      apply IH.
      * rewrite <- Hcat, Hs, <- app_assoc. reflexivity.
      * cbn [bounded]. apply N.eqb_refl.
      * rewrite Hs, app_length in Hlen. cbn [length] in Hlen. lia.
      * intros s' r' Hsr Hbr Hls.
        rewrite <- Hcat in Hsr. destruct (app_eq_app _ _ _ _ Hsr) as [l [[H1 H2]|[H1 H2]]].
        -- (* s' = script ++ l *)
           destruct l as [|c l].
           ++ rewrite app_nil_r in H1. subst s'. exact Hl.
           ++ apply (Hno s' r'); [rewrite <- Hcat; exact Hsr|exact Hbr|].
              rewrite H1, app_length. cbn [length]. lia.
        -- (* script = s' ++ l *)
           destruct l as [|c l].
           ++ rewrite app_nil_r in H1. subst s'. exact Hl.
           ++ exfalso. rewrite Hs in H1.
              destruct (app_eq_app _ _ _ _ H1) as [l2 [[G1 G2]|[G1 G2]]].
              ** (* a = s' ++ l2 : s' is not longer than a *)
                 rewrite G1, app_length in Hls. lia.
              ** (* s' = a ++ l2, SL :: b = l2 ++ c :: l *)
                 destruct l2 as [|d l2].
                 { rewrite app_nil_r in G1. subst s'. lia. }
                 cbn [app] in G2. inversion G2; subst d.
                 subst r'. cbn [app bounded] in Hbr. apply N.eqb_eq in Hbr. subst c.
                 assert (Hc : mem SL b = true).
                 { match goal with H : b = _ |- _ => rewrite H end.
                   unfold mem. rewrite existsb_app. cbn [existsb]. rewrite N.eqb_refl, orb_true_r. reflexivity. }
                 congruence.
  - exists (chosen mounts default script), script, pi.
    split; [reflexivity|]. split; [exact Hcat|]. split; [exact Hb|]. split; [reflexivity|].
    split; [exact Hno|]. intros _. exact Hm.
Qed.

Lemma dispatch_correct mounts default path :
  exists app script rest,
    dispatch mounts default path = DOk app script rest
    /\ script ++ rest = path /\ bounded rest = true
    /\ app = chosen mounts default script
    /\ (forall s' r', s' ++ r' = path -> bounded r' = true -> (length script < length s')%nat ->
                      lookup s' mounts = None)
    /\ (lookup script mounts = None ->
        forall s' r', s' ++ r' = path -> bounded r' = true -> lookup s' mounts = None).
Proof.
  unfold dispatch.
  destruct (dispatch_loop_correct mounts default path (S (length path)) path [])
    as [ap [script [rest [H1 [H2 [H3 [H4 [H5 H6]]]]]]]].
  - apply app_nil_r.
  - reflexivity.
  - lia.
  - intros s' r' Hsr _ Hl. apply (f_equal (@length N)) in Hsr. rewrite app_length in Hsr. lia.
  - exists ap, script, rest.
    split; [exact H1|]. split; [exact H2|]. split; [exact H3|]. split; [exact H4|]. split; [exact H5|].
    intros Hnone s' r' Hsr Hbr.
    destruct (Nat.lt_ge_cases (length script) (length s')) as [Hlt|Hge]; [apply (H5 s' r'); assumption|].
    rewrite <- H2 in Hsr. destruct (app_eq_app _ _ _ _ Hsr) as [l [[G1 G2]|[G1 G2]]].
    + destruct l as [|c l]; [rewrite app_nil_r in G1; subst s'; exact Hnone|].
      rewrite G1, app_length in Hge. cbn [length] in Hge. lia.
    + destruct l as [|c l]; [rewrite app_nil_r in G1; subst s'; exact Hnone|].
      exfalso. subst r'. cbn [app bounded] in Hbr. apply N.eqb_eq in Hbr. subst c.
      specialize (H6 Hnone). rewrite G1 in H6. unfold mem in H6. rewrite existsb_app in H6.
      cbn [existsb] in H6. rewrite N.eqb_refl in H6. cbn [orb] in H6. rewrite orb_true_r in H6. discriminate.
Qed.

(* nested mounts: the deeper one wins, the rest of the path goes on (example) *)
Lemma dispatch_example :
  dispatch [([47; 97], 1); ([47; 97; 47; 98], 2)] 0 [47; 97; 47; 98; 47; 99] = DOk 2 [47; 97; 47; 98] [47; 99].
Proof. vm_compute. reflexivity. Qed.

(* ------------------------------------------------------------------ the dance *)

Lemma dance_roundtrip s : valid_text s = true ->
  wsgi_decoding_dance_replace (wsgi_encoding_dance s) = Some s.
Proof.
  intro Hv. unfold wsgi_decoding_dance_replace, wsgi_encoding_dance, latin1_decode, latin1_encode.
  assert (Hb : forallb (fun c => c <? 256) (utf8_encode s) = true).
  { apply forallb_forall. intros b Hin. pose proof (utf8_encode_bytes s b Hv Hin). lia. }
  rewrite Hb. cbn [option_map]. rewrite utf8_decode_replace_encode by exact Hv. reflexivity.
Qed.

(* ------------------------------------------------------------------ quote *)

Lemma hex_digit_facts n : n < 16 ->
  is_hex (hex_digit n) = true /\ always_safe (hex_digit n) = true /\ hex_digit n < 128
  /\ hex_val (hex_digit n) = n /\ (hex_digit n =? PCT) = false.
Proof.
  intro H. unfold hex_digit, hex_val, is_hex, always_safe, is_alpha, PCT. unfold is_upper, is_lower, is_digit.
  destruct (n <? 10) eqn:E.
  - replace ((48 <=? 48 + n) && (48 + n <=? 57)) with true by lia. cbv iota. repeat split; lia.
  - replace ((48 <=? 55 + n) && (55 + n <=? 57)) with false by lia.
    replace ((65 <=? 55 + n) && (55 + n <=? 70)) with true by lia.
    cbv iota. repeat split; lia.
Qed.

Lemma always_safe_bound c : always_safe c = true -> c < 128.
Proof. unfold always_safe, is_alpha, is_upper, is_lower, is_digit. lia. Qed.

Lemma always_safe_not_pct c : always_safe c = true -> (c =? PCT) = false.
Proof. unfold always_safe, is_alpha, is_upper, is_lower, is_digit, PCT. lia. Qed.

Lemma mem_norm_safe c safe : mem c (norm_safe safe) = true <-> (c <? 128) = true /\ mem c safe = true.
Proof.
  unfold mem, norm_safe. split.
  - intro H. apply existsb_exists in H. destruct H as [x [Hx Hc]]. apply filter_In in Hx.
    apply N.eqb_eq in Hc. subst x. destruct Hx as [Hx ->]. split; [reflexivity|].
    apply existsb_exists. exists c. split; [exact Hx|apply N.eqb_refl].
  - intros [Hc H]. apply existsb_exists in H. destruct H as [x [Hx Hcx]]. apply N.eqb_eq in Hcx. subst x.
    apply existsb_exists. exists c. split; [|apply N.eqb_refl]. apply filter_In. split; assumption.
Qed.

Definition ascii (c : N) : bool := c <? 128.

Lemma pct_ascii b : b < 256 -> forallb ascii (pct b) = true.
Proof.
  intro H. unfold pct. cbn [forallb]. unfold ascii.
  destruct (hex_digit_facts (b / 16)) as [_ [_ [H1 _]]]; [lia|].
  destruct (hex_digit_facts (b mod 16)) as [_ [_ [H2 _]]]; [lia|].
  unfold PCT. lia.
Qed.

Lemma quote_byte_ascii safe b : b < 256 -> forallb ascii (quote_byte safe b) = true.
Proof.
  intro H. unfold quote_byte. destruct (always_safe b || mem b (norm_safe safe)) eqn:E; [|apply pct_ascii; exact H].
  cbn [forallb]. unfold ascii. apply orb_prop in E. destruct E as [E|E].
  - pose proof (always_safe_bound b E). lia.
  - apply mem_norm_safe in E. destruct E as [E _]. rewrite E. reflexivity.
Qed.

Lemma quote_bytes_ascii safe bs : Forall (fun b => b < 256) bs -> forallb ascii (quote_bytes safe bs) = true.
Proof.
  induction 1 as [|b bs Hb _ IH]; [reflexivity|]. unfold quote_bytes in *. cbn [flat_map].
  rewrite forallb_app, (quote_byte_ascii safe b Hb), IH. reflexivity.
Qed.

Lemma utf8_encode_bytes_forall s : valid_text s = true -> Forall (fun b => b < 256) (utf8_encode s).
Proof. intro Hv. apply Forall_forall. intros b Hb. exact (utf8_encode_bytes s b Hv Hb). Qed.

Lemma quote_ascii safe s q : quote safe s = Some q -> forallb ascii q = true.
Proof.
  unfold quote. destruct (valid_text s) eqn:Hv; [|discriminate]. intro H. inversion H; subst.
  apply quote_bytes_ascii. apply utf8_encode_bytes_forall. exact Hv.
Qed.

Lemma quote_defined safe s : valid_text s = true -> exists q, quote safe s = Some q.
Proof. intro Hv. unfold quote. rewrite Hv. eauto. Qed.

(* a character that quote leaves alone *)
Definition stays (safe : list N) (c : N) : bool := always_safe c || mem c (norm_safe safe).

Lemma stays_ascii safe c : stays safe c = true -> c < 128.
Proof.
  unfold stays. intro H. apply orb_prop in H. destruct H as [H|H]; [apply always_safe_bound; exact H|].
  apply mem_norm_safe in H. lia.
Qed.

Lemma quote_byte_stays safe b : b < 256 -> mem PCT safe = true -> forallb (stays safe) (quote_byte safe b) = true.
Proof.
  intros Hb Hp. unfold quote_byte. fold (stays safe b). destruct (stays safe b) eqn:E.
  - cbn [forallb]. rewrite E. reflexivity.
  - unfold pct. cbn [forallb]. unfold stays at 1.
    assert (Hm : mem PCT (norm_safe safe) = true) by (apply mem_norm_safe; split; [reflexivity|exact Hp]).
    rewrite Hm, orb_true_r.
    destruct (hex_digit_facts (b / 16)) as [_ [H1 _]]; [lia|].
    destruct (hex_digit_facts (b mod 16)) as [_ [H2 _]]; [lia|].
    unfold stays. rewrite H1, H2. reflexivity.
Qed.

Lemma quote_bytes_stays safe bs : Forall (fun b => b < 256) bs -> mem PCT safe = true ->
  forallb (stays safe) (quote_bytes safe bs) = true.
Proof.
  intros H Hp. induction H as [|b bs Hb _ IH]; [reflexivity|]. unfold quote_bytes in *. cbn [flat_map].
  rewrite forallb_app, (quote_byte_stays safe b Hb Hp), IH. reflexivity.
Qed.

Lemma quote_bytes_fixed safe q : forallb (stays safe) q = true -> quote_bytes safe q = q.
Proof.
  induction q as [|c q IH]; cbn [forallb]; intro H; [reflexivity|].
  apply andb_prop in H. destruct H as [Hc Hq]. unfold quote_bytes in *. cbn [flat_map].
  rewrite (IH Hq). unfold quote_byte. fold (stays safe c). rewrite Hc. reflexivity.
Qed.

Lemma ascii_valid_text q : forallb ascii q = true -> valid_text q = true.
Proof.
  unfold valid_text. apply forallb_impl. intros c Hc. unfold ascii in Hc. unfold valid_cp. lia.
Qed.

Lemma quote_idempotent safe s q : mem PCT safe = true -> quote safe s = Some q -> quote safe q = Some q.
Proof.
  intros Hp H. pose proof (quote_ascii safe s q H) as Ha.
  unfold quote in H. destruct (valid_text s) eqn:Hv; [|discriminate]. inversion H; subst q. clear H.
  set (q := quote_bytes safe (utf8_encode s)) in *.
  unfold quote. rewrite (ascii_valid_text q Ha). rewrite (utf8_encode_ascii q Ha).
  rewrite quote_bytes_fixed; [reflexivity|].
  apply quote_bytes_stays; [apply utf8_encode_bytes_forall; exact Hv|exact Hp].
Qed.

(* the percent sign is in every safe string the source passes to quote *)
Lemma safe_sets_have_pct :
  mem PCT i2u_safe_path && mem PCT i2u_safe_query && mem PCT i2u_safe_fragment
  && mem PCT i2u_safe_username && mem PCT i2u_safe_password
  && mem PCT gcu_safe_root && mem PCT gcu_safe_path && mem PCT gcu_safe_query = true.
Proof. vm_compute. reflexivity. Qed.

Lemma i2u_safe_has_pct c : mem PCT (i2u_safe c) = true.
Proof. destruct c; vm_compute; reflexivity. Qed.

Lemma i2u_ascii c s q : i2u c s = Some q -> forallb ascii q = true.
Proof. apply quote_ascii. Qed.

Lemma i2u_idempotent c s q : i2u c s = Some q -> i2u c q = Some q.
Proof. apply quote_idempotent. apply i2u_safe_has_pct. Qed.

Lemma i2u_example : i2u CPath [47; 233; 32; 37; 52; 49] = Some [47; 37; 67; 51; 37; 65; 57; 37; 50; 48; 37; 52; 49].
Proof. vm_compute. reflexivity. Qed.

(* ------------------------------------------------------------------ uri_to_iri: finite facts *)

Definition all_comps : list comp := [CPath; CQuery; CFragment; CUser; CPassword].
Lemma all_comps_in c : In c all_comps.
Proof. destruct c; cbn; tauto. Qed.

Definition pct_lower (b : N) : list N := map ascii_lower (pct b).

(* the fixpoint claim fails on the faithful model: a stray percent sign followed by an escape *)
Lemma u2i_fixpoint_refuted :
  exists s, u2i CPath s = [37; 52; 65] /\ u2i CPath (u2i CPath s) = [74]
            /\ u2i CPath (u2i CPath s) <> u2i CPath s.
Proof. exists [37; 52; 37; 52; 49]. vm_compute. repeat split; discriminate. Qed.

Lemma forallb_mem (P : N -> bool) l b : forallb P l = true -> mem b l = true -> P b = true.
Proof.
  intros H Hm. unfold mem in Hm. apply existsb_exists in Hm. destruct Hm as [x [Hx Hb]].
  apply N.eqb_eq in Hb. subst x. rewrite forallb_forall in H. apply H. exact Hx.
Qed.

(* every reserved escape of a component, in either hex case, between two letters, stays *)
Definition reserved_ok (c : comp) (b : N) : bool :=
  list_eqb (u2i c (120 :: pct b ++ [121])) (120 :: pct b ++ [121])
  && list_eqb (u2i c (120 :: pct_lower b ++ [121])) (120 :: pct_lower b ++ [121])
  && list_eqb (u2i c (pct b)) (pct b).

Lemma reserved_sweep : forallb (fun c => forallb (reserved_ok c) (u2i_keep c)) all_comps = true.
Proof. vm_compute. reflexivity. Qed.

Lemma u2i_reserved_stay_quoted c b : mem b (u2i_keep c) = true ->
  u2i c (120 :: pct b ++ [121]) = 120 :: pct b ++ [121]
  /\ u2i c (120 :: pct_lower b ++ [121]) = 120 :: pct_lower b ++ [121]
  /\ u2i c (pct b) = pct b.
Proof.
  intro Hm. pose proof reserved_sweep as H. rewrite forallb_forall in H. specialize (H c (all_comps_in c)).
  pose proof (forallb_mem _ _ b H Hm) as Hb. unfold reserved_ok in Hb.
  apply andb_prop in Hb. destruct Hb as [Hb H3]. apply andb_prop in Hb. destruct Hb as [H1 H2].
  repeat split; apply list_eqb_eq; assumption.
Qed.

(* a lone escaped byte that is not valid UTF-8 on its own stays quoted (128 .. 255) *)
Definition invalid_ok (c : comp) (b : N) : bool :=
  (b <? 128) || (list_eqb (u2i c (pct b)) (pct b) && list_eqb (u2i c (120 :: pct_lower b ++ [121])) (120 :: pct b ++ [121])).

Lemma invalid_sweep : forallb (fun c => forallb (invalid_ok c) all_bytes) all_comps = true.
Proof. vm_compute. reflexivity. Qed.

Lemma u2i_invalid_stay_quoted c b : 128 <= b -> b < 256 ->
  u2i c (pct b) = pct b /\ u2i c (120 :: pct_lower b ++ [121]) = 120 :: pct b ++ [121].
Proof.
  intros Hlo Hhi. pose proof invalid_sweep as H. rewrite forallb_forall in H. specialize (H c (all_comps_in c)).
  pose proof (sweep256 _ H b Hhi) as Hb. unfold invalid_ok in Hb.
  replace (b <? 128) with false in Hb by lia. cbn [orb] in Hb.
  apply andb_prop in Hb. destruct Hb as [H1 H2]. split; apply list_eqb_eq; assumption.
Qed.

(* the protected tables are ASCII and contain the percent sign *)
Lemma keep_tables_ascii : forallb (fun c => forallb ascii (u2i_keep c) && mem PCT (u2i_keep c)) all_comps = true.
Proof. vm_compute. reflexivity. Qed.

Lemma keep_ascii c b : mem b (u2i_keep c) = true -> b < 128.
Proof.
  intro Hm. pose proof keep_tables_ascii as H. rewrite forallb_forall in H. specialize (H c (all_comps_in c)).
  apply andb_prop in H. destruct H as [H _]. pose proof (forallb_mem _ _ b H Hm) as Hb. unfold ascii in Hb. lia.
Qed.

Lemma keep_has_pct c : mem PCT (u2i_keep c) = true.
Proof.
  pose proof keep_tables_ascii as H. rewrite forallb_forall in H. specialize (H c (all_comps_in c)).
  apply andb_prop in H. tauto.
Qed.

(* ------------------------------------------------------------------ uri_to_iri after iri_to_uri *)

Lemma scan_nonpct tbl c0 r text : (c0 =? PCT) = false ->
  u2i_scan tbl (c0 :: r) text = u2i_scan tbl r (c0 :: text).
Proof.
  intro H. cbn [u2i_scan]. destruct r as [|h1 [|h2 r2]]; try reflexivity.
  unfold protected. rewrite H. reflexivity.
Qed.

Lemma pct_value b : b < 256 ->
  hex_val (hex_digit (b / 16)) * 16 + hex_val (hex_digit (b mod 16)) = b.
Proof.
  intro H. destruct (hex_digit_facts (b / 16)) as [_ [_ [_ [-> _]]]]; [lia|].
  destruct (hex_digit_facts (b mod 16)) as [_ [_ [_ [-> _]]]]; lia.
Qed.

Lemma protected_pct tbl b : b < 256 ->
  protected tbl PCT (hex_digit (b / 16)) (hex_digit (b mod 16)) = mem b tbl.
Proof.
  intro H. unfold protected. rewrite (pct_value b H), N.eqb_refl.
  destruct (hex_digit_facts (b / 16)) as [-> _]; [lia|].
  destruct (hex_digit_facts (b mod 16)) as [-> _]; [lia|]. reflexivity.
Qed.

Lemma scan_unfold3 tbl c h1 h2 r2 text :
  u2i_scan tbl (c :: h1 :: h2 :: r2) text =
  if protected tbl c h1 h2 then unquote_rq (rev text) ++ c :: h1 :: h2 :: u2i_scan tbl r2 []
  else u2i_scan tbl (h1 :: h2 :: r2) (c :: text).
Proof. reflexivity. Qed.

Lemma scan_triple_unprotected tbl b r text : b < 256 -> mem b tbl = false ->
  u2i_scan tbl (pct b ++ r) text = u2i_scan tbl r (rev (pct b) ++ text).
Proof.
  intros Hb Hm. unfold pct. cbn [app rev]. rewrite scan_unfold3, (protected_pct tbl b Hb), Hm.
  destruct (hex_digit_facts (b / 16)) as [_ [_ [_ [_ H1]]]]; [lia|].
  destruct (hex_digit_facts (b mod 16)) as [_ [_ [_ [_ H2]]]]; [lia|].
  rewrite (scan_nonpct tbl _ _ _ H1), (scan_nonpct tbl _ _ _ H2). reflexivity.
Qed.

Lemma scan_triple_protected tbl b r text : b < 256 -> mem b tbl = true ->
  u2i_scan tbl (pct b ++ r) text = unquote_rq (rev text) ++ pct b ++ u2i_scan tbl r [].
Proof.
  intros Hb Hm. unfold pct. cbn [app]. rewrite scan_unfold3, (protected_pct tbl b Hb), Hm. reflexivity.
Qed.

Lemma unquote_rq_aux_ascii x : forall run, forallb ascii x = true ->
  unquote_rq_aux x run = unquote_run (rev run ++ x).
Proof.
  induction x as [|c r IH]; intros run H; cbn [unquote_rq_aux].
  - rewrite app_nil_r. reflexivity.
  - cbn [forallb] in H. apply andb_prop in H. destruct H as [Hc Hr]. unfold ascii in Hc. rewrite Hc.
    rewrite (IH _ Hr). cbn [rev]. rewrite <- app_assoc. reflexivity.
Qed.

Lemma unquote_rq_ascii x : forallb ascii x = true -> unquote_rq x = unquote_run x.
Proof. intro H. unfold unquote_rq. rewrite (unquote_rq_aux_ascii x [] H). reflexivity. Qed.

Lemma unq_bytes_nonpct c r : (c =? PCT) = false -> unq_bytes (c :: r) = c :: unq_bytes r.
Proof. intro H. cbn [unq_bytes]. rewrite H. reflexivity. Qed.

Lemma unq_bytes_pct b r : b < 256 -> unq_bytes (pct b ++ r) = b :: unq_bytes r.
Proof.
  intro H. unfold pct. cbn [app]. cbn [unq_bytes]. rewrite N.eqb_refl.
  destruct (hex_digit_facts (b / 16)) as [-> _]; [lia|].
  destruct (hex_digit_facts (b mod 16)) as [-> _]; [lia|].
  cbn [andb]. rewrite (pct_value b H). reflexivity.
Qed.

Lemma quote_byte_cases safe b :
  (quote_byte safe b = [b] /\ stays safe b = true) \/ (quote_byte safe b = pct b /\ stays safe b = false).
Proof. unfold quote_byte. fold (stays safe b). destruct (stays safe b); auto. Qed.

Lemma unq_bytes_quote safe bs : Forall (fun b => b < 256) bs -> mem PCT bs = false ->
  unq_bytes (quote_bytes safe bs) = bs.
Proof.
  induction 1 as [|b bs Hb _ IH]; intro Hm; [reflexivity|].
  unfold mem in Hm. cbn [existsb] in Hm. apply orb_false_elim in Hm. destruct Hm as [Hb0 Hm].
  unfold quote_bytes in *. cbn [flat_map]. destruct (quote_byte_cases safe b) as [[-> _]|[-> _]].
  - cbn [app]. rewrite unq_bytes_nonpct by (rewrite N.eqb_sym; exact Hb0). rewrite (IH Hm). reflexivity.
  - rewrite (unq_bytes_pct b _ Hb), (IH Hm). reflexivity.
Qed.

Lemma dec_requote_enc1 c rest :
  valid_cp c = true ->
  utf8_decode_requote (enc1 c ++ rest) = c :: utf8_decode_requote rest.
Proof.
  intro Hv. unfold valid_cp in Hv. unfold enc1.
  destruct (c <? 128) eqn:H1.
  { cbn [app utf8_decode_requote]. rewrite H1. reflexivity. }
  destruct (c <? 2048) eqn:H2.
  { cbn [app utf8_decode_requote].
    replace (192 + c / 64 <? 128) with false by lia.
    replace (192 + c / 64 <? 194) with false by lia.
    replace (192 + c / 64 <? 224) with true by lia.
    unfold is_cont.
    replace ((128 <=? 128 + c mod 64) && (128 + c mod 64 <? 192)) with true by lia.
    replace ((192 + c / 64 - 192) * 64 + (128 + c mod 64 - 128)) with c by lia.
    reflexivity. }
  destruct (c <? 65536) eqn:H3.
  { cbn [app utf8_decode_requote].
    replace (224 + c / 4096 <? 128) with false by lia.
    replace (224 + c / 4096 <? 194) with false by lia.
    replace (224 + c / 4096 <? 224) with false by lia.
    replace (224 + c / 4096 <? 240) with true by lia.
    assert (Hs : second_ok (224 + c / 4096) (128 + (c / 64) mod 64) = true).
    { unfold second_ok, is_cont.
      destruct (224 + c / 4096 =? 224) eqn:E1; [lia|].
      destruct (224 + c / 4096 =? 237) eqn:E2; [lia|].
      destruct (224 + c / 4096 =? 240) eqn:E3; [lia|].
      destruct (224 + c / 4096 =? 244) eqn:E4; lia. }
    rewrite Hs. unfold is_cont.
    replace ((128 <=? 128 + c mod 64) && (128 + c mod 64 <? 192)) with true by lia.
    replace ((224 + c / 4096 - 224) * 4096 + (128 + (c / 64) mod 64 - 128) * 64
             + (128 + c mod 64 - 128)) with c by lia.
    reflexivity. }
  cbn [app utf8_decode_requote].
  replace (240 + c / 262144 <? 128) with false by lia.
  replace (240 + c / 262144 <? 194) with false by lia.
  replace (240 + c / 262144 <? 224) with false by lia.
  replace (240 + c / 262144 <? 240) with false by lia.
  replace (240 + c / 262144 <? 245) with true by lia.
  assert (Hs : second_ok (240 + c / 262144) (128 + (c / 4096) mod 64) = true).
  { unfold second_ok, is_cont.
    destruct (240 + c / 262144 =? 224) eqn:E1; [lia|].
    destruct (240 + c / 262144 =? 237) eqn:E2; [lia|].
    destruct (240 + c / 262144 =? 240) eqn:E3; [lia|].
    destruct (240 + c / 262144 =? 244) eqn:E4; lia. }
  rewrite Hs. unfold is_cont.
  replace ((128 <=? 128 + (c / 64) mod 64) && (128 + (c / 64) mod 64 <? 192)) with true by lia.
  replace ((128 <=? 128 + c mod 64) && (128 + c mod 64 <? 192)) with true by lia.
  replace ((240 + c / 262144 - 240) * 262144 + (128 + (c / 4096) mod 64 - 128) * 4096
           + (128 + (c / 64) mod 64 - 128) * 64 + (128 + c mod 64 - 128)) with c by lia.
  reflexivity.
Qed.

Lemma dec_requote_encode s : valid_text s = true -> utf8_decode_requote (utf8_encode s) = s.
Proof.
  unfold valid_text, utf8_encode. induction s as [|c s IH]; intro H; [reflexivity|].
  cbn [forallb] in H. apply andb_prop in H. destruct H as [Hc Hs].
  cbn [flat_map]. rewrite dec_requote_enc1 by exact Hc. rewrite IH by exact Hs. reflexivity.
Qed.

Lemma utf8_encode_no_pct w : mem PCT w = false -> mem PCT (utf8_encode w) = false.
Proof.
  intro H. destruct (mem PCT (utf8_encode w)) eqn:E; [|reflexivity]. exfalso.
  unfold mem in E. apply existsb_exists in E. destruct E as [b [Hb Hpb]]. apply N.eqb_eq in Hpb. subst b.
  unfold utf8_encode in Hb. apply in_flat_map in Hb. destruct Hb as [c [Hc Hin]].
  destruct (enc1_ascii c PCT Hin) as [_ Hcp]; [unfold PCT; lia|]. subst c.
  assert (Hm : mem PCT w = true) by (unfold mem; apply existsb_exists; exists PCT; split; [exact Hc|apply N.eqb_refl]).
  congruence.
Qed.

Definition Q (safe : list N) (w : str) : str := quote_bytes safe (utf8_encode w).

Lemma Q_app safe a b : Q safe (a ++ b) = Q safe a ++ Q safe b.
Proof. unfold Q, quote_bytes. rewrite utf8_encode_app, flat_map_app. reflexivity. Qed.

Lemma Q_ascii safe w : valid_text w = true -> forallb ascii (Q safe w) = true.
Proof. intro H. apply quote_bytes_ascii. apply utf8_encode_bytes_forall. exact H. Qed.

Lemma unquote_run_Q safe w : valid_text w = true -> mem PCT w = false -> unquote_run (Q safe w) = w.
Proof.
  intros Hv Hp. unfold unquote_run, Q.
  rewrite unq_bytes_quote; [apply dec_requote_encode; exact Hv|apply utf8_encode_bytes_forall; exact Hv|].
  apply utf8_encode_no_pct. exact Hp.
Qed.

Lemma valid_text_app a b : valid_text (a ++ b) = valid_text a && valid_text b.
Proof. unfold valid_text. apply forallb_app. Qed.

Lemma mem_app x (a b : list N) : mem x (a ++ b) = mem x a || mem x b.
Proof. unfold mem. apply existsb_app. Qed.

Lemma enc1_high c : valid_cp c = true -> (c <? 128) = false ->
  Forall (fun b => 128 <= b /\ b < 256) (enc1 c).
Proof.
  intros Hv Hc. apply Forall_forall. intros b Hb. split; [|exact (enc1_bytes c b Hv Hb)].
  destruct (b <? 128) eqn:E; [|lia]. destruct (enc1_ascii c b Hb) as [_ H]; [lia|]. subst c. congruence.
Qed.

Section Component.
  Variable safe tbl : list N.
  Hypothesis tbl_ascii : forall b, mem b tbl = true -> b < 128.

  Definition qk (ch : N) : bool := (ch <? 128) && negb (stays safe ch) && mem ch tbl.
  Definition normal (s : str) : str := flat_map (fun ch => if qk ch then pct ch else [ch]) s.

  Lemma scan_high_bytes bs r text : Forall (fun b => 128 <= b /\ b < 256) bs ->
    u2i_scan tbl (quote_bytes safe bs ++ r) text = u2i_scan tbl r (rev (quote_bytes safe bs) ++ text).
  Proof.
    intro H. revert text. induction H as [|b bs [Hlo Hhi] _ IH]; intro text; [reflexivity|].
    unfold quote_bytes in *. cbn [flat_map].
    assert (Hs : stays safe b = false).
    { destruct (stays safe b) eqn:E; [|reflexivity]. pose proof (stays_ascii safe b E). lia. }
    assert (Hm : mem b tbl = false).
    { destruct (mem b tbl) eqn:E; [|reflexivity]. pose proof (tbl_ascii b E). lia. }
    destruct (quote_byte_cases safe b) as [[_ Hc]|[-> _]]; [congruence|].
    rewrite <- app_assoc, (scan_triple_unprotected tbl b _ _ Hhi Hm), IH, rev_app_distr, <- app_assoc.
    reflexivity.
  Qed.

  Lemma scan_Q w : forall w0,
    valid_text w = true -> mem PCT w = false -> valid_text w0 = true -> mem PCT w0 = false ->
    u2i_scan tbl (Q safe w) (rev (Q safe w0)) = w0 ++ normal w.
  Proof.
    induction w as [|ch w IH]; intros w0 Hv Hp Hv0 Hp0.
    - cbn [u2i_scan Q utf8_encode flat_map quote_bytes normal]. rewrite rev_involutive, app_nil_r.
      rewrite unquote_rq_ascii by (apply Q_ascii; exact Hv0). apply unquote_run_Q; assumption.
    - unfold valid_text in Hv. cbn [forallb] in Hv. apply andb_prop in Hv. destruct Hv as [Hc Hv].
      unfold mem in Hp. cbn [existsb] in Hp. apply orb_false_elim in Hp. destruct Hp as [Hcp Hp].
      change (ch :: w) with ([ch] ++ w). rewrite Q_app.
      assert (Hv1 : valid_text (w0 ++ [ch]) = true).
      { rewrite valid_text_app, Hv0. unfold valid_text. cbn [forallb]. rewrite Hc. reflexivity. }
      assert (Hp1 : mem PCT (w0 ++ [ch]) = false).
      { rewrite mem_app, Hp0. unfold mem. cbn [existsb]. rewrite Hcp. reflexivity. }
      assert (Hstep : forall t, Q safe [ch] = t -> (forall r text, u2i_scan tbl (t ++ r) text = u2i_scan tbl r (rev t ++ text)) ->
                      qk ch = false ->
                      u2i_scan tbl (t ++ Q safe w) (rev (Q safe w0)) = w0 ++ normal ([ch] ++ w)).
      { intros t Ht Hpush Hq. rewrite Hpush, <- rev_app_distr, <- Ht, <- Q_app.
        rewrite (IH (w0 ++ [ch]) Hv Hp Hv1 Hp1). cbn [app normal flat_map]. fold (normal w).
        rewrite Hq, <- app_assoc. reflexivity. }
      destruct (ch <? 128) eqn:Ea.
      + (* ASCII character: one byte *)
        assert (HQ : Q safe [ch] = quote_byte safe ch).
        { unfold Q, quote_bytes, utf8_encode. cbn [flat_map]. unfold enc1. rewrite Ea. cbn [flat_map app].
          rewrite app_nil_r. reflexivity. }
        unfold quote_byte in HQ. fold (stays safe ch) in HQ. destruct (stays safe ch) eqn:Es.
        * rewrite HQ. apply (Hstep [ch]); [exact HQ| |unfold qk; rewrite Es, andb_false_r; reflexivity].
          intros r text. cbn [app rev]. apply scan_nonpct. rewrite N.eqb_sym. exact Hcp.
        * destruct (mem ch tbl) eqn:Em.
          -- rewrite HQ.
             rewrite (scan_triple_protected tbl ch _ _ ltac:(lia) Em), rev_involutive.
             rewrite unquote_rq_ascii by (apply Q_ascii; exact Hv0).
             rewrite (unquote_run_Q safe w0 Hv0 Hp0).
             change [] with (rev (Q safe [])) at 1.
             rewrite (IH [] Hv Hp eq_refl eq_refl). cbn [app normal flat_map]. fold (normal w).
             unfold qk. rewrite Ea, Es, Em. reflexivity.
          -- rewrite HQ. apply (Hstep (pct ch)); [exact HQ| |unfold qk; rewrite Em, andb_false_r; reflexivity].
             intros r text. apply scan_triple_unprotected; [lia|exact Em].
      + (* non-ASCII character: all its bytes are quoted and none is protected *)
        apply Hstep; [reflexivity| |unfold qk; rewrite Ea; reflexivity].
        intros r text. unfold Q, utf8_encode. cbn [flat_map]. rewrite app_nil_r.
        apply scan_high_bytes. apply enc1_high; assumption.
  Qed.

  (* text without a percent sign is left alone by unquote *)
  Lemma unq_bytes_no_pct x : mem PCT x = false -> unq_bytes x = x.
  Proof.
    unfold mem. induction x as [|c r IH]; cbn [existsb]; intro H; [reflexivity|].
    apply orb_false_elim in H. destruct H as [Hc Hr]. rewrite unq_bytes_nonpct by (rewrite N.eqb_sym; exact Hc).
    rewrite (IH Hr). reflexivity.
  Qed.

  Lemma dec_requote_ascii x : forallb ascii x = true -> utf8_decode_requote x = x.
  Proof.
    induction x as [|c r IH]; cbn [forallb]; intro H; [reflexivity|].
    apply andb_prop in H. destruct H as [Hc Hr]. unfold ascii in Hc. cbn [utf8_decode_requote].
    rewrite Hc, (IH Hr). reflexivity.
  Qed.

  Lemma unquote_rq_aux_no_pct t : forall run, mem PCT t = false ->
    forallb ascii run = true -> mem PCT run = false ->
    unquote_rq_aux t run = rev run ++ t.
  Proof.
    induction t as [|c r IH]; intros run Ht Ha Hr.
    - cbn [unquote_rq_aux]. rewrite app_nil_r. unfold unquote_run.
      rewrite unq_bytes_no_pct.
      + apply dec_requote_ascii. rewrite forallb_forall in *. intros x Hx. apply Ha. apply in_rev. exact Hx.
      + destruct (mem PCT (rev run)) eqn:E; [|reflexivity]. unfold mem in *. apply existsb_exists in E.
        destruct E as [x [Hx Hpx]]. apply in_rev in Hx.
        assert (existsb (N.eqb PCT) run = true) by (apply existsb_exists; eauto). congruence.
    - unfold mem in Ht. cbn [existsb] in Ht. apply orb_false_elim in Ht. destruct Ht as [Hc Ht].
      cbn [unquote_rq_aux]. destruct (c <? 128) eqn:Ec.
      + rewrite IH; [cbn [rev]; rewrite <- app_assoc; reflexivity|exact Ht| |].
        * cbn [forallb]. unfold ascii at 1. rewrite Ec. exact Ha.
        * unfold mem. cbn [existsb]. rewrite Hc. exact Hr.
      + rewrite (IH [] Ht eq_refl eq_refl). cbn [rev app]. unfold unquote_run.
        rewrite unq_bytes_no_pct.
        * rewrite dec_requote_ascii; [reflexivity|].
          rewrite forallb_forall in *. intros x Hx. apply Ha. apply in_rev. exact Hx.
        * destruct (mem PCT (rev run)) eqn:E; [|reflexivity]. unfold mem in *. apply existsb_exists in E.
          destruct E as [x [Hx Hpx]]. apply in_rev in Hx.
          assert (existsb (N.eqb PCT) run = true) by (apply existsb_exists; eauto). congruence.
  Qed.

  Lemma unquote_rq_no_pct t : mem PCT t = false -> unquote_rq t = t.
  Proof. intro H. unfold unquote_rq. rewrite (unquote_rq_aux_no_pct t [] H eq_refl eq_refl). reflexivity. Qed.

  (* the normal form is a fixpoint of the unquoter *)
  Lemma scan_normal w : forall t0, mem PCT w = false -> mem PCT t0 = false ->
    u2i_scan tbl (normal w) (rev t0) = t0 ++ normal w.
  Proof.
    induction w as [|ch w IH]; intros t0 Hp Hp0.
    - cbn [normal flat_map u2i_scan]. rewrite rev_involutive, app_nil_r. apply unquote_rq_no_pct. exact Hp0.
    - unfold mem in Hp. cbn [existsb] in Hp. apply orb_false_elim in Hp. destruct Hp as [Hcp Hp].
      cbn [normal flat_map]. fold (normal w). destruct (qk ch) eqn:Eq.
      + unfold qk in Eq. apply andb_prop in Eq. destruct Eq as [Eq Em]. apply andb_prop in Eq. destruct Eq as [Ea _].
        rewrite (scan_triple_protected tbl ch _ _ ltac:(lia) Em), rev_involutive, (unquote_rq_no_pct t0 Hp0).
        change [] with (@rev N []) at 1. rewrite (IH [] Hp eq_refl). reflexivity.
      + cbn [app]. rewrite scan_nonpct by (rewrite N.eqb_sym; exact Hcp).
        change (ch :: rev t0) with (rev [ch] ++ rev t0). rewrite <- rev_app_distr.
        rewrite IH; [rewrite <- app_assoc; reflexivity|exact Hp|].
        rewrite mem_app, Hp0. unfold mem. cbn [existsb]. rewrite Hcp. reflexivity.
  Qed.
End Component.

Lemma normal_iri_normal c s : normal (i2u_safe c) (u2i_keep c) s = iri_normal c s.
Proof. reflexivity. Qed.

(* iri_to_uri then uri_to_iri: the identity up to the characters that are quoted and kept *)
Lemma u2i_of_i2u c s : valid_text s = true -> mem PCT s = false ->
  exists q, i2u c s = Some q /\ u2i c q = iri_normal c s.
Proof.
  intros Hv Hp. exists (Q (i2u_safe c) s). split.
  - unfold i2u, quote. rewrite Hv. reflexivity.
  - unfold u2i, unquote_partial.
    change [] with (rev (Q (i2u_safe c) [])) at 1.
    rewrite (scan_Q (i2u_safe c) (u2i_keep c) (keep_ascii c) s [] Hv Hp eq_refl eq_refl). reflexivity.
Qed.

Lemma u2i_normal_fixpoint c s : mem PCT s = false -> u2i c (iri_normal c s) = iri_normal c s.
Proof.
  intro Hp. unfold u2i, unquote_partial. change [] with (@rev N []) at 1.
  rewrite <- normal_iri_normal. rewrite (scan_normal (i2u_safe c) (u2i_keep c) (keep_ascii c) s [] Hp eq_refl). reflexivity.
Qed.

Lemma u2i_fixpoint_partial c s q : valid_text s = true -> mem PCT s = false -> i2u c s = Some q ->
  u2i c (u2i c q) = u2i c q.
Proof.
  intros Hv Hp Hq. destruct (u2i_of_i2u c s Hv Hp) as [q' [Hq' Hn]]. rewrite Hq in Hq'. inversion Hq'; subst q'.
  rewrite Hn. apply u2i_normal_fixpoint. exact Hp.
Qed.

(* and iri_to_uri undoes it: the round trip URI -> IRI -> URI is the identity on such URIs *)
Lemma u2i_example :
  u2i CPath [47; 37; 67; 51; 37; 65; 57; 37; 50; 48; 37; 50; 70; 37; 52; 49] = [47; 233; 37; 50; 48; 37; 50; 70; 65].
Proof. vm_compute. reflexivity. Qed.

(* statements as they appear in Props.v *)
Lemma quote_total_ascii safe s :
  (valid_text s = true -> exists q, quote safe s = Some q)
  /\ (forall q, quote safe s = Some q -> forallb ascii q = true).
Proof. split; [exact (quote_defined safe s)|exact (quote_ascii safe s)]. Qed.

Lemma i2u_component c s q : i2u c s = Some q -> forallb ascii q = true /\ i2u c q = Some q.
Proof. intro H. split; [exact (i2u_ascii c s q H)|exact (i2u_idempotent c s q H)]. Qed.

Lemma i2u_u2i_partial c s : valid_text s = true -> mem PCT s = false ->
  (exists q, i2u c s = Some q /\ u2i c q = iri_normal c s)
  /\ u2i c (iri_normal c s) = iri_normal c s.
Proof. intros Hv Hp. split; [exact (u2i_of_i2u c s Hv Hp)|exact (u2i_normal_fixpoint c s Hp)]. Qed.

(* ------------------------------------------------------------------ get_host: default port *)

Lemma starts_with_spec p : forall s, starts_with p s = true -> exists t, s = p ++ t.
Proof.
  induction p as [|x p IH]; intros s H; [exists s; reflexivity|].
  destruct s as [|y s]; [discriminate|]. cbn [starts_with] in H. apply andb_prop in H. destruct H as [Hx Hp].
  apply N.eqb_eq in Hx. subst y. destruct (IH s Hp) as [t ->]. exists t. reflexivity.
Qed.

Lemma starts_with_app p t : starts_with p (p ++ t) = true.
Proof. induction p as [|x p IH]; [reflexivity|]. cbn [app starts_with]. rewrite N.eqb_refl, IH. reflexivity. Qed.

Lemma ends_with_spec suf s : ends_with suf s = true -> exists h, s = h ++ suf.
Proof.
  unfold ends_with. intro H. destruct (starts_with_spec _ _ H) as [t Ht].
  exists (rev t). rewrite <- (rev_involutive s), Ht, rev_app_distr, rev_involutive. reflexivity.
Qed.

Lemma ends_with_app h suf : ends_with suf (h ++ suf) = true.
Proof. unfold ends_with. rewrite rev_app_distr. apply starts_with_app. Qed.

Lemma cut_suffix (h suf : list N) : firstn (length (h ++ suf) - length suf) (h ++ suf) = h.
Proof.
  rewrite app_length. replace (length h + length suf - length suf)%nat with (length h + 0)%nat by lia.
  rewrite firstn_app_2. cbn [firstn]. apply app_nil_r.
Qed.

Definition rule_wf (r : list (list N) * list N * nat) : bool := Nat.eqb (length (snd (fst r))) (snd r).

(* whatever the rules: the result is the host itself, or the host without the suffix of a rule
   whose scheme set holds the scheme -- nothing else is ever cut *)
Lemma strip_rules_sound rules scheme host : forallb rule_wf rules = true ->
  strip_rules rules scheme host = host
  \/ exists schemes suf k, In (schemes, suf, k) rules /\ existsb (list_eqb scheme) schemes = true
                          /\ host = strip_rules rules scheme host ++ suf.
Proof.
  induction rules as [|[[schemes suf] k] r IH]; intro Hwf; [left; reflexivity|].
  cbn [forallb] in Hwf. apply andb_prop in Hwf. destruct Hwf as [Hr Hwf]. cbn [strip_rules].
  destruct (existsb (list_eqb scheme) schemes && ends_with suf host) eqn:E.
  - right. apply andb_prop in E. destruct E as [Es Ee]. exists schemes, suf, k.
    split; [left; reflexivity|]. split; [exact Es|].
    destruct (ends_with_spec _ _ Ee) as [h ->]. unfold rule_wf in Hr. cbn [fst snd] in Hr.
    apply Nat.eqb_eq in Hr. subst k. rewrite cut_suffix. reflexivity.
  - destruct (IH Hwf) as [H|[s2 [suf2 [k2 [Hin [Hs Hh]]]]]]; [left; exact H|].
    right. exists s2, suf2, k2. split; [right; exact Hin|]. split; assumption.
Qed.

(* the rules of the current source are the two of the property, well-formed (k = len suffix) *)
Definition HTTP : str := [104; 116; 116; 112].
Definition WS : str := [119; 115].
Definition HTTPS : str := [104; 116; 116; 112; 115].
Definition WSS : str := [119; 115; 115].
Definition P80 : str := [58; 56; 48].
Definition P443 : str := [58; 52; 52; 51].

Lemma port_rules_pinned : default_port_rules = [([HTTP; WS], P80, 3%nat); ([HTTPS; WSS], P443, 4%nat)].
Proof. reflexivity. Qed.

Lemma existsb_two scheme a b : existsb (list_eqb scheme) [a; b] = true -> scheme = a \/ scheme = b.
Proof.
  cbn [existsb]. rewrite orb_false_r. intro H. apply orb_prop in H.
  destruct H as [H|H]; apply list_eqb_eq in H; auto.
Qed.

Lemma strip_default_port_sound scheme host :
  let r := strip_default_port scheme host in
  r = host
  \/ (host = r ++ P80 /\ (scheme = HTTP \/ scheme = WS))
  \/ (host = r ++ P443 /\ (scheme = HTTPS \/ scheme = WSS)).
Proof.
  cbv zeta. unfold strip_default_port.
  destruct (strip_rules_sound default_port_rules scheme host eq_refl) as [H|[schemes [suf [k [Hin [Hs Hh]]]]]];
    [left; exact H|]. right. rewrite port_rules_pinned in Hin.
  destruct Hin as [Hin|[Hin|[]]]; inversion Hin; subst schemes suf k.
  - left. split; [exact Hh|apply existsb_two; exact Hs].
  - right. split; [exact Hh|apply existsb_two; exact Hs].
Qed.

(* and the default port is removed when it is there *)
Lemma strip_default_port_complete h :
  strip_default_port HTTP (h ++ P80) = h /\ strip_default_port WS (h ++ P80) = h
  /\ strip_default_port HTTPS (h ++ P443) = h /\ strip_default_port WSS (h ++ P443) = h.
Proof.
  unfold strip_default_port. rewrite port_rules_pinned.
  assert (E80 : ends_with P80 (h ++ P80) = true) by apply ends_with_app.
  assert (E443 : ends_with P443 (h ++ P443) = true) by apply ends_with_app.
  repeat split.
  - cbn [strip_rules]. replace (existsb (list_eqb HTTP) [HTTP; WS]) with true by (vm_compute; reflexivity).
    rewrite E80. cbn [andb]. apply (cut_suffix h P80).
  - cbn [strip_rules]. replace (existsb (list_eqb WS) [HTTP; WS]) with true by (vm_compute; reflexivity).
    rewrite E80. cbn [andb]. apply (cut_suffix h P80).
  - cbn [strip_rules]. replace (existsb (list_eqb HTTPS) [HTTP; WS]) with false by (vm_compute; reflexivity).
    replace (existsb (list_eqb HTTPS) [HTTPS; WSS]) with true by (vm_compute; reflexivity).
    rewrite E443. cbn [andb]. apply (cut_suffix h P443).
  - cbn [strip_rules]. replace (existsb (list_eqb WSS) [HTTP; WS]) with false by (vm_compute; reflexivity).
    replace (existsb (list_eqb WSS) [HTTPS; WSS]) with true by (vm_compute; reflexivity).
    rewrite E443. cbn [andb]. apply (cut_suffix h P443).
Qed.

(* 10.0.0.80:80 under http keeps its last octet *)
Lemma get_host_example :
  get_host HTTP (Some [49; 48; 46; 48; 46; 48; 46; 56; 48; 58; 56; 48]) None = [49; 48; 46; 48; 46; 48; 46; 56; 48]
  /\ get_host HTTPS None (Some ([50; 48; 48; 49; 58; 58; 56], Some [52; 52; 51])) = [91; 50; 48; 48; 49; 58; 58; 56; 93].
Proof. vm_compute. split; reflexivity. Qed.

(* ------------------------------------------------------------------ get_current_url re-splits *)

Lemma find_sub_unfold p s :
  find_sub p s = if starts_with p s then Some ([], skipn (length p) s)
                 else match s with
                      | [] => None
                      | y :: r => match find_sub p r with Some (a, b) => Some (y :: a, b) | None => None end
                      end.
Proof. destruct s; reflexivity. Qed.

Lemma skipn_app_len (p t : list N) : skipn (length p) (p ++ t) = t.
Proof. induction p as [|x p IH]; [reflexivity|]. cbn [length app skipn]. exact IH. Qed.

Lemma find_sub_scheme a p' b : mem 58 a = false ->
  find_sub (58 :: p') (a ++ 58 :: p' ++ b) = Some (a, b).
Proof.
  unfold mem. induction a as [|x a IH]; cbn [existsb]; intro H.
  - cbn [app]. rewrite find_sub_unfold. change (58 :: p' ++ b) with ((58 :: p') ++ b).
    rewrite starts_with_app, skipn_app_len. reflexivity.
  - apply orb_false_elim in H. destruct H as [Hx Ha]. rewrite find_sub_unfold.
    change ((x :: a) ++ 58 :: p' ++ b) with (x :: (a ++ 58 :: p' ++ b)). cbn [starts_with].
    rewrite Hx. cbn [andb]. rewrite (IH Ha). reflexivity.
Qed.

Lemma take_while_all (p : N -> bool) k : forallb p k = true -> take_while p k = k.
Proof.
  induction k as [|a k IH]; cbn [forallb take_while]; intro H; [reflexivity|].
  apply andb_prop in H. destruct H as [-> Hk]. rewrite (IH Hk). reflexivity.
Qed.

Lemma drop_while_all (p : N -> bool) k : forallb p k = true -> drop_while p k = [].
Proof.
  induction k as [|a k IH]; cbn [forallb drop_while]; intro H; [reflexivity|].
  apply andb_prop in H. destruct H as [-> Hk]. exact (IH Hk).
Qed.

(* a character that quote never emits: not kept, not the percent sign, not a hex digit *)
Lemma quote_bytes_avoids safe bs x : Forall (fun b => b < 256) bs ->
  stays safe x = false -> (x =? PCT) = false -> is_hex x = false ->
  forallb (fun c => negb (c =? x)) (quote_bytes safe bs) = true.
Proof.
  intros H Hs Hp Hh. induction H as [|b bs Hb _ IH]; [reflexivity|].
  unfold quote_bytes in *. cbn [flat_map]. rewrite forallb_app, IH, andb_true_r.
  destruct (quote_byte_cases safe b) as [[-> Hsb]|[-> _]].
  - cbn [forallb]. destruct (b =? x) eqn:E; [|reflexivity]. apply N.eqb_eq in E. subst b. congruence.
  - unfold pct. cbn [forallb].
    destruct (hex_digit_facts (b / 16)) as [H1 _]; [lia|].
    destruct (hex_digit_facts (b mod 16)) as [H2 _]; [lia|].
    rewrite N.eqb_sym, Hp.
    destruct (hex_digit (b / 16) =? x) eqn:E1; [apply N.eqb_eq in E1; congruence|].
    destruct (hex_digit (b mod 16) =? x) eqn:E2; [apply N.eqb_eq in E2; congruence|]. reflexivity.
Qed.

(* the delimiters urlsplit looks for are never emitted by the three quote calls of
   get_current_url: no question mark or hash in root and path, no hash in the query *)
Lemma gcu_safe_facts :
  stays gcu_safe_root 63 || stays gcu_safe_root 35 || stays gcu_safe_path 63 || stays gcu_safe_path 35
  || stays gcu_safe_query 35 || negb (stays gcu_safe_root 47) = false.
Proof. vm_compute. reflexivity. Qed.

Lemma forallb_and (p q : N -> bool) l : forallb p l = true -> forallb q l = true ->
  forallb (fun c => p c && q c) l = true.
Proof.
  induction l as [|a l IH]; cbn [forallb]; intros Hp Hq; [reflexivity|].
  apply andb_prop in Hp. apply andb_prop in Hq. destruct Hp as [-> Hp]. destruct Hq as [-> Hq]. exact (IH Hp Hq).
Qed.

Lemma forallb_ext' (p q : N -> bool) l : (forall c, p c = q c) -> forallb p l = forallb q l.
Proof. intro H. induction l as [|x r IH]; cbn [forallb]; [reflexivity|]. rewrite H, IH. reflexivity. Qed.

Lemma quote_no_qf safe s q : stays safe 63 = false -> stays safe 35 = false -> quote safe s = Some q ->
  forallb not_qf q = true.
Proof.
  intros H63 H35 H. unfold quote in H. destruct (valid_text s) eqn:Hv; [|discriminate]. inversion H; subst q.
  pose proof (quote_bytes_avoids safe _ 63 (utf8_encode_bytes_forall s Hv) H63 eq_refl eq_refl) as A.
  pose proof (quote_bytes_avoids safe _ 35 (utf8_encode_bytes_forall s Hv) H35 eq_refl eq_refl) as B.
  pose proof (forallb_and _ _ _ A B) as C. erewrite forallb_ext'; [exact C|].
  intro c. unfold not_qf. rewrite negb_orb. reflexivity.
Qed.

Lemma quote_head_slash safe r q : stays safe 47 = true -> quote safe (47 :: r) = Some q -> exists q', q = 47 :: q'.
Proof.
  intros Hs H. unfold quote in H. destruct (valid_text (47 :: r)); [|discriminate]. inversion H; subst q.
  unfold utf8_encode, quote_bytes. cbn [flat_map]. unfold enc1 at 1. replace (47 <? 128) with true by reflexivity.
  cbn [app flat_map]. destruct (quote_byte_cases safe 47) as [[-> _]|[_ Hc]]; [|congruence].
  cbn [app]. eauto.
Qed.

Definition query_part (qs : option bytes) : option str :=
  match qs with
  | Some (c :: r) => Some (quote_bytes gcu_safe_query (c :: r))
  | _ => None
  end.

Lemma current_uri_resplit scheme host root path qs qr qp :
  mem 58 scheme = false -> forallb not_delim host = true ->
  bounded (rstrip_char 47 root) = true ->
  quote gcu_safe_root (rstrip_char 47 root) = Some qr ->
  quote gcu_safe_path (lstrip_char 47 path) = Some qp ->
  match qs with Some q => Forall (fun b => b < 256) q | None => True end ->
  exists u, current_uri scheme host (Some root) (Some path) qs = Some u
            /\ split_uri u = Some (scheme, host, qr ++ 47 :: qp, query_part qs).
Proof.
  intros Hsch Hhost Hb Hqr Hqp Hq.
  pose proof gcu_safe_facts as F.
  apply orb_false_elim in F. destruct F as [F F47]. apply orb_false_elim in F. destruct F as [F Fq35].
  apply orb_false_elim in F. destruct F as [F Fp35]. apply orb_false_elim in F. destruct F as [F Fp63].
  apply orb_false_elim in F. destruct F as [Fr63 Fr35].
  assert (Hroot47 : stays gcu_safe_root 47 = true) by (destruct (stays gcu_safe_root 47); [reflexivity|discriminate]).
  set (tail := match qs with
               | Some q => match q with [] => [] | _ :: _ => 63 :: quote_bytes gcu_safe_query q end
               | None => [] end).
  set (K := qr ++ 47 :: qp).
  exists (scheme ++ [58; 47; 47] ++ host ++ K ++ tail). split.
  - unfold current_uri. rewrite Hqr, Hqp. unfold K, tail. f_equal.
    rewrite <- ?app_assoc. cbn [app]. rewrite <- ?app_assoc. cbn [app]. reflexivity.
  - unfold split_uri. change (scheme ++ [58; 47; 47] ++ host ++ K ++ tail) with (scheme ++ 58 :: [47; 47] ++ host ++ K ++ tail).
    rewrite (find_sub_scheme scheme [47; 47] _ Hsch).
    assert (HK : exists K', K = 47 :: K').
    { unfold K. destruct (rstrip_char 47 root) as [|c r] eqn:Er.
      - unfold quote in Hqr. cbn in Hqr. inversion Hqr; subst qr. cbn [app]. eauto.
      - cbn [bounded] in Hb. apply N.eqb_eq in Hb. change SL with 47 in Hb. subst c.
        destruct (quote_head_slash _ _ _ Hroot47 Hqr) as [q' ->]. cbn [app]. eauto. }
    destruct HK as [K' HK].
    assert (HKqf : forallb not_qf K = true).
    { unfold K. rewrite forallb_app. cbn [forallb].
      rewrite (quote_no_qf gcu_safe_root _ qr Fr63 Fr35 Hqr).
      rewrite (quote_no_qf gcu_safe_path _ qp Fp63 Fp35 Hqp). reflexivity. }
    assert (Hauth : take_while not_delim (host ++ K ++ tail) = host /\ drop_while not_delim (host ++ K ++ tail) = K ++ tail).
    { rewrite HK. cbn [app]. split; [apply take_while_app_stop|apply drop_while_app_stop]; try exact Hhost; reflexivity. }
    destruct Hauth as [-> ->].
    assert (Hpath : take_while not_qf (K ++ tail) = K /\
                    match drop_while not_qf (K ++ tail) with
                    | c :: r3 => if c =? 63 then Some (take_while not_frag r3) else None
                    | [] => None end = query_part qs).
    { unfold tail. destruct qs as [[|c r]|].
      - rewrite app_nil_r. rewrite take_while_all, drop_while_all by exact HKqf. split; reflexivity.
      - rewrite take_while_app_stop, drop_while_app_stop by (try exact HKqf; reflexivity). split; [reflexivity|].
        cbn [N.eqb Pos.eqb query_part]. rewrite take_while_all; [reflexivity|].
        erewrite forallb_ext'; [apply (quote_bytes_avoids gcu_safe_query (c :: r) 35 Hq Fq35); reflexivity|].
        intro x. reflexivity.
      - rewrite app_nil_r. rewrite take_while_all, drop_while_all by exact HKqf. split; reflexivity. }
    destruct Hpath as [-> ->]. reflexivity.
Qed.

(* what the re-split path means: percent-decoding gives the bytes of root/path again -- when
   neither holds a percent sign (the percent sign is in the safe strings, see the refutation) *)
Lemma unq_bytes_quote_app safe bs rest : Forall (fun b => b < 256) bs -> mem PCT bs = false ->
  unq_bytes (quote_bytes safe bs ++ rest) = bs ++ unq_bytes rest.
Proof.
  induction 1 as [|b bs Hb _ IH]; intro Hm; [reflexivity|].
  unfold mem in Hm. cbn [existsb] in Hm. apply orb_false_elim in Hm. destruct Hm as [Hb0 Hm].
  unfold quote_bytes in *. cbn [flat_map]. rewrite <- app_assoc. destruct (quote_byte_cases safe b) as [[-> _]|[-> _]].
  - cbn [app]. rewrite unq_bytes_nonpct by (rewrite N.eqb_sym; exact Hb0). rewrite (IH Hm). reflexivity.
  - rewrite (unq_bytes_pct b _ Hb), (IH Hm). reflexivity.
Qed.

Lemma quote_some safe s q : quote safe s = Some q -> valid_text s = true /\ q = quote_bytes safe (utf8_encode s).
Proof. unfold quote. destruct (valid_text s); [|discriminate]. intro H. inversion H. split; reflexivity. Qed.

Lemma current_url_path_meaning root path qr qp :
  mem PCT root = false -> mem PCT path = false ->
  quote gcu_safe_root root = Some qr -> quote gcu_safe_path path = Some qp ->
  utf8_decode (unq_bytes (qr ++ 47 :: qp)) = Some (root ++ 47 :: path).
Proof.
  intros Hr Hp Hqr Hqp.
  destruct (quote_some _ _ _ Hqr) as [Vr ->]. destruct (quote_some _ _ _ Hqp) as [Vp ->].
  rewrite unq_bytes_quote_app by (try apply utf8_encode_bytes_forall; try apply utf8_encode_no_pct; assumption).
  rewrite unq_bytes_nonpct by reflexivity.
  rewrite (unq_bytes_quote gcu_safe_path) by (try apply utf8_encode_bytes_forall; try apply utf8_encode_no_pct; assumption).
  change (utf8_encode root ++ 47 :: utf8_encode path) with (utf8_encode root ++ utf8_encode [47] ++ utf8_encode path).
  rewrite <- !utf8_encode_app. apply utf8_decode_encode.
  rewrite valid_text_app, Vr. unfold valid_text in *. cbn [forallb andb]. rewrite Vp. reflexivity.
Qed.

(* with a literal percent escape in the decoded path the reconstructed URL denotes another path *)
Lemma current_url_path_refuted :
  exists path qp, quote gcu_safe_path path = Some qp
    /\ utf8_decode (unq_bytes (47 :: qp)) = Some [47; 97; 65]
    /\ [47; 97; 65] <> 47 :: path.
Proof. exists [97; 37; 52; 49], [97; 37; 52; 49]. vm_compute. repeat split; discriminate. Qed.

Lemma current_url_example :
  current_uri [104; 116; 116; 112] [104] (Some [47; 114; 47]) (Some [47; 233; 32]) (Some [97; 61; 35])
  = Some [104; 116; 116; 112; 58; 47; 47; 104; 47; 114; 47; 37; 67; 51; 37; 65; 57; 37; 50; 48; 63; 97; 61; 37; 50; 51]
  /\ split_uri [104; 116; 116; 112; 58; 47; 47; 104; 47; 114; 47; 37; 67; 51; 37; 65; 57; 37; 50; 48; 63; 97; 61; 37; 50; 51]
     = Some ([104; 116; 116; 112], [104], [47; 114; 47; 37; 67; 51; 37; 65; 57; 37; 50; 48], Some [97; 61; 37; 50; 51]).
Proof. vm_compute. split; reflexivity. Qed.

(* host_only / root_only / strip_querystring cut the URL where they say *)
Lemma wsgi_url_flags scheme hh server script path_info qs :
  wsgi_current_uri false false true scheme hh server script path_info qs
    = Some ((scheme ++ [58; 47; 47] ++ get_host scheme hh server) ++ [47])
  /\ (forall r, wsgi_decoding_dance_replace script = Some r ->
        wsgi_current_uri true false false scheme hh server script path_info qs
        = current_uri scheme (get_host scheme hh server) (Some r) None None)
  /\ (forall r p, wsgi_decoding_dance_replace script = Some r -> wsgi_decoding_dance_replace path_info = Some p ->
        wsgi_current_uri false true false scheme hh server script path_info qs
        = current_uri scheme (get_host scheme hh server) (Some r) (Some p) None).
Proof.
  unfold wsgi_current_uri, wsgi_url_takes_root, wsgi_url_takes_path, wsgi_url_takes_query. cbn [negb andb].
  split; [reflexivity|]. split.
  - intros r ->. reflexivity.
  - intros r p -> ->. reflexivity.
Qed.
