From Coq Require Extraction ExtrOcamlBasic.
From Wz Require Import lib.Bytes lib.Utf8 lib.ExtractBase C15.LibPercent C15.Gen C15.DispatchBase C15.GenDispatch C15.Model C15.BuilderModel.
Extraction Language OCaml.
Extraction "C15/model_extracted.ml" force_types quote quote_bytes unquote_rq i2u u2i current_uri wsgi_current_uri split_uri get_host tbytes wf_pct builder_environ dispatch
  wsgi_encoding_dance wsgi_decoding_dance_replace.
