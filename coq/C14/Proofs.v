(* C14 proofs: posixpath facts, the key lemma about normalised relative paths, containment,
   and the filename laws.  The sweeps over filename_keep_class / filename_strip_chars are
   re-proved against the regenerated tables of Gen.v. *)
From Coq Require Import ZArith Lia ZifyBool ZifyN.
From Wz Require Import lib.Bytes lib.BytesFacts C14.LibPath C14.Gen C14.Model.
Open Scope N_scope.

(* ------------------------------------------------------------------ list_eqb *)

Lemma list_eqb_eq a b : list_eqb a b = true -> a = b.
Proof.
  revert b. induction a as [|x a IH]; destruct b as [|y b]; cbn [list_eqb]; intro H;
    try discriminate; [reflexivity|].
  apply andb_prop in H. destruct H as [Hx Hab]. apply N.eqb_eq in Hx. subst y.
  f_equal. apply IH. exact Hab.
Qed.

Lemma list_eqb_refl a : list_eqb a a = true.
Proof. induction a as [|x a IH]; cbn [list_eqb]; [reflexivity|]. rewrite N.eqb_refl, IH. reflexivity. Qed.

(* ------------------------------------------------------------------ split / join *)

Lemma split_on_cons x c r :
  split_on x (c :: r) = if c =? x then [] :: split_on x r
                        else match split_on x r with h :: t => (c :: h) :: t | [] => [] end.
Proof.
  unfold split_on. cbn [split_aux]. destruct (split_aux x r) as [h t].
  destruct (c =? x); reflexivity.
Qed.

Lemma split_on_app x a b : split_on x (a ++ x :: b) = split_on x a ++ split_on x b.
Proof.
  induction a as [|c a IH].
  - cbn [app]. rewrite split_on_cons, N.eqb_refl. reflexivity.
  - cbn [app]. rewrite !split_on_cons, IH. destruct (c =? x); [reflexivity|].
    unfold split_on at 1 3. destruct (split_aux x a) as [h t]. reflexivity.
Qed.

Lemma split_on_none x a : mem x a = false -> split_on x a = [a].
Proof.
  unfold mem. induction a as [|c a IH]; cbn [existsb]; intro H; [reflexivity|].
  apply orb_false_elim in H. destruct H as [Hc Ha]. rewrite split_on_cons.
  rewrite N.eqb_sym in Hc. rewrite Hc, (IH Ha). reflexivity.
Qed.

Lemma split_on_no_sep x s : Forall (fun c => mem x c = false) (split_on x s).
Proof.
  induction s as [|c s IH].
  - constructor; [reflexivity|constructor].
  - rewrite split_on_cons. destruct (c =? x) eqn:E.
    + constructor; [reflexivity|exact IH].
    + destruct (split_on x s) as [|h t]; [constructor|].
      inversion IH; subst. constructor; [|assumption].
      unfold mem in *. cbn [existsb]. rewrite N.eqb_sym, E. assumption.
Qed.

(* ------------------------------------------------------------------ segments *)

Definition good_seg (c : list N) : Prop := keep_seg c = true /\ mem SL c = false.

Lemma segs_app_sl a b : segs (a ++ SL :: b) = segs a ++ segs b.
Proof. unfold segs. rewrite split_on_app, filter_app. reflexivity. Qed.

Lemma segs_nil : segs [] = [].
Proof. reflexivity. Qed.

Lemma segs_dot : segs [DOT] = [].
Proof. vm_compute. reflexivity. Qed.

Lemma segs_sl_cons s : segs (SL :: s) = segs s.
Proof. change (SL :: s) with ([] ++ SL :: s). rewrite segs_app_sl. reflexivity. Qed.

Lemma segs_repeat_sl n s : segs (repeat SL n ++ s) = segs s.
Proof. induction n as [|n IH]; cbn [repeat app]; [reflexivity|]. rewrite segs_sl_cons. exact IH. Qed.

Lemma segs_good s : Forall good_seg (segs s).
Proof.
  unfold segs. pose proof (split_on_no_sep SL s) as H.
  induction (split_on SL s) as [|c l IH]; cbn [filter]; [constructor|].
  inversion H; subst. destruct (keep_seg c) eqn:E; [|apply IH; assumption].
  constructor; [split; assumption|apply IH; assumption].
Qed.

Lemma segs_single c : good_seg c -> segs c = [c].
Proof.
  intros [Hk Hs]. unfold segs. rewrite split_on_none by exact Hs. cbn [filter]. rewrite Hk. reflexivity.
Qed.

Lemma segs_join comps : Forall good_seg comps -> segs (join_with [SL] comps) = comps.
Proof.
  induction comps as [|c r IH]; intro H; [reflexivity|].
  inversion H as [|? ? Hc Hr]; subst. cbn [join_with]. destruct r as [|c2 r2].
  - apply segs_single. exact Hc.
  - cbn [app]. rewrite segs_app_sl, (segs_single c Hc), (IH Hr). reflexivity.
Qed.

Lemma good_seg_head c : good_seg c -> exists x r, c = x :: r /\ (x =? SL) = false.
Proof.
  intros [Hk Hs]. destruct c as [|x r]; [discriminate|]. exists x, r. split; [reflexivity|].
  unfold mem in Hs. cbn [existsb] in Hs. apply orb_false_elim in Hs. rewrite N.eqb_sym. tauto.
Qed.

(* a rendered list of good segments is empty or starts with a non-slash *)
Lemma join_head comps : Forall good_seg comps ->
  join_with [SL] comps = [] \/ exists x r, join_with [SL] comps = x :: r /\ (x =? SL) = false.
Proof.
  intro H. destruct comps as [|c r]; [left; reflexivity|]. right.
  inversion H as [|? ? Hc Hr]; subst. destruct (good_seg_head c Hc) as [x [t [-> Hx]]].
  cbn [join_with]. destruct r; [exists x, t; split; [reflexivity|exact Hx]|].
  exists x, (t ++ [SL] ++ join_with [SL] (l :: r)). split; [reflexivity|exact Hx].
Qed.

Lemma join_nil_inv comps : Forall good_seg comps -> join_with [SL] comps = [] -> comps = [].
Proof.
  intros H E. destruct comps as [|c r]; [reflexivity|]. exfalso.
  inversion H as [|? ? Hc Hr]; subst. destruct (good_seg_head c Hc) as [x [t [-> _]]].
  cbn [join_with] in E. destruct r; discriminate.
Qed.

(* ------------------------------------------------------------------ the normalisation loop *)

(* the loop on the segments that survive the `comp in ("", ".")` test *)
Definition res_step (abs : bool) (acc : list (list N)) (comp : list N) : list (list N) :=
  if negb (is_dotdot comp) || (negb abs && is_nil acc) || head_is_dotdot acc
  then comp :: acc
  else match acc with _ :: acc' => acc' | [] => [] end.
Definition resolve (abs : bool) (comps : list (list N)) : list (list N) :=
  rev (fold_left (res_step abs) comps []).

Lemma norm_fold_filter abs l acc :
  fold_left (norm_step abs) l acc = fold_left (res_step abs) (filter keep_seg l) acc.
Proof.
  revert acc. induction l as [|c l IH]; intro acc; [reflexivity|].
  cbn [fold_left filter]. unfold norm_step at 2, keep_seg at 1.
  destruct (is_nil c || is_dot c); cbn [negb]; [apply IH|]. cbn [fold_left]. apply IH.
Qed.

Definition render (ini : nat) (comps : list (list N)) : list N :=
  match repeat SL ini ++ join_with [SL] comps with [] => [DOT] | p => p end.

Lemma normpath_eq s : s <> [] ->
  normpath s = render (lead s) (resolve (Nat.ltb 0 (lead s)) (segs s)).
Proof.
  intro Hs. destruct s as [|a r]; [contradiction|]. unfold normpath, render, resolve, segs.
  rewrite norm_fold_filter. reflexivity.
Qed.

Lemma res_fold_in abs l acc c :
  In c (fold_left (res_step abs) l acc) -> In c l \/ In c acc.
Proof.
  revert acc. induction l as [|x l IH]; intros acc H; [right; exact H|].
  cbn [fold_left] in H. apply IH in H. destruct H as [H|H]; [left; right; exact H|].
  unfold res_step in H.
  destruct (negb (is_dotdot x) || (negb abs && is_nil acc) || head_is_dotdot acc).
  - destruct H as [<-|H]; [left; left; reflexivity|right; exact H].
  - destruct acc as [|y acc']; [destruct H|]. right. right. exact H.
Qed.

Lemma resolve_good abs l : Forall good_seg l -> Forall good_seg (resolve abs l).
Proof.
  intro H. unfold resolve. apply Forall_forall. intros c Hc. apply in_rev in Hc.
  apply res_fold_in in Hc. destruct Hc as [Hc|[]]. rewrite Forall_forall in H. apply H. exact Hc.
Qed.

Lemma segs_render ini comps : Forall good_seg comps -> segs (render ini comps) = comps.
Proof.
  intro H. unfold render.
  destruct (repeat SL ini ++ join_with [SL] comps) eqn:E.
  - apply app_eq_nil in E. destruct E as [_ E]. rewrite (join_nil_inv comps H E). apply segs_dot.
  - rewrite <- E, segs_repeat_sl. apply segs_join. exact H.
Qed.

Lemma segs_normpath s :
  segs (normpath s) = resolve (Nat.ltb 0 (lead s)) (segs s).
Proof.
  destruct s as [|a r] eqn:Es; [reflexivity|]. rewrite <- Es.
  rewrite normpath_eq by (subst; discriminate).
  apply segs_render. apply resolve_good. apply segs_good.
Qed.

Lemma lead_cases s : lead s = 0%nat \/ lead s = 1%nat \/ lead s = 2%nat.
Proof.
  unfold lead. destruct s as [|a [|b [|c r]]]; auto; destruct (a =? SL); auto;
    destruct (b =? SL); auto. destruct (c =? SL); auto.
Qed.

Lemma lead_zero_iff s : lead s = 0%nat <-> starts_with [SL] s = false.
Proof.
  unfold lead. destruct s as [|a r]; cbn [starts_with]; [tauto|].
  rewrite andb_true_r, (N.eqb_sym SL a).
  destruct (a =? SL); [|tauto].
  split; [|discriminate]. destruct r as [|b [|c r]]; try discriminate;
    destruct (b =? SL); try discriminate. destruct (c =? SL); discriminate.
Qed.

Lemma lead_render ini comps : (ini <= 2)%nat -> Forall good_seg comps -> lead (render ini comps) = ini.
Proof.
  intros Hi H. unfold render. destruct (join_head comps H) as [E|[x [r [E Hx]]]]; rewrite E.
  - destruct ini as [|[|[|n]]]; [reflexivity| | |lia]; cbn [repeat app lead]; rewrite ?N.eqb_refl; reflexivity.
  - destruct ini as [|[|[|n]]]; [| | |lia]; cbn [repeat app lead]; rewrite ?N.eqb_refl, ?Hx; reflexivity.
Qed.

Lemma lead_normpath s : lead (normpath s) = lead s.
Proof.
  destruct s as [|a r] eqn:Es; [reflexivity|]. rewrite <- Es.
  rewrite normpath_eq by (subst; discriminate).
  apply lead_render; [destruct (lead_cases s) as [->|[->| ->]]; lia|].
  apply resolve_good. apply segs_good.
Qed.

(* pushing segments that are not dot-dot onto the stack *)
Lemma res_fold_push abs B acc :
  no_dotdot B = true -> fold_left (res_step abs) B acc = rev B ++ acc.
Proof.
  revert acc. induction B as [|c B IH]; intros acc H; [reflexivity|].
  unfold no_dotdot in H. cbn [forallb] in H. apply andb_prop in H. destruct H as [Hc HB].
  cbn [fold_left]. unfold res_step at 2. rewrite Hc. cbn [orb]. rewrite (IH _ HB).
  cbn [rev]. rewrite <- app_assoc. reflexivity.
Qed.

Lemma resolve_app_nodd abs A B :
  no_dotdot B = true -> resolve abs (A ++ B) = resolve abs A ++ B.
Proof.
  intro H. unfold resolve. rewrite fold_left_app, (res_fold_push _ _ _ H), rev_app_distr, rev_involutive.
  reflexivity.
Qed.

(* ---- key lemma: in relative mode the stack is names (no dot-dot) on top of dot-dots *)
Definition all_dotdot (l : list (list N)) : bool := forallb is_dotdot l.

Lemma rel_shape l : forall names dds,
  no_dotdot names = true -> all_dotdot dds = true ->
  exists names' dds', fold_left (res_step false) l (names ++ dds) = names' ++ dds'
                      /\ no_dotdot names' = true /\ all_dotdot dds' = true.
Proof.
  induction l as [|c l IH]; intros names dds Hn Hd.
  - exists names, dds. auto.
  - cbn [fold_left]. unfold res_step at 2. destruct (is_dotdot c) eqn:Ec; cbn [negb orb andb].
    + destruct names as [|n names'].
      * (* empty or dot-dot on top: push onto the dot-dots *)
        cbn [app].
        assert (Hpush : is_nil dds || head_is_dotdot dds = true).
        { destruct dds as [|d dds']; [reflexivity|]. cbn [is_nil head_is_dotdot orb].
          unfold all_dotdot in Hd. cbn [forallb] in Hd. apply andb_prop in Hd. tauto. }
        rewrite Hpush. apply (IH [] (c :: dds)); [reflexivity|].
        unfold all_dotdot. cbn [forallb]. rewrite Ec. exact Hd.
      * cbn [app is_nil head_is_dotdot orb].
        unfold no_dotdot in Hn. cbn [forallb] in Hn. apply andb_prop in Hn. destruct Hn as [Hn1 Hn2].
        destruct (is_dotdot n); [discriminate|]. apply IH; assumption.
    + apply (IH (c :: names) dds); [|exact Hd].
      unfold no_dotdot. cbn [forallb]. rewrite Ec. exact Hn.
Qed.

Lemma dotdot_good : good_seg [DOT; DOT].
Proof. split; vm_compute; reflexivity. Qed.

(* what the rejection test sees when the normalised relative path starts with dot-dot *)
Lemma render_rel_dotdot c rest :
  is_dotdot c = true ->
  let f := render 0 (c :: rest) in
  list_eqb f [DOT; DOT] || starts_with [DOT; DOT; SL] f = true.
Proof.
  intro Hc. apply list_eqb_eq in Hc. subst c. unfold render. cbn [repeat app join_with].
  destruct rest as [|r2 rest'].
  - vm_compute. reflexivity.
  - cbn [app]. cbn [starts_with list_eqb]. rewrite !N.eqb_refl. cbn [andb].
    apply orb_true_r.
Qed.

Lemma key_relative l :
  Forall good_seg l ->
  let f := render 0 (resolve false l) in
  list_eqb f [DOT; DOT] || starts_with [DOT; DOT; SL] f = false ->
  no_dotdot (resolve false l) = true.
Proof.
  intros Hl f Hf. unfold resolve in *.
  destruct (rel_shape l [] [] eq_refl eq_refl) as [names [dds [E [Hn Hd]]]].
  cbn [app] in E. subst f. rewrite E in *. rewrite rev_app_distr in *.
  destruct (rev dds) as [|d dr] eqn:Er.
  - cbn [app]. unfold no_dotdot in *. rewrite forallb_forall in *. intros x Hx. apply Hn.
    apply in_rev. exact Hx.
  - exfalso. assert (Hdd : is_dotdot d = true).
    { unfold all_dotdot in Hd. rewrite forallb_forall in Hd. apply Hd. apply in_rev. rewrite Er. left. reflexivity. }
    cbn [app] in Hf. rewrite (render_rel_dotdot d (dr ++ rev names) Hdd) in Hf. discriminate.
Qed.

(* absolute mode never keeps a dot-dot *)
Lemma abs_no_dotdot l acc :
  no_dotdot acc = true -> no_dotdot (fold_left (res_step true) l acc) = true.
Proof.
  revert acc. induction l as [|c l IH]; intros acc H; [exact H|].
  cbn [fold_left]. apply IH. unfold res_step. cbn [negb andb orb].
  assert (Hh : head_is_dotdot acc = false).
  { destruct acc as [|x acc']; [reflexivity|]. unfold no_dotdot in H. cbn [forallb] in H.
    apply andb_prop in H. cbn [head_is_dotdot]. destruct (is_dotdot x); [destruct H; discriminate|reflexivity]. }
  rewrite Hh, !orb_false_r. destruct (is_dotdot c) eqn:Ec; cbn [negb].
  - destruct acc as [|x acc']; [reflexivity|]. unfold no_dotdot in *. cbn [forallb] in H.
    apply andb_prop in H. tauto.
  - unfold no_dotdot in *. cbn [forallb]. rewrite Ec. exact H.
Qed.

Lemma resolve_abs_no_dotdot l : no_dotdot (resolve true l) = true.
Proof.
  unfold resolve. pose proof (abs_no_dotdot l [] eq_refl) as H.
  unfold no_dotdot in *. rewrite forallb_forall in *. intros x Hx. apply H. apply in_rev. exact Hx.
Qed.

(* ------------------------------------------------------------------ posixpath.join *)

Lemma ends_slash_inv s : ends_slash s = true -> exists q, s = q ++ [SL].
Proof.
  induction s as [|c r IH]; [discriminate|]. cbn [ends_slash]. destruct r as [|c2 r2].
  - intro H. apply N.eqb_eq in H. subst c. exists []. reflexivity.
  - intro H. destruct (IH H) as [q Hq]. exists (c :: q). rewrite Hq. reflexivity.
Qed.

Lemma not_starts_sl b : starts_with [SL] b = false ->
  b = [] \/ exists x r, b = x :: r /\ (x =? SL) = false.
Proof.
  destruct b as [|x r]; [left; reflexivity|]. cbn [starts_with]. rewrite andb_true_r, N.eqb_sym.
  intro H. right. exists x, r. split; [reflexivity|exact H].
Qed.

Lemma lead_app_noslash path b :
  ends_slash path = true -> starts_with [SL] b = false -> lead (path ++ b) = lead path.
Proof.
  intros He Hb. destruct (not_starts_sl b Hb) as [->|[x [r [-> Hx]]]]; [rewrite app_nil_r; reflexivity|].
  destruct path as [|a [|b2 [|c2 p]]]; [discriminate| | |].
  - cbn [ends_slash] in He. cbn [app lead]. rewrite He, Hx. reflexivity.
  - cbn [ends_slash] in He. cbn [app lead]. rewrite He, Hx. reflexivity.
  - reflexivity.
Qed.

Lemma lead_app_slash path b :
  path <> [] -> ends_slash path = false -> lead (path ++ SL :: b) = lead path.
Proof.
  intros Hp He. destruct path as [|a [|b2 [|c2 p]]]; [contradiction| | |].
  - cbn [ends_slash] in He. cbn [app lead]. rewrite He. reflexivity.
  - cbn [ends_slash] in He. cbn [app lead]. rewrite He. destruct (a =? SL); reflexivity.
  - reflexivity.
Qed.

Lemma join_step_facts path b :
  path <> [] -> starts_with [SL] b = false ->
  join_step path b <> [] /\ lead (join_step path b) = lead path
  /\ segs (join_step path b) = segs path ++ segs b.
Proof.
  intros Hp Hb. unfold join_step. rewrite Hb.
  assert (Hn : is_nil path = false) by (destruct path; [contradiction|reflexivity]).
  rewrite Hn. cbn [orb]. destruct (ends_slash path) eqn:He.
  - split; [destruct path; [contradiction|discriminate]|]. split; [apply lead_app_noslash; assumption|].
    destruct (ends_slash_inv path He) as [q ->]. rewrite <- app_assoc. cbn [app].
    rewrite !segs_app_sl, segs_nil, app_nil_r. reflexivity.
  - split; [destruct path; [contradiction|discriminate]|]. split; [apply lead_app_slash; assumption|].
    apply segs_app_sl.
Qed.

Lemma posix_join_facts fs : forall path,
  path <> [] -> Forall (fun f => starts_with [SL] f = false) fs ->
  posix_join path fs <> [] /\ lead (posix_join path fs) = lead path
  /\ segs (posix_join path fs) = segs path ++ flat_map segs fs.
Proof.
  induction fs as [|f fs IH]; intros path Hp H.
  - cbn [posix_join fold_left flat_map]. rewrite app_nil_r. auto.
  - inversion H as [|? ? Hf Hfs]; subst. destruct (join_step_facts path f Hp Hf) as [H1 [H2 H3]].
    unfold posix_join in *. cbn [fold_left flat_map]. destruct (IH (join_step path f) H1 Hfs) as [G1 [G2 G3]].
    split; [exact G1|]. split; [rewrite G2; exact H2|]. rewrite G3, H3, <- app_assoc. reflexivity.
Qed.

(* ------------------------------------------------------------------ accepted components *)

Lemma orb_false_split a b : a || b = false -> a = false /\ b = false.
Proof. apply orb_false_elim. Qed.

(* what the generated rejection disjunction gives when it is false; if the disjunction in
   the source loses one of these tests this lemma no longer holds *)
Lemma reject_false f : safe_join_reject f = false ->
  starts_with [SL] f = false /\ list_eqb f [DOT; DOT] = false /\ starts_with [DOT; DOT; SL] f = false.
Proof.
  unfold safe_join_reject. intro H.
  repeat match goal with
         | H : _ || _ = false |- _ => apply orb_false_split in H; destruct H
         end.
  repeat split; assumption.
Qed.

Lemma guard_spec c : safe_join_normalise_guard c = negb (is_nil c).
Proof. unfold safe_join_normalise_guard. destruct c; reflexivity. Qed.

Lemma lead_pos_normpath_abs s : lead s <> 0%nat -> starts_with [SL] (normpath s) = true.
Proof.
  intro H. rewrite <- (lead_normpath s) in H.
  destruct (starts_with [SL] (normpath s)) eqn:E; [reflexivity|].
  apply lead_zero_iff in E. contradiction.
Qed.

Lemma check_part_ok c f : check_part c = Some f ->
  starts_with [SL] f = false /\ no_dotdot (segs f) = true.
Proof.
  unfold check_part. rewrite guard_spec. destruct c as [|a r] eqn:Ec; cbn [is_nil negb].
  - destruct (safe_join_reject []) eqn:R; [discriminate|]. intro H. inversion H; subst. split; reflexivity.
  - rewrite <- Ec. destruct (safe_join_reject (normpath c)) eqn:R; [discriminate|].
    intro H. inversion H; subst f. clear H. destruct (reject_false _ R) as [H1 [H2 H3]].
    split; [exact H1|].
    assert (Hl : lead c = 0%nat).
    { destruct (Nat.eq_dec (lead c) 0) as [E|E]; [exact E|]. rewrite (lead_pos_normpath_abs c E) in H1. discriminate. }
    rewrite segs_normpath, Hl. cbn [Nat.ltb Nat.leb].
    apply key_relative; [apply segs_good|].
    assert (Hn : normpath c = render 0 (resolve false (segs c))).
    { rewrite normpath_eq by (subst; discriminate). rewrite Hl. reflexivity. }
    rewrite <- Hn, H2, H3. reflexivity.
Qed.

Lemma check_parts_ok cs : forall fs, check_parts cs = Some fs ->
  Forall (fun f => starts_with [SL] f = false) fs /\ no_dotdot (flat_map segs fs) = true.
Proof.
  induction cs as [|c cs IH]; intros fs H; cbn [check_parts] in H.
  - inversion H; subst. split; [constructor|reflexivity].
  - destruct (check_part c) as [f|] eqn:Ec; [|discriminate].
    destruct (check_parts cs) as [fs'|]; [|discriminate]. inversion H; subst.
    destruct (check_part_ok c f Ec) as [H1 H2]. destruct (IH fs' eq_refl) as [G1 G2].
    split; [constructor; assumption|]. cbn [flat_map]. unfold no_dotdot in *.
    rewrite forallb_app, H2, G2. reflexivity.
Qed.

Lemma base_dir_nonempty d : base_dir d <> [].
Proof.
  unfold base_dir. destruct d as [|a r]; cbn [is_nil]; [vm_compute; discriminate|discriminate].
Qed.

Lemma strip_prefix_app a b : strip_prefix a (a ++ b) = Some b.
Proof. induction a as [|x a IH]; cbn [strip_prefix app]; [reflexivity|]. rewrite list_eqb_refl. exact IH. Qed.

Lemma strip_prefix_inv a : forall b r, strip_prefix a b = Some r -> b = a ++ r.
Proof.
  induction a as [|x a IH]; intros b r H; cbn [strip_prefix] in H.
  - inversion H. reflexivity.
  - destruct b as [|y b]; [discriminate|]. destruct (list_eqb x y) eqn:E; [|discriminate].
    apply list_eqb_eq in E. subst y. cbn [app]. f_equal. apply IH. exact H.
Qed.

(* ------------------------------------------------------------------ containment *)

Lemma containment_explicit d cs p : safe_join d cs = Some p ->
  lead (normpath p) = lead (normpath (base_dir d)) /\
  exists rest, segs (normpath p) = segs (normpath (base_dir d)) ++ rest /\ no_dotdot rest = true.
Proof.
  unfold safe_join. destruct (check_parts cs) as [fs|] eqn:Ec; [|discriminate]. cbn [option_map].
  intro H. inversion H; subst p. clear H.
  destruct (check_parts_ok cs fs Ec) as [Hf Hd].
  destruct (posix_join_facts fs (base_dir d) (base_dir_nonempty d) Hf) as [_ [Hl Hs]].
  split; [rewrite !lead_normpath; exact Hl|].
  exists (flat_map segs fs). split; [|exact Hd].
  rewrite !segs_normpath, Hl, Hs. apply resolve_app_nodd. exact Hd.
Qed.

Lemma containment d cs p : safe_join d cs = Some p ->
  inside (normpath (base_dir d)) (normpath p) = true.
Proof.
  intro H. destruct (containment_explicit d cs p H) as [Hl [rest [Hs Hd]]].
  unfold inside. rewrite Hl, Nat.eqb_refl, Hs, strip_prefix_app. exact Hd.
Qed.

(* inside, read back: what the boolean says *)
Lemma inside_spec base p : inside base p = true <->
  lead base = lead p /\ exists rest, segs p = segs base ++ rest /\ no_dotdot rest = true.
Proof.
  unfold inside. split.
  - intro H. apply andb_prop in H. destruct H as [H1 H2]. apply Nat.eqb_eq in H1. split; [exact H1|].
    destruct (strip_prefix (segs base) (segs p)) as [rest|] eqn:E; [|discriminate].
    exists rest. split; [apply strip_prefix_inv; exact E|exact H2].
  - intros [H1 [rest [H2 H3]]]. rewrite H1, Nat.eqb_refl, H2, strip_prefix_app. exact H3.
Qed.

(* with an absolute base the normalised result has no dot-dot segment at all, so the prefix
   relation is genuine containment *)
Lemma containment_abs d cs p : safe_join d cs = Some p -> lead (base_dir d) <> 0%nat ->
  no_dotdot (segs (normpath p)) = true.
Proof.
  unfold safe_join. destruct (check_parts cs) as [fs|] eqn:Ec; [|discriminate]. cbn [option_map].
  intros H Ha. inversion H; subst p. clear H.
  destruct (check_parts_ok cs fs Ec) as [Hf Hd].
  destruct (posix_join_facts fs (base_dir d) (base_dir_nonempty d) Hf) as [_ [Hl Hs]].
  rewrite segs_normpath, Hl.
  destruct (lead (base_dir d)) as [|n]; [contradiction|]. cbn [Nat.ltb Nat.leb].
  apply resolve_abs_no_dotdot.
Qed.

(* a benign request is not refused and lands where expected (non-vacuity of the hypothesis) *)
Lemma safe_join_example :
  safe_join [47; 115] [[97; 47; 46; 46; 47; 98]; []; [99]] = Some [47; 115; 47; 98; 47; 99].
Proof. vm_compute. reflexivity. Qed.

(* ------------------------------------------------------------------ secure_filename *)

Definition allowed_char (c : N) : bool :=
  is_upper c || is_lower c || is_digit c || (c =? 95) || (c =? 46) || (c =? 45).

Lemma keep_bound : forallb (fun r => snd r <? 128) filename_keep_class = true.
Proof. vm_compute. reflexivity. Qed.

Lemma keep_sweep :
  forallb (fun c => Bool.eqb (keep_char c) (allowed_char c)) (nat_range 128) = true.
Proof. vm_compute. reflexivity. Qed.

Lemma allowed_bound c : allowed_char c = true -> c < 128.
Proof. unfold allowed_char, is_upper, is_lower, is_digit. lia. Qed.

Lemma keep_allowed c : keep_char c = allowed_char c.
Proof.
  destruct (c <? 128) eqn:Hc.
  - pose proof (sweep128 _ keep_sweep c) as H. cbv beta in H. apply eqb_prop. apply H. lia.
  - destruct (keep_char c) eqn:K.
    + pose proof (in_ranges_bound _ 128 c keep_bound K). lia.
    + destruct (allowed_char c) eqn:A; [|reflexivity]. pose proof (allowed_bound c A). lia.
Qed.

Lemma strip_chars_sweep :
  forallb (fun c => Bool.eqb (strip_char c) ((c =? 46) || (c =? 95))) (nat_range 128) = true.
Proof. vm_compute. reflexivity. Qed.

Lemma strip_chars_bound : forallb (fun c => c <? 128) filename_strip_chars = true.
Proof. vm_compute. reflexivity. Qed.

Lemma strip_char_spec c : strip_char c = ((c =? 46) || (c =? 95)).
Proof.
  destruct (c <? 128) eqn:Hc.
  - pose proof (sweep128 _ strip_chars_sweep c) as H. cbv beta in H. apply eqb_prop. apply H. lia.
  - destruct (strip_char c) eqn:K.
    + unfold strip_char, mem in K. apply existsb_exists in K. destruct K as [x [Hx Hcx]].
      pose proof strip_chars_bound as B. rewrite forallb_forall in B. specialize (B x Hx). lia.
    + lia.
Qed.

Lemma joiner_and_seps :
  (filename_joiner =? 95) && list_eqb filename_seps [47] && (filename_sep_replacement =? 32) = true.
Proof. vm_compute. reflexivity. Qed.

(* strip keeps a sub-sequence and leaves no strippable character at either end *)
Lemma forallb_drop_while (p q : N -> bool) s : forallb p s = true -> forallb p (drop_while q s) = true.
Proof.
  induction s as [|x r IH]; cbn [drop_while forallb]; intro H; [reflexivity|].
  apply andb_prop in H. destruct (q x); [apply IH; tauto|]. cbn [forallb]. destruct H as [-> ->]. reflexivity.
Qed.

Lemma forallb_rstrip (p q : N -> bool) s : forallb p s = true -> forallb p (rstrip q s) = true.
Proof.
  induction s as [|x r IH]; cbn [rstrip forallb]; intro H; [reflexivity|].
  apply andb_prop in H. destruct H as [Hx Hr]. specialize (IH Hr).
  destruct (rstrip q r) as [|y r'].
  - destruct (q x); cbn [forallb]; [reflexivity|]. rewrite Hx. reflexivity.
  - cbn [forallb] in *. rewrite Hx. exact IH.
Qed.

Lemma forallb_strip (p q : N -> bool) s : forallb p s = true -> forallb p (strip q s) = true.
Proof. intro H. unfold strip. apply forallb_rstrip, forallb_drop_while. exact H. Qed.

Lemma drop_while_head (q : N -> bool) s :
  match drop_while q s with x :: _ => q x = false | [] => True end.
Proof.
  induction s as [|x r IH]; cbn [drop_while]; [exact I|]. destruct (q x) eqn:E; [exact IH|exact E].
Qed.

Lemma rstrip_head (q : N -> bool) s :
  match s with x :: _ => q x = false | [] => True end ->
  match rstrip q s with x :: _ => q x = false | [] => True end.
Proof.
  destruct s as [|x r]; cbn [rstrip]; [auto|]. intro Hx.
  destruct (rstrip q r); [rewrite Hx|]; exact Hx.
Qed.

Lemma rstrip_idem (q : N -> bool) s : rstrip q (rstrip q s) = rstrip q s.
Proof.
  induction s as [|x r IH]; cbn [rstrip]; [reflexivity|].
  destruct (rstrip q r) as [|y r'] eqn:E.
  - destruct (q x) eqn:Q; cbn [rstrip]; [reflexivity|]. rewrite Q. reflexivity.
  - cbn [rstrip]. cbn [rstrip] in IH. rewrite IH. reflexivity.
Qed.

Lemma strip_head (q : N -> bool) s : match strip q s with x :: _ => q x = false | [] => True end.
Proof. unfold strip. apply rstrip_head. apply drop_while_head. Qed.

Lemma strip_idem (q : N -> bool) s : strip q (strip q s) = strip q s.
Proof.
  unfold strip at 1. rewrite drop_while_none by apply strip_head.
  unfold strip. apply rstrip_idem.
Qed.

Lemma filter_forallb (p : N -> bool) s : forallb p (filter p s) = true.
Proof.
  induction s as [|x r IH]; cbn [filter]; [reflexivity|]. destruct (p x) eqn:E; [|exact IH].
  cbn [forallb]. rewrite E. exact IH.
Qed.

Lemma filter_id (p : N -> bool) s : forallb p s = true -> filter p s = s.
Proof.
  induction s as [|x r IH]; cbn [filter forallb]; intro H; [reflexivity|].
  apply andb_prop in H. destruct H as [-> Hr]. rewrite (IH Hr). reflexivity.
Qed.

Lemma split_ws_aux_none s : forallb (fun c => negb (uni_ws c)) s = true -> split_ws_aux s = (s, []).
Proof.
  induction s as [|x r IH]; cbn [split_ws_aux forallb]; intro H; [reflexivity|].
  apply andb_prop in H. destruct H as [Hx Hr]. rewrite (IH Hr).
  destruct (uni_ws x); [discriminate|reflexivity].
Qed.

Lemma join_split_ws_none j s : forallb (fun c => negb (uni_ws c)) s = true -> join_with j (split_ws s) = s.
Proof.
  intro H. unfold split_ws. rewrite (split_ws_aux_none s H). destruct s; reflexivity.
Qed.

Lemma allowed_not_ws c : allowed_char c = true -> uni_ws c = false.
Proof. unfold allowed_char, uni_ws, is_upper, is_lower, is_digit. lia. Qed.

Lemma replace_char_id x y s : mem x s = false -> replace_char x y s = s.
Proof.
  unfold mem, replace_char. induction s as [|c r IH]; cbn [existsb map]; intro H; [reflexivity|].
  apply orb_false_elim in H. destruct H as [Hc Hr]. rewrite N.eqb_sym in Hc. rewrite Hc, (IH Hr). reflexivity.
Qed.

Lemma allowed_no_char x s : allowed_char x = false -> forallb allowed_char s = true -> mem x s = false.
Proof.
  intros Hx. unfold mem. induction s as [|c r IH]; cbn [existsb forallb]; intro H; [reflexivity|].
  apply andb_prop in H. destruct H as [Hc Hr]. rewrite (IH Hr), orb_false_r.
  destruct (x =? c) eqn:E; [|reflexivity]. apply N.eqb_eq in E. subst c. congruence.
Qed.

Lemma forallb_ext (p q : N -> bool) s : (forall c, p c = q c) -> forallb p s = forallb q s.
Proof. intro H. induction s as [|x r IH]; cbn [forallb]; [reflexivity|]. rewrite H, IH. reflexivity. Qed.

Lemma secure_core_allowed s : forallb allowed_char (secure_core s) = true.
Proof.
  unfold secure_core. apply forallb_strip.
  erewrite forallb_ext; [apply filter_forallb|]. intro c. symmetry. apply keep_allowed.
Qed.

Lemma secure_core_head s :
  match secure_core s with x :: _ => (x =? 46) = false /\ (x =? 95) = false | [] => True end.
Proof.
  unfold secure_core. pose proof (strip_head strip_char
    (filter keep_char (join_with [filename_joiner] (split_ws (replace_seps (ascii_ignore s)))))) as H.
  destruct (strip strip_char _) as [|x r]; [exact I|]. rewrite strip_char_spec in H.
  apply orb_false_elim in H. exact H.
Qed.

Lemma secure_core_fix r : forallb allowed_char r = true -> strip strip_char r = r -> secure_core r = r.
Proof.
  intros Ha Hs. unfold secure_core.
  assert (H1 : ascii_ignore r = r).
  { unfold ascii_ignore. apply filter_id. eapply forallb_impl; [|exact Ha].
    intros c Hc. pose proof (allowed_bound c Hc). lia. }
  assert (H2 : replace_seps r = r).
  { unfold replace_seps. pose proof joiner_and_seps as J. apply andb_prop in J. destruct J as [J _].
    apply andb_prop in J. destruct J as [_ J]. apply list_eqb_eq in J. rewrite J. cbn [fold_left].
    apply replace_char_id. apply allowed_no_char; [reflexivity|exact Ha]. }
  rewrite H1, H2, join_split_ws_none.
  - rewrite filter_id; [exact Hs|]. erewrite forallb_ext; [exact Ha|]. intro c. apply keep_allowed.
  - eapply forallb_impl; [|exact Ha]. intros c Hc. rewrite (allowed_not_ws c Hc). reflexivity.
Qed.

Lemma secure_core_idem s : secure_core (secure_core s) = secure_core s.
Proof.
  apply secure_core_fix; [apply secure_core_allowed|].
  unfold secure_core. apply strip_idem.
Qed.

Definition no_sep_blank_nul (c : N) : bool :=
  negb (c =? 47) && negb (c =? 92) && negb (c =? 0) && negb (uni_ws c) && (c <? 128).

Lemma allowed_no_sep c : allowed_char c = true -> no_sep_blank_nul c = true.
Proof. unfold allowed_char, no_sep_blank_nul, uni_ws, is_upper, is_lower, is_digit. lia. Qed.

Section Nfkd.
  Variable nfkd : str -> str.
  Hypothesis nfkd_ascii : forall s, forallb (fun c => c <? 128) s = true -> nfkd s = s.

  Lemma filename_laws s :
    let r := secure_filename nfkd s in
    forallb allowed_char r = true
    /\ forallb no_sep_blank_nul r = true
    /\ starts_with [46] r = false /\ starts_with [95] r = false
    /\ secure_filename nfkd r = r.
  Proof.
    cbv zeta. unfold secure_filename. set (r := secure_core (nfkd s)).
    pose proof (secure_core_allowed (nfkd s)) as Ha. fold r in Ha.
    split; [exact Ha|]. split; [eapply forallb_impl; [|exact Ha]; apply allowed_no_sep|].
    pose proof (secure_core_head (nfkd s)) as Hh. fold r in Hh.
    split; [|split].
    - destruct r as [|x t]; [reflexivity|]. cbn [starts_with]. rewrite (N.eqb_sym 46 x). destruct Hh as [-> _]. reflexivity.
    - destruct r as [|x t]; [reflexivity|]. cbn [starts_with]. rewrite (N.eqb_sym 95 x). destruct Hh as [_ ->]. reflexivity.
    - rewrite nfkd_ascii.
      + unfold r. apply secure_core_idem.
      + eapply forallb_impl; [|exact Ha]. intros c Hc. pose proof (allowed_bound c Hc). lia.
  Qed.
End Nfkd.

(* the identity is a function with the NFKD contract (satisfiability of the hypothesis),
   and a hostile name is defused *)
Lemma filename_example :
  secure_filename (fun s => s) [46; 46; 47; 46; 46; 47; 101; 116; 99; 47; 112; 32; 119; 100] =
  [101; 116; 99; 95; 112; 95; 119; 100].
Proof. vm_compute. reflexivity. Qed.

(* the key lemma on its own: a normalised relative path that neither is dot-dot nor starts
   with dot-dot-slash has no dot-dot segment anywhere *)
Lemma normalised_relative_no_dotdot c :
  starts_with [SL] (normpath c) = false ->
  list_eqb (normpath c) [DOT; DOT] = false -> starts_with [DOT; DOT; SL] (normpath c) = false ->
  no_dotdot (segs (normpath c)) = true.
Proof.
  intros H1 H2 H3. destruct c as [|a r] eqn:Ec; [vm_compute; reflexivity|]. rewrite <- Ec in *.
  assert (Hl : lead c = 0%nat).
  { destruct (Nat.eq_dec (lead c) 0) as [E|E]; [exact E|]. rewrite (lead_pos_normpath_abs c E) in H1. discriminate. }
  rewrite segs_normpath, Hl. cbn [Nat.ltb Nat.leb].
  apply key_relative; [apply segs_good|].
  assert (Hn : normpath c = render 0 (resolve false (segs c))).
  { rewrite normpath_eq by (subst; discriminate). rewrite Hl. reflexivity. }
  rewrite <- Hn, H2, H3. reflexivity.
Qed.

(* ------------------------------------------------------------------ the static-file helpers *)

Lemma starts_with_spec p : forall s, starts_with p s = true -> exists t, s = p ++ t.
Proof.
  induction p as [|x p IH]; intros s H; [exists s; reflexivity|].
  destruct s as [|y s]; [discriminate|]. cbn [starts_with] in H. apply andb_prop in H. destruct H as [Hx Hp].
  apply N.eqb_eq in Hx. subst y. destruct (IH s Hp) as [t ->]. exists t. reflexivity.
Qed.

Lemma starts_with_refl_app p t : starts_with p (p ++ t) = true.
Proof. induction p as [|x p IH]; [reflexivity|]. cbn [app starts_with]. rewrite N.eqb_refl, IH. reflexivity. Qed.

Lemma ends_with_app_self (h suf : list N) : ends_with suf (h ++ suf) = true.
Proof. unfold ends_with. rewrite rev_app_distr. apply starts_with_refl_app. Qed.

Lemma skipn_app_exact (p t : list N) : skipn (length p) (p ++ t) = t.
Proof. induction p as [|x p IH]; [reflexivity|]. cbn [length app skipn]. exact IH. Qed.

Section FileSystem.
  Variable isfile : str -> bool.

  Lemma send_from_directory_contained d p f : send_from_directory isfile d p = Some f ->
    isfile f = true /\ inside (normpath (base_dir d)) (normpath f) = true.
  Proof.
    unfold send_from_directory. destruct (safe_join d [p]) as [g|] eqn:E; [|discriminate].
    destruct (isfile g) eqn:F; [|discriminate]. intro H. inversion H; subst g.
    split; [exact F|apply (containment d [p] f E)].
  Qed.

  (* the export key with its separator: the prefix that has to match ends at a slash *)
  Definition export_prefix (sp : str) : str := if sdm_append_slash sp then sp ++ sdm_slash else sp.

  Lemma export_prefix_slash sp : ends_with [SL] (export_prefix sp) = true.
  Proof.
    unfold export_prefix, sdm_append_slash. destruct (ends_with [47] sp) eqn:E; cbn [negb].
    - exact E.
    - apply (ends_with_app_self sp [SL]).
  Qed.

  Lemma shared_lookup_contained exports path f : shared_lookup isfile exports path = Some f ->
    isfile f = true /\
    exists sp dir, In (sp, dir) exports /\
      ((sp = path /\ f = dir)
       \/ (exists rest, path = export_prefix sp ++ rest /\ safe_join dir [rest] = Some f
                        /\ inside (normpath (base_dir dir)) (normpath f) = true)).
  Proof.
    unfold shared_lookup. intro H. apply find_some in H. destruct H as [Hin Hf]. split; [exact Hf|].
    unfold shared_candidates in Hin. apply in_flat_map in Hin. destruct Hin as [[sp dir] [He Hc]].
    exists sp, dir. split; [exact He|]. cbn [fst snd] in Hc. unfold export_candidates in Hc.
    apply in_app_or in Hc. destruct Hc as [Hc|Hc].
    - left. unfold sdm_exact in Hc. destruct (list_eqb sp path) eqn:E; [|exact (False_ind _ Hc)].
      apply list_eqb_eq in E. cbn [dir_target opt_list In] in Hc. destruct Hc as [<-|[]]. split; [exact E|reflexivity].
    - right. cbv zeta in Hc. change (if sdm_append_slash sp then sp ++ sdm_slash else sp) with (export_prefix sp) in Hc. unfold sdm_prefix in Hc.
      destruct (starts_with (export_prefix sp) path) eqn:E; [|exact (False_ind _ Hc)].
      destruct (starts_with_spec _ _ E) as [rest Hp]. exists rest. split; [exact Hp|].
      rewrite Hp, skipn_app_exact in Hc. cbn [dir_target] in Hc.
      change (In f (opt_list (safe_join dir [rest]))) in Hc. destruct (safe_join dir [rest]) as [g|] eqn:Ej; [|exact (False_ind _ Hc)]. cbn [opt_list In] in Hc. destruct Hc as [<-|[]].
      split; [reflexivity|apply (containment dir [rest] g Ej)].
  Qed.
End FileSystem.

(* /static exported from /srv/www, request /static/a/../b: the candidate is /srv/www/b *)
Lemma shared_example :
  shared_candidates [([47; 115], [47; 119])] [47; 115; 47; 97; 47; 46; 46; 47; 98] = [[47; 119; 47; 98]]
  /\ shared_candidates [([47; 115], [47; 119])] [47; 115; 47; 46; 46; 47; 98] = []
  /\ shared_candidates [([47; 115], [47; 119])] [47; 115; 120; 47; 98] = [].
Proof. vm_compute. repeat split; reflexivity. Qed.

(* ------------------------------------------------------------------ secure_filename on Windows *)

Lemma secure_core_os_posix s : secure_core_os false s = secure_core s.
Proof. reflexivity. Qed.

Lemma devices_facts :
  forallb (fun d => negb (starts_with [device_prefix] d) && negb (is_nil d)) windows_device_files
  && negb (device_prefix =? device_field_sep) && (ascii_upper device_prefix =? device_prefix) = true.
Proof. vm_compute. reflexivity. Qed.

Lemma mem_str_prefixed x : mem_str (device_prefix :: x) windows_device_files = false.
Proof.
  pose proof devices_facts as H. apply andb_prop in H. destruct H as [H _]. apply andb_prop in H. destruct H as [H _].
  unfold mem_str. induction windows_device_files as [|d l IH]; [reflexivity|].
  cbn [forallb] in H. apply andb_prop in H. destruct H as [Hd Hl]. apply andb_prop in Hd. destruct Hd as [Hd _].
  cbn [existsb]. rewrite (IH Hl), orb_false_r. destruct d as [|c d]; [reflexivity|].
  cbn [starts_with] in Hd. rewrite andb_true_r in Hd. cbn [list_eqb]. destruct (device_prefix =? c); [discriminate|reflexivity].
Qed.

Lemma is_device_prefixed f : is_device (device_prefix :: f) = false.
Proof.
  pose proof devices_facts as H. apply andb_prop in H. destruct H as [H Hu]. apply andb_prop in H. destruct H as [_ Hs].
  unfold is_device, first_field. cbn [partition1]. rewrite N.eqb_sym.
  destruct (device_prefix =? device_field_sep); [discriminate|].
  destruct (partition1 device_field_sep f) as [a b]. cbn [fst upper map]. apply N.eqb_eq in Hu. rewrite Hu.
  apply mem_str_prefixed.
Qed.

Lemma is_device_nil : is_device [] = false.
Proof. vm_compute. reflexivity. Qed.

Lemma forallb_replace_char (p : N -> bool) x y s : p y = true -> forallb p s = true -> forallb p (replace_char x y s) = true.
Proof.
  intros Hy. unfold replace_char. induction s as [|c s IH]; cbn [map forallb]; intro H; [reflexivity|].
  apply andb_prop in H. destruct H as [Hc Hs]. rewrite (IH Hs), andb_true_r. destruct (c =? x); assumption.
Qed.

Section NfkdWindows.
  Variable nfkd : str -> str.
  Definition secure_filename_os (nt : bool) (s : str) : str := secure_core_os nt (nfkd s).

  (* on Windows the result is never a device name (whatever follows the first dot), and it is
     still over the allowed alphabet *)
  Lemma filename_windows s :
    let r := secure_filename_os true s in
    is_device r = false /\ forallb allowed_char r = true /\ forallb no_sep_blank_nul r = true.
  Proof.
    cbv zeta. unfold secure_filename_os, secure_core_os.
    set (f := strip strip_char _).
    assert (Ha : forallb allowed_char f = true).
    { unfold f. apply forallb_strip. erewrite forallb_ext; [apply filter_forallb|]. intro c. symmetry. apply keep_allowed. }
    cbn [andb]. destruct (negb (is_nil f) && is_device f) eqn:E.
    - split; [apply is_device_prefixed|].
      assert (Hp : allowed_char device_prefix = true) by (vm_compute; reflexivity).
      split; [cbn [forallb]; rewrite Hp; exact Ha|]. cbn [forallb]. rewrite (allowed_no_sep _ Hp).
      eapply forallb_impl; [|exact Ha]. apply allowed_no_sep.
    - split.
      + destruct f as [|c f']; [apply is_device_nil|]. cbn [is_nil negb andb] in E. exact E.
      + split; [exact Ha|]. eapply forallb_impl; [|exact Ha]. apply allowed_no_sep.
  Qed.
End NfkdWindows.

Lemma filename_windows_example :
  secure_core_os true [99; 111; 110; 46; 116; 120; 116] = [95; 99; 111; 110; 46; 116; 120; 116]
  /\ secure_core_os true [97; 92; 98] = [97; 95; 98]
  /\ secure_core_os false [97; 92; 98] = [97; 98].
Proof. vm_compute. repeat split; reflexivity. Qed.

(* ------------------------------------------------------------------ every kind of export *)

Section Serving.
  Variable available : ckind -> str -> bool.

  Lemma shared_lookup_all_contained exports path k f :
    shared_lookup_all available exports path = Some (k, f) ->
    exists sp e, In (sp, e) exports /\
      match e with
      | EFile g => k = KFixed /\ f = g /\ (sp = path \/ exists rest, path = export_prefix sp ++ rest)
      | EDir d => k = KIsFile /\ available KIsFile f = true /\
                  ((sp = path /\ f = d)
                   \/ exists rest, path = export_prefix sp ++ rest /\ safe_join d [rest] = Some f
                                   /\ inside (normpath (base_dir d)) (normpath f) = true)
      | EPkg pp => k = KResource /\ available KResource f = true /\
                   exists rest, path = export_prefix sp ++ rest /\ safe_join pp [rest] = Some f
                                /\ inside (normpath (base_dir pp)) (normpath f) = true
      end.
  Proof.
    unfold shared_lookup_all. intro H. apply find_some in H. destruct H as [Hin Hav]. cbn [fst snd] in Hav.
    unfold shared_candidates_all in Hin. apply in_flat_map in Hin. destruct Hin as [[sp e] [He Hc]].
    exists sp, e. split; [exact He|]. cbn [fst snd] in Hc. unfold export_candidates_all in Hc.
    cbv zeta in Hc. change (if sdm_append_slash sp then sp ++ sdm_slash else sp) with (export_prefix sp) in Hc.
    apply in_app_or in Hc. destruct Hc as [Hc|Hc].
    - (* exact match: loader(None) *)
      unfold sdm_exact in Hc. destruct (list_eqb sp path) eqn:E; [|exact (False_ind _ Hc)]. apply list_eqb_eq in E.
      destruct e as [d|g|pp]; cbn [loader_target dir_target opt_list map In] in Hc.
      + destruct Hc as [Hc|[]]. inversion Hc; subst k f. split; [reflexivity|]. split; [exact Hav|]. left. auto.
      + destruct Hc as [Hc|[]]. inversion Hc; subst k f. split; [reflexivity|]. split; [reflexivity|]. left. exact E.
      + destruct Hc.
    - unfold sdm_prefix in Hc. destruct (starts_with (export_prefix sp) path) eqn:E; [|exact (False_ind _ Hc)].
      destruct (starts_with_spec _ _ E) as [rest Hp]. rewrite Hp, skipn_app_exact in Hc.
      destruct e as [d|g|pp]; cbn [loader_target dir_target] in Hc.
      + change (In (k, f) (map (pair KIsFile) (opt_list (safe_join d [rest])))) in Hc.
        destruct (safe_join d [rest]) as [g|] eqn:Ej; [|exact (False_ind _ Hc)]. cbn [opt_list map In] in Hc.
        destruct Hc as [Hc|[]]. inversion Hc; subst k g. split; [reflexivity|]. split; [exact Hav|]. right.
        exists rest. split; [exact Hp|]. split; [exact Ej|apply (containment d [rest] f Ej)].
      + cbn [In] in Hc. destruct Hc as [Hc|[]]. inversion Hc; subst k f. split; [reflexivity|]. split; [reflexivity|].
        right. exists rest. exact Hp.
      + change (In (k, f) (map (pair KResource) (opt_list (safe_join pp [rest])))) in Hc.
        destruct (safe_join pp [rest]) as [g|] eqn:Ej; [|exact (False_ind _ Hc)]. cbn [opt_list map In] in Hc.
        destruct Hc as [Hc|[]]. inversion Hc; subst k g. split; [reflexivity|]. split; [exact Hav|].
        exists rest. split; [exact Hp|]. split; [exact Ej|apply (containment pp [rest] f Ej)].
  Qed.
End Serving.
