(* C14: executable model of security.safe_join and utils.secure_filename (POSIX).
   Definitions only.  The rejection disjunction, the normalisation guard, the default
   directory, the filename character class and constants come from C14/Gen.v, regenerated
   from /repo on every run; posixpath is modelled in C14/LibPath.v. *)
From Wz Require Import lib.Bytes C14.LibPath C14.Gen.
Open Scope N_scope.

(* ------------------------------------------------------------------ safe_join *)

(* the body of `for filename in pathnames:`; None models `return None` *)
Definition check_part (c : str) : option str :=
  let filename := if safe_join_normalise_guard c then normpath c else c in
  if safe_join_reject filename then None else Some filename.

Fixpoint check_parts (cs : list str) : option (list str) :=
  match cs with
  | [] => Some []
  | c :: r =>
      match check_part c with
      | None => None
      | Some f => option_map (cons f) (check_parts r)
      end
  end.

Definition base_dir (d : str) : str := if is_nil d then safe_join_default_dir else d.

Definition safe_join (d : str) (cs : list str) : option str :=
  option_map (posix_join (base_dir d)) (check_parts cs).

(* ------------------------------------------------------------------ containment spec *)

(* the segments of a path that normpath keeps: the fields between slashes that are neither
   empty nor a single dot *)
Definition keep_seg (c : list N) : bool := negb (is_nil c || is_dot c).
Definition segs (s : str) : list (list N) := filter keep_seg (split_on SL s).

Fixpoint strip_prefix (a b : list (list N)) : option (list (list N)) :=
  match a, b with
  | [], _ => Some b
  | x :: a', y :: b' => if list_eqb x y then strip_prefix a' b' else None
  | _ :: _, [] => None
  end.

Definition no_dotdot (l : list (list N)) : bool := forallb (fun c => negb (is_dotdot c)) l.

(* p is inside base (both normalised): same kind of leading slashes, the segments of base
   are a prefix of those of p, and what follows contains no dot-dot segment *)
Definition inside (base p : str) : bool :=
  Nat.eqb (lead base) (lead p) &&
  match strip_prefix (segs base) (segs p) with
  | Some rest => no_dotdot rest
  | None => false
  end.

(* ------------------------------------------------------------------ secure_filename *)

Definition ascii_ignore (s : str) : str := filter (fun c => c <? 128) s.

Definition replace_seps (s : str) : str :=
  fold_left (fun acc sep => replace_char sep filename_sep_replacement acc) filename_seps s.

Definition keep_char (c : N) : bool := in_ranges c filename_keep_class.
Definition strip_char (c : N) : bool := mem c filename_strip_chars.

(* everything after unicodedata.normalize (os.name is not nt) *)
Definition secure_core (s : str) : str :=
  strip strip_char
    (filter keep_char
       (join_with [filename_joiner] (split_ws (replace_seps (ascii_ignore s))))).

Section Nfkd.
  Variable nfkd : str -> str.
  Definition secure_filename (s : str) : str := secure_core (nfkd s).
End Nfkd.

(* ------------------------------------------------------------------ the static-file helpers *)

Definition opt_list {A : Type} (o : option A) : list A := match o with Some x => [x] | None => [] end.

(* get_directory_loader: the path handed to os.path.isfile; None models `return None, None`
   before the file system is asked *)
Definition dir_target (directory : str) (p : option str) : option str :=
  match p with
  | Some x => safe_join directory [x]
  | None => Some directory
  end.

(* one iteration of `for search_path, loader in self.exports:` for a directory export: the
   paths whose isfile test decides, in order (exact match first, then the prefix match with
   the rest of the request path) *)
Definition export_candidates (search_path directory path : str) : list str :=
  (if sdm_exact search_path path then opt_list (dir_target directory None) else [])
  ++ (let sp := if sdm_append_slash search_path then search_path ++ sdm_slash else search_path in
      if sdm_prefix sp path
      then opt_list (dir_target directory (Some (skipn (length sp) path)))
      else []).

Definition shared_candidates (exports : list (str * str)) (path : str) : list str :=
  flat_map (fun e => export_candidates (fst e) (snd e) path) exports.

Section FileSystem.
  (* os.path.isfile: the file system is not modelled *)
  Variable isfile : str -> bool.

  (* utils.send_from_directory without _root_path: Some f = send_file f, None = NotFound *)
  Definition send_from_directory (directory path : str) : option str :=
    match safe_join directory [path] with
    | None => None
    | Some f => if isfile f then Some f else None
    end.

  (* SharedDataMiddleware.__call__ over directory exports: the file that is opened, or None
     when the request falls through to the wrapped application *)
  Definition shared_lookup (exports : list (str * str)) (path : str) : option str :=
    find isfile (shared_candidates exports path).
End FileSystem.

(* ------------------------------------------------------------------ secure_filename with os.name as an input *)
Definition first_field (x : N) (s : str) : str := fst (partition1 x s).     (* s.split(x)[0] *)
Definition upper (s : str) : str := map ascii_upper s.                       (* str.upper on ASCII text *)
Definition mem_str (s : str) (l : list str) : bool := existsb (list_eqb s) l.
Definition is_device (f : str) : bool := mem_str (upper (first_field device_field_sep f)) windows_device_files.

Definition replace_seps_of (seps : list N) (s : str) : str :=
  fold_left (fun acc sep => replace_char sep filename_sep_replacement acc) seps s.

(* nt = (os.name == "nt"): there os.sep is the backslash and os.path.altsep the slash *)
Definition secure_core_os (nt : bool) (s : str) : str :=
  let f := strip strip_char
             (filter keep_char
                (join_with [filename_joiner]
                   (split_ws (replace_seps_of (if nt then filename_seps_nt else filename_seps) (ascii_ignore s))))) in
  if nt && negb (is_nil f) && is_device f then device_prefix :: f else f.

(* ------------------------------------------------------------------ every kind of export *)
Inductive export :=
| EDir (directory : str)       (* a directory: get_directory_loader *)
| EFile (filename : str)       (* an existing file: get_file_loader *)
| EPkg (package_path : str).   (* (package, package_path): get_package_loader *)

(* what decides whether a candidate is served: os.path.isfile, or the package's resource reader *)
Inductive ckind := KIsFile | KResource | KFixed.

(* the loader of an export applied to None (exact match) or to the rest of the path *)
Definition loader_target (e : export) (p : option str) : list (ckind * str) :=
  match e with
  | EDir d => map (pair KIsFile) (opt_list (dir_target d p))
  | EFile f => [(KFixed, f)]                                   (* the argument is ignored *)
  | EPkg pp => match p with
               | None => []
               | Some x => map (pair KResource) (opt_list (safe_join pp [x]))
               end
  end.

Definition export_candidates_all (search_path : str) (e : export) (path : str) : list (ckind * str) :=
  (if sdm_exact search_path path then loader_target e None else [])
  ++ (let sp := if sdm_append_slash search_path then search_path ++ sdm_slash else search_path in
      if sdm_prefix sp path then loader_target e (Some (skipn (length sp) path)) else []).

Definition shared_candidates_all (exports : list (str * export)) (path : str) : list (ckind * str) :=
  flat_map (fun ke => export_candidates_all (fst ke) (snd ke) path) exports.

Section Serving.
  (* does the candidate exist: os.path.isfile for directory exports, reader.open_resource for
     package exports; a file export was checked when the middleware was built *)
  Variable available : ckind -> str -> bool.
  Definition shared_lookup_all (exports : list (str * export)) (path : str) : option (ckind * str) :=
    find (fun c => match fst c with KFixed => true | k => available k (snd c) end)
         (shared_candidates_all exports path).
End Serving.
