From Coq Require Extraction ExtrOcamlBasic.
From Wz Require Import lib.Bytes lib.ExtractBase C14.LibPath C14.Gen C14.Model.
Extraction Language OCaml.
Extraction "C14/model_extracted.ml" force_types normpath posix_join isabs base_dir safe_join inside secure_core secure_core_os shared_candidates shared_candidates_all.
