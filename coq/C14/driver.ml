let b x = if x then "1" else "0"
let rec take n l = if n <= 0 then [] else match l with [] -> [] | x :: r -> x :: take (n - 1) r
let () = iter_lines (fun line ->
  match fields line with
  | ["np"; s] -> csv_of_nlist (normpath (nlist_of_csv s))
  | "jn" :: a :: ps -> csv_of_nlist (posix_join (nlist_of_csv a) (List.map nlist_of_csv ps))
  | ["abs"; s] -> b (isabs (nlist_of_csv s))
  | "sj" :: d :: cs ->
      (* result, then whether the normalised result is inside the normalised base *)
      let d = nlist_of_csv d in
      (match safe_join d (List.map nlist_of_csv cs) with
       | None -> "none"
       | Some p ->
           let base = normpath (base_dir d) in
           "ok " ^ csv_of_nlist p ^ " " ^ b (inside base (normpath p)))
  | "sdm" :: path :: exports ->
      (* exports: key=directory pairs; result: the isfile candidates in order *)
      let es = List.map (fun kv -> match String.split_on_char '=' kv with
                                   | [k; v] -> (nlist_of_csv k, nlist_of_csv v) | _ -> failwith "export") exports in
      let cs = shared_candidates es (nlist_of_csv path) in
      if cs = [] then "none" else String.concat "|" (List.map csv_of_nlist cs)
  | "sdma" :: path :: exports ->
      (* exports: key=K:value with K in D (directory) F (file) P (package path) *)
      let es = List.map (fun kv -> match String.split_on_char '=' kv with
                 | [k; v] -> let body = String.sub v 2 (String.length v - 2) in
                             (nlist_of_csv k, (match v.[0] with 'D' -> EDir (nlist_of_csv body) | 'F' -> EFile (nlist_of_csv body)
                                                              | _ -> EPkg (nlist_of_csv body)))
                 | _ -> failwith "export") exports in
      let cs = shared_candidates_all es (nlist_of_csv path) in
      if cs = [] then "none" else
      String.concat "|" (List.map (fun (k, f) -> (match k with KIsFile -> "I:" | KResource -> "R:" | KFixed -> "X:") ^ csv_of_nlist f) cs)
  | ["sfos"; nt; s] -> csv_of_nlist (secure_core_os (nt = "1") (nlist_of_csv s))
  | ["sf"; s] -> csv_of_nlist (secure_core (nlist_of_csv s))
  | _ -> "bad-command")
