let b x = if x then "1" else "0"
let rec take n l = if n <= 0 then [] else match l with [] -> [] | x :: r -> x :: take (n - 1) r
let () = iter_lines (fun line ->
  match fields line with
  | ["np"; s] -> csv_of_nlist (normpath (nlist_of_csv s))
  | "jn" :: a :: ps -> csv_of_nlist (posix_join (nlist_of_csv a) (List.map nlist_of_csv ps))
  | ["abs"; s] -> b (isabs (nlist_of_csv s))
  | "sj" :: d :: cs ->
      (* result, then whether the normalised result is inside the normalised base *)
      let d = nlist_of_csv d in
      (match safe_join d (List.map nlist_of_csv cs) with
       | None -> "none"
       | Some p ->
           let base = normpath (base_dir d) in
           "ok " ^ csv_of_nlist p ^ " " ^ b (inside base (normpath p)))
  | "sdm" :: path :: exports ->
      (* exports: key=directory pairs; result: the isfile candidates in order *)
      let es = List.map (fun kv -> match String.split_on_char '=' kv with
                                   | [k; v] -> (nlist_of_csv k, nlist_of_csv v) | _ -> failwith "export") exports in
      let cs = shared_candidates es (nlist_of_csv path) in
      if cs = [] then "none" else String.concat "|" (List.map csv_of_nlist cs)
  | ["sf"; s] -> csv_of_nlist (secure_core (nlist_of_csv s))
  | _ -> "bad-command")
