(* posixpath.normpath / join / isabs and the str primitives safe_join and secure_filename use,
   as list functions over code points.  Definitions only (proofs: C14/Proofs.v).
   Hand-written from CPython's posixpath.py (normpath is implemented in C in 3.12; the
   Python reference body in posixpath.py is what is mirrored here); validated differentially
   against the running interpreter's posixpath by tools/c14.py on every run. *)
From Wz Require Import lib.Bytes.
Open Scope N_scope.

Definition SL : N := 47.
Definition DOT : N := 46.

Definition is_nil {A : Type} (l : list A) : bool := match l with [] => true | _ :: _ => false end.

(* str.split(sep) for a one-character separator: always at least one field.
   The pair is (first field, remaining fields) so that no dummy value is ever needed. *)
Fixpoint split_aux (x : N) (s : list N) : list N * list (list N) :=
  match s with
  | [] => ([], [])
  | c :: r => let '(h, t) := split_aux x r in
              if c =? x then ([], h :: t) else (c :: h, t)
  end.
Definition split_on (x : N) (s : list N) : list (list N) :=
  let '(h, t) := split_aux x s in h :: t.

(* sep.join(list) *)
Fixpoint join_with (sep : list N) (l : list (list N)) : list N :=
  match l with
  | [] => []
  | a :: r => match r with [] => a | _ :: _ => a ++ sep ++ join_with sep r end
  end.

(* `sub in s` *)
Definition contains (sub s : list N) : bool :=
  match find_sub sub s with Some _ => true | None => false end.

Definition is_dot (c : list N) : bool := list_eqb c [DOT].
Definition is_dotdot (c : list N) : bool := list_eqb c [DOT; DOT].

(* posixpath.normpath: initial_slashes is 0, 1, or 2 (exactly two leading slashes) *)
Definition lead (s : list N) : nat :=
  match s with
  | a :: r =>
      if a =? SL then
        match r with
        | b :: r2 =>
            if b =? SL then
              match r2 with
              | c :: _ => if c =? SL then 1%nat else 2%nat
              | [] => 2%nat
              end
            else 1%nat
        | [] => 1%nat
        end
      else 0%nat
  | [] => 0%nat
  end.

Definition head_is_dotdot (acc : list (list N)) : bool :=
  match acc with x :: _ => is_dotdot x | [] => false end.

(* one iteration of `for comp in comps:`; acc is new_comps, last element first *)
Definition norm_step (abs : bool) (acc : list (list N)) (comp : list N) : list (list N) :=
  if is_nil comp || is_dot comp then acc
  else if negb (is_dotdot comp) || (negb abs && is_nil acc) || head_is_dotdot acc
       then comp :: acc
       else match acc with _ :: acc' => acc' | [] => [] end.

Definition normpath (path : list N) : list N :=
  match path with
  | [] => [DOT]
  | _ :: _ =>
      let ini := lead path in
      let comps := rev (fold_left (norm_step (Nat.ltb 0 ini)) (split_on SL path) []) in
      match repeat SL ini ++ join_with [SL] comps with
      | [] => [DOT]
      | p => p
      end
  end.

Definition isabs (s : list N) : bool := starts_with [SL] s.

Fixpoint ends_slash (s : list N) : bool :=
  match s with
  | [] => false
  | c :: r => match r with [] => c =? SL | _ :: _ => ends_slash r end
  end.

(* one iteration of posixpath.join's loop *)
Definition join_step (path b : list N) : list N :=
  if starts_with [SL] b then b
  else if is_nil path || ends_slash path then path ++ b
  else path ++ SL :: b.
Definition posix_join (a : list N) (ps : list (list N)) : list N := fold_left join_step ps a.

(* str.split() without argument: fields between runs of white space, no empty field *)
Fixpoint split_ws_aux (s : list N) : list N * list (list N) :=
  match s with
  | [] => ([], [])
  | c :: r => let '(h, t) := split_ws_aux r in
              if uni_ws c then ([], match h with [] => t | _ :: _ => h :: t end)
              else (c :: h, t)
  end.
Definition split_ws (s : list N) : list (list N) :=
  let '(h, t) := split_ws_aux s in match h with [] => t | _ :: _ => h :: t end.

(* str.replace(x, y) for one-character x and y *)
Definition replace_char (x y : N) (s : list N) : list N := map (fun c => if c =? x then y else c) s.

(* str.endswith(suf) *)
Definition ends_with (suf s : list N) : bool := starts_with (rev suf) (rev s).
