(* C14 property theorems.  Nothing but statements, each closed by `exact <lemma>.`, with
   Print Assumptions beneath.  Definitions: C14/Model.v, C14/LibPath.v (posixpath), and
   C14/Gen.v (regenerated: safe_join_reject, safe_join_normalise_guard, safe_join_default_dir,
   filename_keep_class, filename_strip_chars, ...). *)
From Wz Require Import lib.Bytes C14.LibPath C14.Gen C14.Model C14.Proofs.
Open Scope N_scope.

(* Containment, for every base directory (absolute, relative, empty, root: d is any string,
   base_dir d is d or the default directory when d is empty) and every tuple of components:
   a join that is not refused, once normalised, is inside the normalised base. *)
Theorem C14_containment : forall d cs p, safe_join d cs = Some p ->
  inside (normpath (base_dir d)) (normpath p) = true.
Proof. exact containment. Qed.
Print Assumptions C14_containment.

(* what inside says: same kind of leading slashes, the kept segments of the base are a prefix
   of those of p, and the remainder has no dot-dot segment *)
Theorem C14_inside_meaning : forall base p, inside base p = true <->
  lead base = lead p /\ exists rest, segs p = segs base ++ rest /\ no_dotdot rest = true.
Proof. exact inside_spec. Qed.
Print Assumptions C14_inside_meaning.

(* with an absolute base the normalised result has no dot-dot segment at all *)
Theorem C14_containment_absolute : forall d cs p, safe_join d cs = Some p ->
  lead (base_dir d) <> 0%nat -> no_dotdot (segs (normpath p)) = true.
Proof. exact containment_abs. Qed.
Print Assumptions C14_containment_absolute.

(* key lemma: a normalised path that is relative, is not dot-dot and does not start with
   dot-dot-slash contains no dot-dot segment *)
Theorem C14_normalised_relative : forall c,
  starts_with [SL] (normpath c) = false ->
  list_eqb (normpath c) [DOT; DOT] = false -> starts_with [DOT; DOT; SL] (normpath c) = false ->
  no_dotdot (segs (normpath c)) = true.
Proof. exact normalised_relative_no_dotdot. Qed.
Print Assumptions C14_normalised_relative.

(* the hypothesis of C14_containment is satisfiable: /s joined with a/../b, the empty
   component and c is /s/b/c *)
Theorem C14_containment_example :
  safe_join [47; 115] [[97; 47; 46; 46; 47; 98]; []; [99]] = Some [47; 115; 47; 98; 47; 99].
Proof. exact safe_join_example. Qed.
Print Assumptions C14_containment_example.

(* Filenames: for any function nfkd that is the identity on ASCII strings (the contract of
   unicodedata.normalize NFKD), the sanitised name is over A-Z a-z 0-9 _ . - (hence ASCII),
   has no separator, blank or NUL, starts neither with a dot nor an underscore, and
   sanitising it again changes nothing. *)
Theorem C14_filename : forall nfkd : str -> str,
  (forall s, forallb (fun c => c <? 128) s = true -> nfkd s = s) ->
  forall s, let r := secure_filename nfkd s in
    forallb allowed_char r = true
    /\ forallb no_sep_blank_nul r = true
    /\ starts_with [46] r = false /\ starts_with [95] r = false
    /\ secure_filename nfkd r = r.
Proof. exact filename_laws. Qed.
Print Assumptions C14_filename.

(* the contract is satisfiable (the identity), and a hostile name is defused *)
Theorem C14_filename_example :
  secure_filename (fun s => s) [46; 46; 47; 46; 46; 47; 101; 116; 99; 47; 112; 32; 119; 100] =
  [101; 116; 99; 95; 112; 95; 119; 100].
Proof. exact filename_example. Qed.
Print Assumptions C14_filename_example.

(* send_from_directory, for any file system (isfile is a section variable): a file is sent only
   if safe_join accepted the path, the file exists, and it lies inside the directory *)
Theorem C14_send_from_directory : forall (isfile : str -> bool) d p f,
  send_from_directory isfile d p = Some f ->
  isfile f = true /\ inside (normpath (base_dir d)) (normpath f) = true.
Proof. exact send_from_directory_contained. Qed.
Print Assumptions C14_send_from_directory.

(* SharedDataMiddleware over directory exports, for any file system: the file that is opened
   exists and belongs to one export -- either the request path is exactly the export key and the
   file is the exported path itself, or the request path is the export key extended at a slash
   (export_prefix sp ends with a slash) by some rest, the file is safe_join dir rest, and it lies
   inside the exported directory *)
Theorem C14_shared_data : forall (isfile : str -> bool) exports path f,
  shared_lookup isfile exports path = Some f ->
  isfile f = true /\
  exists sp dir, In (sp, dir) exports /\
    ((sp = path /\ f = dir)
     \/ (exists rest, path = export_prefix sp ++ rest /\ safe_join dir [rest] = Some f
                      /\ inside (normpath (base_dir dir)) (normpath f) = true)).
Proof. exact shared_lookup_contained. Qed.
Print Assumptions C14_shared_data.

Theorem C14_export_prefix_ends_at_slash : forall sp, ends_with [SL] (export_prefix sp) = true.
Proof. exact export_prefix_slash. Qed.
Print Assumptions C14_export_prefix_ends_at_slash.

Theorem C14_shared_data_example :
  shared_candidates [([47; 115], [47; 119])] [47; 115; 47; 97; 47; 46; 46; 47; 98] = [[47; 119; 47; 98]]
  /\ shared_candidates [([47; 115], [47; 119])] [47; 115; 47; 46; 46; 47; 98] = []
  /\ shared_candidates [([47; 115], [47; 119])] [47; 115; 120; 47; 98] = [].
Proof. exact shared_example. Qed.
Print Assumptions C14_shared_data_example.

(* secure_filename with os.name as an input.  On Windows (nt = true: backslash and slash are the
   separators, the device-name branch is live) the result is never a device name -- its part
   before the first dot, upper-cased, is not CON, PRN, AUX, NUL, COM0-9, LPT0-9 (table regenerated
   from the source) -- and it is still over the allowed alphabet without separator, blank or NUL *)
Theorem C14_filename_windows : forall (nfkd : str -> str) s,
  let r := secure_filename_os nfkd true s in
  is_device r = false /\ forallb allowed_char r = true /\ forallb no_sep_blank_nul r = true.
Proof. exact filename_windows. Qed.
Print Assumptions C14_filename_windows.

(* with nt = false it is the function of C14_filename *)
Theorem C14_filename_posix_branch : forall s, secure_core_os false s = secure_core s.
Proof. exact secure_core_os_posix. Qed.
Print Assumptions C14_filename_posix_branch.

Theorem C14_filename_windows_example :
  secure_core_os true [99; 111; 110; 46; 116; 120; 116] = [95; 99; 111; 110; 46; 116; 120; 116]
  /\ secure_core_os true [97; 92; 98] = [97; 95; 98]
  /\ secure_core_os false [97; 92; 98] = [97; 98].
Proof. exact filename_windows_example. Qed.
Print Assumptions C14_filename_windows_example.

(* SharedDataMiddleware over every kind of export, for any file system / resource reader
   (available is a section variable): what is served belongs to one export; a single-file export
   serves exactly the exported file (whatever follows its key); a directory export as in
   C14_shared_data; a package export only on a prefix match, the resource name is
   safe_join package_path rest and lies inside package_path *)
Theorem C14_shared_data_all_exports : forall (available : ckind -> str -> bool) exports path k f,
  shared_lookup_all available exports path = Some (k, f) ->
  exists sp e, In (sp, e) exports /\
    match e with
    | EFile g => k = KFixed /\ f = g /\ (sp = path \/ exists rest, path = export_prefix sp ++ rest)
    | EDir d => k = KIsFile /\ available KIsFile f = true /\
                ((sp = path /\ f = d)
                 \/ exists rest, path = export_prefix sp ++ rest /\ safe_join d [rest] = Some f
                                 /\ inside (normpath (base_dir d)) (normpath f) = true)
    | EPkg pp => k = KResource /\ available KResource f = true /\
                 exists rest, path = export_prefix sp ++ rest /\ safe_join pp [rest] = Some f
                              /\ inside (normpath (base_dir pp)) (normpath f) = true
    end.
Proof. exact shared_lookup_all_contained. Qed.
Print Assumptions C14_shared_data_all_exports.
