(* C14 property theorems.  Nothing but statements, each closed by `exact <lemma>.`, with
   Print Assumptions beneath.  Definitions: C14/Model.v, C14/LibPath.v (posixpath), and
   C14/Gen.v (regenerated: safe_join_reject, safe_join_normalise_guard, safe_join_default_dir,
   filename_keep_class, filename_strip_chars, ...). *)
From Wz Require Import lib.Bytes C14.LibPath C14.Gen C14.Model C14.Proofs.
Open Scope N_scope.

(* Containment, for every base directory (absolute, relative, empty, root: d is any string,
   base_dir d is d or the default directory when d is empty) and every tuple of components:
   a join that is not refused, once normalised, is inside the normalised base. *)
Theorem C14_containment : forall d cs p, safe_join d cs = Some p ->
  inside (normpath (base_dir d)) (normpath p) = true.
Proof. exact containment. Qed.
Print Assumptions C14_containment.

(* what inside says: same kind of leading slashes, the kept segments of the base are a prefix
   of those of p, and the remainder has no dot-dot segment *)
Theorem C14_inside_meaning : forall base p, inside base p = true <->
  lead base = lead p /\ exists rest, segs p = segs base ++ rest /\ no_dotdot rest = true.
Proof. exact inside_spec. Qed.
Print Assumptions C14_inside_meaning.

(* with an absolute base the normalised result has no dot-dot segment at all *)
Theorem C14_containment_absolute : forall d cs p, safe_join d cs = Some p ->
  lead (base_dir d) <> 0%nat -> no_dotdot (segs (normpath p)) = true.
Proof. exact containment_abs. Qed.
Print Assumptions C14_containment_absolute.

(* key lemma: a normalised path that is relative, is not dot-dot and does not start with
   dot-dot-slash contains no dot-dot segment *)
Theorem C14_normalised_relative : forall c,
  starts_with [SL] (normpath c) = false ->
  list_eqb (normpath c) [DOT; DOT] = false -> starts_with [DOT; DOT; SL] (normpath c) = false ->
  no_dotdot (segs (normpath c)) = true.
Proof. exact normalised_relative_no_dotdot. Qed.
Print Assumptions C14_normalised_relative.

(* the hypothesis of C14_containment is satisfiable: /s joined with a/../b, the empty
   component and c is /s/b/c *)
Theorem C14_containment_example :
  safe_join [47; 115] [[97; 47; 46; 46; 47; 98]; []; [99]] = Some [47; 115; 47; 98; 47; 99].
Proof. exact safe_join_example. Qed.
Print Assumptions C14_containment_example.

(* Filenames: for any function nfkd that is the identity on ASCII strings (the contract of
   unicodedata.normalize NFKD), the sanitised name is over A-Z a-z 0-9 _ . - (hence ASCII),
   has no separator, blank or NUL, starts neither with a dot nor an underscore, and
   sanitising it again changes nothing. *)
Theorem C14_filename : forall nfkd : str -> str,
  (forall s, forallb (fun c => c <? 128) s = true -> nfkd s = s) ->
  forall s, let r := secure_filename nfkd s in
    forallb allowed_char r = true
    /\ forallb no_sep_blank_nul r = true
    /\ starts_with [46] r = false /\ starts_with [95] r = false
    /\ secure_filename nfkd r = r.
Proof. exact filename_laws. Qed.
Print Assumptions C14_filename.

(* the contract is satisfiable (the identity), and a hostile name is defused *)
Theorem C14_filename_example :
  secure_filename (fun s => s) [46; 46; 47; 46; 46; 47; 101; 116; 99; 47; 112; 32; 119; 100] =
  [101; 116; 99; 95; 112; 95; 119; 100].
Proof. exact filename_example. Qed.
Print Assumptions C14_filename_example.
