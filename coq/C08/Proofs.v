(* C08 proofs, part 1: HeaderSet representation invariant and refinement. *)
From Coq Require Import ZArith Lia ZifyBool ZifyN Permutation.
From Wz Require Import lib.Bytes C08.LibStr C08.LibStrFacts C08.Gen C08.Model C08.Spec.
Open Scope N_scope.

(* ------------------------------------------------------------------ sets of strings *)
Lemma set_insert_In x y s : In y (set_insert x s) <-> y = x \/ In y s.
Proof.
  induction s as [|z s IH]; cbn [set_insert].
  - cbn [In]. intuition.
  - destruct (str_ltb x z); cbn [In]; [intuition|]. rewrite IH. intuition.
Qed.

Lemma set_insert_NoDup x s : ~ In x s -> NoDup s -> NoDup (set_insert x s).
Proof.
  induction s as [|z s IH]; cbn [set_insert]; intros Hx H.
  - constructor; [intros []|constructor].
  - inversion H as [|? ? Hz Hs]; subst. destruct (str_ltb x z).
    + constructor; assumption.
    + constructor.
      * rewrite set_insert_In. intros [A|A]; [subst; apply Hx; left; reflexivity|contradiction].
      * apply IH; [|exact Hs]. intro A. apply Hx. right. exact A.
Qed.

Lemma set_add_In x y s : In y (set_add x s) <-> y = x \/ In y s.
Proof.
  unfold set_add. destruct (smem x s) eqn:E.
  - apply smem_In in E. split; [intro; right; assumption|intros [->|A]; assumption].
  - apply set_insert_In.
Qed.

Lemma set_add_NoDup x s : NoDup s -> NoDup (set_add x s).
Proof.
  unfold set_add. destruct (smem x s) eqn:E; intro H; [exact H|].
  apply set_insert_NoDup; [apply smem_false; exact E|exact H].
Qed.

Lemma set_remove_In x y s : In y (set_remove x s) <-> y <> x /\ In y s.
Proof.
  unfold set_remove. rewrite filter_In. split.
  - intros [A B]. split; [|exact A]. intro E. subst. rewrite list_eqb_refl in B. discriminate.
  - intros [A B]. split; [exact B|]. apply negb_true_iff. apply list_eqb_neq. congruence.
Qed.

Lemma set_remove_NoDup x s : NoDup s -> NoDup (set_remove x s).
Proof. apply NoDup_filter. Qed.

Lemma set_add_length x s : NoDup s -> ~ In x s -> length (set_add x s) = S (length s).
Proof.
  intros _ Hx. unfold set_add. apply smem_false in Hx. rewrite Hx. clear Hx.
  induction s as [|z s IH]; cbn [set_insert length]; [reflexivity|].
  destruct (str_ltb x z); cbn [length]; [reflexivity|]. rewrite IH. reflexivity.
Qed.

(* ------------------------------------------------------------------ case-insensitive membership *)
Lemma ci_eqb_eq a b : ci_eqb a b = true <-> lower a = lower b.
Proof. unfold ci_eqb. apply list_eqb_eq. Qed.

Lemma ci_mem_In h l : ci_mem h l = true <-> In (lower h) (map lower l).
Proof.
  unfold ci_mem. rewrite existsb_exists, in_map_iff. split.
  - intros [x [Hx E]]. apply ci_eqb_eq in E. exists x. split; assumption.
  - intros [x [E Hx]]. exists x. split; [exact Hx|]. apply ci_eqb_eq. exact E.
Qed.

Lemma ci_mem_false h l : ci_mem h l = false <-> ~ In (lower h) (map lower l).
Proof.
  split.
  - intros H A. apply ci_mem_In in A. congruence.
  - intro H. destruct (ci_mem h l) eqn:E; [|reflexivity]. apply ci_mem_In in E. contradiction.
Qed.

Lemma ci_nodupb_spec l : ci_nodupb l = true <-> ci_nodup l.
Proof.
  unfold ci_nodup. induction l as [|x r IH]; cbn [ci_nodupb map].
  - split; [constructor|reflexivity].
  - rewrite andb_true_iff, negb_true_iff, ci_mem_false, IH. split.
    + intros [A B]. constructor; assumption.
    + intro H. inversion H; subst. split; assumption.
Qed.

Lemma RI_mem s h : RI s -> smem (lower h) (hs_set s) = ci_mem h (hs_headers s).
Proof.
  intros (_ & _ & Heq). destruct (ci_mem h (hs_headers s)) eqn:E.
  - apply smem_In. apply Heq. apply ci_mem_In. exact E.
  - apply smem_false. intro A. apply Heq in A. apply ci_mem_In in A. congruence.
Qed.

Lemma RI_len s : RI s -> length (hs_set s) = length (hs_headers s).
Proof.
  intros (H1 & H2 & Heq). etransitivity; [|apply (map_length lower)].
  apply Permutation_length. apply NoDup_Permutation; assumption.
Qed.

(* ------------------------------------------------------------------ list surgery under map lower *)
Lemma norm_index_lt len i n : norm_index len i = Some n -> (n < len)%nat.
Proof.
  unfold norm_index. destruct (i <? 0)%Z eqn:E; intro H;
  match type of H with (if ?c then _ else _) = _ => destruct c eqn:C end; try discriminate;
  inversion H; subst; lia.
Qed.

Lemma remove_first_lower (p : str -> bool) k l :
  (forall x, p x = list_eqb (lower x) k) -> NoDup (map lower l) ->
  NoDup (map lower (remove_first p l)) /\
  (forall x, In x (map lower (remove_first p l)) <-> In x (map lower l) /\ x <> k).
Proof.
  intros Hp. induction l as [|a l IH]; cbn [remove_first map]; intro H.
  - split; [constructor|]. cbn [In]. intuition.
  - inversion H as [|? ? Ha Hl]; subst. rewrite Hp. destruct (list_eqb (lower a) k) eqn:E.
    + apply list_eqb_eq in E. subst k. split; [exact Hl|]. intro x. cbn [In]. split.
      * intro A. split; [right; exact A|]. intro B. subst. contradiction.
      * intros [[A|A] B]; [congruence|exact A].
    + apply list_eqb_neq in E. destruct (IH Hl) as [N I]. cbn [map]. split.
      * constructor; [|exact N]. intro A. apply I in A. destruct A. contradiction.
      * intro x. cbn [In]. rewrite I. split.
        -- intros [A|[A B]]; [subst; split; [left; reflexivity|exact E]|split; [right; exact A|exact B]].
        -- intros [[A|A] B]; [left; exact A|right; split; assumption].
Qed.

Lemma remove_nth_lower n l :
  (n < length l)%nat -> NoDup (map lower l) ->
  NoDup (map lower (remove_nth n l)) /\
  (forall x, In x (map lower (remove_nth n l)) <-> In x (map lower l) /\ x <> lower (nth n l [])).
Proof.
  revert n. induction l as [|a l IH]; intros n Hn H; [cbn [length] in Hn; lia|].
  inversion H as [|? ? Ha Hl]; subst. destruct n as [|n]; cbn [remove_nth nth map].
  - split; [exact Hl|]. intro x. cbn [In]. split.
    + intro A. split; [right; exact A|]. intro B. subst. contradiction.
    + intros [[A|A] B]; [congruence|exact A].
  - cbn [length] in Hn. destruct (IH n ltac:(lia) Hl) as [N I]. split.
    + constructor; [|exact N]. intro A. apply I in A. destruct A. contradiction.
    + intro x. cbn [In]. rewrite I. split.
      * intros [A|[A B]]; [subst; split; [left; reflexivity|]|split; [right; exact A|exact B]].
        intro B. apply Ha. rewrite B. apply in_map. apply nth_In. lia.
      * intros [[A|A] B]; [left; exact A|right; split; assumption].
Qed.

Lemma set_nth_lower n v l :
  (n < length l)%nat -> NoDup (map lower l) -> ~ In (lower v) (map lower (remove_nth n l)) ->
  NoDup (map lower (set_nth n v l)) /\
  (forall x, In x (map lower (set_nth n v l)) <-> x = lower v \/ In x (map lower (remove_nth n l))).
Proof.
  revert n. induction l as [|a l IH]; intros n Hn H Hv; [cbn [length] in Hn; lia|].
  inversion H as [|? ? Ha Hl]; subst. destruct n as [|n]; cbn [set_nth remove_nth map] in *.
  - split; [constructor; assumption|]. intro x. cbn [In]. intuition.
  - cbn [length] in Hn. cbn [In] in Hv.
    destruct (IH n ltac:(lia) Hl ltac:(intro A; apply Hv; right; exact A)) as [N I]. split.
    + constructor; [|exact N]. intro A. apply I in A. destruct A as [A|A].
      * apply Hv. left. exact A.
      * destruct (remove_nth_lower n l ltac:(lia) Hl) as [_ I2]. apply I2 in A. destruct A. contradiction.
    + intro x. cbn [In]. rewrite I. intuition.
Qed.

Lemma set_nth_length {A} n (v : A) l : length (set_nth n v l) = length l.
Proof. revert n. induction l as [|a l IH]; intros [|n]; cbn [set_nth length]; try reflexivity. rewrite IH. reflexivity. Qed.

Lemma NoDup_app_one {A} (l : list A) x : NoDup l -> ~ In x l -> NoDup (l ++ [x]).
Proof.
  induction l as [|a l IH]; cbn [app]; intros H Hx.
  - constructor; [intros []|constructor].
  - inversion H; subst. constructor.
    + rewrite in_app_iff. cbn [In]. intros [A0|[A0|[]]]; [contradiction|]. subst. apply Hx. left. reflexivity.
    + apply IH; [assumption|]. intro A0. apply Hx. right. exact A0.
Qed.

(* ------------------------------------------------------------------ RI: initial state *)
Lemma set_of_list_spec l acc :
  NoDup acc -> NoDup (fold_left (fun s x => set_add x s) l acc) /\
  (forall x, In x (fold_left (fun s x => set_add x s) l acc) <-> In x acc \/ In x l).
Proof.
  revert acc. induction l as [|a l IH]; intros acc H; cbn [fold_left].
  - split; [exact H|]. cbn [In]. intuition.
  - destruct (IH (set_add a acc) (set_add_NoDup a acc H)) as [N I]. split; [exact N|].
    intro x. rewrite I, set_add_In. cbn [In]. intuition.
Qed.

Lemma RI_init l : ci_nodup l -> RI (hs_init l).
Proof.
  intro H. unfold RI, hs_init. cbn [hs_set hs_headers].
  destruct (set_of_list_spec (map hs_init_key l) [] (NoDup_nil _)) as [N I].
  split; [exact N|]. split; [exact H|]. intro x. unfold set_of_list. rewrite I. cbn [In].
  unfold hs_init_key. intuition.
Qed.

(* ------------------------------------------------------------------ RI and refinement: update *)
Lemma spec_add_length h l : (length l <= length (spec_add h l))%nat.
Proof. unfold spec_add. destruct (ci_mem h l); [lia|]. rewrite app_length. cbn [length]. lia. Qed.

Lemma spec_update_length hs l : (length l <= length (spec_update hs l))%nat.
Proof.
  unfold spec_update. revert l. induction hs as [|h hs IH]; intro l; cbn [fold_left]; [lia|].
  specialize (IH (spec_add h l)). pose proof (spec_add_length h l). lia.
Qed.

Lemma update_go_spec l : forall hs st ins hs' st' ins',
  RI {| hs_headers := hs; hs_set := st |} ->
  hs_update_go l hs st ins = (hs', st', ins') ->
  hs' = spec_update l hs /\ RI {| hs_headers := hs'; hs_set := st' |} /\
  ins' = ins || negb (Nat.eqb (length hs') (length hs)).
Proof.
  induction l as [|h l IH]; intros hs st ins hs' st' ins' HRI E; cbn [hs_update_go] in E.
  - inversion E; subst. unfold spec_update. cbn [fold_left]. split; [reflexivity|]. split; [exact HRI|].
    rewrite Nat.eqb_refl. cbn [negb]. rewrite orb_false_r. reflexivity.
  - unfold hs_update_new, hs_update_item, hs_update_key in E.
    pose proof (RI_mem {| hs_headers := hs; hs_set := st |} h HRI) as Hm. cbn [hs_set hs_headers] in Hm.
    rewrite Hm in E. unfold spec_update. cbn [fold_left]. unfold spec_add at 2.
    destruct (ci_mem h hs) eqn:Ec; cbn [negb] in E.
    + apply (IH _ _ _ _ _ _ HRI E).
    + assert (HRI2 : RI {| hs_headers := hs ++ [h]; hs_set := set_add (lower h) st |}).
      { destruct HRI as (N1 & N2 & I). unfold RI. cbn [hs_set hs_headers] in *. apply ci_mem_false in Ec.
        split; [apply set_add_NoDup; exact N1|]. split.
        - rewrite map_app. cbn [map]. apply NoDup_app_one; assumption.
        - intro x. rewrite set_add_In, map_app, in_app_iff, I. cbn [map In]. intuition. }
      destruct (IH _ _ _ _ _ _ HRI2 E) as (A & B & C). split; [exact A|]. split; [exact B|].
      rewrite C. cbn [orb].
      pose proof (spec_update_length l (hs ++ [h])) as Hl. fold (spec_update l (hs ++ [h])) in A.
      rewrite <- A in Hl. rewrite app_length in Hl. cbn [length] in Hl.
      assert (Hn : negb (Nat.eqb (length hs') (length hs)) = true)
        by (apply negb_true_iff; apply Nat.eqb_neq; lia).
      rewrite Hn, orb_true_r. reflexivity.
Qed.

(* ------------------------------------------------------------------ RI and refinement: every operation *)
Ltac split4 := split; [|split; [|split]].

Lemma RI_empty : RI {| hs_headers := []; hs_set := [] |}.
Proof. unfold RI. cbn [hs_set hs_headers map]. split; [constructor|]. split; [constructor|]. intuition. Qed.

Lemma hs_update_refines s l :
  RI s ->
  abs (fst (fst (hs_update s l))) = spec_update l (abs s) /\
  snd (fst (hs_update s l)) = Ok ONone /\
  snd (hs_update s l) = negb (Nat.eqb (length (spec_update l (abs s))) (length (abs s))) /\
  RI (fst (fst (hs_update s l))).
Proof.
  intro H. unfold hs_update. destruct (hs_update_go l (hs_headers s) (hs_set s) false) as [[hs' st'] ins'] eqn:E.
  destruct s as [hs st]. cbn [hs_headers hs_set] in E.
  destruct (update_go_spec l hs st false hs' st' ins' H E) as (A & B & C).
  cbn [orb] in C. unfold abs. cbn [fst snd hs_headers]. subst hs'. split4; [reflexivity|reflexivity|exact C|exact B].
Qed.

Lemma nth_lower_In n (l : list str) : (n < length l)%nat -> In (lower (nth n l [])) (map lower l).
Proof. intro H. apply in_map. apply nth_In. exact H. Qed.

Lemma hs_remove_refines s h :
  RI s ->
  let r := hs_remove s h in
  (if ci_mem h (abs s)
   then abs (fst (fst r)) = spec_remove h (abs s) /\ snd (fst r) = Ok ONone /\ snd r = true
   else fst (fst r) = s /\ snd (fst r) = Err KeyError /\ snd r = false) /\
  RI (fst (fst r)).
Proof.
  intro H. cbv zeta. unfold hs_remove, hs_remove_missing, hs_remove_key.
  rewrite (RI_mem s h H). unfold abs. destruct (ci_mem h (hs_headers s)) eqn:E; cbn [negb fst snd].
  - split; [split; [reflexivity|split; reflexivity]|].
    destruct H as (N1 & N2 & I). unfold RI. cbn [hs_set hs_headers].
    destruct (remove_first_lower (fun item => hs_remove_match item h) (lower h) (hs_headers s)
                ltac:(intro x; reflexivity) N2) as [N3 I3].
    split; [apply set_remove_NoDup; exact N1|]. split; [exact N3|].
    intro x. rewrite set_remove_In, I3, I. intuition.
  - split; [split; [reflexivity|split; reflexivity]|exact H].
Qed.

Lemma spec_add_flag h l : negb (Nat.eqb (length (spec_add h l)) (length l)) = negb (ci_mem h l).
Proof.
  unfold spec_add. destruct (ci_mem h l); cbn [negb].
  - rewrite Nat.eqb_refl. reflexivity.
  - rewrite app_length. cbn [length]. apply negb_true_iff. apply Nat.eqb_neq. lia.
Qed.

Theorem hs_step_refines s o :
  RI s -> setitem_ok (abs s) o = true ->
  abs (fst (fst (hs_step s o))) = fst (fst (spec_step (abs s) o)) /\
  snd (fst (hs_step s o)) = snd (fst (spec_step (abs s) o)) /\
  snd (hs_step s o) = snd (spec_step (abs s) o) /\
  RI (fst (fst (hs_step s o))).
Proof.
  intros H Hok. destruct o as [h|h|l|h| |i|i v]; cbn [hs_step spec_step].
  - destruct (hs_update_refines s [h] H) as (A & B & C & D). cbn [fst snd].
    rewrite A, B, C. unfold spec_update. cbn [fold_left]. rewrite spec_add_flag.
    split4; [reflexivity|reflexivity|reflexivity|exact D].
  - pose proof (hs_remove_refines s h H) as R. cbv zeta in R. destruct R as [R1 R2].
    destruct (ci_mem h (abs s)); cbn [fst snd].
    + destruct R1 as (A & B & C). split4; assumption.
    + destruct R1 as (A & B & C). rewrite A in *. split4; [reflexivity|assumption|assumption|assumption].
  - destruct (hs_update_refines s l H) as (A & B & C & D). cbn [fst snd]. split4; assumption.
  - pose proof (hs_remove_refines s h H) as R. cbv zeta in R. destruct R as [R1 R2].
    destruct (hs_remove s h) as [[s' r] f]. cbn [fst snd] in *.
    destruct (ci_mem h (abs s)); cbn [fst snd].
    + destruct R1 as (A & B & C). split4; [assumption|reflexivity|assumption|assumption].
    + destruct R1 as (A & B & C). subst s'. split4; [reflexivity|reflexivity|assumption|assumption].
  - cbn [fst snd abs hs_headers]. split4; [reflexivity|reflexivity|reflexivity|apply RI_empty].
  - unfold abs. destruct (norm_index (length (hs_headers s)) i) as [n|] eqn:En; cbn [fst snd].
    + pose proof (norm_index_lt _ _ _ En) as Hn. unfold hs_delitem_key.
      assert (Hin : smem (lower (nth n (hs_headers s) [])) (hs_set s) = true).
      { apply smem_In. apply H. apply nth_lower_In. exact Hn. }
      rewrite Hin. cbn [fst snd hs_headers]. split4; [reflexivity|reflexivity|reflexivity|].
      destruct H as (N1 & N2 & I). unfold RI. cbn [hs_set hs_headers].
      destruct (remove_nth_lower n (hs_headers s) Hn N2) as [N3 I3].
      split; [apply set_remove_NoDup; exact N1|]. split; [exact N3|].
      intro x. rewrite set_remove_In, I3, I. intuition.
    + split4; [reflexivity|reflexivity|reflexivity|exact H].
  - unfold abs in *. cbn [setitem_ok] in Hok.
    destruct (norm_index (length (hs_headers s)) i) as [n|] eqn:En; cbn [fst snd].
    + pose proof (norm_index_lt _ _ _ En) as Hn. unfold hs_setitem_oldkey, hs_setitem_newkey.
      assert (Hin : smem (lower (nth n (hs_headers s) [])) (hs_set s) = true).
      { apply smem_In. apply H. apply nth_lower_In. exact Hn. }
      rewrite Hin. cbn [fst snd hs_headers]. split4; [reflexivity|reflexivity|reflexivity|].
      apply negb_true_iff in Hok. apply ci_mem_false in Hok.
      destruct H as (N1 & N2 & I). unfold RI. cbn [hs_set hs_headers].
      destruct (remove_nth_lower n (hs_headers s) Hn N2) as [N3 I3].
      destruct (set_nth_lower n v (hs_headers s) Hn N2 Hok) as [N4 I4].
      split; [apply set_add_NoDup; apply set_remove_NoDup; exact N1|]. split; [exact N4|].
      intro x. rewrite set_add_In, set_remove_In, I4, I3, I. intuition.
    + split4; [reflexivity|reflexivity|reflexivity|exact H].
Qed.

(* lifted to every operation sequence *)
Theorem hs_RI_exec ops : forall s, RI s -> ops_ok s ops = true -> RI (hs_exec s ops).
Proof.
  induction ops as [|o ops IH]; intros s H Hok; unfold hs_exec in *; cbn [fold_left]; [exact H|].
  cbn [ops_ok] in Hok. apply andb_prop in Hok. destruct Hok as [Ho Hr].
  apply IH; [|exact Hr]. apply (hs_step_refines s o H Ho).
Qed.

(* operations other than item assignment need no side condition *)
Definition no_setitem (o : hsop) : bool := match o with HSetItem _ _ => false | _ => true end.
Lemma no_setitem_ok ops : forallb no_setitem ops = true -> forall s, ops_ok s ops = true.
Proof.
  induction ops as [|o ops IH]; intros H s; cbn [ops_ok]; [reflexivity|].
  cbn [forallb] in H. apply andb_prop in H. destruct H as [Ho Hr]. rewrite (IH Hr).
  destruct o; try discriminate; reflexivity.
Qed.

(* the unguarded statements are false on the faithful model: witnesses *)
Definition s_a : str := [97].
Definition s_A : str := [65].
Definition s_b : str := [98].
Definition s_B : str := [66].

Lemma RI_dec_false_setitem :
  let s := fst (fst (hs_step (hs_init [s_a; s_b]) (HSetItem 0%Z s_B))) in
  hs_headers s = [s_B; s_b] /\ hs_set s = [s_b] /\ hs_len s = 1%nat.
Proof. vm_compute. repeat split. Qed.

Lemma RI_needs_nodup (s : hset) : RI s -> length (hs_set s) = length (hs_headers s).
Proof. apply RI_len. Qed.

Theorem headerset_RI_refuted :
  (exists l, ~ RI (hs_init l)) /\
  (exists s o, RI s /\ ~ RI (fst (fst (hs_step s o)))).
Proof.
  split.
  - exists [s_a; s_A]. intro H. apply RI_len in H. vm_compute in H. discriminate.
  - exists (hs_init [s_a; s_b]), (HSetItem 0%Z s_B). split.
    + apply RI_init. apply ci_nodupb_spec. vm_compute. reflexivity.
    + intro H. apply RI_len in H. vm_compute in H. discriminate.
Qed.

(* ------------------------------------------------------------------ HeaderSet reads under RI *)
Lemma hs_reads_refine s :
  RI s ->
  hs_len s = length (abs s) /\
  hs_bool s = negb (Nat.eqb (length (abs s)) 0) /\
  (forall h, hs_contains h (hs_set s) = ci_mem h (abs s)) /\
  (forall h, (0 <= hs_find s h)%Z <-> ci_mem h (abs s) = true).
Proof.
  intro H. unfold hs_len, hs_bool, abs. rewrite (RI_len s H).
  split; [reflexivity|]. split; [reflexivity|]. split.
  - intro h. unfold hs_contains. apply RI_mem. exact H.
  - intro h. unfold hs_find, hs_find_match, ci_mem.
    assert (G : forall l : list str, (exists n, find_index (fun item : str => list_eqb (lower item) (lower h)) l = Some n)
                          <-> existsb (fun x => ci_eqb x h) l = true).
    { induction l as [|a l IH]; cbn [find_index existsb].
      - split; [intros [n E]; discriminate|discriminate].
      - unfold ci_eqb at 1. destruct (list_eqb (lower a) (lower h)); cbn [orb].
        + split; [reflexivity|]. intros _. exists O. reflexivity.
        + rewrite <- IH. split.
          * intros [n E]. destruct (find_index _ l) as [m|]; [exists m; reflexivity|discriminate].
          * intros [n E]. rewrite E. exists (S n). reflexivity. }
    rewrite <- G. destruct (find_index (fun item : str => list_eqb (lower item) (lower h)) (hs_headers s)) as [n|] eqn:E.
    + cbv iota. split; [intros _; exists n; reflexivity|intros _; lia].
    + cbv iota. split; [lia|intros [n E2]; discriminate].
Qed.

(* ================================================================== Headers laws *)
Lemma hd_match_defs k key :
  hd_get_match k key = ci_eqb k key /\ hd_getlist_match k key = ci_eqb k key /\
  hd_set_match k key = ci_eqb k key /\ hd_del_keep k key = negb (ci_eqb k key) /\
  hd_set_keep k key = negb (ci_eqb k key).
Proof. repeat split. Qed.

Lemma ci_eqb_sym a b : ci_eqb a b = ci_eqb b a.
Proof. unfold ci_eqb. apply list_eqb_sym. Qed.

Lemma ci_eqb_trans_l a b c : ci_eqb a b = true -> ci_eqb a c = ci_eqb b c.
Proof. unfold ci_eqb. intro H. apply list_eqb_eq in H. rewrite H. reflexivity. Qed.

(* get is the head of getlist; contains says whether getlist is non-empty; getlist depends on the key up to case *)
Lemma hd_get_is_head h k : hd_get_key h k = hd_error (hd_getlist h k).
Proof.
  unfold hd_get_key, hd_getlist, hd_get_match, hd_getlist_match.
  induction h as [|[a v] h IH]; cbn [find filter map fst snd hd_error option_map]; [reflexivity|].
  destruct (list_eqb (lower a) (lower k)); cbn [map hd_error option_map snd]; [reflexivity|exact IH].
Qed.

Lemma hd_contains_getlist h k : hd_contains h k = negb (Nat.eqb (length (hd_getlist h k)) 0).
Proof.
  unfold hd_contains. rewrite hd_get_is_head. destruct (hd_getlist h k); reflexivity.
Qed.

Lemma hd_getlist_ci h k k' : ci_eqb k k' = true -> hd_getlist h k = hd_getlist h k'.
Proof.
  intro H. unfold hd_getlist, hd_getlist_match. apply ci_eqb_eq in H. rewrite H. reflexivity.
Qed.

(* add appends one value to the row of its key and to no other row *)
Lemma hd_getlist_app h1 h2 k : hd_getlist (h1 ++ h2) k = hd_getlist h1 k ++ hd_getlist h2 k.
Proof. unfold hd_getlist. rewrite filter_app, map_app. reflexivity. Qed.

Lemma hd_add_law h k s k' :
  hd_getlist (h ++ [(k, s)]) k' = hd_getlist h k' ++ (if ci_eqb k k' then [s] else []).
Proof.
  rewrite hd_getlist_app. f_equal. unfold hd_getlist, hd_getlist_match. cbn [filter fst].
  fold (ci_eqb k k'). destruct (ci_eqb k k'); reflexivity.
Qed.

(* remove / del h[key] empties the row of the key and leaves every other row, and the order of the rest, alone *)
Lemma hd_del_law h k k' :
  hd_getlist (hd_del_key h k) k' = if ci_eqb k k' then [] else hd_getlist h k'.
Proof.
  unfold hd_del_key, hd_getlist, hd_del_keep, hd_getlist_match.
  induction h as [|[a v] h IH]; cbn [filter map fst]; [destruct (ci_eqb k k'); reflexivity|].
  fold (ci_eqb a k). fold (ci_eqb a k').
  destruct (ci_eqb a k) eqn:E1; cbn [negb filter fst].
  - rewrite IH. fold (ci_eqb a k'). rewrite (ci_eqb_trans_l a k k' E1).
    destruct (ci_eqb k k'); reflexivity.
  - fold (ci_eqb a k'). destruct (ci_eqb a k') eqn:E2; cbn [map snd]; rewrite IH.
    + destruct (ci_eqb k k') eqn:E3; [|reflexivity].
      apply ci_eqb_eq in E2. apply ci_eqb_eq in E3.
      assert (ci_eqb a k = true) by (apply ci_eqb_eq; congruence). congruence.
    + reflexivity.
Qed.

Lemma hd_del_others h k :
  filter (fun kv => negb (ci_eqb (fst kv) k)) (hd_del_key h k) = filter (fun kv => negb (ci_eqb (fst kv) k)) h.
Proof.
  unfold hd_del_key, hd_del_keep. induction h as [|[a v] h IH]; cbn [filter fst]; [reflexivity|].
  fold (ci_eqb a k). destruct (ci_eqb a k) eqn:E; cbn [negb filter fst]; [exact IH|].
  rewrite E. cbn [negb]. f_equal. exact IH.
Qed.

Lemma hd_getlist_cons a v h k :
  hd_getlist ((a, v) :: h) k = (if ci_eqb a k then [v] else []) ++ hd_getlist h k.
Proof.
  unfold hd_getlist, hd_getlist_match. cbn [filter fst]. fold (ci_eqb a k). destruct (ci_eqb a k); reflexivity.
Qed.

Lemma hd_contains_cons a v h k : hd_contains ((a, v) :: h) k = ci_eqb a k || hd_contains h k.
Proof.
  unfold hd_contains, hd_get_key, hd_get_match. cbn [find fst]. fold (ci_eqb a k). destruct (ci_eqb a k); reflexivity.
Qed.

Lemma ci_eqb_refl k : ci_eqb k k = true.
Proof. apply ci_eqb_eq. reflexivity. Qed.

(* set leaves exactly one value for the key, at the position of its first occurrence (or at the end), and leaves
   every other row and the relative order of the other pairs alone *)
Lemma hd_set_go_spec h k s :
  match hd_set_go h k s with
  | Some h' => hd_contains h k = true /\ hd_getlist h' k = [s] /\
               (forall k', ci_eqb k k' = false -> hd_getlist h' k' = hd_getlist h k') /\
               filter (fun kv => negb (ci_eqb (fst kv) k)) h' = filter (fun kv => negb (ci_eqb (fst kv) k)) h
  | None => hd_contains h k = false
  end.
Proof.
  induction h as [|[a v] h IH]; cbn [hd_set_go]; [reflexivity|].
  unfold hd_set_match. fold (ci_eqb a k). destruct (ci_eqb a k) eqn:E.
  - change (filter (fun t => hd_set_keep (fst t) k) h) with (hd_del_key h k).
    split; [rewrite hd_contains_cons, E; reflexivity|]. split; [|split].
    + rewrite hd_getlist_cons, hd_del_law, !ci_eqb_refl. reflexivity.
    + intros k' Hk'. rewrite !hd_getlist_cons, hd_del_law, Hk', (ci_eqb_trans_l a k k' E), Hk'. reflexivity.
    + cbn [filter fst]. rewrite ci_eqb_refl, E. cbn [negb]. apply hd_del_others.
  - destruct (hd_set_go h k s) as [h'|]; cbn [option_map].
    + destruct IH as (C & G & O & F). split; [|split; [|split]].
      * rewrite hd_contains_cons, E. exact C.
      * rewrite hd_getlist_cons, E. exact G.
      * intros k' Hk'. rewrite !hd_getlist_cons, (O k' Hk'). reflexivity.
      * cbn [filter fst]. rewrite E. cbn [negb]. f_equal. exact F.
    + rewrite hd_contains_cons, E. exact IH.
Qed.

Lemma hd_contains_false_getlist h k : hd_contains h k = false -> hd_getlist h k = [].
Proof. rewrite hd_contains_getlist. destruct (hd_getlist h k); [reflexivity|discriminate]. Qed.

Theorem hd_set_law h k s :
  hd_getlist (hd_set_str h k s) k = [s] /\
  (forall k', ci_eqb k k' = false -> hd_getlist (hd_set_str h k s) k' = hd_getlist h k') /\
  filter (fun kv => negb (ci_eqb (fst kv) k)) (hd_set_str h k s) = filter (fun kv => negb (ci_eqb (fst kv) k)) h.
Proof.
  unfold hd_set_str. pose proof (hd_set_go_spec h k s) as G. destruct (hd_set_go h k s) as [h'|].
  - destruct G as (_ & A & B & C). repeat split; assumption.
  - split; [|split].
    + rewrite hd_add_law. rewrite (hd_contains_false_getlist h k G).
      rewrite ci_eqb_refl. reflexivity.
    + intros k' Hk'. rewrite hd_add_law, Hk'. apply app_nil_r.
    + rewrite filter_app. cbn [filter fst]. rewrite ci_eqb_refl. cbn [negb]. apply app_nil_r.
Qed.

(* every stored value is newline-free: the invariant of C05, stated here for the shared model *)
Definition clean (h : headers) : Prop := forall k v, In (k, v) h -> has_newline v = false.

(* ================================================================== immutability *)
Theorem imd_immutable d o : imd_step d o = (d, Err TypeError).
Proof. unfold imd_step. destruct o; vm_compute; reflexivity. Qed.

Theorem cmd_outer_immutable c o : cmd_step c (COuter o) = (c, Err TypeError).
Proof. cbn [cmd_step]. destruct o; vm_compute; reflexivity. Qed.

Theorem eh_immutable e o : eh_step e o = (e, Err TypeError).
Proof. unfold eh_step. destruct o; vm_compute; reflexivity. Qed.

(* every mutator of the mutable classes (the inventory pinned by the translator) is named in the tables *)
Theorem blocked_tables_cover :
  forallb (fun m => smem m immutable_multidict_blocked) multidict_mutators = true /\
  forallb (fun m => smem m immutable_headers_blocked) headers_mutators = true.
Proof. split; vm_compute; reflexivity. Qed.

(* ------------------------------------------------------------------ the abstract set stays a set *)
Theorem spec_step_nodup l o :
  ci_nodup l -> setitem_ok l o = true -> ci_nodup (fst (fst (spec_step l o))).
Proof.
  intros H Hok. pose proof (RI_init l H) as HRI.
  destruct (hs_step_refines (hs_init l) o HRI Hok) as (A & _ & _ & (_ & N & _)).
  unfold ci_nodup. change l with (abs (hs_init l)). rewrite <- A. exact N.
Qed.

(* ------------------------------------------------------------------ Headers.setlist *)
Lemma hd_add_all_ok k : forall vs h h',
  hd_add_all h k (map VStr vs) = (h', None) -> h' = h ++ map (fun v => (k, v)) vs.
Proof.
  induction vs as [|v vs IH]; intros h h' E; cbn [map hd_add_all] in E.
  - inversion E. cbn [map]. rewrite app_nil_r. reflexivity.
  - unfold hd_add, str_header_value in E. destruct (has_newline v); cbn [hseq] in E; [discriminate|].
    rewrite (IH _ _ E). rewrite <- app_assoc. reflexivity.
Qed.

Lemma hd_getlist_same_key k vs : hd_getlist (map (fun v => (k, v)) vs) k = vs.
Proof.
  induction vs as [|v vs IH]; [reflexivity|]. cbn [map]. rewrite hd_getlist_cons, ci_eqb_refl, IH. reflexivity.
Qed.

Lemma hd_getlist_other_key k k' vs : ci_eqb k k' = false -> hd_getlist (map (fun v => (k, v)) vs) k' = [].
Proof.
  intro H. induction vs as [|v vs IH]; [reflexivity|]. cbn [map]. rewrite hd_getlist_cons, H, IH. reflexivity.
Qed.

Theorem hd_setlist_law h k vs h' :
  hd_setlist h k (map VStr vs) = (h', None) ->
  hd_getlist h' k = vs /\ (forall k', ci_eqb k k' = false -> hd_getlist h' k' = hd_getlist h k').
Proof.
  destruct vs as [|v vs]; cbn [map hd_setlist]; intro E.
  - inversion E; subst. split; [rewrite hd_del_law, ci_eqb_refl; reflexivity|].
    intros k' Hk'. rewrite hd_del_law, Hk'. reflexivity.
  - unfold hd_set, str_header_value in E. destruct (has_newline v); cbn [hseq] in E; [discriminate|].
    apply hd_add_all_ok in E. subst h'. destruct (hd_set_law h k v) as (A & B & _). split.
    + rewrite hd_getlist_app, A, hd_getlist_same_key. reflexivity.
    + intros k' Hk'. rewrite hd_getlist_app, (B k' Hk'), (hd_getlist_other_key k k' vs Hk'). apply app_nil_r.
Qed.
