(* C08 property theorems.  Statements only, each closed by exact <lemma>, Print Assumptions beneath.
   Models: C08/Model.v; abstract models: C08/Spec.v; regenerated comparisons and tables: C08/Gen.v. *)
From Coq Require Import ZArith.
From Wz Require Import lib.Bytes C08.LibStr C08.Gen C08.Model C08.Spec C08.Proofs C08.ProofsMD C08.ProofsMM C08.ProofsEq C08.ProofsCopy.
Open Scope N_scope.

(* ---------------------------------------------------------------- HeaderSet: representation invariant *)

(* the full statement (every constructor input, every operation) is false on the faithful model: a constructor
   input with two items equal up to case, and item assignment of an item equal up to case to another one,
   both break the invariant (known findings headerset-init-ci-duplicate, headerset-setitem-ci-duplicate) *)
Theorem C08_headerset_RI_refuted :
  (exists l, ~ RI (hs_init l)) /\ (exists s o, RI s /\ ~ RI (fst (fst (hs_step s o)))).
Proof. exact headerset_RI_refuted. Qed.
Print Assumptions C08_headerset_RI_refuted.

(* RI init, and RI preserved by every operation, lifted to all operation sequences; the guards exclude
   exactly the two refuting classes *)
Theorem C08_headerset_RI_partial : forall l ops,
  ci_nodup l -> ops_ok (hs_init l) ops = true -> RI (hs_exec (hs_init l) ops).
Proof. intros l ops H Hok. apply hs_RI_exec; [apply RI_init; exact H|exact Hok]. Qed.
Print Assumptions C08_headerset_RI_partial.

(* without item assignment no side condition on the operations is needed *)
Theorem C08_headerset_RI_no_setitem : forall l ops,
  ci_nodup l -> forallb no_setitem ops = true -> RI (hs_exec (hs_init l) ops).
Proof. intros l ops H Hn. apply hs_RI_exec; [apply RI_init; exact H|apply no_setitem_ok; exact Hn]. Qed.
Print Assumptions C08_headerset_RI_no_setitem.

Example C08_headerset_RI_example :
  ci_nodup [s_a; s_B] /\
  ops_ok (hs_init [s_a; s_B]) [HAdd s_A; HRemove s_b; HSetItem 0%Z s_B; HUpdate [s_b; s_a]; HDelItem (-1)%Z] = true /\
  hs_headers (hs_exec (hs_init [s_a; s_B]) [HAdd s_A; HRemove s_b; HSetItem 0%Z s_B; HUpdate [s_b; s_a]; HDelItem (-1)%Z]) = [s_B].
Proof. split; [apply ci_nodupb_spec; vm_compute; reflexivity|split; vm_compute; reflexivity]. Qed.
Print Assumptions C08_headerset_RI_example.

(* ---------------------------------------------------------------- HeaderSet: refinement to a case-insensitive ordered set *)
(* every concrete step yields the abstract set's new items, result / exception and change notification, and
   keeps the invariant *)
Theorem C08_refine_headerset_partial : forall s o,
  RI s -> setitem_ok (abs s) o = true ->
  abs (fst (fst (hs_step s o))) = fst (fst (spec_step (abs s) o)) /\
  snd (fst (hs_step s o)) = snd (fst (spec_step (abs s) o)) /\
  snd (hs_step s o) = snd (spec_step (abs s) o) /\
  RI (fst (fst (hs_step s o))).
Proof. exact hs_step_refines. Qed.
Print Assumptions C08_refine_headerset_partial.

(* the reads that go through _set (len, bool, in) agree with the item list; find agrees with membership *)
Theorem C08_headerset_reads : forall s, RI s ->
  hs_len s = length (abs s) /\
  hs_bool s = negb (Nat.eqb (length (abs s)) 0) /\
  (forall h, hs_contains h (hs_set s) = ci_mem h (abs s)) /\
  (forall h, (0 <= hs_find s h)%Z <-> ci_mem h (abs s) = true).
Proof. exact hs_reads_refine. Qed.
Print Assumptions C08_headerset_reads.

(* the abstract set stays duplicate-free up to case (so it is a set) *)
Theorem C08_spec_set_nodup : forall l o,
  ci_nodup l -> setitem_ok l o = true -> ci_nodup (fst (fst (spec_step l o))).
Proof. exact spec_step_nodup. Qed.
Print Assumptions C08_spec_set_nodup.

(* ---------------------------------------------------------------- Headers laws *)
(* Case folding: the code compares header names with str.lower() in EVERY read and mutator (_get_key, getlist, set,
   remove, __delitem__, __eq__, HeaderSet), never with casefold(); the comparison expressions are regenerated into Gen.v,
   where lower is modelled on ASCII, the claimed domain.  Names outside ASCII that are equal under casefold() or upper()
   but different under lower() (sharp s and ss, long s and s, final sigma and sigma, the fi ligature) are therefore
   DIFFERENT names; the harness runs them against a reference that folds with lower().  EnvironHeaders maps a name to its
   environ key with upper(), which is a known finding for such names. *)
Theorem C08_headers_read_consistency : forall h k,
  hd_get_key h k = hd_error (hd_getlist h k) /\
  hd_contains h k = negb (Nat.eqb (length (hd_getlist h k)) 0) /\
  (forall k', ci_eqb k k' = true -> hd_getlist h k = hd_getlist h k').
Proof. intros h k. split; [apply hd_get_is_head|split; [apply hd_contains_getlist|intros k'; apply hd_getlist_ci]]. Qed.
Print Assumptions C08_headers_read_consistency.

Theorem C08_headers_add_law : forall h k s k',
  hd_getlist (h ++ [(k, s)]) k' = hd_getlist h k' ++ (if ci_eqb k k' then [s] else []).
Proof. exact hd_add_law. Qed.
Print Assumptions C08_headers_add_law.

Theorem C08_headers_set_law : forall h k s,
  hd_getlist (hd_set_str h k s) k = [s] /\
  (forall k', ci_eqb k k' = false -> hd_getlist (hd_set_str h k s) k' = hd_getlist h k') /\
  filter (fun kv => negb (ci_eqb (fst kv) k)) (hd_set_str h k s) = filter (fun kv => negb (ci_eqb (fst kv) k)) h.
Proof. exact hd_set_law. Qed.
Print Assumptions C08_headers_set_law.

Theorem C08_headers_remove_law : forall h k,
  (forall k', hd_getlist (hd_del_key h k) k' = if ci_eqb k k' then [] else hd_getlist h k') /\
  filter (fun kv => negb (ci_eqb (fst kv) k)) (hd_del_key h k) = filter (fun kv => negb (ci_eqb (fst kv) k)) h.
Proof. intros h k. split; [intro k'; apply hd_del_law|apply hd_del_others]. Qed.
Print Assumptions C08_headers_remove_law.

(* setlist with accepted values leaves exactly those values for the key and every other row alone *)
Theorem C08_headers_setlist_law : forall h k vs h',
  hd_setlist h k (map VStr vs) = (h', None) ->
  hd_getlist h' k = vs /\ (forall k', ci_eqb k k' = false -> hd_getlist h' k' = hd_getlist h k').
Proof. exact hd_setlist_law. Qed.
Print Assumptions C08_headers_setlist_law.

(* ---------------------------------------------------------------- immutability *)
(* every mutator of ImmutableMultiDict, of a CombinedMultiDict view and of EnvironHeaders returns TypeError and
   leaves the state unchanged (the tables are those of the mixins, regenerated) *)
Theorem C08_immutable :
  (forall d o, imd_step d o = (d, Err TypeError)) /\
  (forall c o, cmd_step c (COuter o) = (c, Err TypeError)) /\
  (forall e o, eh_step e o = (e, Err TypeError)).
Proof. split; [exact imd_immutable|split; [exact cmd_outer_immutable|exact eh_immutable]]. Qed.
Print Assumptions C08_immutable.

Theorem C08_blocked_tables_cover :
  forallb (fun m => smem m immutable_multidict_blocked) multidict_mutators = true /\
  forallb (fun m => smem m immutable_headers_blocked) headers_mutators = true.
Proof. exact blocked_tables_cover. Qed.
Print Assumptions C08_blocked_tables_cover.

(* ---------------------------------------------------------------- MultiDict: refinement to an insertion-ordered multimap *)
Theorem C08_multidict_wf : forall d o, md_wf d -> md_wf (fst (md_step d o)).
Proof. exact md_step_wf. Qed.
Print Assumptions C08_multidict_wf.

(* read consistency on every well-formed state *)
Theorem C08_multidict_read_consistency : forall d k, md_wf d ->
  md_keys d = map fst d /\
  md_getlist d k = mm_getlist (md_abs d) k /\
  (d_mem k d = true <-> In k (md_keys d)) /\
  (md_nonempty d -> md_items d = Ok (map (fun kv => (fst kv, hd [] (snd kv))) d)
                    /\ md_keys d = first_keys (md_abs d) []).
Proof. exact md_read_consistency. Qed.
Print Assumptions C08_multidict_read_consistency.

(* items()/values() over a stored empty list: the full read-totality statement is false (known finding) *)
Theorem C08_multidict_items_total_refuted :
  exists d o, md_wf d /\ md_items (fst (md_step d o)) = Err IndexError.
Proof. exact md_items_refuted. Qed.
Print Assumptions C08_multidict_items_total_refuted.

(* the multimap laws of the mutators *)
Theorem C08_multidict_add_law : forall d k v k',
  md_getlist (d_append k v d) k' = md_getlist d k' ++ (if list_eqb k k' then [v] else []).
Proof. exact md_add_law. Qed.
Print Assumptions C08_multidict_add_law.

Theorem C08_multidict_setlist_law : forall d k vs k',
  md_getlist (d_set k vs d) k' = if list_eqb k k' then vs else md_getlist d k'.
Proof. exact md_setlist_law. Qed.
Print Assumptions C08_multidict_setlist_law.

Theorem C08_multidict_del_law : forall d k k',
  md_getlist (d_del k d) k' = if list_eqb k k' then [] else md_getlist d k'.
Proof. exact md_del_law. Qed.
Print Assumptions C08_multidict_del_law.

(* update / |= extend every row by the argument's values, in order *)
Theorem C08_multidict_update_law : forall l d k',
  md_getlist (md_add_all d l) k' = md_getlist d k' ++ mm_getlist l k'.
Proof. exact md_update_law. Qed.
Print Assumptions C08_multidict_update_law.

(* ---------------------------------------------------------------- CombinedMultiDict: read-through *)
Theorem C08_combined_reads : forall c k,
  cmd_getlist c k = flat_map (fun d => md_getlist d k) c /\
  cmd_contains c k = existsb (d_mem k) c /\
  (forall x, In x (cmd_keys c) <-> exists d, In d c /\ In x (md_keys d)) /\
  (Forall md_wf c -> md_getlist (cmd_lists c) k = cmd_getlist c k).
Proof. exact cmd_reads. Qed.
Print Assumptions C08_combined_reads.

(* ---------------------------------------------------------------- EnvironHeaders: the view is a function of the environ *)
Theorem C08_environ_view : forall e k v,
  In (k, v) e -> wsgi_key k = true -> NoDup (map fst e) ->
  (env_iter_http k v = true -> In (env_iter_http_name k, v) (eh_iter e) /\ eh_get_key e (env_iter_http_name k) = Some v).
Proof. exact eh_view. Qed.
Print Assumptions C08_environ_view.

Example C08_environ_view_example :
  let e := [([72; 84; 84; 80; 95; 88; 95; 70; 79; 79], [49]); ([67; 79; 78; 84; 69; 78; 84; 95; 84; 89; 80; 69], [50])] in
  eh_iter e = [([88; 45; 70; 111; 111], [49]); ([67; 111; 110; 116; 101; 110; 116; 45; 84; 121; 112; 101], [50])] /\
  eh_get_key e [120; 45; 102; 111; 111] = Some [49].
Proof. vm_compute. split; reflexivity. Qed.
Print Assumptions C08_environ_view_example.

(* ---------------------------------------------------------------- MultiDict: refinement of every operation *)
(* every operation (item set / add / setlist / setdefault / setlistdefault / update / |= / pop / popitem / poplist /
   popitemlist / clear / del) on a well-formed state without empty rows yields the abstract multimap's new pair
   list and its result or exception, and keeps the state well-formed; the guard mop_ok excludes exactly the
   operations that store an empty row (known finding multidict-empty-list-items) *)
Theorem C08_refine_multidict_step : forall d o,
  md_good d -> mop_ok o = true ->
  md_abs (fst (md_step d o)) = fst (mm_step (md_abs d) o) /\
  snd (md_step d o) = snd (mm_step (md_abs d) o) /\
  md_good (fst (md_step d o)).
Proof. exact md_step_refines. Qed.
Print Assumptions C08_refine_multidict_step.

(* lifted to every operation sequence, from every constructor input *)
Theorem C08_refine_multidict : forall a ops,
  (match a with Some (AMulti d) => md_good d | _ => True end) -> forallb mop_ok ops = true ->
  md_abs (md_exec (md_init a) ops) = mm_exec (md_abs (md_init a)) ops /\ md_good (md_exec (md_init a) ops).
Proof. intros a ops Ha Hok. apply md_exec_refines; [apply good_init; exact Ha|exact Hok]. Qed.
Print Assumptions C08_refine_multidict.

Example C08_refine_multidict_example :
  let ops := [MAdd [97] [49]; MAdd [98] [50]; MAdd [97] [51]; MSetDefault [99] [52]; MPop [98] None; MPopItem; MSetList [98] [[53]; [54]]] in
  forallb mop_ok ops = true /\
  md_exec (md_init None) ops = [([97], [[49]; [51]]); ([98], [[53]; [54]])] /\
  mm_exec [] ops = [([97], [49]); ([97], [51]); ([98], [53]); ([98], [54])].
Proof. vm_compute. repeat split. Qed.
Print Assumptions C08_refine_multidict_example.

(* every read of a good state is the abstract multimap's; items(multi=True), copy and to_dict(flat=False) are the
   state itself as a value *)
Theorem C08_multidict_reads_refine : forall d, md_good d ->
  md_keys d = mm_keys (md_abs d) /\
  (forall k, md_getlist d k = mm_getlist (md_abs d) k) /\
  (forall k, d_mem k d = smem k (mm_keys (md_abs d))) /\
  (forall k, md_getitem d k = match mm_getlist (md_abs d) k with v :: _ => Ok (OStr v) | [] => Err KeyError end) /\
  md_items d = Ok (map (fun k => (k, hd [] (mm_getlist (md_abs d) k))) (mm_keys (md_abs d))) /\
  md_items_multi d = md_abs d /\
  md_init (Some (AMulti d)) = d.
Proof. exact md_reads_refine. Qed.
Print Assumptions C08_multidict_reads_refine.

(* ---------------------------------------------------------------- Headers: index and slice operations *)
Theorem C08_index_normalisation : forall len i,
  ((0 <= i < Z.of_nat len)%Z -> norm_index len i = Some (Z.to_nat i)) /\
  ((- Z.of_nat len <= i < 0)%Z -> norm_index len i = Some (Z.to_nat (i + Z.of_nat len))) /\
  ((i < - Z.of_nat len \/ Z.of_nat len <= i)%Z -> norm_index len i = None).
Proof. exact norm_index_spec. Qed.
Print Assumptions C08_index_normalisation.

Theorem C08_headers_index_ops : forall h i,
  match norm_index (length h) i with
  | Some n =>
      (n < length h)%nat /\
      hd_step h (HdDelIdx i) = (firstn n h ++ skipn (S n) h, Ok ONone) /\
      hd_step h (HdPopIdx i) = (firstn n h ++ skipn (S n) h, Ok (OPair (fst (nth n h ([], []))) (snd (nth n h ([], []))))) /\
      (forall k s, has_newline s = false ->
         hd_step h (HdSetItemIdx i k (VStr s)) = (firstn n h ++ (k, s) :: skipn (S n) h, Ok ONone))
  | None =>
      hd_step h (HdDelIdx i) = (h, Err IndexError) /\ hd_step h (HdPopIdx i) = (h, Err IndexError) /\
      (forall k s, has_newline s = false -> hd_step h (HdSetItemIdx i k (VStr s)) = (h, Err IndexError))
  end.
Proof. exact hd_index_ops. Qed.
Print Assumptions C08_headers_index_ops.

Theorem C08_headers_slice_ops : forall (h : headers) a b,
  let s := clamp (length h) a O in
  let e := Nat.max s (clamp (length h) b (length h)) in
  (s <= e <= length h)%nat /\
  slice_get h a b = firstn (e - s) (skipn s h) /\
  hd_step h (HdDelSlice a b) = (firstn s h ++ skipn e h, Ok ONone) /\
  (forall l new, hd_str_pairs l = Ok new -> hd_step h (HdSetItemSlice a b l) = (firstn s h ++ new ++ skipn e h, Ok ONone)) /\
  h = firstn s h ++ slice_get h a b ++ skipn e h.
Proof. exact hd_slice_ops. Qed.
Print Assumptions C08_headers_slice_ops.

Theorem C08_slice_clamp : forall len i dflt,
  clamp len None dflt = dflt /\
  ((0 <= i)%Z -> clamp len (Some i) dflt = Nat.min (Z.to_nat i) len) /\
  ((i < 0)%Z -> clamp len (Some i) dflt = Z.to_nat (Z.max 0 (i + Z.of_nat len))).
Proof. exact clamp_spec. Qed.
Print Assumptions C08_slice_clamp.

(* ---------------------------------------------------------------- equality, hashing, copies, pickling *)
(* MultiDict / ImmutableMultiDict ==: exactly equality of the rows key by key (key order irrelevant) *)
Theorem C08_multidict_eq : forall d1 d2, md_wf d1 -> md_wf d2 ->
  (md_eqb d1 d2 = true <-> forall k, d_get k d1 = d_get k d2).
Proof. exact md_eq_spec. Qed.
Print Assumptions C08_multidict_eq.

Theorem C08_multidict_eq_equivalence :
  (forall d, md_wf d -> md_eqb d d = true) /\
  (forall d1 d2, md_wf d1 -> md_wf d2 -> md_eqb d1 d2 = md_eqb d2 d1) /\
  (forall d1 d2 d3, md_wf d1 -> md_wf d2 -> md_wf d3 -> md_eqb d1 d2 = true -> md_eqb d2 d3 = true -> md_eqb d1 d3 = true).
Proof. exact md_eq_equivalence. Qed.
Print Assumptions C08_multidict_eq_equivalence.

(* equal immutable values hash equal: hash(frozenset(items(multi=True))) is, by the contract of frozenset hashing, a
   function of the SET of pairs, and equal values have the same set of pairs *)
Theorem C08_immutable_eq_hash : forall (hash_fs : list (str * str) -> Z),
  (forall l1 l2, (forall p, In p l1 <-> In p l2) -> hash_fs l1 = hash_fs l2) ->
  forall d1 d2, md_wf d1 -> md_wf d2 -> md_eqb d1 d2 = true -> imd_hash hash_fs d1 = imd_hash hash_fs d2.
Proof. exact imd_eq_hash. Qed.
Print Assumptions C08_immutable_eq_hash.

(* copy() keeps the rows; deepcopy() (through to_dict and the constructor) and the immutable variant's pickle
   (__reduce_ex__ through its pairs) keep exactly the non-empty rows; __setstate__(__getstate__()) is the identity *)
Theorem C08_copy_deepcopy_pickle : forall d, md_wf d ->
  md_copy d = d /\ md_deepcopy d = live d /\ imd_reduce d = live d /\ md_setstate [] (md_getstate d) = d.
Proof. exact md_rebuild. Qed.
Print Assumptions C08_copy_deepcopy_pickle.

(* ... so on a state without empty rows copy, deep copy and pickle round trip are the identity on the value *)
Theorem C08_copy_deepcopy_pickle_identity : forall d, md_good d -> md_copy d = d /\ md_deepcopy d = d /\ imd_reduce d = d.
Proof. exact md_rebuild_good. Qed.
Print Assumptions C08_copy_deepcopy_pickle_identity.

Theorem C08_copy_deepcopy_pickle_refuted : exists d, md_wf d /\ md_copy d = d /\ md_deepcopy d <> d /\ imd_reduce d <> d.
Proof. exact md_rebuild_refuted. Qed.
Print Assumptions C08_copy_deepcopy_pickle_refuted.

(* Headers ==: equality of the sets of (folded key, value) pairs; an equivalence; equal Headers answer getlist with
   the same values; copy() of clean Headers is the same pair list *)
Theorem C08_headers_eq : forall h1 h2,
  hd_eqb h1 h2 = true <-> (forall p, In p (hd_lowered h1) <-> In p (hd_lowered h2)).
Proof. exact hd_eq_spec. Qed.
Print Assumptions C08_headers_eq.

Theorem C08_headers_eq_equivalence :
  (forall h, hd_eqb h h = true) /\ (forall h1 h2, hd_eqb h1 h2 = hd_eqb h2 h1) /\
  (forall h1 h2 h3, hd_eqb h1 h2 = true -> hd_eqb h2 h3 = true -> hd_eqb h1 h3 = true).
Proof. exact hd_eq_equivalence. Qed.
Print Assumptions C08_headers_eq_equivalence.

Theorem C08_headers_eq_reads : forall h1 h2 k v,
  hd_eqb h1 h2 = true -> (In v (hd_getlist h1 k) <-> In v (hd_getlist h2 k)).
Proof. exact hd_eq_reads. Qed.
Print Assumptions C08_headers_eq_reads.

Theorem C08_headers_copy : forall h, clean h -> hd_copy h = (h, None).
Proof. exact hd_copy_clean. Qed.
Print Assumptions C08_headers_copy.

(* HeaderSet == (collections.abc.Set.__eq__) on states satisfying the invariant: same folded item sets; an
   equivalence; equal sets contain the same items up to case *)
Theorem C08_headerset_eq : forall s1 s2, RI s1 -> RI s2 ->
  (hs_eqb s1 s2 = true <-> forall x, In x (hs_set s1) <-> In x (hs_set s2)).
Proof. exact hs_eq_spec. Qed.
Print Assumptions C08_headerset_eq.

Theorem C08_headerset_eq_equivalence :
  (forall s, RI s -> hs_eqb s s = true) /\
  (forall s1 s2, RI s1 -> RI s2 -> hs_eqb s1 s2 = true -> hs_eqb s2 s1 = true) /\
  (forall s1 s2 s3, RI s1 -> RI s2 -> RI s3 -> hs_eqb s1 s2 = true -> hs_eqb s2 s3 = true -> hs_eqb s1 s3 = true).
Proof. exact hs_eq_equivalence. Qed.
Print Assumptions C08_headerset_eq_equivalence.

Theorem C08_headerset_eq_contains : forall s1 s2 h,
  RI s1 -> RI s2 -> hs_eqb s1 s2 = true -> ci_mem h (abs s1) = ci_mem h (abs s2).
Proof. exact hs_eq_contains. Qed.
Print Assumptions C08_headerset_eq_contains.

(* CombinedMultiDict ==: true between any two views (known finding combined-eq-ignores-content) *)
Theorem C08_combined_eq_refuted : exists c1 c2 k, cmd_eqb c1 c2 = true /\ cmd_getlist c1 k <> cmd_getlist c2 k.
Proof. exact cmd_eq_refuted. Qed.
Print Assumptions C08_combined_eq_refuted.

(* ---------------------------------------------------------------- states that hold an empty row (known finding) *)
(* the reads that agree with the abstract multimap in EVERY well-formed state: items(multi=True), getlist, item
   lookup, and the keys of the non-empty rows *)
Theorem C08_emptyrow_reads_partial : forall d, md_wf d ->
  md_items_multi d = md_abs d /\
  (forall k, md_getlist d k = mm_getlist (md_abs d) k) /\
  (forall k, md_getitem d k = match mm_getlist (md_abs d) k with v :: _ => Ok (OStr v) | [] => Err KeyError end) /\
  map fst (live d) = mm_keys (md_abs d).
Proof. exact emptyrow_reads_agree. Qed.
Print Assumptions C08_emptyrow_reads_partial.

(* items() / values() / to_dict(): IndexError exactly when an empty row is stored, else the first value of every row *)
Theorem C08_emptyrow_items : forall d, md_wf d ->
  (md_items d = Err IndexError <-> exists k, In (k, []) d) /\
  ((forall k, ~ In (k, []) d) -> md_items d = Ok (map (fun kv => (fst kv, hd [] (snd kv))) d)).
Proof. exact emptyrow_items. Qed.
Print Assumptions C08_emptyrow_items.

(* keys / len / in count the phantom key *)
Theorem C08_emptyrow_keys_refuted :
  exists d k, md_wf d /\ d_mem k d = true /\ smem k (mm_keys (md_abs d)) = false /\ length d <> length (mm_keys (md_abs d)).
Proof. exact emptyrow_keys_refuted. Qed.
Print Assumptions C08_emptyrow_keys_refuted.

(* add to a phantom key fills the phantom's position: the pair ORDER differs from the abstract multimap's *)
Theorem C08_emptyrow_refine_refuted :
  exists d k v, md_wf d /\ md_abs (fst (md_step d (MAdd k v))) <> fst (mm_step (md_abs d) (MAdd k v)).
Proof. exact emptyrow_add_position_refuted. Qed.
Print Assumptions C08_emptyrow_refine_refuted.

(* pop on an empty row removes the key and answers KeyError / the default *)
Theorem C08_emptyrow_pop : forall d k dflt, d_get k d = Some [] ->
  md_step d (MPop k dflt) = (d_del k d, match dflt with Some x => Ok (OStr x) | None => Err KeyError end).
Proof. exact emptyrow_pop. Qed.
Print Assumptions C08_emptyrow_pop.

(* ------------------------------------------------------------------ copies are independent of the original *)
(* MultiDict over a heap of rows (C08/ProofsCopy.v): the dict maps a key to a reference to its row; the mutators are
   compositions of in-place append, bind-to-a-new-row, unbind and clear.  These primitives refine the functional
   operations of the model on every well-formed state ... *)
Theorem C08_heap_refines : forall hp d p,
  wf hp d -> view (fst (prim_step (hp, d) p)) (snd (prim_step (hp, d) p)) = prim_fun (view hp d) p.
Proof. exact prim_refines. Qed.
Print Assumptions C08_heap_refines.

(* ... frame: a primitive run on one dict leaves every dict that shares no row with it unchanged, and keeps them apart *)
Theorem C08_copy_frame : forall hp d1 d2 p,
  wf hp d1 -> wf hp d2 -> sep d1 d2 ->
  let st := prim_step (hp, d2) p in
  view (fst st) d1 = view hp d1 /\ wf (fst st) d1 /\ wf (fst st) (snd st) /\ sep d1 (snd st).
Proof. exact prim_frame. Qed.
Print Assumptions C08_copy_frame.

(* ... copy() (a new row per key: the pinned vs[:]) is the model's md_copy, and every operation sequence on the copy
   leaves the original as it was while the copy follows the functional model - and the other way round *)
Theorem C08_copy_independent : forall hp d ps,
  wf hp d ->
  let c := h_copy hp d in
  view (fst c) (snd c) = md_copy (view hp d) /\
  view (fst (run c ps)) d = view hp d /\
  view (fst (run c ps)) (snd (run c ps)) = fold_left prim_fun ps (view hp d) /\
  view (fst (run (fst c, d) ps)) (snd c) = view hp d /\
  view (fst (run (fst c, d) ps)) (snd (run (fst c, d) ps)) = fold_left prim_fun ps (view hp d).
Proof. exact copy_independent. Qed.
Print Assumptions C08_copy_independent.

(* the statement is about the row copy: a copy sharing the rows (dict.copy) shows an add on the copy through the original *)
Theorem C08_copy_shared_rows_refuted :
  exists hp d p, wf hp d /\ let c := h_shallow hp d in view (fst (prim_step c p)) d <> view hp d.
Proof. exact shallow_copy_refuted. Qed.
Print Assumptions C08_copy_shared_rows_refuted.

(* Headers: one cell per object holding the list of immutable pairs; copy() allocates a new cell *)
Theorem C08_headers_copy_independent : forall hp r os,
  (r < length hp)%nat ->
  let c := hd_copy_h hp r in
  nth (snd c) (fst c) [] = fst (hd_copy (nth r hp [])) /\
  nth r (fold_left (fun h o => hd_step_h h (snd c) o) os (fst c)) [] = nth r hp [] /\
  nth (snd c) (fold_left (fun h o => hd_step_h h r o) os (fst c)) [] = fst (hd_copy (nth r hp [])).
Proof. exact headers_copy_independent. Qed.
Print Assumptions C08_headers_copy_independent.

Example C08_copy_independent_example :
  let hp := [[[49]]; [[50]; [51]]] in let d := [([97], 0%nat); ([98], 1%nat)] in
  wf hp d /\
  view (fst (run (h_copy hp d) [PAppend [97] [57]; PUnbind [98]])) d = [([97], [[49]]); ([98], [[50]; [51]])] /\
  view (fst (run (h_copy hp d) [PAppend [97] [57]; PUnbind [98]])) (snd (run (h_copy hp d) [PAppend [97] [57]; PUnbind [98]]))
    = [([97], [[49]; [57]])].
Proof. split; [split; [repeat constructor|repeat constructor; cbn; intuition discriminate]|vm_compute; split; reflexivity]. Qed.
Print Assumptions C08_copy_independent_example.
