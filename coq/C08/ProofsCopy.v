(* C08: copies are independent of the original.
   The functional model (Model.v) cannot express aliasing, so this file puts a small heap under the MultiDict model:
   the dict maps a key to a REFERENCE to a row, rows live in a heap, and the mutators are compositions of four
   primitives that follow the Python bodies:
     PAppend k v   dict.setdefault(self, k, []).append(v)        in-place append to the row, or a new row
     PBind k row   dict.__setitem__(self, k, <newly built list>)  a new row, the key rebound
     PUnbind k     dict.pop(self, k) / dict.__delitem__
     PClear        dict.clear(self)
   (add / update = PAppend; __setitem__ / setlist / setdefault / setlistdefault = PBind; pop / poplist / popitem /
   popitemlist / del = PUnbind).  copy() is MultiDict(self): __init__ stores vs[:] for every row (pinned by the
   translator), that is a newly allocated row per key.  Proved: the primitives refine the functional operations of
   Model.v, a primitive run on one dict leaves every dict with disjoint rows unchanged (frame), copy() gives disjoint
   rows, hence any operation sequence on the copy leaves the original unchanged and the other way round; refuted with a
   witness for a copy that shares the rows (dict.copy). *)
From Coq Require Import List Arith Lia Bool NArith.
From Wz Require Import C08.LibStr C08.Model.
Import ListNotations.
Local Open Scope nat_scope.

Definition heap := list (list str).
Definition hmd := list (str * nat).
Definition deref (hp : heap) (r : nat) : list str := nth r hp [].
Definition view (hp : heap) (d : hmd) : mdict := map (fun kr => (fst kr, deref hp (snd kr))) d.
Definition refs (d : hmd) : list nat := map snd d.

Fixpoint upd (hp : heap) (r : nat) (row : list str) : heap :=
  match hp, r with
  | [], _ => []
  | _ :: t, O => row :: t
  | x :: t, S r' => x :: upd t r' row
  end.
Fixpoint b_get (k : str) (d : hmd) : option nat :=
  match d with
  | [] => None
  | (k', r) :: t => if list_eqb k k' then Some r else b_get k t
  end.
Fixpoint b_set (k : str) (r : nat) (d : hmd) : hmd :=
  match d with
  | [] => [(k, r)]
  | (k', r') :: t => if list_eqb k k' then (k', r) :: t else (k', r') :: b_set k r t
  end.
Definition b_del (k : str) (d : hmd) : hmd := filter (fun kr => negb (list_eqb k (fst kr))) d.

Inductive prim := PAppend (k v : str) | PBind (k : str) (row : list str) | PUnbind (k : str) | PClear.

Definition prim_step (st : heap * hmd) (p : prim) : heap * hmd :=
  match p with
  | PAppend k v =>
      match b_get k (snd st) with
      | Some r => (upd (fst st) r (deref (fst st) r ++ [v]), snd st)
      | None => (fst st ++ [[v]], snd st ++ [(k, length (fst st))])
      end
  | PBind k row => (fst st ++ [row], b_set k (length (fst st)) (snd st))
  | PUnbind k => (fst st, b_del k (snd st))
  | PClear => (fst st, [])
  end.
(* the same four on the functional model *)
Definition prim_fun (d : mdict) (p : prim) : mdict :=
  match p with
  | PAppend k v => d_append k v d
  | PBind k row => d_set k row d
  | PUnbind k => d_del k d
  | PClear => []
  end.

(* every row reference is allocated, and no two keys share a row *)
Definition wf (hp : heap) (d : hmd) : Prop := Forall (fun r => r < length hp) (refs d) /\ NoDup (refs d).
(* two dicts share no row *)
Definition sep (d1 d2 : hmd) : Prop := forall r, In r (refs d1) -> ~ In r (refs d2).

(* ------------------------------------------------------------------ the heap *)
Lemma upd_length hp r row : length (upd hp r row) = length hp.
Proof. revert r; induction hp as [|x t IH]; intros [|r]; cbn; auto. Qed.
Lemma deref_upd_same hp r row : r < length hp -> deref (upd hp r row) r = row.
Proof. unfold deref. revert r; induction hp as [|x t IH]; intros [|r] H; cbn in *; try lia; auto. apply IH. lia. Qed.
Lemma deref_upd_other hp r r' row : r <> r' -> deref (upd hp r row) r' = deref hp r'.
Proof.
  unfold deref. revert r r'; induction hp as [|x t IH]; intros [|r] [|r'] H; cbn; auto; try congruence.
Qed.
Lemma deref_app hp ext r : r < length hp -> deref (hp ++ ext) r = deref hp r.
Proof. intros H. unfold deref. apply app_nth1. exact H. Qed.
Lemma deref_new hp row ext : deref (hp ++ row :: ext) (length hp) = row.
Proof. unfold deref. apply nth_middle. Qed.

Lemma view_cons hp k r t : view hp ((k, r) :: t) = (k, deref hp r) :: view hp t.
Proof. reflexivity. Qed.
Lemma refs_cons k r t : refs ((k, r) :: t) = r :: refs t.
Proof. reflexivity. Qed.
Arguments view : simpl never.
Arguments refs : simpl never.
Ltac vc := rewrite ?view_cons, ?refs_cons in *; cbn [fst snd] in *.

Lemma view_upd_frame hp r row d : ~ In r (refs d) -> view (upd hp r row) d = view hp d.
Proof.
  induction d as [|[k r'] t IH]; intros H; [reflexivity|]. vc.
  rewrite deref_upd_other by (intros E; apply H; left; symmetry; exact E). rewrite IH; [reflexivity|]. intros X; apply H; right; exact X.
Qed.
Lemma view_app_frame hp ext d : Forall (fun r => r < length hp) (refs d) -> view (hp ++ ext) d = view hp d.
Proof.
  induction d as [|[k r] t IH]; intros H; [reflexivity|]. vc. inversion H; subst.
  rewrite deref_app by assumption. rewrite IH by assumption. reflexivity.
Qed.
Lemma view_app hp d1 d2 : view hp (d1 ++ d2) = view hp d1 ++ view hp d2.
Proof. apply map_app. Qed.

(* ------------------------------------------------------------------ the bindings *)
Lemma b_get_view hp k d : d_get k (view hp d) = option_map (deref hp) (b_get k d).
Proof. induction d as [|[k' r] t IH]; [reflexivity|]. vc. cbn [d_get b_get]. destruct (list_eqb k k'); [reflexivity|exact IH]. Qed.
Lemma b_get_In k d r : b_get k d = Some r -> In r (refs d).
Proof.
  induction d as [|[k' r'] t IH]; cbn [b_get]; [discriminate|]. vc.
  destruct (list_eqb k k'); intros H; [inversion H; left; reflexivity|right; auto].
Qed.
Lemma view_append_inplace hp k d r row :
  NoDup (refs d) -> Forall (fun x => x < length hp) (refs d) -> b_get k d = Some r ->
  view (upd hp r row) d = d_set k row (view hp d).
Proof.
  induction d as [|[k' r'] t IH]; cbn [b_get]; [discriminate|]. intros ND B G. vc. inversion ND; subst. inversion B; subst.
  cbn [d_set]. destruct (list_eqb k k') eqn:E.
  - inversion G; subst. rewrite deref_upd_same by assumption. rewrite view_upd_frame by assumption. reflexivity.
  - assert (r <> r') by (intros ->; apply b_get_In in G; contradiction).
    rewrite deref_upd_other by assumption. rewrite IH by assumption. reflexivity.
Qed.
Lemma view_b_set hp k n d : view hp (b_set k n d) = d_set k (deref hp n) (view hp d).
Proof.
  induction d as [|[k' r] t IH]; [reflexivity|]. vc. cbn [b_set d_set]. destruct (list_eqb k k'); vc; [reflexivity|]. rewrite IH. reflexivity.
Qed.
Lemma view_b_del hp k d : view hp (b_del k d) = d_del k (view hp d).
Proof.
  unfold b_del, d_del. induction d as [|[k' r] t IH]; [reflexivity|]. vc. cbn [filter fst]. destruct (list_eqb k k'); cbn [negb]; vc; rewrite IH; reflexivity.
Qed.
Lemma refs_b_set k n d r : In r (refs (b_set k n d)) -> r = n \/ In r (refs d).
Proof.
  induction d as [|[k' r'] t IH]; cbn [b_set]; [intros [H|[]]; left; auto|]. destruct (list_eqb k k'); vc; intros [H|H].
  - left; auto.
  - right; right; exact H.
  - right; left; exact H.
  - destruct (IH H) as [X|X]; [left; exact X|right; right; exact X].
Qed.
Lemma nodup_b_set k n d : NoDup (refs d) -> ~ In n (refs d) -> NoDup (refs (b_set k n d)).
Proof.
  induction d as [|[k' r'] t IH]; cbn [b_set]; intros ND NI; [constructor; [intros []|constructor]|]. vc. inversion ND; subst.
  destruct (list_eqb k k'); vc.
  - constructor; [intros X; apply NI; right; exact X|assumption].
  - constructor; [|apply IH; [assumption|intros X; apply NI; right; exact X]].
    intros X. destruct (refs_b_set _ _ _ _ X) as [->|Y]; [apply NI; left; reflexivity|contradiction].
Qed.
Lemma refs_b_del k d r : In r (refs (b_del k d)) -> In r (refs d).
Proof.
  unfold b_del. induction d as [|[k' r'] t IH]; [auto|]. cbn [filter fst]. destruct (list_eqb k k'); cbn [negb]; vc; [right; auto|]. intros [H|H]; [left|right]; auto.
Qed.
Lemma nodup_b_del k d : NoDup (refs d) -> NoDup (refs (b_del k d)).
Proof.
  unfold b_del. induction d as [|[k' r'] t IH]; intros ND; [constructor|]. vc. inversion ND; subst.
  cbn [filter fst]. destruct (list_eqb k k'); cbn [negb]; vc; [auto|]. constructor; [|auto]. intros X. apply (refs_b_del k) in X. contradiction.
Qed.

(* ------------------------------------------------------------------ the primitives refine the functional operations *)
Theorem prim_refines hp d p :
  wf hp d -> view (fst (prim_step (hp, d) p)) (snd (prim_step (hp, d) p)) = prim_fun (view hp d) p.
Proof.
  intros [B ND]. destruct p as [k v|k row|k|]; cbn [prim_step prim_fun fst snd].
  - unfold d_append. rewrite b_get_view. destruct (b_get k d) as [r|] eqn:G; cbn [option_map fst snd].
    + apply view_append_inplace; assumption.
    + rewrite view_app, view_app_frame by assumption. rewrite view_cons. rewrite (deref_new hp [v] []). reflexivity.
  - rewrite view_b_set. rewrite (deref_new hp row []). rewrite view_app_frame by assumption. reflexivity.
  - apply view_b_del.
  - reflexivity.
Qed.

Lemma nodup_snoc (l : list nat) n : NoDup l -> ~ In n l -> NoDup (l ++ [n]).
Proof.
  induction l as [|a l IH]; cbn; intros ND N; [constructor; [intros []|constructor]|]. inversion ND; subst. constructor.
  - intros X. apply in_app_or in X. destruct X as [X|[X|[]]]; [contradiction|]. apply N. left. symmetry. exact X.
  - apply IH; [assumption|]. intros X. apply N. right. exact X.
Qed.

(* what a primitive does to the heap: it keeps the length or grows it, and keeps every row it does not own *)
Lemma prim_heap hp d p :
  wf hp d ->
  let st := prim_step (hp, d) p in
  length hp <= length (fst st) /\
  (forall r, r < length hp -> ~ In r (refs d) -> deref (fst st) r = deref hp r) /\
  (forall r, In r (refs (snd st)) -> In r (refs d) \/ length hp <= r) /\
  wf (fst st) (snd st).
Proof.
  intros [B ND]. destruct p as [k v|k row|k|]; cbn [prim_step fst snd].
  - destruct (b_get k d) as [r0|] eqn:G; cbn [fst snd].
    + rewrite upd_length. split; [lia|]. split; [|split; [auto|]].
      * intros r _ NI. apply deref_upd_other. intros ->. apply NI. eapply b_get_In; eassumption.
      * split; [rewrite upd_length; assumption|assumption].
    + rewrite app_length. cbn. split; [lia|]. split; [|split].
      * intros r L _. apply deref_app. exact L.
      * unfold refs. rewrite map_app. intros r X. apply in_app_or in X. destruct X as [X|[X|[]]]; [left; exact X|right; cbn in X; lia].
      * split.
        -- unfold refs. rewrite map_app. apply Forall_app. split.
           ++ eapply Forall_impl; [|exact B]. cbn. intros; rewrite app_length; cbn; lia.
           ++ constructor; [cbn; rewrite app_length; cbn; lia|constructor].
        -- assert (N : ~ In (length hp) (refs d)) by (intros X; rewrite Forall_forall in B; specialize (B _ X); lia).
           unfold refs in *. rewrite map_app. apply nodup_snoc; assumption.
  - rewrite app_length. cbn. split; [lia|]. split; [|split].
    + intros r L _. apply deref_app. exact L.
    + intros r X. destruct (refs_b_set _ _ _ _ X) as [->|Y]; [right; lia|left; exact Y].
    + assert (N : ~ In (length hp) (refs d)) by (intros X; rewrite Forall_forall in B; specialize (B _ X); lia).
      split; [|apply nodup_b_set; assumption].
      rewrite Forall_forall. intros r X. rewrite app_length; cbn. destruct (refs_b_set _ _ _ _ X) as [->|Y]; [lia|].
      rewrite Forall_forall in B. specialize (B _ Y). lia.
  - split; [lia|]. split; [auto|]. split; [intros r X; left; eapply refs_b_del; exact X|].
    split; [|apply nodup_b_del; assumption]. rewrite Forall_forall in *. intros r X. apply B. eapply refs_b_del; exact X.
  - split; [lia|]. split; [auto|]. split; [intros r []|]. split; constructor.
Qed.

(* ------------------------------------------------------------------ frame: a primitive on d2 leaves d1 alone *)
Theorem prim_frame hp d1 d2 p :
  wf hp d1 -> wf hp d2 -> sep d1 d2 ->
  let st := prim_step (hp, d2) p in
  view (fst st) d1 = view hp d1 /\ wf (fst st) d1 /\ wf (fst st) (snd st) /\ sep d1 (snd st).
Proof.
  intros W1 W2 S. destruct (prim_heap hp d2 p W2) as (L & K & R & W). cbv zeta. split; [|split; [|split]].
  - destruct W1 as [B1 _]. unfold view. apply map_ext_in. intros [k r] I. cbn. f_equal. apply K.
    + rewrite Forall_forall in B1. apply B1. apply in_map with (f := snd) in I. exact I.
    + apply S. apply in_map with (f := snd) in I. exact I.
  - destruct W1 as [B1 N1]. split; [|assumption]. eapply Forall_impl; [|exact B1]. cbn. intros. lia.
  - exact W.
  - intros r I1 I2. destruct (R _ I2) as [X|X]; [exact (S _ I1 X)|].
    destruct W1 as [B1 _]. rewrite Forall_forall in B1. specialize (B1 _ I1). lia.
Qed.

Definition run (st : heap * hmd) (ps : list prim) : heap * hmd := fold_left prim_step ps st.

Theorem run_frame ps : forall hp d1 d2,
  wf hp d1 -> wf hp d2 -> sep d1 d2 ->
  view (fst (run (hp, d2) ps)) d1 = view hp d1 /\
  view (fst (run (hp, d2) ps)) (snd (run (hp, d2) ps)) = fold_left prim_fun ps (view hp d2).
Proof.
  induction ps as [|p ps IH]; intros hp d1 d2 W1 W2 S; cbn [run fold_left]; [split; reflexivity|].
  destruct (prim_frame hp d1 d2 p W1 W2 S) as (V & W1' & W2' & S').
  pose proof (prim_refines hp d2 p W2) as RF.
  destruct (prim_step (hp, d2) p) as [hp' d2'] eqn:E. cbn [fst snd] in *.
  destruct (IH hp' d1 d2' W1' W2' S') as [A B]. unfold run in A, B. split; [rewrite A; exact V|rewrite B, RF; reflexivity].
Qed.

(* ------------------------------------------------------------------ copy(): a new row per key (vs[:]) *)
Fixpoint h_copy_from (src hp : heap) (d : hmd) : heap * hmd :=
  match d with
  | [] => (hp, [])
  | (k, r) :: t => let res := h_copy_from src (hp ++ [deref src r]) t in (fst res, (k, length hp) :: snd res)
  end.
Definition h_copy (hp : heap) (d : hmd) : heap * hmd := h_copy_from hp hp d.
(* dict.copy(): the same rows under a second dict *)
Definition h_shallow (hp : heap) (d : hmd) : heap * hmd := (hp, d).

Lemma h_copy_from_spec src d : forall hp,
  exists ext, fst (h_copy_from src hp d) = hp ++ ext /\
    view (fst (h_copy_from src hp d)) (snd (h_copy_from src hp d)) = view src d /\
    Forall (fun r => length hp <= r < length (hp ++ ext)) (refs (snd (h_copy_from src hp d))) /\
    NoDup (refs (snd (h_copy_from src hp d))).
Proof.
  induction d as [|[k r] t IH]; intros hp; cbn [h_copy_from fst snd].
  - exists []. rewrite app_nil_r. repeat split; constructor.
  - destruct (IH (hp ++ [deref src r])) as (ext & E & V & B & N). exists (deref src r :: ext).
    rewrite E, <- app_assoc. cbn [app]. split; [reflexivity|]. rewrite E, <- app_assoc in V. cbn [app] in V.
    rewrite <- app_assoc in B. cbn [app] in B. rewrite app_length in B. cbn [length] in B.
    split; [|split].
    + rewrite !view_cons. rewrite deref_new. f_equal. exact V.
    + rewrite refs_cons. constructor; [rewrite app_length; cbn; lia|].
      eapply Forall_impl; [|exact B]. cbn. intros a H. lia.
    + rewrite refs_cons. constructor; [|exact N]. intros X. rewrite Forall_forall in B. specialize (B _ X). lia.
Qed.

Theorem h_copy_spec hp d :
  wf hp d ->
  let st := h_copy hp d in
  view (fst st) (snd st) = view hp d /\ view (fst st) d = view hp d /\ wf (fst st) d /\ wf (fst st) (snd st) /\ sep d (snd st) /\ sep (snd st) d.
Proof.
  intros [B N]. unfold h_copy. destruct (h_copy_from_spec hp d hp) as (ext & E & V & BC & NC). cbv zeta.
  rewrite E in *. split; [exact V|]. split; [apply view_app_frame; exact B|]. split; [|split; [|split]].
  - split; [|exact N]. eapply Forall_impl; [|exact B]. cbn. intros; rewrite app_length; lia.
  - split; [|exact NC]. eapply Forall_impl; [|exact BC]. cbn. intros; lia.
  - intros r I1 I2. rewrite Forall_forall in B, BC. specialize (B _ I1). specialize (BC _ I2). lia.
  - intros r I2 I1. rewrite Forall_forall in B, BC. specialize (B _ I1). specialize (BC _ I2). lia.
Qed.

(* the copy is md_copy of the functional model, and independent of the original in both directions *)
Theorem copy_independent hp d ps :
  wf hp d ->
  let c := h_copy hp d in
  view (fst c) (snd c) = md_copy (view hp d) /\
  (* operations on the copy *)
  view (fst (run c ps)) d = view hp d /\
  view (fst (run c ps)) (snd (run c ps)) = fold_left prim_fun ps (view hp d) /\
  (* operations on the original *)
  view (fst (run (fst c, d) ps)) (snd c) = view hp d /\
  view (fst (run (fst c, d) ps)) (snd (run (fst c, d) ps)) = fold_left prim_fun ps (view hp d).
Proof.
  intros W. destruct (h_copy_spec hp d W) as (V & V0 & W1 & W2 & S1 & S2). cbv zeta.
  destruct (h_copy hp d) as [hp1 c] eqn:E. cbn [fst snd] in *.
  split; [rewrite V; reflexivity|].
  destruct (run_frame ps hp1 d c W1 W2 S1) as [A B]. destruct (run_frame ps hp1 c d W2 W1 S2) as [A' B'].
  rewrite A, B, A', B', V, V0. repeat split; reflexivity.
Qed.

(* a copy that shares the rows is not independent: add on the copy shows through the original *)
Theorem shallow_copy_refuted :
  exists hp d p, wf hp d /\
    let c := h_shallow hp d in view (fst (prim_step c p)) d <> view hp d.
Proof.
  exists [[[49%N]]], [([97%N], 0)], (PAppend [97%N] [50%N]). split.
  - split; [repeat constructor|constructor; [intros []|constructor]].
  - vm_compute. discriminate.
Qed.

(* ------------------------------------------------------------------ Headers: one list of immutable pairs per object *)
(* Headers.copy() is self.__class__(self._list): __init__ builds a new list and extends it with the pairs, which are
   tuples; every mutator rebinds or mutates self._list only.  With the heap holding one cell per Headers object the frame
   property is: writing one cell leaves every other cell alone. *)
Definition hheap := list headers.
Fixpoint hupd (hp : hheap) (r : nat) (h : headers) : hheap :=
  match hp, r with
  | [], _ => []
  | _ :: t, O => h :: t
  | x :: t, S r' => x :: hupd t r' h
  end.
Definition hd_copy_h (hp : hheap) (r : nat) : hheap * nat := (hp ++ [fst (hd_copy (nth r hp []))], length hp).
Definition hd_step_h (hp : hheap) (r : nat) (o : hop) : hheap := hupd hp r (fst (hd_step (nth r hp []) o)).

Lemma hupd_other hp r r' h : r <> r' -> nth r' (hupd hp r h) [] = nth r' hp [].
Proof. revert r r'; induction hp as [|x t IH]; intros [|r] [|r'] H; cbn; auto; congruence. Qed.
Lemma hupd_same hp r h : r < length hp -> nth r (hupd hp r h) [] = h.
Proof. revert r; induction hp as [|x t IH]; intros [|r] H; cbn in *; try lia; auto. apply IH; lia. Qed.
Lemma hupd_length hp r h : length (hupd hp r h) = length hp.
Proof. revert r; induction hp as [|x t IH]; intros [|r]; cbn; auto. Qed.

Theorem headers_copy_independent hp r os :
  r < length hp ->
  let c := hd_copy_h hp r in
  nth (snd c) (fst c) [] = fst (hd_copy (nth r hp [])) /\
  nth r (fold_left (fun h o => hd_step_h h (snd c) o) os (fst c)) [] = nth r hp [] /\
  nth (snd c) (fold_left (fun h o => hd_step_h h r o) os (fst c)) [] = fst (hd_copy (nth r hp [])).
Proof.
  intros L. unfold hd_copy_h. cbn [fst snd].
  assert (N0 : nth (length hp) (hp ++ [fst (hd_copy (nth r hp []))]) [] = fst (hd_copy (nth r hp []))) by apply nth_middle.
  assert (N1 : nth r (hp ++ [fst (hd_copy (nth r hp []))]) [] = nth r hp []) by (apply app_nth1; exact L).
  split; [exact N0|].
  assert (F : forall os hp0 a b, a <> b -> nth b (fold_left (fun h o => hd_step_h h a o) os hp0) [] = nth b hp0 []).
  { clear. induction os as [|o os IH]; intros hp0 a b H; cbn; [reflexivity|]. rewrite IH by exact H. unfold hd_step_h. apply hupd_other. exact H. }
  split; [rewrite F by lia; exact N1|rewrite F by lia; exact N0].
Qed.
